package main

// A4: exact reading of the package-level dispatch tables from the package initialisers.

import (
	"fmt"
	"go/types"
	"sort"

	"golang.org/x/tools/go/ssa"
)

type TableEntry struct {
	Key     ssa.Value // constant key (map) or index (slice)
	KeyName string
	Val     ssa.Value // resolved value: *ssa.Function, *ssa.Const, *ssa.Call (closure factory), …
	Fn      *ssa.Function
	Bound   []ssa.Value // for closures produced by a factory call: the factory's arguments
	Factory *ssa.Function
	Pos     ssa.Instruction
}

type Table struct {
	Global  *ssa.Global
	Entries []TableEntry
	Err     string
}

func (t *Table) byKey() map[string]*TableEntry {
	m := map[string]*TableEntry{}
	for i := range t.Entries {
		m[t.Entries[i].KeyName] = &t.Entries[i]
	}
	return m
}

func (t *Table) keys() []string {
	var ks []string
	for _, e := range t.Entries {
		ks = append(ks, e.KeyName)
	}
	sort.Strings(ks)
	return ks
}

// readTable reads a global map/slice initialised in the package init from a composite literal.
func (c *Ctx) readTable(pkg, name string) *Table {
	memo := "table:" + pkg + "." + name
	if t, ok := c.roles[memo]; ok {
		return t.(*Table)
	}
	t := c.readTable0(pkg, name)
	c.roles[memo] = t
	return t
}

func (c *Ctx) readTable0(pkg, name string) *Table {
	sp := c.SSA[pkg]
	if sp == nil {
		return &Table{Err: "package not found: " + pkg}
	}
	g, _ := sp.Members[name].(*ssa.Global)
	if g == nil {
		return &Table{Err: "global not found: " + pkg + "." + name}
	}
	t := &Table{Global: g}
	init := sp.Func("init")
	var stored ssa.Value
	nStores := 0
	for _, b := range init.Blocks {
		for _, in := range b.Instrs {
			if st, ok := in.(*ssa.Store); ok && st.Addr == g {
				stored = st.Val
				nStores++
			}
		}
	}
	if nStores != 1 {
		t.Err = fmt.Sprintf("global %s stored %d times in init (expected exactly one composite literal)", name, nStores)
		return t
	}
	c.readContainer(stored, t)
	return t
}

// readContainer fills t.Entries from a MakeMap + MapUpdates or a slice-literal array.
func (c *Ctx) readContainer(stored ssa.Value, t *Table) {
	switch x := stored.(type) {
	case *ssa.MakeMap:
		for _, ref := range *x.Referrers() {
			switch r := ref.(type) {
			case *ssa.MapUpdate:
				if r.Map != x {
					continue
				}
				if _, ok := r.Key.(*ssa.Const); !ok {
					continue // non-constant keyed update (copy loop) — handled by the caller
				}
				t.Entries = append(t.Entries, c.mkEntry(r.Key, r.Value, r))
			}
		}
	case *ssa.Slice:
		arr, ok := x.X.(*ssa.Alloc)
		if !ok {
			t.Err = "slice global not backed by a literal array"
			return
		}
		for _, ref := range *arr.Referrers() {
			ia, ok := ref.(*ssa.IndexAddr)
			if !ok {
				continue
			}
			for _, r2 := range *ia.Referrers() {
				if st, ok := r2.(*ssa.Store); ok && st.Addr == ia {
					t.Entries = append(t.Entries, c.mkEntry(ia.Index, st.Val, st))
				}
			}
		}
		sort.SliceStable(t.Entries, func(i, j int) bool {
			a, _ := constIntVal(t.Entries[i].Key)
			b, _ := constIntVal(t.Entries[j].Key)
			return a < b
		})
	case *ssa.Call:
		// var T = buildT(): the builder returns a fresh map / slice literal on its only return
		f := x.Call.StaticCallee()
		if f == nil || !inModule(f) || f.Blocks == nil {
			t.Err = "table initialised by a call that cannot be resolved"
			return
		}
		var ret ssa.Value
		n := 0
		for _, b := range f.Blocks {
			for _, in := range b.Instrs {
				if r, ok := in.(*ssa.Return); ok && len(r.Results) == 1 {
					ret = r.Results[0]
					n++
				}
			}
		}
		if n != 1 {
			t.Err = "table builder " + fnName(f) + " has several returns"
			return
		}
		if _, isCall := ret.(*ssa.Call); isCall {
			t.Err = "table builder " + fnName(f) + " delegates to another call"
			return
		}
		c.readContainer(ret, t)
	default:
		t.Err = fmt.Sprintf("unsupported table initialiser %T", stored)
	}
}

func (c *Ctx) mkEntry(key, val ssa.Value, at ssa.Instruction) TableEntry {
	e := TableEntry{Key: key, KeyName: c.key(key, nil), Pos: at}
	v := c.resolve(val, nil)
	e.Val = v
	switch x := v.(type) {
	case *ssa.Function:
		e.Fn = x
	case *ssa.MakeClosure:
		e.Fn = x.Fn.(*ssa.Function)
		e.Bound = x.Bindings
	case *ssa.Call:
		if f := x.Call.StaticCallee(); f != nil {
			// closure factory: the callee returns a MakeClosure on every return
			if cl := closureReturned(f); cl != nil {
				e.Fn = cl.Fn.(*ssa.Function)
				e.Factory = f
				// map free variables to the factory's arguments
				for _, b := range cl.Bindings {
					bound := b
					// bindings are usually allocs holding the parameter, or the parameter itself
					if p := paramBehind(b); p != nil {
						for i, fp := range f.Params {
							if fp == p && i < len(x.Call.Args) {
								bound = x.Call.Args[i]
							}
						}
					}
					e.Bound = append(e.Bound, bound)
				}
			}
		}
	}
	return e
}

func closureReturned(f *ssa.Function) *ssa.MakeClosure {
	var cl *ssa.MakeClosure
	for _, b := range f.Blocks {
		for _, in := range b.Instrs {
			if r, ok := in.(*ssa.Return); ok {
				if len(r.Results) != 1 {
					return nil
				}
				v := r.Results[0]
				for {
					if ct, ok := v.(*ssa.ChangeType); ok {
						v = ct.X
						continue
					}
					break
				}
				mc, ok := v.(*ssa.MakeClosure)
				if !ok {
					return nil
				}
				if cl != nil && cl.Fn != mc.Fn {
					return nil
				}
				cl = mc
			}
		}
	}
	return cl
}

// paramBehind: binding is the parameter itself or an alloc whose single store is the parameter.
func paramBehind(b ssa.Value) *ssa.Parameter {
	if p, ok := b.(*ssa.Parameter); ok {
		return p
	}
	if a, ok := b.(*ssa.Alloc); ok {
		// a captured variable cell: exactly one store (the parameter), other referrers are closures
		// that only read it
		var val ssa.Value
		n := 0
		for _, ref := range *a.Referrers() {
			switch r := ref.(type) {
			case *ssa.Store:
				if r.Addr != a {
					return nil
				}
				n++
				val = r.Val
			case *ssa.MakeClosure:
				fn := r.Fn.(*ssa.Function)
				for i, bnd := range r.Bindings {
					if bnd != a || i >= len(fn.FreeVars) {
						continue
					}
					for _, fr := range *fn.FreeVars[i].Referrers() {
						if st, ok := fr.(*ssa.Store); ok && st.Addr == fn.FreeVars[i] {
							return nil
						}
					}
				}
			case *ssa.UnOp, *ssa.DebugRef:
			default:
				return nil
			}
		}
		if n == 1 {
			if p, ok := val.(*ssa.Parameter); ok {
				return p
			}
		}
	}
	return nil
}

// operatorConsts: name -> value for expr.Operator.
func (c *Ctx) operatorConsts() map[string]int64 { return c.constsOfType(pkgExpr, "Operator") }
func (c *Ctx) tokTypeConsts() map[string]int64  { return c.constsOfType(pkgLex, "TokType") }

// pgTable: the effective render table of the package-level postgres driver (overlay ∪ Shared).
type PGTable struct {
	Ctor     *ssa.Function
	Overlay  *Table
	Shared   *Table
	Eff      map[string]*TableEntry // by operator key name, e.g. "expr.Literal"
	CopyLoop bool                   // overlay is completed by a found-guarded copy of Shared into the fresh map
	Err      string
}

func (c *Ctx) pgTable() *PGTable {
	if t, ok := c.roles["pgtable"]; ok {
		return t.(*PGTable)
	}
	t := c.pgTable0()
	c.roles["pgtable"] = t
	return t
}

func (c *Ctx) pgTable0() *PGTable {
	pt := &PGTable{Eff: map[string]*TableEntry{}}
	pt.Shared = c.readTable(pkgDriver, "Shared")
	if pt.Shared.Err != "" {
		pt.Err = pt.Shared.Err
		return pt
	}
	// role: the global in the root package whose type embeds driver.Base, and its constructor
	root := c.SSA[pkgRoot]
	var ctor *ssa.Function
	if root != nil {
		init := root.Func("init")
		for _, b := range init.Blocks {
			for _, in := range b.Instrs {
				st, ok := in.(*ssa.Store)
				if !ok {
					continue
				}
				if _, ok := st.Addr.(*ssa.Global); !ok {
					continue
				}
				if call, ok := st.Val.(*ssa.Call); ok {
					if f := call.Call.StaticCallee(); f != nil && fnPkgPath(f) == pkgDriver {
						ctor = f
					}
				}
			}
		}
	}
	if ctor == nil {
		ctor = c.pkgFunc(pkgDriver, "NewPostgresDriver")
	}
	if ctor == nil {
		pt.Err = "constructor of the package-level postgres driver not found"
		return pt
	}
	pt.Ctor = ctor
	// the map placed in RenderFNs: find MakeMap in the ctor
	var mm *ssa.MakeMap
	for _, b := range ctor.Blocks {
		for _, in := range b.Instrs {
			if m, ok := in.(*ssa.MakeMap); ok {
				if mm != nil {
					pt.Err = "constructor builds more than one map"
					return pt
				}
				mm = m
			}
		}
	}
	if mm == nil {
		// maybe the driver aliases Shared directly
		pt.Err = "constructor does not build a fresh map (aliases Shared?)"
		return pt
	}
	pt.Overlay = &Table{}
	c.readContainer(mm, pt.Overlay)
	// copy loop: MapUpdate with key/value from Next over range *Shared, guarded by !found lookup in mm
	for _, ref := range *mm.Referrers() {
		mu, ok := ref.(*ssa.MapUpdate)
		if !ok || mu.Map != mm {
			continue
		}
		if _, isConst := mu.Key.(*ssa.Const); isConst {
			continue
		}
		if ex, ok := mu.Key.(*ssa.Extract); ok {
			if nx, ok := ex.Tuple.(*ssa.Next); ok {
				if rg, ok := nx.Iter.(*ssa.Range); ok {
					if ld, ok := rg.X.(*ssa.UnOp); ok && ld.X == pt.Shared.Global {
						if vx, ok := mu.Value.(*ssa.Extract); ok && vx.Tuple == nx && vx.Index == 2 && ex.Index == 1 {
							pt.CopyLoop = true
							continue
						}
					}
				}
			}
		}
		pt.Err = "constructor writes a non-constant key that is not the Shared copy loop at " + c.instrPos(mu)
		return pt
	}
	for i := range pt.Overlay.Entries {
		e := &pt.Overlay.Entries[i]
		pt.Eff[e.KeyName] = e
	}
	if pt.CopyLoop {
		for i := range pt.Shared.Entries {
			e := &pt.Shared.Entries[i]
			if _, ok := pt.Eff[e.KeyName]; !ok {
				pt.Eff[e.KeyName] = e
			}
		}
	}
	return pt
}

func isFuncType(t types.Type) bool {
	_, ok := t.Underlying().(*types.Signature)
	return ok
}
