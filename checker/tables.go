package main

// A4: exact reading of the package-level dispatch tables from the package initialisers.

import (
	"fmt"
	"go/constant"
	"go/token"
	"go/types"
	"sort"
	"strings"

	"golang.org/x/tools/go/ssa"
)

type TableEntry struct {
	Key     ssa.Value // constant key (map) or index (slice)
	KeyName string
	Val     ssa.Value // resolved value: *ssa.Function, *ssa.Const, *ssa.Call (closure factory), …
	Fn      *ssa.Function
	Bound   []ssa.Value                  // for closures produced by a factory call: the factory's arguments
	Recv    ssa.Value                    // for a bound method value (x.m): the receiver x; Fn is the method itself
	RecvArg map[*ssa.Parameter]ssa.Value // Recv built inside a factory: the factory's parameters → the arguments of this entry's call
	Factory *ssa.Function
	Pos     ssa.Instruction
}

type Table struct {
	Global  *ssa.Global
	Fn      *ssa.Function // the table is a dispatch function (switch over the key) instead of a map
	Array   bool          // the table is an array indexed by the key (absent entries hold the zero value)
	Entries []TableEntry
	Err     string
}

// where: source position of the table for reports.
func (t *Table) where(c *Ctx) string {
	switch {
	case t.Global != nil:
		return c.pos(t.Global.Pos())
	case t.Fn != nil:
		return c.pos(t.Fn.Pos())
	}
	return "-"
}

func (t *Table) byKey() map[string]*TableEntry {
	m := map[string]*TableEntry{}
	for i := range t.Entries {
		m[t.Entries[i].KeyName] = &t.Entries[i]
	}
	return m
}

func (t *Table) keys() []string {
	var ks []string
	for _, e := range t.Entries {
		ks = append(ks, e.KeyName)
	}
	sort.Strings(ks)
	return ks
}

// readTable reads a global map/slice initialised in the package init from a composite literal.
func (c *Ctx) readTable(pkg, name string) *Table {
	memo := "table:" + pkg + "." + name
	if t, ok := c.roles[memo]; ok {
		return t.(*Table)
	}
	t := c.readTable0(pkg, name)
	c.roles[memo] = t
	return t
}

func (c *Ctx) readTable0(pkg, name string) *Table {
	sp := c.SSA[pkg]
	if sp == nil {
		return &Table{Err: "package not found: " + pkg}
	}
	g, _ := sp.Members[name].(*ssa.Global)
	if g == nil {
		if t := c.readDispatchFn(pkg, name); t != nil {
			return t
		}
		return &Table{Err: "global not found: " + pkg + "." + name}
	}
	t := &Table{Global: g}
	init := sp.Func("init")
	var stored ssa.Value
	nStores := 0
	for _, b := range init.Blocks {
		for _, in := range b.Instrs {
			if st, ok := in.(*ssa.Store); ok && st.Addr == g {
				stored = st.Val
				nStores++
			}
		}
	}
	if nStores == 0 && arrayOf(g.Type()) != nil {
		// var T = [N]V{k: v, …} initialised element by element in place
		for _, b := range init.Blocks {
			for _, in := range b.Instrs {
				ia, ok := in.(*ssa.IndexAddr)
				if !ok || ia.X != ssa.Value(g) {
					continue
				}
				if _, isC := ia.Index.(*ssa.Const); !isC {
					t.Err = "array table " + name + " is written with a non-constant index in init"
					return t
				}
				for _, r2 := range *ia.Referrers() {
					if st, ok := r2.(*ssa.Store); ok && st.Addr == ssa.Value(ia) {
						t.Entries = append(t.Entries, c.mkEntry(ia.Index, st.Val, st))
					}
				}
			}
		}
		// written only in init?
		for _, f := range c.Funcs {
			if f == init {
				continue
			}
			for _, b := range f.Blocks {
				for _, in := range b.Instrs {
					if ia, ok := in.(*ssa.IndexAddr); ok && ia.X == ssa.Value(g) {
						for _, r2 := range *ia.Referrers() {
							if st, ok := r2.(*ssa.Store); ok && st.Addr == ssa.Value(ia) {
								t.Err = "array table " + name + " is written outside init by " + fnName(f)
								return t
							}
						}
					}
				}
			}
		}
		sort.SliceStable(t.Entries, func(i, j int) bool {
			a, _ := constIntVal(t.Entries[i].Key)
			b, _ := constIntVal(t.Entries[j].Key)
			return a < b
		})
		t.Array = true
		c.nameArrayKeys(t)
		return t
	}
	if nStores != 1 {
		t.Err = fmt.Sprintf("global %s stored %d times in init (expected exactly one composite literal)", name, nStores)
		return t
	}
	c.readContainer(stored, t)
	if t.Array {
		c.nameArrayKeys(t)
	}
	return t
}

// nameArrayKeys: an array table indexed by an enum (renderers[op], terminalTokens[tok.Typ]) has plain
// integers as indices in its literal; the enum type is read off the places that index the table, and the
// entries' key names become the enum constants' names so that the table reads like the map it replaces.
func (c *Ctx) nameArrayKeys(t *Table) {
	var keyType *types.Named
	for _, f := range c.Funcs {
		for _, b := range f.Blocks {
			for _, in := range b.Instrs {
				ia, ok := in.(*ssa.IndexAddr)
				if !ok || ia.X != ssa.Value(t.Global) {
					continue
				}
				it := ia.Index.Type()
				if cv, ok := ia.Index.(*ssa.Convert); ok {
					it = cv.X.Type()
				}
				if n, ok := it.(*types.Named); ok && n.Obj().Pkg() != nil && strings.HasPrefix(n.Obj().Pkg().Path(), modPath) {
					if keyType != nil && !types.Identical(keyType, n) {
						return
					}
					keyType = n
				}
			}
		}
	}
	if keyType == nil {
		return
	}
	for i := range t.Entries {
		if n, ok := constIntVal(t.Entries[i].Key); ok {
			k := ssa.NewConst(constant.MakeInt64(n), keyType)
			t.Entries[i].Key = k
			t.Entries[i].KeyName = c.constName(k)
		}
	}
}

// dispatchSpecs: the tables that may equally be written as a function switching over the key. The
// function is found by its signature: one parameter of the key type, first result of the value type
// (optionally a second boolean "found" result).
type dispatchSpec struct {
	key func(t types.Type) bool
	val func(t types.Type) bool
}

func (c *Ctx) dispatchSpec(pkg, name string) *dispatchSpec {
	isOp := func(t types.Type) bool { return isNamed(t, pkgExpr, "Operator") }
	sigOf := func(t types.Type) *types.Signature {
		s, _ := t.Underlying().(*types.Signature)
		return s
	}
	switch pkg + "." + name {
	case pkgExpr + ".renderers":
		return &dispatchSpec{isOp, func(t types.Type) bool {
			s := sigOf(t)
			return s != nil && s.Params().Len() == 2 && isExprPtr(s.Params().At(0).Type()) && isBool(s.Params().At(1).Type()) && s.Results().Len() == 1 && isStringType(s.Results().At(0).Type())
		}}
	case pkgExpr + ".validators":
		return &dispatchSpec{isOp, func(t types.Type) bool {
			s := sigOf(t)
			return s != nil && s.Params().Len() == 1 && isExprPtr(s.Params().At(0).Type()) && s.Results().Len() == 1 && isErrorType(s.Results().At(0).Type())
		}}
	case pkgExpr + ".toString":
		return &dispatchSpec{isOp, isStringType}
	case pkgExpr + ".fromString":
		return &dispatchSpec{isStringType, isOp}
	case pkgReduce + ".reducers":
		// the reducers as a function from the position in the order of trial to the reducer
		return &dispatchSpec{func(t types.Type) bool {
			b, ok := t.Underlying().(*types.Basic)
			return ok && b.Kind() == types.Int
		}, func(t types.Type) bool {
			s := sigOf(t)
			return s != nil && s.Params().Len() == 3 && s.Results().Len() == 3 && isBool(s.Results().At(2).Type()) && isStringType(s.Params().At(2).Type())
		}}
	case pkgLex + ".symbols":
		return &dispatchSpec{func(t types.Type) bool {
			b, ok := t.Underlying().(*types.Basic)
			return ok && b.Kind() == types.Int32
		}, func(t types.Type) bool { return isNamed(t, pkgLex, "TokType") }}
	}
	return nil
}

// readDispatchFn reads `func f(k K) (V, bool) { switch k { case c1: return v1, true … default: return zero, false } }`
// as the table {c1: v1, …}: every returning path that yields a value must be selected by exactly one
// equality on the parameter.
func (c *Ctx) readDispatchFn(pkg, name string) *Table {
	spec := c.dispatchSpec(pkg, name)
	if spec == nil {
		return nil
	}
	var cands []*ssa.Function
	for _, f := range c.Funcs {
		if fnPkgPath(f) != pkg || f.Parent() != nil || len(f.Blocks) == 0 {
			continue
		}
		ps, rs := f.Signature.Params(), f.Signature.Results()
		if recv := f.Signature.Recv(); recv != nil {
			// a method of the key type without further parameters: the receiver is the key
			if ps.Len() != 0 || !spec.key(recv.Type()) || rs.Len() < 1 || rs.Len() > 2 || !spec.val(rs.At(0).Type()) {
				continue
			}
		} else if ps.Len() != 1 || !spec.key(ps.At(0).Type()) || rs.Len() < 1 || rs.Len() > 2 || !spec.val(rs.At(0).Type()) {
			continue
		}
		if rs.Len() == 2 && !isBool(rs.At(1).Type()) {
			continue
		}
		cands = append(cands, f)
	}
	if len(cands) != 1 {
		return nil
	}
	f := cands[0]
	t := &Table{Fn: f}
	paths, complete := c.enumPaths(f, 2000)
	if !complete {
		t.Err = "too many paths in dispatch function " + fnName(f)
		return t
	}
	seen := map[string]bool{}
	for _, p := range paths {
		if p.Ret == nil {
			t.Err = "dispatch function " + fnName(f) + " has a path that does not return"
			return t
		}
		if len(p.Ret.Results) == 2 {
			found, isC := constBoolVal(c.resolve(p.Ret.Results[1], p.Env))
			if !isC {
				t.Err = "dispatch function " + fnName(f) + ": the found result is not a constant"
				return t
			}
			if !found {
				continue
			}
		}
		val := c.resolve(p.Ret.Results[0], p.Env)
		if len(p.Ret.Results) == 1 && isNilConst(val) {
			continue // no entry
		}
		if s, isStr := constStringVal(val); isStr && s == "" && len(p.Ret.Results) == 1 {
			continue // a name table without an entry yields the empty string, as a map lookup does
		}
		if k, isK := val.(*ssa.Const); isK && len(p.Ret.Results) == 1 && c.constName(k) == "expr.Undefined" {
			continue // an operator table without an entry yields the zero operator, as a map lookup does
		}
		var key ssa.Value
		nEq := 0
		for _, a := range p.Atoms {
			if a.Kind == "cmp" && a.Subj == "$0" && a.Op == "==" {
				nEq++
				if bo, ok := a.Src.(*ssa.BinOp); ok {
					if k, ok := bo.Y.(*ssa.Const); ok {
						key = k
					} else if k, ok := bo.X.(*ssa.Const); ok {
						key = k
					}
				}
			} else if !(a.Kind == "cmp" && a.Subj == "$0" && a.Op == "!=") {
				t.Err = "dispatch function " + fnName(f) + " decides on something other than its key: " + a.String()
				return t
			}
		}
		if nEq == 0 && pkg == pkgReduce && name == "reducers" {
			// the last reducer as the default case: for the list of reducers the key is only a position
			key = ssa.NewConst(constant.MakeInt64(-1), types.Typ[types.Int])
			nEq = 1
		}
		if nEq != 1 || key == nil {
			t.Err = "dispatch function " + fnName(f) + " yields a value on a path not selected by one key constant (default case?)"
			return t
		}
		e := c.mkEntry(key, p.Ret.Results[0], p.Ret)
		if seen[e.KeyName] {
			continue
		}
		seen[e.KeyName] = true
		t.Entries = append(t.Entries, e)
	}
	return t
}

// readContainer fills t.Entries from a MakeMap + MapUpdates or a slice-literal array.
func (c *Ctx) readContainer(stored ssa.Value, t *Table) {
	switch x := stored.(type) {
	case *ssa.MakeMap:
		for _, ref := range *x.Referrers() {
			switch r := ref.(type) {
			case *ssa.MapUpdate:
				if r.Map != x {
					continue
				}
				if _, ok := r.Key.(*ssa.Const); !ok {
					continue // non-constant keyed update (copy loop) — handled by the caller
				}
				t.Entries = append(t.Entries, c.mkEntry(r.Key, r.Value, r))
			}
		}
	case *ssa.Slice:
		arr, ok := x.X.(*ssa.Alloc)
		if !ok {
			t.Err = "slice global not backed by a literal array"
			return
		}
		for _, ref := range *arr.Referrers() {
			ia, ok := ref.(*ssa.IndexAddr)
			if !ok {
				continue
			}
			for _, r2 := range *ia.Referrers() {
				if st, ok := r2.(*ssa.Store); ok && st.Addr == ia {
					t.Entries = append(t.Entries, c.mkEntry(ia.Index, st.Val, st))
				}
				// a slice of structs carrying the function in one field ({name: "and", fn: and}): the entry
				// is the value of the struct's only function-typed field
				if fa, ok := r2.(*ssa.FieldAddr); ok {
					if ft := fieldVar(fa.X.Type(), fa.Field); ft != nil && isFuncType(ft.Type()) && singleFuncField(fa.X.Type()) {
						for _, r3 := range *fa.Referrers() {
							if st, ok := r3.(*ssa.Store); ok && st.Addr == ssa.Value(fa) {
								t.Entries = append(t.Entries, c.mkEntry(ia.Index, st.Val, st))
							}
						}
					}
				}
			}
		}
		sort.SliceStable(t.Entries, func(i, j int) bool {
			a, _ := constIntVal(t.Entries[i].Key)
			b, _ := constIntVal(t.Entries[j].Key)
			return a < b
		})
	case *ssa.UnOp:
		// var T = [N]V{k: v, …}: the literal is built in a local array and stored whole
		arr, ok := x.X.(*ssa.Alloc)
		if !ok || x.Op != token.MUL {
			t.Err = fmt.Sprintf("unsupported table initialiser %T", stored)
			return
		}
		if _, isArr := arr.Type().Underlying().(*types.Pointer).Elem().Underlying().(*types.Array); !isArr {
			t.Err = "table initialised from a local that is not an array literal"
			return
		}
		for _, ref := range *arr.Referrers() {
			ia, ok := ref.(*ssa.IndexAddr)
			if !ok {
				continue
			}
			for _, r2 := range *ia.Referrers() {
				if st, ok := r2.(*ssa.Store); ok && st.Addr == ia {
					t.Entries = append(t.Entries, c.mkEntry(ia.Index, st.Val, st))
				}
			}
		}
		sort.SliceStable(t.Entries, func(i, j int) bool {
			a, _ := constIntVal(t.Entries[i].Key)
			b, _ := constIntVal(t.Entries[j].Key)
			return a < b
		})
		t.Array = true
	case *ssa.Call:
		// var T = buildT(): the builder returns a fresh map / slice literal on its only return
		f := x.Call.StaticCallee()
		if f == nil || !inModule(f) || f.Blocks == nil {
			t.Err = "table initialised by a call that cannot be resolved"
			return
		}
		// var T = invert(U): the builder returns {v: k | k, v ∈ its argument}, the argument being
		// another package-level table
		if len(x.Call.Args) == 1 && c.isInvertFn(f) {
			if ld, ok := x.Call.Args[0].(*ssa.UnOp); ok {
				if g, ok := ld.X.(*ssa.Global); ok && g.Pkg != nil {
					src := c.readTable(g.Pkg.Pkg.Path(), g.Name())
					if src.Err != "" {
						t.Err = "inverted table's source: " + src.Err
						return
					}
					for _, e := range src.Entries {
						t.Entries = append(t.Entries, TableEntry{Key: e.Val, KeyName: c.key(e.Val, nil), Val: e.Key, Pos: e.Pos})
					}
					return
				}
			}
		}
		var ret ssa.Value
		n := 0
		for _, b := range f.Blocks {
			for _, in := range b.Instrs {
				if r, ok := in.(*ssa.Return); ok && len(r.Results) == 1 {
					ret = r.Results[0]
					n++
				}
			}
		}
		if n != 1 {
			t.Err = "table builder " + fnName(f) + " has several returns"
			return
		}
		if _, isCall := ret.(*ssa.Call); isCall {
			t.Err = "table builder " + fnName(f) + " delegates to another call"
			return
		}
		// a builder that fills the map with computed keys (loops over literal key lists): read along its
		// single path, loops over literals unrolled
		if mm, ok := ret.(*ssa.MakeMap); ok && c.hasComputedKeys(mm) {
			paths, complete := c.enumPaths(f, 50)
			var done []*Path
			for _, p := range paths {
				if p.Ret != nil && !p.Cut {
					done = append(done, p)
				} else {
					complete = false
				}
			}
			if !complete || len(done) != 1 {
				t.Err = "table builder " + fnName(f) + " does not fill the table along a single loop-free (or literally bounded) path"
				return
			}
			seen := map[string]int{}
			for _, u := range done[0].Updates {
				if u.Instr.Map != ssa.Value(mm) {
					continue
				}
				if _, isC := u.Key.(*ssa.Const); !isC {
					t.Err = "table builder " + fnName(f) + " stores a key that is not a constant on its path"
					return
				}
				e := c.mkEntry(u.Key, u.Val, u.Instr)
				if e.Factory != nil && len(u.ValArgs) > 0 {
					// the factory's arguments as they were at this update
					call := u.Val.(*ssa.Call)
					cl := closureReturned(e.Factory)
					e.Bound = nil
					for _, b := range cl.Bindings {
						bound := b
						if p := paramBehind(b); p != nil {
							for i, fp := range e.Factory.Params {
								if fp == p && i < len(call.Call.Args) && i < len(u.ValArgs) {
									bound = u.ValArgs[i]
								}
							}
						}
						e.Bound = append(e.Bound, bound)
					}
				}
				if i, dup := seen[e.KeyName]; dup {
					t.Entries[i] = e // a later store wins
				} else {
					seen[e.KeyName] = len(t.Entries)
					t.Entries = append(t.Entries, e)
				}
			}
			return
		}
		c.readContainer(ret, t)
	default:
		t.Err = fmt.Sprintf("unsupported table initialiser %T", stored)
	}
}

// hasComputedKeys: some update of the map uses a key that is not a constant.
func (c *Ctx) hasComputedKeys(mm *ssa.MakeMap) bool {
	for _, ref := range *mm.Referrers() {
		if mu, ok := ref.(*ssa.MapUpdate); ok && mu.Map == ssa.Value(mm) {
			if _, isC := mu.Key.(*ssa.Const); !isC {
				return true
			}
		}
	}
	return false
}

// isInvertFn: f(m) builds a fresh map, stores out[v] = k for every k, v of a range over m, and
// returns it.
func (c *Ctx) isInvertFn(f *ssa.Function) bool {
	if len(f.Params) != 1 {
		return false
	}
	var mm *ssa.MakeMap
	nUpd, nRet := 0, 0
	for _, b := range f.Blocks {
		for _, in := range b.Instrs {
			switch x := in.(type) {
			case *ssa.MakeMap:
				if mm != nil {
					return false
				}
				mm = x
			case *ssa.Store, *ssa.Go, *ssa.Defer, *ssa.Send:
				return false
			}
		}
	}
	if mm == nil {
		return false
	}
	for _, b := range f.Blocks {
		for _, in := range b.Instrs {
			switch x := in.(type) {
			case *ssa.MapUpdate:
				if x.Map != ssa.Value(mm) {
					return false
				}
				kx, ok1 := x.Key.(*ssa.Extract)
				vx, ok2 := x.Value.(*ssa.Extract)
				if !ok1 || !ok2 || kx.Tuple != vx.Tuple || kx.Index != 2 || vx.Index != 1 {
					return false
				}
				nx, ok := kx.Tuple.(*ssa.Next)
				if !ok {
					return false
				}
				rg, ok := nx.Iter.(*ssa.Range)
				if !ok || rg.X != ssa.Value(f.Params[0]) {
					return false
				}
				// unconditional within the loop body: the update's block is reached from the loop header's ok edge only
				nUpd++
			case *ssa.Return:
				if len(x.Results) != 1 || x.Results[0] != ssa.Value(mm) {
					return false
				}
				nRet++
			case *ssa.Call:
				if _, isB := x.Call.Value.(*ssa.Builtin); !isB {
					return false
				}
			}
		}
	}
	if nUpd != 1 || nRet == 0 {
		return false
	}
	// the update must not be guarded by anything but the loop's own "more elements" test
	for _, b := range f.Blocks {
		if iff, ok := b.Instrs[len(b.Instrs)-1].(*ssa.If); ok {
			ex, ok := iff.Cond.(*ssa.Extract)
			if !ok || ex.Index != 0 {
				return false
			}
			if _, ok := ex.Tuple.(*ssa.Next); !ok {
				return false
			}
		}
	}
	return true
}

func (c *Ctx) mkEntry(key, val ssa.Value, at ssa.Instruction) TableEntry {
	e := TableEntry{Key: key, KeyName: c.key(key, nil), Pos: at}
	v := c.resolve(val, nil)
	e.Val = v
	switch x := v.(type) {
	case *ssa.Function:
		e.Fn = unwrapThunk(x)
	case *ssa.MakeClosure:
		e.Fn = x.Fn.(*ssa.Function)
		e.Bound = x.Bindings
		// a bound method value x.m: the synthetic wrapper forwards (receiver, parameters…) to the method
		if m := boundMethod(e.Fn); m != nil && len(x.Bindings) == 1 {
			e.Fn, e.Recv, e.Bound = m, x.Bindings[0], nil
		}
	case *ssa.Call:
		if f := x.Call.StaticCallee(); f != nil {
			// closure factory: the callee returns a MakeClosure on every return
			if cl := closureReturned(f); cl != nil {
				e.Fn = cl.Fn.(*ssa.Function)
				e.Factory = f
				// the factory returns a bound method value of a receiver it builds from its parameters
				// (opRenderer{op: op}.compound): the method is the render function, the receiver literal's fields
				// are the bindings, read with the factory's parameters replaced by this call's arguments
				if m := boundMethod(e.Fn); m != nil && len(cl.Bindings) == 1 {
					e.Fn, e.Recv = m, cl.Bindings[0]
					e.RecvArg = map[*ssa.Parameter]ssa.Value{}
					for i, fp := range f.Params {
						if i < len(x.Call.Args) {
							e.RecvArg[fp] = x.Call.Args[i]
						}
					}
					return e
				}
				// map free variables to the factory's arguments
				for _, b := range cl.Bindings {
					bound := b
					// bindings are usually allocs holding the parameter, or the parameter itself
					if p := paramBehind(b); p != nil {
						for i, fp := range f.Params {
							if fp == p && i < len(x.Call.Args) {
								bound = x.Call.Args[i]
							}
						}
					}
					e.Bound = append(e.Bound, bound)
				}
			}
		}
	}
	return e
}

// boundMethod: f is the synthetic `x.m$bound` wrapper: one free variable (the receiver), its body calls the
// method with (receiver, params…) and returns the results.
func boundMethod(f *ssa.Function) *ssa.Function {
	if f == nil || f.Synthetic == "" || len(f.FreeVars) != 1 || len(f.Blocks) != 1 {
		return nil
	}
	var callee *ssa.Function
	for _, in := range f.Blocks[0].Instrs {
		switch x := in.(type) {
		case *ssa.Call:
			g := x.Call.StaticCallee()
			if g == nil || callee != nil || g.Signature.Recv() == nil || len(x.Call.Args) != len(f.Params)+1 {
				return nil
			}
			callee = g
		case *ssa.Return, *ssa.DebugRef, *ssa.UnOp, *ssa.Extract:
		default:
			return nil
		}
	}
	return callee
}

// structLiteralFields: v is (a load of) a local struct composite literal; the values stored in its fields.
func structLiteralFields(v ssa.Value) map[string]ssa.Value {
	if ld, ok := v.(*ssa.UnOp); ok {
		v = ld.X
	}
	al, ok := v.(*ssa.Alloc)
	if !ok {
		return nil
	}
	out := map[string]ssa.Value{}
	for _, ref := range *al.Referrers() {
		fa, ok := ref.(*ssa.FieldAddr)
		if !ok {
			continue
		}
		for _, r2 := range *fa.Referrers() {
			if st, ok := r2.(*ssa.Store); ok && st.Addr == ssa.Value(fa) {
				out[fieldName(fa.X.Type(), fa.Field)] = st.Val
			}
		}
	}
	return out
}

// unwrapThunk: a synthetic wrapper (method expression / bound method thunk) whose body only forwards its
// parameters to a declared function stands for that function.
func unwrapThunk(f *ssa.Function) *ssa.Function {
	if f == nil || f.Synthetic == "" || len(f.Blocks) != 1 {
		return f
	}
	var callee *ssa.Function
	for _, in := range f.Blocks[0].Instrs {
		switch x := in.(type) {
		case *ssa.Call:
			g := x.Call.StaticCallee()
			if g == nil || callee != nil || len(x.Call.Args) != len(f.Params) {
				return f
			}
			for i, a := range x.Call.Args {
				if a != ssa.Value(f.Params[i]) {
					return f
				}
			}
			callee = g
		case *ssa.Return, *ssa.DebugRef:
		default:
			return f
		}
	}
	if callee == nil {
		return f
	}
	return callee
}

func closureReturned(f *ssa.Function) *ssa.MakeClosure {
	var cl *ssa.MakeClosure
	for _, b := range f.Blocks {
		for _, in := range b.Instrs {
			if r, ok := in.(*ssa.Return); ok {
				if len(r.Results) != 1 {
					return nil
				}
				v := r.Results[0]
				for {
					if ct, ok := v.(*ssa.ChangeType); ok {
						v = ct.X
						continue
					}
					break
				}
				mc, ok := v.(*ssa.MakeClosure)
				if !ok {
					return nil
				}
				if cl != nil && cl.Fn != mc.Fn {
					return nil
				}
				cl = mc
			}
		}
	}
	return cl
}

// paramBehind: binding is the parameter itself or an alloc whose single store is the parameter.
func paramBehind(b ssa.Value) *ssa.Parameter {
	if p, ok := b.(*ssa.Parameter); ok {
		return p
	}
	if a, ok := b.(*ssa.Alloc); ok {
		// a captured variable cell: exactly one store (the parameter), other referrers are closures
		// that only read it
		var val ssa.Value
		n := 0
		for _, ref := range *a.Referrers() {
			switch r := ref.(type) {
			case *ssa.Store:
				if r.Addr != a {
					return nil
				}
				n++
				val = r.Val
			case *ssa.MakeClosure:
				fn := r.Fn.(*ssa.Function)
				for i, bnd := range r.Bindings {
					if bnd != a || i >= len(fn.FreeVars) {
						continue
					}
					for _, fr := range *fn.FreeVars[i].Referrers() {
						if st, ok := fr.(*ssa.Store); ok && st.Addr == fn.FreeVars[i] {
							return nil
						}
					}
				}
			case *ssa.UnOp, *ssa.DebugRef:
			default:
				return nil
			}
		}
		if n == 1 {
			if p, ok := val.(*ssa.Parameter); ok {
				return p
			}
		}
	}
	return nil
}

// operatorConsts: name -> value for expr.Operator.
func (c *Ctx) operatorConsts() map[string]int64 { return c.constsOfType(pkgExpr, "Operator") }
func (c *Ctx) tokTypeConsts() map[string]int64  { return c.constsOfType(pkgLex, "TokType") }

// pgTable: the effective render table of the package-level postgres driver (overlay ∪ Shared).
type PGTable struct {
	Ctor     *ssa.Function
	Overlay  *Table
	Shared   *Table
	Eff      map[string]*TableEntry // by operator key name, e.g. "expr.Literal"
	CopyLoop bool                   // overlay is completed by a found-guarded copy of Shared into the fresh map
	Err      string
}

func (c *Ctx) pgTable() *PGTable {
	if t, ok := c.roles["pgtable"]; ok {
		return t.(*PGTable)
	}
	t := c.pgTable0()
	c.roles["pgtable"] = t
	return t
}

func (c *Ctx) pgTable0() *PGTable {
	pt := &PGTable{Eff: map[string]*TableEntry{}}
	pt.Shared = c.readTable(pkgDriver, "Shared")
	if pt.Shared.Err != "" {
		pt.Err = pt.Shared.Err
		return pt
	}
	// role: the global in the root package whose type embeds driver.Base, and its constructor
	root := c.SSA[pkgRoot]
	var ctor *ssa.Function
	if root != nil {
		init := root.Func("init")
		for _, b := range init.Blocks {
			for _, in := range b.Instrs {
				st, ok := in.(*ssa.Store)
				if !ok {
					continue
				}
				if _, ok := st.Addr.(*ssa.Global); !ok {
					continue
				}
				if call, ok := st.Val.(*ssa.Call); ok {
					if f := call.Call.StaticCallee(); f != nil && fnPkgPath(f) == pkgDriver {
						ctor = f
					}
				}
			}
		}
	}
	if ctor == nil {
		ctor = c.pkgFunc(pkgDriver, "NewPostgresDriver")
	}
	if ctor == nil {
		pt.Err = "constructor of the package-level postgres driver not found"
		return pt
	}
	pt.Ctor = ctor
	// the map placed in RenderFNs: find MakeMap in the ctor
	var mm *ssa.MakeMap
	var maps []*ssa.MakeMap
	for _, b := range ctor.Blocks {
		for _, in := range b.Instrs {
			if m, ok := in.(*ssa.MakeMap); ok {
				maps = append(maps, m)
			}
		}
	}
	if len(maps) == 1 {
		mm = maps[0]
	} else if len(maps) > 1 {
		// several maps: the render table is the one that is stored into a struct field or returned; the others
		// are local literal maps it is filled from
		for _, m := range maps {
			if m.Referrers() == nil {
				continue
			}
			for _, ref := range *m.Referrers() {
				switch u := ref.(type) {
				case *ssa.Store:
					if _, isField := u.Addr.(*ssa.FieldAddr); isField && u.Val == ssa.Value(m) {
						if mm != nil && mm != m {
							pt.Err = "constructor stores more than one fresh map into the driver"
							return pt
						}
						mm = m
					}
				case *ssa.Return:
					mm = m
				}
			}
		}
		if mm == nil {
			pt.Err = "constructor builds several maps and none of them is stored into the driver"
			return pt
		}
	}
	if mm == nil {
		// maybe the driver aliases Shared directly
		pt.Err = "constructor does not build a fresh map (aliases Shared?)"
		return pt
	}
	pt.Overlay = &Table{}
	// The constructor is read as a sequence of operations on the fresh map, in instruction order:
	// constant-keyed stores, a range copy of Shared (filling only missing keys when guarded by a failed
	// lookup, overwriting otherwise) and maps.Copy from Shared or from a literal map built by a helper.
	set := func(e TableEntry, overwrite bool) {
		if _, have := pt.Eff[e.KeyName]; have && !overwrite {
			return
		}
		ec := e
		pt.Eff[e.KeyName] = &ec
	}
	overlayShared := func(overwrite bool) {
		pt.CopyLoop = true
		for _, e := range pt.Shared.Entries {
			set(e, overwrite)
		}
	}
	for _, b := range ctor.Blocks {
		for _, in := range b.Instrs {
			switch x := in.(type) {
			case *ssa.MapUpdate:
				if x.Map != ssa.Value(mm) {
					continue
				}
				if _, isConst := x.Key.(*ssa.Const); isConst {
					e := c.mkEntry(x.Key, x.Value, x)
					pt.Overlay.Entries = append(pt.Overlay.Entries, e)
					set(e, true)
					continue
				}
				okCopy := false
				var localSrc *ssa.MakeMap
				if ex, ok := x.Key.(*ssa.Extract); ok {
					if nx, ok := ex.Tuple.(*ssa.Next); ok {
						if rg, ok := nx.Iter.(*ssa.Range); ok {
							if ld, ok := rg.X.(*ssa.UnOp); ok && ld.X == ssa.Value(pt.Shared.Global) {
								if vx, ok := x.Value.(*ssa.Extract); ok && vx.Tuple == nx && vx.Index == 2 && ex.Index == 1 {
									okCopy = true
								}
							}
							// a range copy of another fresh map of the constructor (a local literal of overrides)
							if om, ok := c.resolve(rg.X, nil).(*ssa.MakeMap); ok && om != mm {
								if vx, ok := x.Value.(*ssa.Extract); ok && vx.Tuple == nx && vx.Index == 2 && ex.Index == 1 {
									localSrc = om
								}
							}
						}
					}
				}
				if localSrc != nil {
					tmp := &Table{}
					c.readContainer(localSrc, tmp)
					if tmp.Err != "" || len(tmp.Entries) == 0 || c.hasComputedKeys(localSrc) {
						pt.Err = "constructor copies a local map that cannot be read into the render table at " + c.instrPos(x) + ": " + tmp.Err
						return pt
					}
					guardedL := false
					for _, a := range c.domAtoms(b) {
						if a.Kind == "call" && !a.Pos && strings.HasPrefix(a.Subj, "haskey:") && a.Val == c.key(x.Key, nil) {
							guardedL = true
						}
					}
					for _, e := range tmp.Entries {
						pt.Overlay.Entries = append(pt.Overlay.Entries, e)
						set(e, !guardedL)
					}
					continue
				}
				if !okCopy {
					pt.Err = "constructor writes a non-constant key that is not a copy of Shared at " + c.instrPos(x)
					return pt
				}
				guarded := false
				for _, a := range c.domAtoms(b) {
					if a.Kind == "call" && !a.Pos && strings.HasPrefix(a.Subj, "haskey:") && a.Val == c.key(x.Key, nil) {
						guarded = true
					}
				}
				overlayShared(!guarded)
			case *ssa.Call:
				name := calleeFullName(x)
				if !(strings.HasPrefix(name, "maps.Copy") && len(x.Call.Args) == 2) {
					continue
				}
				if c.resolve(x.Call.Args[0], nil) != ssa.Value(mm) {
					continue
				}
				src := c.resolve(x.Call.Args[1], nil)
				if ld, ok := src.(*ssa.UnOp); ok && ld.X == ssa.Value(pt.Shared.Global) {
					overlayShared(true)
					continue
				}
				tmp := &Table{}
				c.readContainer(src, tmp)
				if tmp.Err != "" || len(tmp.Entries) == 0 {
					pt.Err = "constructor copies a map that cannot be read into the render table at " + c.instrPos(x) + ": " + tmp.Err
					return pt
				}
				for _, e := range tmp.Entries {
					pt.Overlay.Entries = append(pt.Overlay.Entries, e)
					set(e, true)
				}
			}
		}
	}
	return pt
}

// singleFuncField: the struct (or pointer to struct) has exactly one field of function type.
func singleFuncField(t types.Type) bool {
	if p, ok := t.Underlying().(*types.Pointer); ok {
		t = p.Elem()
	}
	st, ok := t.Underlying().(*types.Struct)
	if !ok {
		return false
	}
	n := 0
	for i := 0; i < st.NumFields(); i++ {
		if isFuncType(st.Field(i).Type()) {
			n++
		}
	}
	return n == 1
}

func isFuncType(t types.Type) bool {
	_, ok := t.Underlying().(*types.Signature)
	return ok
}
