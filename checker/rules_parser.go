package main

// Rules on the shift/reduce driver: PAR-PUSH (INV-NT half 1), PUSH-STATE + IMPL-AND (C07),
// ACCEPT, VALIDATE-DOM, the acceptance-case default-field rule.

import (
	"fmt"
	"go/token"
	"go/types"
	"sort"
	"strings"

	"golang.org/x/tools/go/ssa"
)

// appendOne: v = append(base, <one-element literal>...) → (base, elem)
func (c *Ctx) appendOne(v ssa.Value) (base, elem ssa.Value, ok bool) {
	call, isCall := v.(*ssa.Call)
	if !isCall {
		return nil, nil, false
	}
	bi, isB := call.Call.Value.(*ssa.Builtin)
	if !isB || bi.Name() != "append" || len(call.Call.Args) != 2 {
		return nil, nil, false
	}
	lit, isLit := c.sliceLiteral(call.Call.Args[1], nil)
	if !isLit || len(lit) != 1 {
		return nil, nil, false
	}
	return call.Call.Args[0], lit[0], true
}

// parserInl: inlining options for reading the parser's methods: helper methods of the parser type (or
// root-package functions taking the parser) other than the resolved roles are read in place.
func (c *Ctx) parserInl(pr *ParserRoles) *InlineOpts {
	keep := map[*ssa.Function]bool{}
	for _, f := range []*ssa.Function{pr.ParseLoop, pr.ReduceM, pr.ShouldShift, pr.ShiftM, pr.TokToLit, pr.Parse} {
		if f != nil {
			keep[f] = true
		}
	}
	return &InlineOpts{Keep: keep, Pred: func(g *ssa.Function) bool {
		if keep[g] || fnPkgPath(g) != pkgRoot {
			return false
		}
		for _, p := range g.Params {
			t := p.Type()
			if pt, ok := t.(*types.Pointer); ok {
				t = pt.Elem()
			}
			if types.Identical(t, pr.Type) {
				rs := g.Signature.Results()
				return !(rs.Len() == 1 && isBool(rs.At(0).Type()))
			}
		}
		return false
	}}
}

func (c *Ctx) parserPreamble(r *Report, rule string) *ParserRoles {
	pr := c.parserRoles()
	if pr.Err != "" {
		r.bad(rule, "anchor", "-", "parser roles unresolved: "+pr.Err)
		return nil
	}
	r.unit("functions", fnName(pr.ParseLoop))
	r.unit("functions", fnName(pr.ReduceM))
	r.unit("functions", fnName(pr.ShouldShift))
	return pr
}

type fieldStore struct {
	st    *ssa.Store
	fn    *ssa.Function
	field *types.Var
}

func (c *Ctx) storesToFields(fields ...*types.Var) []fieldStore {
	var out []fieldStore
	for _, f := range c.Funcs {
		for _, b := range f.Blocks {
			for _, in := range b.Instrs {
				st, ok := in.(*ssa.Store)
				if !ok {
					continue
				}
				fa, ok := st.Addr.(*ssa.FieldAddr)
				if !ok {
					continue
				}
				fv := fieldVar(fa.X.Type(), fa.Field)
				for _, want := range fields {
					if fv == want {
						out = append(out, fieldStore{st, f, fv})
					}
				}
			}
		}
	}
	return out
}

// PAR-PUSH: who writes parser.stack / parser.nonTerminals, and how.
func rulePARPUSH(c *Ctx, r *Report) {
	const rule = "PAR-PUSH"
	r.doc(rule, "INV-NT half 1: every store to parser.stack / parser.nonTerminals in the module is one of: paired token push (same token value, same block), expression push, pop in the reduce method, re-append of the reducer output, result #1 of reduce.Reduce, or the initial literals in Parse")
	pr := c.parserPreamble(r, rule)
	if pr == nil {
		return
	}
	reduceFn := c.pkgFunc(pkgReduce, "Reduce")
	stores := c.storesToFields(pr.StackF, pr.NTF)
	tokenPushes := 0
	for _, fs := range stores {
		st := fs.st
		pos := c.instrPos(st)
		isStack := fs.field == pr.StackF
		fname := "nonTerminals"
		if isStack {
			fname = "stack"
		}
		val := c.resolve(st.Val, nil)
		key := fmt.Sprintf("%s|%s|%s", fnName(fs.fn), fname, c.key(val, nil))
		// initial literal in Parse (store into a freshly allocated parser)
		if fa := st.Addr.(*ssa.FieldAddr); func() bool { _, ok := fa.X.(*ssa.Alloc); return ok }() {
			lit, ok := c.sliceLiteral(val, nil)
			switch {
			case !ok:
				r.bad(rule, key, pos, "initial value of parser."+fname+" is not a literal")
			case isStack && len(lit) != 0:
				r.bad(rule, key, pos, "parser.stack must start empty")
			case !isStack && !(len(lit) == 1 && c.isStartToken(fs.fn, val)):
				r.bad(rule, key, pos, "parser.nonTerminals must start as exactly [Token{Typ: TStart}] (INV-NT: len(nonTerminals) = 1 + tokens on stack)")
			default:
				r.ok(rule, fmt.Sprintf("%s|%s|init", fnName(fs.fn), fname), pos, "initial literal")
			}
			continue
		}
		if base, elem, ok := c.appendOne(val); ok && isFieldLoad(base, fs.field) {
			ev := c.resolve(elem, nil)
			et := typeStr(ev.Type())
			if !isStack {
				// token push onto nonTerminals: needs the twin push onto stack in the same block
				tokenPushes++
				if _, isHelper := c.pushHelpers(pr)[fs.fn]; isHelper {
					// one push per call of the helper
					if sites, _ := c.privateHelper(fs.fn); len(sites) > 1 {
						tokenPushes += len(sites) - 1
					}
				}
				twin := false
				for _, in := range st.Block().Instrs {
					if s2, ok := in.(*ssa.Store); ok {
						if fa2, ok := s2.Addr.(*ssa.FieldAddr); ok && fieldVar(fa2.X.Type(), fa2.Field) == pr.StackF {
							if b2, e2, ok := c.appendOne(c.resolve(s2.Val, nil)); ok && isFieldLoad(b2, pr.StackF) && c.key(e2, nil) == c.key(ev, nil) {
								twin = true
							}
						}
					}
				}
				k := fmt.Sprintf("%s|nonTerminals|push(%s)", fnName(fs.fn), c.key(ev, nil))
				if twin {
					r.ok(rule, k, pos, "paired with push of the same token onto stack")
				} else {
					r.bad(rule, k, pos, "a token is pushed onto parser.nonTerminals without the same token being pushed onto parser.stack in the same block (INV-NT broken: shouldShift/drop index nonTerminals without a local guard)")
				}
				continue
			}
			switch {
			case et == "lex.Token":
				twin := false
				for _, in := range st.Block().Instrs {
					if s2, ok := in.(*ssa.Store); ok {
						if fa2, ok := s2.Addr.(*ssa.FieldAddr); ok && fieldVar(fa2.X.Type(), fa2.Field) == pr.NTF {
							if b2, e2, ok := c.appendOne(c.resolve(s2.Val, nil)); ok && isFieldLoad(b2, pr.NTF) && c.key(e2, nil) == c.key(ev, nil) {
								twin = true
							}
						}
					}
				}
				k := fmt.Sprintf("%s|stack|push(%s)", fnName(fs.fn), c.key(ev, nil))
				if twin {
					r.ok(rule, k, pos, "paired with push onto nonTerminals")
				} else {
					r.bad(rule, k, pos, "a token is pushed onto parser.stack without being pushed onto parser.nonTerminals (INV-NT broken)")
				}
			case et == "*expr.Expression":
				r.ok(rule, fmt.Sprintf("%s|stack|push-expr", fnName(fs.fn)), pos, "expression push")
			default:
				// `any` produced by a module call: use the callee's returned dynamic types
				okTypes := false
				if ex, ok := ev.(*ssa.Extract); ok {
					if call, ok := ex.Tuple.(*ssa.Call); ok && call.Call.StaticCallee() != nil {
						ts := c.dynTypesReturned(call.Call.StaticCallee(), ex.Index)
						okTypes = len(ts) > 0
						for _, t := range ts {
							if t != "*expr.Expression" && t != "nil" {
								okTypes = false
							}
						}
					}
				}
				k := fmt.Sprintf("%s|stack|push-any", fnName(fs.fn))
				if okTypes {
					r.ok(rule, k, pos, "pushed value is the *expr.Expression result of the token→literal function")
				} else {
					r.bad(rule, k, pos, "a value of unknown dynamic type ("+et+") is pushed onto parser.stack")
				}
			}
			continue
		}
		// pop: stack[:len(stack)-1] in the reduce method
		if sl, ok := val.(*ssa.Slice); ok && isStack && isFieldLoad(sl.X, pr.StackF) && sl.Low == nil && sl.High != nil && (fs.fn == pr.ReduceM || c.reachedOnlyFrom(fs.fn, pr.ReduceM, 0)) {
			if bo, ok := sl.High.(*ssa.BinOp); ok && bo.Op == token.SUB {
				if n, ok := constIntVal(bo.Y); ok && n == 1 {
					r.ok(rule, fmt.Sprintf("%s|stack|pop", fnName(fs.fn)), pos, "pop one")
					continue
				}
			}
		}
		// re-append of reducer output / nonTerminals from Reduce
		if call, ok := val.(*ssa.Call); ok && isStack {
			if bi, ok := call.Call.Value.(*ssa.Builtin); ok && bi.Name() == "append" && isFieldLoad(call.Call.Args[0], pr.StackF) {
				if ex, ok := c.resolve(call.Call.Args[1], nil).(*ssa.Extract); ok && ex.Index == 0 {
					if rc, ok := ex.Tuple.(*ssa.Call); ok && rc.Call.StaticCallee() == reduceFn {
						r.ok(rule, fmt.Sprintf("%s|stack|reappend", fnName(fs.fn)), pos, "re-append of reduce.Reduce result #0")
						continue
					}
				}
			}
		}
		if ex, ok := val.(*ssa.Extract); ok && !isStack && ex.Index == 1 {
			if rc, ok := ex.Tuple.(*ssa.Call); ok && rc.Call.StaticCallee() == reduceFn && isFieldLoad(rc.Call.Args[1], pr.NTF) {
				r.ok(rule, fmt.Sprintf("%s|nonTerminals|from-Reduce", fnName(fs.fn)), pos, "result #1 of reduce.Reduce applied to the current nonTerminals")
				continue
			}
		}
		r.bad(rule, key, pos, "unrecognised writer of parser."+fname+": "+c.key(val, nil))
	}
	r.floor(rule, "token push sites", tokenPushes, 2)
}

// isStartToken: the slice literal's single element is a Token whose Typ is stored as TStart.
func (c *Ctx) isStartToken(fn *ssa.Function, lit ssa.Value) bool {
	sl, ok := lit.(*ssa.Slice)
	if !ok {
		return false
	}
	arr, ok := sl.X.(*ssa.Alloc)
	if !ok {
		return false
	}
	for _, ref := range *arr.Referrers() {
		ia, ok := ref.(*ssa.IndexAddr)
		if !ok {
			continue
		}
		for _, r2 := range *ia.Referrers() {
			if fa, ok := r2.(*ssa.FieldAddr); ok && fieldName(fa.X.Type(), fa.Field) == "Typ" {
				for _, r3 := range *fa.Referrers() {
					if st, ok := r3.(*ssa.Store); ok {
						if k, ok := st.Val.(*ssa.Const); ok && c.constName(k) == "lex.TStart" {
							return true
						}
					}
				}
			}
			if st, ok := r2.(*ssa.Store); ok {
				_ = st
			}
		}
	}
	return false
}

// pushHelpers: private functions of the root package whose pushes onto parser.nonTerminals all append one of their
// own parameters (`func (p *parser) pushToken(tok lex.Token)`): a call of such a helper is a push of the argument.
// Maps the helper to the index of that parameter.
func (c *Ctx) pushHelpers(pr *ParserRoles) map[*ssa.Function]int {
	out := map[*ssa.Function]int{}
	bad := map[*ssa.Function]bool{}
	for _, fs := range c.storesToFields(pr.NTF) {
		if fs.fn == pr.ParseLoop || fs.fn == pr.Parse || fs.fn == pr.ReduceM || fnPkgPath(fs.fn) != pkgRoot {
			continue
		}
		_, elem, ok := c.appendOne(c.resolve(fs.st.Val, nil))
		if !ok {
			bad[fs.fn] = true
			continue
		}
		prm, isParam := c.resolve(elem, nil).(*ssa.Parameter)
		if !isParam {
			bad[fs.fn] = true
			continue
		}
		idx := -1
		for i, q := range fs.fn.Params {
			if q == prm {
				idx = i
			}
		}
		if prev, seen := out[fs.fn]; seen && prev != idx {
			bad[fs.fn] = true
		}
		out[fs.fn] = idx
	}
	for f := range bad {
		delete(out, f)
	}
	for f := range out {
		if _, private := c.privateHelper(f); !private {
			delete(out, f)
		}
	}
	return out
}

// PUSH-STATE (C07): typestate over the parse loop — a token may be pushed onto nonTerminals only if,
// on every path, the shift predicate returned true for that token since the last reduction.
func rulePUSHSTATE(c *Ctx, r *Report) {
	const rule = "PUSH-STATE"
	r.doc(rule, "typestate on the parse loop's CFG: fact Checked(tok) is generated on the true edge of the shift predicate applied to tok and killed by any call that mutates the stacks; every push onto parser.nonTerminals requires Checked on all incoming paths (the injected AND must take the real AND's decision path)")
	pr := c.parserPreamble(r, rule)
	if pr == nil {
		return
	}
	lexPeek := c.method(pkgLex, "Lexer", "Peek")
	type push struct {
		st  ssa.Instruction
		tok ssa.Value
		fn  *ssa.Function
	}
	var pushes []push
	helpers := c.pushHelpers(pr)
	// the typestate is run on the parse loop and on every other function of the package that pushes onto
	// nonTerminals (a helper the injection was moved into); a helper starts with nothing Checked
	var fns []*ssa.Function
	fns = append(fns, pr.ParseLoop)
	for _, fs := range c.storesToFields(pr.NTF) {
		if fs.fn == pr.ParseLoop || fs.fn == pr.Parse || fnPkgPath(fs.fn) != pkgRoot {
			continue
		}
		if _, summarised := helpers[fs.fn]; summarised {
			continue // its calls are pushes of the argument, judged where they stand
		}
		if _, _, ok := c.appendOne(c.resolve(fs.st.Val, nil)); !ok {
			continue
		}
		dup := false
		for _, g := range fns {
			if g == fs.fn {
				dup = true
			}
		}
		if !dup {
			fns = append(fns, fs.fn)
		}
	}
	for _, fn := range fns {
		fn := fn
		// mutators: module functions that (transitively) store to stack/nonTerminals
		mut := c.fieldWriters(pr.StackF, pr.NTF)
		type state map[string]bool // nil = TOP (unvisited)
		in := make([]state, len(fn.Blocks))
		out := make([]state, len(fn.Blocks))
		edgeGen := func(from *ssa.BasicBlock, succIdx int) []string {
			iff, ok := from.Instrs[len(from.Instrs)-1].(*ssa.If)
			if !ok {
				return nil
			}
			pol := succIdx == 0
			cond := ssa.Value(iff.Cond)
			for {
				if u, ok := cond.(*ssa.UnOp); ok && u.Op == token.NOT {
					cond = u.X
					pol = !pol
					continue
				}
				break
			}
			if bo, isCmp := cond.(*ssa.BinOp); isCmp && (bo.Op == token.EQL || bo.Op == token.NEQ) {
				// `switch p.decide(next) { case actionShift: …`: the verdict of the shift predicate read through a
				// classifying helper — every path of the helper that returns this constant has asked the predicate
				// about the helper's own parameter and got "shift"
				if bo.Op == token.NEQ {
					pol = !pol
				}
				if !pol {
					return nil
				}
				var hc *ssa.Call
				var k *ssa.Const
				for _, side := range []ssa.Value{bo.X, bo.Y} {
					if cl, isCall := side.(*ssa.Call); isCall && cl.Call.StaticCallee() != nil && inModule(cl.Call.StaticCallee()) {
						hc = cl
					}
					if kc, isConst := side.(*ssa.Const); isConst {
						k = kc
					}
				}
				if hc == nil || k == nil {
					return nil
				}
				g := hc.Call.StaticCallee()
				vs := c.valueSummaryOf(g)
				sets := vs.byConst[c.constName(k)]
				if !vs.ok || len(sets) == 0 {
					return nil
				}
				argIdx := -1
				for _, set := range sets {
					found := -1
					for _, a := range set {
						if a.Kind == "call" && a.Pos && a.Fn == pr.ShouldShift && len(a.Args) > 0 {
							if prm, isP := c.resolve(a.Args[len(a.Args)-1], nil).(*ssa.Parameter); isP {
								for i, gp := range g.Params {
									if gp == prm {
										found = i
									}
								}
							}
						}
					}
					if found < 0 || argIdx >= 0 && argIdx != found {
						return nil
					}
					argIdx = found
				}
				if argIdx < 0 || argIdx >= len(hc.Call.Args) {
					return nil
				}
				return []string{c.key(hc.Call.Args[argIdx], nil)}
			}
			call, ok := cond.(*ssa.Call)
			if !ok || call.Call.StaticCallee() != pr.ShouldShift || !pol {
				return nil
			}
			arg := call.Call.Args[len(call.Call.Args)-1]
			return []string{c.key(arg, nil)}
		}
		isPeek := func(k string) bool { return lexPeek != nil && strings.Contains(k, "Peek(") }
		transfer := func(b *ssa.BasicBlock, s state, record bool) state {
			cur := state{}
			for k := range s {
				cur[k] = true
			}
			for _, ins := range b.Instrs {
				var elem ssa.Value
				switch x := ins.(type) {
				case *ssa.Call:
					if f := x.Call.StaticCallee(); f != nil {
						if pi, isPush := helpers[f]; isPush && pi < len(x.Call.Args) {
							elem = x.Call.Args[pi]
						} else if mut[f] {
							cur = state{}
						}
					}
				case *ssa.Store:
					if fa, ok := x.Addr.(*ssa.FieldAddr); ok && fieldVar(fa.X.Type(), fa.Field) == pr.NTF {
						if _, e, ok := c.appendOne(c.resolve(x.Val, nil)); ok {
							elem = e
						}
					}
				}
				if elem != nil {
					x := ins
					{
						{
							tok := c.resolve(elem, nil)
							if record {
								k := c.key(tok, nil)
								checked := cur[k]
								if !checked {
									// token obtained from the shift method ≙ the peeked token (LEX-PEEK)
									if call, ok := tok.(*ssa.Call); ok && call.Call.StaticCallee() == pr.ShiftM {
										for ck := range cur {
											if isPeek(ck) {
												checked = true
											}
										}
									}
								}
								key := fmt.Sprintf("%s|push(%s)", fnName(fn), c.tokDesc(tok))
								if checked {
									r.ok(rule, key, c.instrPos(x), "Checked on all paths")
								} else {
									r.badW(rule, key, c.instrPos(x),
										"a token is pushed onto nonTerminals on a path where the shift predicate has not (since the last reduction) said that it may be shifted: pending reductions of tighter-binding operators are skipped, so the token captures operands it should not",
										"`NOT a:b c:d` parses as NOT(a:b AND c:d); `a:b c:d e:f` associates to the right")
								}
								pushes = append(pushes, push{x, tok, fn})
							}
							cur = state{}
						}
					}
				}
			}
			return cur
		}
		// must-analysis fixpoint (intersection at joins)
		changed := true
		for iter := 0; changed && iter < 100; iter++ {
			changed = false
			for _, b := range fn.Blocks {
				var s state
				if b.Index == 0 {
					s = state{}
				} else {
					first := true
					for _, p := range b.Preds {
						po := out[p.Index]
						if po == nil {
							continue // TOP
						}
						pe := state{}
						for k := range po {
							pe[k] = true
						}
						for si, succ := range p.Succs {
							if succ == b {
								// when both successors are b, no edge fact
								if len(p.Succs) == 2 && p.Succs[0] == p.Succs[1] {
									continue
								}
								for _, g := range edgeGen(p, si) {
									pe[g] = true
								}
							}
						}
						if first {
							s = pe
							first = false
						} else {
							for k := range s {
								if !pe[k] {
									delete(s, k)
								}
							}
						}
					}
					if first {
						continue
					}
				}
				in[b.Index] = s
				o := transfer(b, s, false)
				if out[b.Index] == nil || len(out[b.Index]) != len(o) {
					changed = true
				} else {
					for k := range o {
						if !out[b.Index][k] {
							changed = true
						}
					}
				}
				out[b.Index] = o
			}
		}
		for _, b := range fn.Blocks {
			if in[b.Index] != nil {
				transfer(b, in[b.Index], true)
			}
		}
	}
	r.floor(rule, "token push sites", len(pushes), 2)

	// IMPL-AND: every pushed token that is not the shifted one is a literal whose Typ is TAnd
	for _, p := range pushes {
		if call, ok := p.tok.(*ssa.Call); ok && call.Call.StaticCallee() == pr.ShiftM {
			continue
		}
		typ := c.localTokenTyp(p.tok)
		key := fmt.Sprintf("%s|injected-token", fnName(p.fn))
		if typ == "lex.TAnd" {
			r.ok("IMPL-AND", key, c.instrPos(p.st), "injected token has Typ TAnd")
		} else {
			r.bad("IMPL-AND", key, c.instrPos(p.st), "the token injected for juxtaposition must be an AND token (Typ TAnd); found "+typ)
		}
	}
	r.doc("IMPL-AND", "the token injected between juxtaposed operands is a literal with Typ == TAnd, so the AND row/column of the precedence table and the `E AND E` production apply to it")
}

func (c *Ctx) tokDesc(tok ssa.Value) string {
	if call, ok := tok.(*ssa.Call); ok && call.Call.StaticCallee() != nil {
		return "shifted"
	}
	if t := c.localTokenTyp(tok); t != "" {
		return "injected:" + t
	}
	return "other"
}

// localTokenTyp: tok is a load of a local lex.Token literal; returns the constant stored in Typ.
func (c *Ctx) localTokenTyp(tok ssa.Value) string {
	u, ok := tok.(*ssa.UnOp)
	if !ok {
		return ""
	}
	a, ok := u.X.(*ssa.Alloc)
	if !ok {
		return ""
	}
	res := ""
	for _, ref := range *a.Referrers() {
		if fa, ok := ref.(*ssa.FieldAddr); ok && fieldName(fa.X.Type(), fa.Field) == "Typ" {
			for _, r2 := range *fa.Referrers() {
				if st, ok := r2.(*ssa.Store); ok {
					if k, ok := st.Val.(*ssa.Const); ok {
						if res != "" {
							return "multiple"
						}
						res = c.constName(k)
					} else {
						return "non-constant"
					}
				}
			}
		}
	}
	return res
}

// fieldWriters: module functions that store to any of the given fields, directly or transitively.
func (c *Ctx) fieldWriters(fields ...*types.Var) map[*ssa.Function]bool {
	direct := map[*ssa.Function]bool{}
	for _, fs := range c.storesToFields(fields...) {
		direct[fs.fn] = true
	}
	out := map[*ssa.Function]bool{}
	for f := range direct {
		out[f] = true
	}
	for changed := true; changed; {
		changed = false
		for _, f := range c.Funcs {
			if out[f] {
				continue
			}
			for _, b := range f.Blocks {
				for _, in := range b.Instrs {
					if call, ok := in.(ssa.CallInstruction); ok {
						if sc := staticCallee(call); sc != nil && out[sc] {
							out[f] = true
							changed = true
						}
					}
				}
			}
		}
	}
	return out
}

// ACCEPT (C06) and the acceptance-case default-field rule (C11).
func ruleACCEPT(c *Ctx, r *Report) {
	const rule = "ACCEPT"
	r.doc(rule, "every success return of the parse loop is dominated by: Peek().Typ == TEOF, len(stack) == 1 and a successful assertion of stack[0] to *expr.Expression; the value returned is that element (or the documented default-field wrapping of it)")
	pr := c.parserPreamble(r, rule)
	if pr == nil {
		return
	}
	paths, complete := c.enumPathsTail(pr.ParseLoop, 5000)
	if !complete {
		r.bad(rule, "paths", "-", "too many paths in the parse loop")
		return
	}
	n := 0
	for _, p := range paths {
		if p.Ret == nil || len(p.Ret.Results) != 2 || !isNilConst(c.resolve(p.Ret.Results[1], p.Env)) {
			continue
		}
		n++
		at := c.expand(p.Atoms, p.Env)
		pos := c.instrPos(p.Ret)
		var eof, one, asserted bool
		for _, a := range at {
			if a.Kind == "cmp" && a.Op == "==" && a.Val == "lex.TEOF" && strings.HasSuffix(a.Subj, ".Typ") && strings.Contains(a.Subj, "Peek(") {
				eof = true
			}
			if a.Kind == "len" && a.Subj == "$0."+pr.StackF.Name() {
				lo, hi := lenRange(at, a.Subj)
				if lo == 1 && hi == 1 {
					one = true
				}
			}
			if a.Kind == "type" && a.Pos && a.Val == "*expr.Expression" && a.Subj == "$0."+pr.StackF.Name()+"[0]" {
				asserted = true
			}
		}
		res := c.key(p.Ret.Results[0], p.Env)
		okRes := strings.Contains(res, "$0."+pr.StackF.Name()+"[0].(*expr.Expression)")
		key := fmt.Sprintf("%s|success-return", fnName(pr.ParseLoop))
		switch {
		case !eof:
			r.bad(rule, key+"|eof", pos, "the parse loop can return success without the next token being end-of-input (trailing tokens or a lexical error would be accepted)")
		case !one:
			r.bad(rule, key+"|one", pos, "the parse loop can return success with other than exactly one element on the stack (unreduced material would be dropped)")
		case !asserted:
			r.bad(rule, key+"|expr", pos, "the parse loop can return success without the remaining element being an expression")
		case !okRes:
			r.bad(rule, key+"|value", pos, "the value returned on success is not derived from the single remaining stack element: "+res)
		default:
			r.ok(rule, fmt.Sprintf("%s|%d", key, n), pos, "EOF ∧ len==1 ∧ asserted")
		}
	}
	r.floor(rule, "success returns", n, 1)
}

func ruleDFACCEPT(c *Ctx, r *Report) {
	const rule = "DF-COVER"
	pr := c.parserPreamble(r, rule)
	if pr == nil {
		return
	}
	paths, _ := c.enumPathsTail(pr.ParseLoop, 5000)
	ops := c.operatorConsts()
	wraps := false
	var badPos string
	var badKinds []string
	for _, p := range paths {
		if p.Ret == nil || len(p.Ret.Results) != 2 || !isNilConst(c.resolve(p.Ret.Results[1], p.Env)) {
			continue
		}
		res := c.resolve(p.Ret.Results[0], p.Env)
		if call, ok := res.(*ssa.Call); ok {
			k := c.key(res, p.Env)
			if strings.Contains(k, "$0."+pr.DefF.Name()) {
				wraps = true
				fieldSet := false
				for _, a := range p.Atoms {
					if a.Kind == "cmp" && a.Subj == "$0."+pr.DefF.Name() && a.Op == "!=" && a.Val == `""` {
						fieldSet = true
					}
					if a.Kind == "len" && a.Subj == "$0."+pr.DefF.Name() && (a.Op == ">" && a.N >= 0 || a.Op == ">=" && a.N >= 1 || a.Op == "!=" && a.N == 0) {
						fieldSet = true
					}
				}
				if fieldSet {
					r.ok(rule, "accept|only-with-field", c.instrPos(p.Ret), "scoping applied under defaultField != \"\"")
				} else {
					r.bad(rule, "accept|only-with-field", c.instrPos(p.Ret), "the single-term acceptance case scopes the term on a path that has not established that a default field is configured: without the option a lone term comes back as `\"\":term`, so the option changes more than the scoping")
				}
				bops := []string{}
				if call.Call.StaticCallee() == c.pkgFunc(pkgExpr, "Expr") {
					if kk, ok := c.resolve(call.Call.Args[1], p.Env).(*ssa.Const); ok {
						bops = []string{c.constName(kk)}
					}
				} else if call.Call.StaticCallee() != nil {
					bops = c.ctorOperator(call.Call.StaticCallee())
				}
				if len(bops) == 1 && bops[0] == "expr.Equals" {
					r.ok("DF-COLUMN", "accept|ctor", c.instrPos(p.Ret), "single-term case builds Equals(defaultField, term) through the general constructor (which wraps string fields in Column)")
				} else {
					r.bad("DF-COLUMN", "accept|ctor", c.instrPos(p.Ret), fmt.Sprintf("single-term case must build an Equals node; builds %v", bops))
				}
			}
			continue
		}
		fieldEmpty := false
		possible := map[string]bool{}
		for name := range ops {
			possible["expr."+name] = true
		}
		for _, a := range p.Atoms {
			if a.Kind == "cmp" && a.Subj == "$0."+pr.DefF.Name() && a.Op == "==" && a.Val == `""` {
				fieldEmpty = true
			}
			if a.Kind == "cmp" && strings.HasSuffix(a.Subj, "[0].(*expr.Expression).Op") {
				for o := range possible {
					if a.Op == "==" && o != a.Val || a.Op == "!=" && o == a.Val {
						delete(possible, o)
					}
				}
			}
		}
		if fieldEmpty {
			continue
		}
		for _, leaf := range []string{"expr.Literal", "expr.Wild", "expr.Regexp"} {
			if possible[leaf] && !contains(badKinds, leaf) {
				badKinds = append(badKinds, leaf)
				badPos = c.instrPos(p.Ret)
			}
		}
	}
	if !wraps {
		r.bad(rule, "accept|wraps", c.pos(pr.ParseLoop.Pos()), "the single-term acceptance case never applies the default field")
		return
	}
	if len(badKinds) > 0 {
		sort.Strings(badKinds)
		for _, kind := range badKinds {
			r.bad(rule, "accept|leaf-kind|"+kind, badPos, fmt.Sprintf("a query that is a single bare term of kind %s is returned unscoped although a default field is set", kind))
		}
	} else {
		r.ok(rule, "accept|leaf-kinds", c.pos(pr.ParseLoop.Pos()), "all leaf kinds wrapped when a field is set")
	}
}

// VALIDATE-DOM (C10/C06): Parse's success return is dominated by Validate(x) == nil for the x returned.
func ruleVALIDATEDOM(c *Ctx, r *Report) {
	const rule = "VALIDATE-DOM"
	r.doc(rule, "Parse's only success return is dominated by expr.Validate(x) == nil on the same x it returns, and x is the parse loop's result under err == nil")
	pr := c.parserPreamble(r, rule)
	if pr == nil {
		return
	}
	validate := c.pkgFunc(pkgExpr, "Validate")
	paths, _ := c.enumPaths(pr.Parse, 2000)
	n := 0
	for _, p := range paths {
		if p.Ret == nil || len(p.Ret.Results) != 2 {
			continue
		}
		// a success return: the error result is the nil constant, or a value this path has found to be nil
		// (single-exit style: `if err == nil { err = Validate(x) }; if err == nil { e = x }; return e, err`)
		ev := c.resolve(p.Ret.Results[1], p.Env)
		success := isNilConst(ev)
		if !success {
			ek := c.key(ev, p.Env)
			for _, a := range p.Atoms {
				if a.Kind == "nil" && a.Pos && a.Subj == ek {
					success = true
				}
			}
		}
		if !success {
			continue
		}
		n++
		res := c.key(p.Ret.Results[0], p.Env)
		pos := c.instrPos(p.Ret)
		validated, fromLoop := false, false
		for _, a := range p.Atoms {
			if a.Kind == "nil" && a.Pos {
				bo, isBO := a.Src.(*ssa.BinOp)
				if !isBO {
					continue
				}
				if call, ok := c.resolve(bo.X, p.Env).(*ssa.Call); ok && validate != nil && call.Call.StaticCallee() == validate {
					if c.key(call.Call.Args[0], p.Env) == res {
						validated = true
					}
				}
			}
		}
		if ex, ok := c.resolve(p.Ret.Results[0], p.Env).(*ssa.Extract); ok && ex.Index == 0 {
			if call, ok := ex.Tuple.(*ssa.Call); ok && call.Call.StaticCallee() == pr.ParseLoop {
				for _, a := range p.Atoms {
					if a.Kind == "nil" && a.Pos && a.Subj == c.key(ex.Tuple, p.Env)+"#1" {
						fromLoop = true
					}
				}
			}
		}
		key := fmt.Sprintf("%s|success-return", fnName(pr.Parse))
		switch {
		case !fromLoop:
			r.bad(rule, key+"|source", pos, "Parse returns success with a value that is not the parse loop's result under a nil error: "+res)
		case !validated:
			r.bad(rule, key+"|validate", pos, "Parse can return success without expr.Validate having accepted the returned expression (malformed trees, e.g. `a:(b:c)`-style non-literal fields, would be handed to renderers that assert their shape)")
		default:
			r.ok(rule, key, pos, "Validate(x)==nil dominates return x")
		}
	}
	r.floor(rule, "success returns of Parse", n, 1)
}

// IMPL-AND-OPERAND (C07): the juxtaposition test must recognise every way an operand can end.
func ruleIMPLANDOPERAND(c *Ctx, r *Report) {
	const rule = "IMPL-AND-OPERAND"
	r.doc(rule, "on every path of the parse loop that shifts a term without injecting the AND token, the previous stack element is proven not to end an operand: the stack is empty, or its top is a token whose type excludes the closing brackets ) ] } (an expression or a closing bracket on top means two operands are adjacent)")
	pr := c.parserPreamble(r, rule)
	if pr == nil || pr.TokToLit == nil {
		return
	}
	paths, complete := c.enumPathsOpt(pr.ParseLoop, 20000, c.parserInl(pr))
	if !complete {
		r.bad(rule, "paths", "-", "too many paths")
		return
	}
	closing := []string{"lex.TRParen", "lex.TRSquare", "lex.TRCurly"}
	n, bad := 0, 0
	stackK := "$0." + pr.StackF.Name()
	topK := stackK + "[(len(" + stackK + ") - 1)]"
	for _, p := range paths {
		shiftedTerm, injected := false, false
		for _, in := range p.Instrs {
			if call, ok := in.(*ssa.Call); ok && call.Call.StaticCallee() == pr.TokToLit {
				shiftedTerm = true
			}
			if st, ok := in.(*ssa.Store); ok {
				if fa, ok := st.Addr.(*ssa.FieldAddr); ok && fieldVar(fa.X.Type(), fa.Field) == pr.NTF {
					if _, elem, ok := c.appendOne(c.resolve(st.Val, nil)); ok {
						ev := c.resolve(elem, nil)
						if prm, isParam := ev.(*ssa.Parameter); isParam && p.Env != nil {
							// the push stands in an inlined helper: the token is the caller's argument
							if bv, bound := p.Env.par[prm]; bound {
								ev = c.resolve(bv, nil)
							}
						}
						if c.localTokenTyp(ev) != "" {
							injected = true
						}
					}
				}
			}
		}
		// only paths that complete the term push (reach the back edge of the main loop, whose
		// header holds the Peek call)
		if !shiftedTerm || injected || !p.Cut || p.CutTo == nil {
			continue
		}
		mainHead := false
		for _, in := range p.CutTo.Instrs {
			if call, ok := in.(*ssa.Call); ok && call.Call.StaticCallee() == c.method(pkgLex, "Lexer", "Peek") {
				mainHead = true
			}
		}
		if !mainHead {
			continue
		}
		n++
		at := c.expand(p.Atoms, p.Env)
		_, hi := lenRange(at, stackK)
		if hi == 0 {
			continue // empty stack: nothing before the term
		}
		isTok := false
		for _, a := range at {
			if a.Kind == "type" && a.Pos && a.Subj == topK && a.Val == "lex.Token" {
				isTok = true
			}
		}
		poss := possibleToks(c, at, topK+".(lex.Token).Typ")
		var left []string
		for _, cl := range closing {
			if poss[cl] {
				left = append(left, strings.TrimPrefix(cl, "lex."))
			}
		}
		if !isTok {
			bad++
			r.bad(rule, "no-injection|top-not-token", c.pos(pr.ParseLoop.Pos()), "a term is pushed without an AND although the previous stack element may be an expression")
		} else if len(left) > 0 {
			bad++
			r.badW(rule, "no-injection|after-closing-bracket", c.pos(pr.ParseLoop.Pos()),
				fmt.Sprintf("a term that follows a closing bracket (%s) is pushed without the implicit AND: the group or range before it and the term are adjacent operands, but no operator is injected, so the query fails to parse although the same text with an explicit AND parses", strings.Join(left, ", ")),
				"`(a OR b) c` and `a:[1 TO 5] b` are rejected; `(a OR b) AND c` parses")
		}
	}
	if bad == 0 {
		r.ok(rule, "no-injection-paths", c.pos(pr.ParseLoop.Pos()), fmt.Sprintf("%d term-shift paths without injection all have a non-operand on top", n))
	}
	r.floor(rule, "term-shift paths without injection", n, 1)
}

// PARSE-STATE (C09, C05, C06): what the parser remembers of the input it has seen is on its two stacks.
func rulePARSESTATE(c *Ctx, r *Report) {
	const rule = "PARSE-STATE"
	r.doc(rule, "no field of the parser other than the two stacks accumulates over the parse: in the functions reachable from the parse loop, no store to another parser field computes the new value from the field's old value (a counter, a depth, a growing list). Decisions that depend on such a field depend on how many shifts and reductions happened — redundant parentheses, which cost a reduction and leave the stacks as they were, would then change the outcome")
	pr := c.parserPreamble(r, rule)
	if pr == nil {
		return
	}
	st, ok := pr.Type.Underlying().(*types.Struct)
	if !ok {
		r.bad(rule, "anchor", "-", "parser type is not a struct")
		return
	}
	reach := c.reachFrom([]*ssa.Function{pr.ParseLoop})
	n := 0
	for i := 0; i < st.NumFields(); i++ {
		f := st.Field(i)
		if f == pr.StackF || f == pr.NTF {
			continue
		}
		for _, fs := range c.storesToFields(f) {
			if !reach[fs.fn] || fs.fn == pr.Parse {
				continue
			}
			n++
			key := fmt.Sprintf("%s|%s", fnName(fs.fn), f.Name())
			if c.dependsOnField(fs.st.Val, f, 0, map[ssa.Value]bool{}) {
				r.bad(rule, key, c.instrPos(fs.st), fmt.Sprintf("%s updates parser.%s from its own previous value: the parser accumulates state outside its stacks (a count of reductions, a depth, …), so whatever is decided from it depends on how the query was spelled, not only on what it means — `(a) AND (b)` costs more reductions than `a AND b`", fnName(fs.fn), f.Name()))
			} else {
				r.ok(rule, key, c.instrPos(fs.st), "overwritten with a value that does not depend on its previous one")
			}
		}
	}
	r.ok(rule, "fields-examined", "-", fmt.Sprintf("%d parser fields, %d stores to fields other than the stacks in the parse loop's reach", st.NumFields(), n))
}

// dependsOnField: the value is computed (within its function) from a load of the given struct field.
func (c *Ctx) dependsOnField(v ssa.Value, f *types.Var, depth int, seen map[ssa.Value]bool) bool {
	if v == nil || depth > 12 || seen[v] {
		return false
	}
	seen[v] = true
	if ld, ok := v.(*ssa.UnOp); ok && ld.Op == token.MUL {
		if fa, ok := ld.X.(*ssa.FieldAddr); ok && fieldVar(fa.X.Type(), fa.Field) == f {
			return true
		}
	}
	if in, ok := v.(ssa.Instruction); ok {
		for _, op := range in.Operands(nil) {
			if *op != nil && c.dependsOnField(*op, f, depth+1, seen) {
				return true
			}
		}
	}
	return false
}

// REDUCE-ONCE (C05, C09, C07): one call of the parser's reduce method performs one reduction.
func ruleREDUCEONCE(c *Ctx, r *Report) {
	const rule = "REDUCE-ONCE"
	r.doc(rule, "in the parser's reduce method every path on which reduce.Reduce has reported a successful reduction returns — it does not go round the loop again: how far the stack is reduced before the next token is looked at is decided by the parse loop through the shift predicate (REDUCE-SITES), one reduction at a time; a second reduction in the same call is made without consulting the lookahead, so `NOT (a)^2` and `NOT a^2` group differently")
	pr := c.parserPreamble(r, rule)
	if pr == nil || pr.ReduceM == nil {
		return
	}
	reduceFn := c.pkgFunc(pkgReduce, "Reduce")
	paths, complete := c.enumPaths(pr.ReduceM, 5000)
	if !complete {
		r.bad(rule, "paths", c.pos(pr.ReduceM.Pos()), "too many paths")
		return
	}
	n := 0
	for _, p := range paths {
		succeeded := false
		for _, a := range p.Atoms {
			if a.Kind != "bool" || !a.Pos {
				continue
			}
			if ex, ok := c.resolve(a.Src, p.Env).(*ssa.Extract); ok {
				if call, ok := ex.Tuple.(*ssa.Call); ok && call.Call.StaticCallee() == reduceFn && ex.Index == 2 {
					succeeded = true
				}
			}
		}
		if !succeeded {
			continue
		}
		n++
		key := fnName(pr.ReduceM) + "|after-success"
		if p.Ret != nil {
			r.ok(rule, key, c.instrPos(p.Ret), "returns after the reduction")
		} else {
			pos := c.pos(pr.ReduceM.Pos())
			if p.CutTo != nil && len(p.CutTo.Instrs) > 0 {
				pos = c.instrPos(p.CutTo.Instrs[0])
			}
			r.bad(rule, key+"|continues", pos, fnName(pr.ReduceM)+" goes round its loop again after a successful reduction: the next reduction is made without the parse loop having asked the shift predicate about the lookahead token, so operators that bind tighter than the pending one (a ^ or ~ after a closed group under NOT, + or -) are applied to the wrong operand")
		}
	}
	r.floor(rule, "paths through a successful reduction", n, 1)
}
