package main

// Role resolution (DESIGN 2.2): unexported anchors are found by how they are reached, not by name.

import (
	"go/types"

	"golang.org/x/tools/go/ssa"
)

type ParserRoles struct {
	Type        *types.Named
	Struct      *types.Struct
	StackF      *types.Var // []any
	NTF         *types.Var // []lex.Token
	DefF        *types.Var // string
	LexF        *types.Var // *lex.Lexer
	ParseLoop   *ssa.Function
	ReduceM     *ssa.Function
	ShouldShift *ssa.Function
	ShiftM      *ssa.Function
	Accept      *ssa.Function // may be nil if inlined
	TokToLit    *ssa.Function // token -> literal expression
	Parse       *ssa.Function
	Err         string
}

func (c *Ctx) calls(f *ssa.Function, target *ssa.Function) bool {
	if f == nil || target == nil {
		return false
	}
	for _, b := range f.Blocks {
		for _, in := range b.Instrs {
			if call, ok := in.(ssa.CallInstruction); ok && staticCallee(call) == target {
				return true
			}
		}
	}
	return false
}

func (c *Ctx) callsTransitively(f, target *ssa.Function, depth int, seen map[*ssa.Function]bool) bool {
	if f == nil || target == nil || depth < 0 || seen[f] {
		return false
	}
	seen[f] = true
	for _, b := range f.Blocks {
		for _, in := range b.Instrs {
			if call, ok := in.(ssa.CallInstruction); ok {
				sc := staticCallee(call)
				if sc == target {
					return true
				}
				if sc != nil && inModule(sc) && c.callsTransitively(sc, target, depth-1, seen) {
					return true
				}
			}
		}
	}
	return false
}

func (c *Ctx) parserRoles() *ParserRoles {
	if r, ok := c.roles["parser"]; ok {
		return r.(*ParserRoles)
	}
	r := c.parserRoles0()
	c.roles["parser"] = r
	return r
}

func (c *Ctx) parserRoles0() *ParserRoles {
	pr := &ParserRoles{}
	pkg := c.Pkgs[pkgRoot]
	lexNext := c.method(pkgLex, "Lexer", "Next")
	lexPeek := c.method(pkgLex, "Lexer", "Peek")
	reduceFn := c.pkgFunc(pkgReduce, "Reduce")
	hasLess := c.pkgFunc(pkgLex, "HasLessPrecedence")
	pr.Parse = c.pkgFunc(pkgRoot, "Parse")
	if lexNext == nil || lexPeek == nil || reduceFn == nil || hasLess == nil || pr.Parse == nil {
		pr.Err = "exported anchors missing (Lexer.Next/Peek, reduce.Reduce, lex.HasLessPrecedence, Parse)"
		return pr
	}
	// the parser type: struct in the root package with a []any, a []lex.Token and a *lex.Lexer field
	sc := pkg.Types.Scope()
	for _, n := range sc.Names() {
		tn, ok := sc.Lookup(n).(*types.TypeName)
		if !ok {
			continue
		}
		nt, ok := tn.Type().(*types.Named)
		if !ok {
			continue
		}
		st, ok := nt.Underlying().(*types.Struct)
		if !ok {
			continue
		}
		var stack, ntf, df, lf *types.Var
		for i := 0; i < st.NumFields(); i++ {
			f := st.Field(i)
			switch ft := f.Type().(type) {
			case *types.Slice:
				if isEmptyInterface(ft.Elem()) {
					stack = f
				} else if isNamed(ft.Elem(), pkgLex, "Token") {
					ntf = f
				}
			case *types.Pointer:
				if isNamed(ft.Elem(), pkgLex, "Lexer") {
					lf = f
				}
			case *types.Basic:
				if ft.Kind() == types.String {
					df = f
				}
			}
		}
		if stack != nil && ntf != nil && lf != nil {
			if pr.Type != nil {
				pr.Err = "more than one parser-like struct"
				return pr
			}
			pr.Type, pr.Struct, pr.StackF, pr.NTF, pr.DefF, pr.LexF = nt, st, stack, ntf, df, lf
		}
	}
	if pr.Type == nil {
		pr.Err = "parser struct (with []any stack, []lex.Token stack, *lex.Lexer) not found"
		return pr
	}
	for _, f := range c.Funcs {
		if fnPkgPath(f) != pkgRoot || f.Parent() != nil {
			continue
		}
		recv := f.Signature.Recv()
		isM := false
		if recv != nil {
			t := recv.Type()
			if p, ok := t.(*types.Pointer); ok {
				t = p.Elem()
			}
			isM = types.Identical(t, pr.Type)
		}
		if isM {
			if c.calls(f, lexPeek) {
				pr.ParseLoop = f
			}
			if c.calls(f, reduceFn) {
				pr.ReduceM = f
			}
			if c.calls(f, lexNext) && !c.calls(f, lexPeek) && f.Signature.Params().Len() == 0 {
				pr.ShiftM = f
			}
			ps, rs := f.Signature.Params(), f.Signature.Results()
			if ps.Len() == 1 && rs.Len() == 1 && isNamed(ps.At(0).Type(), pkgLex, "Token") && isBool(rs.At(0).Type()) {
				if c.callsTransitively(f, hasLess, 3, map[*ssa.Function]bool{}) {
					pr.ShouldShift = f
				} else {
					pr.Accept = f
				}
			}
		} else if recv == nil {
			// token -> literal: func(lex.Token) (any|*Expression, error)
			ps, rs := f.Signature.Params(), f.Signature.Results()
			if ps.Len() == 1 && rs.Len() == 2 && isNamed(ps.At(0).Type(), pkgLex, "Token") && isErrorType(rs.At(1).Type()) {
				pr.TokToLit = f
			}
		}
	}
	if pr.ShiftM == nil {
		pr.ShiftM = lexNext // the parse loop reads tokens with Lexer.Next directly
	}
	if pr.ParseLoop == nil || pr.ReduceM == nil || pr.ShouldShift == nil {
		pr.Err = "parser methods not resolved (parse loop / reduce / shift predicate)"
	}
	return pr
}

func isEmptyInterface(t types.Type) bool {
	i, ok := t.Underlying().(*types.Interface)
	return ok && i.NumMethods() == 0
}

func isBool(t types.Type) bool {
	b, ok := t.Underlying().(*types.Basic)
	return ok && b.Kind() == types.Bool
}

func isErrorType(t types.Type) bool {
	return types.Identical(t, types.Universe.Lookup("error").Type())
}

// fieldAddrOf: v is &X.f for the given field variable; returns X.
func fieldAddrOf(v ssa.Value, f *types.Var) (ssa.Value, bool) {
	fa, ok := v.(*ssa.FieldAddr)
	if !ok {
		return nil, false
	}
	if fieldVar(fa.X.Type(), fa.Field) == f {
		return fa.X, true
	}
	return nil, false
}

// isFieldLoad: v is a load *(&X.f).
func isFieldLoad(v ssa.Value, f *types.Var) bool {
	u, ok := v.(*ssa.UnOp)
	if !ok {
		return false
	}
	_, ok = fieldAddrOf(u.X, f)
	return ok
}

// DriverRoles: the two renderers, the two serialisers, and isSimple, resolved by signature/callers.
type DriverRoles struct {
	Base        *types.Named
	Render      *ssa.Function
	RenderParam *ssa.Function
	Ser         *ssa.Function // inline serialiser: method (any) (string, error) called by Render
	SerParam    *ssa.Function // parameterized: method (any) (string, []any, error) called by RenderParam
	IsSimple    *ssa.Function
	RangeParam  *ssa.Function // called by RenderParam with (string,string,[]any) in the Range branch
	LikeParam   *ssa.Function
	Err         string
}

func (c *Ctx) driverRoles() *DriverRoles {
	if r, ok := c.roles["driver"]; ok {
		return r.(*DriverRoles)
	}
	dr := &DriverRoles{}
	c.roles["driver"] = dr
	dr.Base = c.namedType(pkgDriver, "Base")
	dr.Render = c.method(pkgDriver, "Base", "Render")
	dr.RenderParam = c.method(pkgDriver, "Base", "RenderParam")
	if dr.Base == nil || dr.Render == nil || dr.RenderParam == nil {
		dr.Err = "driver.Base / Render / RenderParam not found"
		return dr
	}
	for _, f := range c.Funcs {
		if fnPkgPath(f) != pkgDriver || f.Parent() != nil {
			continue
		}
		ps, rs := f.Signature.Params(), f.Signature.Results()
		if f.Signature.Recv() != nil {
			if ps.Len() == 1 && isEmptyInterface(ps.At(0).Type()) {
				switch {
				case rs.Len() == 2 && isStringType(rs.At(0).Type()) && isErrorType(rs.At(1).Type()) && c.calls(dr.Render, f):
					dr.Ser = f
				case rs.Len() == 3 && isStringType(rs.At(0).Type()) && isErrorType(rs.At(2).Type()) && c.calls(dr.RenderParam, f):
					dr.SerParam = f
				case rs.Len() == 1 && isBool(rs.At(0).Type()) && c.callsTransitively(dr.Render, f, 2, map[*ssa.Function]bool{}):
					dr.IsSimple = f
				}
			}
			continue
		}
		if ps.Len() == 1 && isEmptyInterface(ps.At(0).Type()) && rs.Len() == 1 && isBool(rs.At(0).Type()) && c.callsTransitively(dr.Render, f, 2, map[*ssa.Function]bool{}) {
			dr.IsSimple = f
		}
		if ps.Len() == 3 && rs.Len() == 2 && isStringType(ps.At(0).Type()) && isStringType(ps.At(1).Type()) && c.calls(dr.RenderParam, f) {
			// distinguish by the operator branch the call sits in
			for _, b := range dr.RenderParam.Blocks {
				for _, in := range b.Instrs {
					if call, ok := in.(*ssa.Call); ok && call.Call.StaticCallee() == f {
						for _, a := range c.domAtoms(b) {
							if a.Kind == "cmp" && a.Op == "==" && a.Val == "expr.Range" {
								dr.RangeParam = f
							}
							if a.Kind == "cmp" && a.Op == "==" && a.Val == "expr.Like" {
								dr.LikeParam = f
							}
						}
					}
				}
			}
		}
	}
	if dr.Ser == nil || dr.SerParam == nil {
		dr.Err = "serialisers not resolved"
	}
	return dr
}

// serKeep: functions never inlined when the driver's code is read path by path — the two renderers, the
// two serialisers, and any driver method with a serialiser's signature (a wrapper that stands for "the
// serialisation of this operand", e.g. one that special-cases an unbounded range end).
func (c *Ctx) serKeep() []*ssa.Function {
	dr := c.driverRoles()
	out := []*ssa.Function{dr.Render, dr.RenderParam, dr.Ser, dr.SerParam}
	for _, f := range c.Funcs {
		if fnPkgPath(f) != pkgDriver || f.Parent() != nil || f.Signature.Recv() == nil || f == dr.Ser || f == dr.SerParam {
			continue
		}
		for _, s := range []*ssa.Function{dr.Ser, dr.SerParam} {
			if s != nil && types.Identical(f.Signature.Params(), s.Signature.Params()) && types.Identical(f.Signature.Results(), s.Signature.Results()) {
				out = append(out, f)
			}
		}
	}
	return out
}
