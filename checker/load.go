package main

// A1/A2: loader, SSA program, and lookup helpers. The repository's working tree is
// re-loaded and re-type-checked on every invocation; nothing is cached between runs.

import (
	"fmt"
	"go/token"
	"go/types"
	"os"
	"sort"
	"strings"

	"golang.org/x/tools/go/packages"
	"golang.org/x/tools/go/ssa"
	"golang.org/x/tools/go/ssa/ssautil"
)

const modPath = "github.com/grindlemire/go-lucene"

const (
	pkgRoot   = modPath
	pkgLex    = modPath + "/internal/lex"
	pkgReduce = modPath + "/pkg/lucene/reduce"
	pkgExpr   = modPath + "/pkg/lucene/expr"
	pkgDriver = modPath + "/pkg/driver"
	pkgCmd    = modPath + "/cmd"
)

var libPkgs = []string{pkgRoot, pkgLex, pkgReduce, pkgExpr, pkgDriver}

// Ctx is everything the rules need about the loaded program.
type Ctx struct {
	Repo      string
	Fset      *token.FileSet
	Pkgs      map[string]*packages.Package
	Prog      *ssa.Program
	SSA       map[string]*ssa.Package
	Funcs     []*ssa.Function   // all source functions of the module (incl. closures, instantiations)
	phiBusy   map[*ssa.Phi]bool // phiBoolAtoms: phis being read (loop-carried booleans)
	okGuardAt ssa.Instruction   // NIL-TYPED: the use site whose dominating tests may guard a helper's comma-ok result

	roles        map[string]any // memoised role resolutions
	cycleMemo    map[*ssa.Function]bool
	resolveDepth int
	ctxEnv       *env // calling-context bindings in force (panic-site lifting); used wherever a nil env is passed
}

func loadRepo(repo string) (*Ctx, error) {
	env := append(os.Environ(),
		"GOWORK=off", "GOFLAGS=-mod=mod", "GOPROXY=off", "GOSUMDB=off", "GOTOOLCHAIN=local")
	cfg := &packages.Config{
		Mode:  packages.LoadAllSyntax,
		Dir:   repo,
		Env:   env,
		Tests: false,
	}
	pkgs, err := packages.Load(cfg, "./...")
	if err != nil {
		return nil, fmt.Errorf("packages.Load: %v", err)
	}
	if len(pkgs) == 0 {
		return nil, fmt.Errorf("no packages loaded from %s", repo)
	}
	c := &Ctx{Repo: repo, Pkgs: map[string]*packages.Package{}, SSA: map[string]*ssa.Package{}, roles: map[string]any{}}
	var errs []string
	packages.Visit(pkgs, nil, func(p *packages.Package) {
		if strings.HasPrefix(p.PkgPath, modPath) {
			for _, e := range p.Errors {
				errs = append(errs, e.Error())
			}
			if len(p.IgnoredFiles) > 0 {
				// coverage = what the build covers: build-tagged or otherwise ignored files
				// would be outside the analysis.
				for _, f := range p.IgnoredFiles {
					if strings.HasSuffix(f, ".go") {
						errs = append(errs, "ignored Go file (build constraints?) not analysed: "+f)
					}
				}
			}
		}
	})
	if len(errs) > 0 {
		return nil, fmt.Errorf("load/type errors:\n  %s", strings.Join(errs, "\n  "))
	}
	for _, p := range pkgs {
		c.Pkgs[p.PkgPath] = p
		c.Fset = p.Fset
	}
	for _, want := range libPkgs {
		if c.Pkgs[want] == nil {
			return nil, fmt.Errorf("library package %s not loaded (got %d packages)", want, len(pkgs))
		}
	}
	prog, spkgs := ssautil.AllPackages(pkgs, ssa.InstantiateGenerics)
	prog.Build()
	c.Prog = prog
	for i, sp := range spkgs {
		if sp != nil {
			c.SSA[pkgs[i].PkgPath] = sp
		}
	}
	// also index dependency packages reachable in the program (e.g. lex when only root listed)
	for _, sp := range prog.AllPackages() {
		if strings.HasPrefix(sp.Pkg.Path(), modPath) {
			c.SSA[sp.Pkg.Path()] = sp
		}
	}
	for fn := range ssautil.AllFunctions(prog) {
		if fn.Pkg != nil && strings.HasPrefix(fn.Pkg.Pkg.Path(), modPath) && fn.Blocks != nil {
			c.Funcs = append(c.Funcs, fn)
		} else if fn.Pkg == nil && fn.Origin() != nil && fn.Origin().Pkg != nil &&
			strings.HasPrefix(fn.Origin().Pkg.Pkg.Path(), modPath) && fn.Blocks != nil {
			c.Funcs = append(c.Funcs, fn) // generic instantiation
		}
	}
	sort.Slice(c.Funcs, func(i, j int) bool { return fnName(c.Funcs[i]) < fnName(c.Funcs[j]) })
	return c, nil
}

// fnPkgPath returns the package path of a function (origin's for instantiations, parent's for closures).
func fnPkgPath(fn *ssa.Function) string {
	for f := fn; f != nil; f = f.Parent() {
		if f.Pkg != nil {
			return f.Pkg.Pkg.Path()
		}
		if o := f.Origin(); o != nil && o.Pkg != nil {
			return o.Pkg.Pkg.Path()
		}
	}
	return ""
}

func inModule(fn *ssa.Function) bool {
	return fn != nil && strings.HasPrefix(fnPkgPath(fn), modPath)
}

func inLib(fn *ssa.Function) bool {
	p := fnPkgPath(fn)
	for _, l := range libPkgs {
		if p == l {
			return true
		}
	}
	return false
}

// fnName is a stable, types-qualified short name: pkgshort.[Recv.]Name[$n]
func fnName(fn *ssa.Function) string {
	if fn == nil {
		return "<nil>"
	}
	p := fnPkgPath(fn)
	short := p
	if i := strings.LastIndex(p, "/"); i >= 0 {
		short = p[i+1:]
	}
	if p == pkgRoot {
		short = "lucene"
	}
	name := fn.Name()
	if fn.Parent() != nil {
		return fnName(fn.Parent()) + "$" + strings.TrimPrefix(name, fn.Parent().Name()+"$")
	}
	if recv := fn.Signature.Recv(); recv != nil {
		t := recv.Type()
		ptr := ""
		if pt, ok := t.(*types.Pointer); ok {
			t = pt.Elem()
			ptr = "*"
		}
		if n, ok := t.(*types.Named); ok {
			return short + ".(" + ptr + n.Obj().Name() + ")." + name
		}
	}
	return short + "." + name
}

func (c *Ctx) pos(p token.Pos) string {
	if !p.IsValid() {
		return "-"
	}
	pp := c.Fset.Position(p)
	f := pp.Filename
	if rel := strings.TrimPrefix(f, c.Repo+"/"); rel != f {
		f = rel
	}
	return fmt.Sprintf("%s:%d:%d", f, pp.Line, pp.Column)
}

// instrPos finds a usable position for an instruction (falls back to operands / block neighbours).
func (c *Ctx) instrPos(in ssa.Instruction) string {
	if in == nil {
		return "-"
	}
	if in.Pos().IsValid() {
		return c.pos(in.Pos())
	}
	for _, op := range in.Operands(nil) {
		if *op != nil && (*op).Pos().IsValid() {
			return c.pos((*op).Pos())
		}
	}
	if b := in.Block(); b != nil {
		for _, o := range b.Instrs {
			if o.Pos().IsValid() {
				return c.pos(o.Pos())
			}
		}
		return c.pos(b.Parent().Pos())
	}
	return "-"
}

// pkgFunc returns a package-level function by name, or nil.
func (c *Ctx) pkgFunc(pkg, name string) *ssa.Function {
	sp := c.SSA[pkg]
	if sp == nil {
		return nil
	}
	return sp.Func(name)
}

// method returns the method `name` of named type `typ` in pkg (pointer or value receiver).
func (c *Ctx) method(pkg, typ, name string) *ssa.Function {
	sp := c.SSA[pkg]
	if sp == nil {
		return nil
	}
	t := sp.Type(typ)
	if t == nil {
		return nil
	}
	nt := t.Type()
	for _, T := range []types.Type{nt, types.NewPointer(nt)} {
		ms := c.Prog.MethodSets.MethodSet(T)
		for i := 0; i < ms.Len(); i++ {
			sel := ms.At(i)
			if sel.Obj().Name() == name {
				fn := c.Prog.MethodValue(sel)
				if fn != nil && fn.Synthetic == "" {
					return fn
				}
				// wrapper: find the declared method
				if f, ok := sel.Obj().(*types.Func); ok {
					if d := c.Prog.FuncValue(f); d != nil {
						return d
					}
				}
			}
		}
	}
	return nil
}

func (c *Ctx) namedType(pkg, name string) *types.Named {
	p := c.Pkgs[pkg]
	if p == nil {
		return nil
	}
	o := p.Types.Scope().Lookup(name)
	if o == nil {
		return nil
	}
	n, _ := o.Type().(*types.Named)
	return n
}

// constsOfType lists the package-level constants of the named type, name -> value.
func (c *Ctx) constsOfType(pkg, typ string) map[string]int64 {
	out := map[string]int64{}
	p := c.Pkgs[pkg]
	if p == nil {
		return out
	}
	nt := c.namedType(pkg, typ)
	if nt == nil {
		return out
	}
	sc := p.Types.Scope()
	for _, n := range sc.Names() {
		if k, ok := sc.Lookup(n).(*types.Const); ok && types.Identical(k.Type(), nt) {
			if v, ok := constInt(k); ok {
				out[n] = v
			}
		}
	}
	return out
}

func constInt(k *types.Const) (int64, bool) {
	v := k.Val()
	if v == nil {
		return 0, false
	}
	s := v.ExactString()
	var n int64
	_, err := fmt.Sscan(s, &n)
	return n, err == nil
}

// staticCallee of a call instruction (function or method, not interface / dynamic), else nil.
func staticCallee(call ssa.CallInstruction) *ssa.Function {
	return call.Common().StaticCallee()
}

// calleeFullName returns "pkgpath.Name" or "(pkgpath.Type).Name" for static callees; "" otherwise.
func calleeFullName(call ssa.CallInstruction) string {
	cc := call.Common()
	if f := cc.StaticCallee(); f != nil {
		if f.Pkg != nil && f.Signature.Recv() == nil {
			return f.Pkg.Pkg.Path() + "." + f.Name()
		}
		return f.String()
	}
	if b, ok := cc.Value.(*ssa.Builtin); ok {
		return "builtin." + b.Name()
	}
	return ""
}

// reachable computes the module functions reachable from roots through static calls, closures
// (MakeClosure), function values referenced (address-taken) in reachable code, and – for dynamic
// calls – the extra resolver supplied by the caller (table dispatch).
func (c *Ctx) reachable(roots []*ssa.Function, dyn func(site ssa.CallInstruction) []*ssa.Function) map[*ssa.Function]bool {
	seen := map[*ssa.Function]bool{}
	var work []*ssa.Function
	push := func(f *ssa.Function) {
		f = unwrapThunk(f) // a method expression T.m is a synthetic thunk (no package) around m
		if f == nil || seen[f] || f.Blocks == nil || !inModule(f) {
			return
		}
		seen[f] = true
		work = append(work, f)
	}
	for _, r := range roots {
		push(r)
	}
	for len(work) > 0 {
		f := work[len(work)-1]
		work = work[:len(work)-1]
		for _, b := range f.Blocks {
			for _, in := range b.Instrs {
				if mc, ok := in.(*ssa.MakeClosure); ok {
					push(mc.Fn.(*ssa.Function))
				}
				for _, op := range in.Operands(nil) {
					if fn, ok := (*op).(*ssa.Function); ok {
						push(fn)
					}
				}
				if call, ok := in.(ssa.CallInstruction); ok {
					if sc := staticCallee(call); sc != nil {
						push(sc)
					} else if dyn != nil {
						for _, t := range dyn(call) {
							push(t)
						}
					}
				}
			}
		}
	}
	return seen
}

func sortedFuncs(m map[*ssa.Function]bool) []*ssa.Function {
	var out []*ssa.Function
	for f := range m {
		out = append(out, f)
	}
	sort.Slice(out, func(i, j int) bool { return fnName(out[i]) < fnName(out[j]) })
	return out
}
