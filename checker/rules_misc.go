package main

// LIT-TYPE / QUOTE-DECODE (C06, C08), NODE-SOURCES (C06), DF-FLOW (C11), LOOP / REC (C01).

import (
	"fmt"
	"go/token"
	"go/types"
	"sort"
	"strings"

	"golang.org/x/tools/go/ssa"
)

func possibleToks(c *Ctx, atoms []Atom, key string) map[string]bool {
	possible := map[string]bool{}
	for name := range c.tokTypeConsts() {
		possible["lex."+name] = true
	}
	for _, a := range atoms {
		if a.Kind == "cmp" && a.Subj == key {
			for o := range possible {
				if a.Op == "==" && o != a.Val || a.Op == "!=" && o == a.Val {
					delete(possible, o)
				}
			}
		}
	}
	// a module predicate applied to the token itself (anyClosingBracket(top), written with a table of traits
	// or a bit set): folded at every token type, like the shift predicate (A8)
	tokKey := strings.TrimSuffix(key, ".Typ")
	if tokKey != key {
		vals := c.tokTypeConsts()
		for _, a := range atoms {
			if a.Kind != "call" || a.Fn == nil || !inModule(a.Fn) || len(a.Args) != 1 || len(a.Fn.Params) != 1 {
				continue
			}
			if c.key(a.Args[0], a.Env) != tokKey || !isNamed(a.Fn.Params[0].Type(), pkgLex, "Token") {
				continue
			}
			leaves, table, why := c.decisionTable(a.Fn, []string{"$0"}, tokDomain(vals))
			if why != "" || len(leaves) != 1 {
				continue
			}
			for name, v := range vals {
				if res, ok := table[fmt.Sprint([]int64{v})]; ok && res != a.Pos {
					delete(possible, "lex."+name)
				}
			}
		}
	}
	return possible
}

func tokDomain(vals map[string]int64) []int64 {
	var out []int64
	for _, v := range vals {
		out = append(out, v)
	}
	sort.Slice(out, func(i, j int) bool { return out[i] < out[j] })
	return out
}

func ruleLITTYPE(c *Ctx, r *Report) {
	const rule = "LIT-TYPE"
	r.doc(rule, "in the token→literal function: a quoted token yields a string Literal decided before (not after) any numeric/wildcard typing, its payload derives from the token text only through delimiter removal; a regexp token yields a Regexp leaf; for bare words int typing precedes float typing precedes wildcard typing")
	pr := c.parserPreamble(r, rule)
	if pr == nil {
		return
	}
	if pr.TokToLit == nil {
		r.bad(rule, "anchor", "-", "token→literal function (func(lex.Token) (any, error) in the root package) not found")
		return
	}
	fn := pr.TokToLit
	r.unit("functions", fnName(fn))
	paths, complete := c.enumPathsOpt(fn, 20000, c.inlBool())
	if !complete {
		r.bad(rule, "paths", c.pos(fn.Pos()), "too many paths")
		return
	}
	typing := func(a Atom) string {
		s := a.String()
		switch {
		case strings.Contains(s, "strconv.Atoi(") || strings.Contains(s, "strconv.ParseInt("):
			return "int"
		case strings.Contains(s, "strconv.ParseFloat("):
			return "float"
		case strings.Contains(s, "ContainsAny(") && strings.Contains(s, "*?"):
			return "wild"
		case strings.Contains(s, "strings.Contains(") || strings.Contains(s, "strings.Index"):
			return "escape"
		}
		return ""
	}
	nQ, nR, nW := 0, 0, 0
	for _, p := range paths {
		if p.Ret == nil || len(p.Ret.Results) != 2 || !isNilConst(c.resolve(p.Ret.Results[1], p.Env)) {
			continue
		}
		toks := possibleToks(c, p.Atoms, "$0.Typ")
		res, re := c.resolveE(p.Ret.Results[0], p.Env)
		call, isCall := res.(*ssa.Call)
		var ops []string
		argKey := ""
		if isCall && call.Call.StaticCallee() != nil {
			ops = c.ctorOperator(call.Call.StaticCallee())
			if len(call.Call.Args) > 0 {
				argKey = c.key(call.Call.Args[0], re)
			}
		}
		var seq []string
		for _, a := range p.Atoms {
			if t := typing(a); t != "" {
				seq = append(seq, t)
			}
		}
		pos := c.instrPos(p.Ret)
		switch {
		case len(toks) == 1 && toks["lex.TQuoted"]:
			nQ++
			okVal := argKey == `strings.ReplaceAll($0.Val,"\"","")` || argKey == `$0.Val[1:(len($0.Val) - 1)]` || argKey == `strings.Trim($0.Val,"\"")`
			if !okVal && isCall && len(call.Call.Args) > 0 {
				// the same removal spelled as a byte-wise copy that skips the quote
				if inner, ie, desc, ok := c.rewriteOfE(call.Call.Args[0], re); ok && desc == "rewrite[\"→]" && c.key(inner, ie) == "$0.Val" {
					okVal = true
				}
			}
			switch {
			case len(seq) > 0:
				r.bad(rule, "quoted|decided-first", pos, fmt.Sprintf("a quoted token reaches its literal only after other typing tests (%v): quoted digits or wildcards would be re-typed as number / pattern", seq))
			case len(ops) != 1 || ops[0] != "expr.Literal":
				r.bad(rule, "quoted|literal", pos, fmt.Sprintf("a quoted token must become a plain Literal leaf; it becomes %v", ops))
			case !okVal:
				r.bad("QUOTE-DECODE", "quoted|payload", pos, "the payload of a quoted token must be the token text with only the delimiters removed; it is "+argKey)
			default:
				r.ok(rule, "quoted", pos, "string Literal, decided first")
				r.ok("QUOTE-DECODE", "quoted|payload", pos, argKey)
			}
		case toks["lex.TQuoted"]:
			r.bad(rule, "quoted|decided-first|"+strings.Join(seq, ">"), pos, fmt.Sprintf("a quoted token can take a path with typing tests %v that is shared with bare words: quoted text would be typed as a number or pattern", seq))
		case len(toks) == 1 && toks["lex.TRegexp"]:
			nR++
			if len(ops) == 1 && ops[0] == "expr.Regexp" && argKey == "$0.Val" && len(seq) == 0 {
				r.ok(rule, "regexp", pos, "Regexp leaf with the token text")
			} else {
				r.bad(rule, "regexp", pos, fmt.Sprintf("a regexp token must become a Regexp leaf carrying the token text, decided before other typing; it becomes %v(%s) after %v", ops, argKey, seq))
			}
		default:
			nW++
			// bare word paths: the typing order. Only the numeric readings are ordered among themselves (every
			// integer text is a float text too) and must both precede the plain-text leaf; the wildcard test may
			// stand anywhere before that — no text containing * or ? reads as a number, so it commutes with them.
			var seqNW []string
			for _, s := range seq {
				if s != "wild" {
					seqNW = append(seqNW, s)
				}
			}
			seqAll := seq
			seq = seqNW
			want := []string{"int", "float", "escape"}
			idx := -1
			okOrder := true
			for _, s := range seq {
				j := -1
				for k, w := range want {
					if w == s {
						j = k
					}
				}
				if j < idx {
					okOrder = false
				}
				if j > idx {
					idx = j
				}
			}
			seq = seqAll
			kind := "plain"
			if len(seq) > 0 {
				kind = seq[len(seq)-1]
			}
			key := "word|" + strings.Join(seq, ">") + "→" + strings.Join(ops, "")
			// the kind of the leaf is decided here, by the token: a bare word becomes a Literal or a Wild
			kinds := ops
			if len(kinds) == 0 && isCall && call.Call.StaticCallee() != nil {
				kinds = c.ctorOperatorsDeep(call.Call.StaticCallee(), 0)
			}
			kindBad := ""
			if len(kinds) == 0 {
				kindBad = "a leaf of a kind this function does not decide (the result is not a constructor call with a known operator)"
			}
			for _, k := range kinds {
				if k != "expr.Literal" && k != "expr.Wild" {
					kindBad = "possibly a " + k + " node (the callee classifies the text again by its content)"
				}
			}
			switch {
			case kindBad != "":
				r.bad(rule, "word|kind|"+strings.Join(seq, ">"), pos, fmt.Sprintf("a bare word (token types %v) becomes %s: only a /…/ token is a regular expression and only an unescaped * or ? makes a pattern — text that merely looks like one after its escapes were removed must stay a plain value", setKeys(toks), kindBad))
			case !okOrder && numericReadingIgnored(p.Atoms, argKey) == "" && (strings.Contains(argKey, "strconv.") || contains(seq, "int") && contains(seq, "float")) &&
				!(strings.HasSuffix(argKey, "#0") && strings.Contains(argKey, "ParseFloat") && !intReadingFailed(p.Atoms)):
				// the tests stand in another order, but what the path returns is what the readings found: the integer
				// reading wins whenever it succeeded, a float is returned only after the integer reading failed, and
				// text only after both failed — the order in which the (pure) readings are computed cannot be observed
				r.ok(rule, key, pos, "readings computed in another order; the result follows int > float > text")
			case !okOrder:
				r.bad(rule, key, pos, fmt.Sprintf("bare-word typing tests run in the order %v; int must be tried before float before wildcard (e.g. `5` must be an int, `1e3` a float, `a*` a pattern)", seq))
			case kind == "wild" && hasTrueCall(p.Atoms, "ContainsAny") && !(len(ops) == 1 && ops[0] == "expr.Wild"):
				r.bad(rule, key, pos, "a word containing * or ? must become a Wild leaf")
			case strings.HasSuffix(argKey, "#0") && strings.Contains(argKey, "ParseFloat") && !contains(seq, "int"):
				r.bad(rule, key, pos, "a float literal is produced without first trying to type the word as an int")
			case isCall && len(call.Call.Args) > 0 && !strings.Contains(argKey, "$0.Val"):
				r.bad(rule, key+"|invented", pos, fmt.Sprintf("a bare word becomes a leaf whose payload (%s) is not derived from the token text: the value in the tree, in the SQL and in the parameter list is not what was written (a word spelled like a keyword of some other notation is replaced by a constant)", argKey))
			case numericReadingIgnored(p.Atoms, argKey) != "":
				r.bad(rule, key+"|ignored", pos, fmt.Sprintf("on this path %s, yet the leaf carries %s: a word that reads as a number is typed as something else, so it is quoted in SQL and compared as text", numericReadingIgnored(p.Atoms, argKey), argKey))
			case len(ops) == 1 && ops[0] == "expr.Wild" && pathHasWildcard(c, p.Atoms):
				// the path established that the word contains * or ?: it cannot read as a number
				r.ok(rule, key, pos, "pattern leaf under a positive * / ? test")
			case len(ops) == 1 && ops[0] == "expr.Literal" && !strings.Contains(argKey, "strconv.") && !pathExcludesWildcard(c, p.Atoms):
				r.bad(rule, key+"|untested-pattern", pos, fmt.Sprintf("a bare word becomes a plain text leaf (%s) on a path that has not found it free of * and ?: a word with a wildcard (and, say, an escape) is kept as literal text instead of becoming a pattern, and the JSON decoder — which types leaves by their text — reads it back as a pattern", argKey))
			case !strings.Contains(argKey, "strconv.") && !(contains(seq, "int") && contains(seq, "float")):
				r.bad(rule, key, pos, fmt.Sprintf("a bare word becomes a leaf with the text payload %s on a path where the int and float readings have not both been tried (tests on this path: %v): some numbers are typed as strings, so they are quoted in SQL and compared as text", argKey, seq))
			default:
				r.ok(rule, key, pos, "typing order respected")
			}
		}
	}
	r.floor(rule, "quoted-token paths", nQ, 1)
	r.floor(rule, "regexp-token paths", nR, 1)
	r.floor(rule, "bare-word paths", nW, 4)
	r.doc("QUOTE-DECODE", "the payload for a quoted token derives from token.Val only through delimiter removal and is never followed by numeric/wildcard/escape rewriting")
}

func hasTrueCall(atoms []Atom, sub string) bool {
	for _, a := range atoms {
		if a.Kind == "call" && a.Pos && strings.Contains(a.Subj, sub) {
			return true
		}
	}
	return false
}

// NODE-SOURCES (C06)
func ruleNODESOURCES(c *Ctx, r *Report) {
	const rule = "NODE-SOURCES"
	r.doc(rule, "who-may-construct: in the packages lucene and reduce, expression constructors are called only in the token→literal function, in reducers (and the default-field wrapper), and in the single-term acceptance case; the injected AND is the only token built outside the lexer")
	pr := c.parserPreamble(r, rule)
	if pr == nil {
		return
	}
	pt := c.prodTable()
	allowed := map[*ssa.Function]string{}
	if pr.TokToLit != nil {
		for _, f := range c.Funcs {
			if f != pr.TokToLit && fnPkgPath(f) == pkgRoot && c.reachedOnlyFrom(f, pr.TokToLit, 0) {
				allowed[f] = "helper of the token→literal function"
			}
		}
		allowed[pr.TokToLit] = "token→literal"
		// closures kept in a package-level table that only the token→literal function (or a helper of it) reads
		for _, f := range c.Funcs {
			if fnPkgPath(f) != pkgRoot || f.Parent() == nil {
				continue
			}
			if g := c.tableOfClosure(f); g != nil {
				okReaders := true
				nReaders := 0
				for _, h := range c.Funcs {
					for _, b := range h.Blocks {
						for _, in := range b.Instrs {
							if ld, ok := in.(*ssa.UnOp); ok && ld.X == ssa.Value(g) {
								nReaders++
								if _, isAllowed := allowed[h]; !isAllowed {
									okReaders = false
								}
							}
						}
					}
				}
				if okReaders && nReaders > 0 {
					allowed[f] = "attempt of the token→literal function's table"
				}
			}
		}
	}
	for _, f := range pt.Reducers {
		allowed[f] = "reducer"
	}
	if pt.Wrapper != nil {
		allowed[pt.Wrapper] = "default-field wrapper"
	}
	// a private helper that only reducers (or such helpers) call builds nodes on a reducer's behalf: the
	// production table reads it in place, so PROD-GUARD still checks where its operands come from
	for changed := true; changed; {
		changed = false
		for _, f := range c.Funcs {
			if fnPkgPath(f) != pkgReduce || f.Parent() != nil || allowed[f] != "" {
				continue
			}
			sites, ok := c.privateHelper(f)
			if !ok || len(sites) == 0 {
				continue
			}
			all := true
			for _, cs := range sites {
				if allowed[cs.Parent()] == "" {
					all = false
				}
			}
			if all {
				allowed[f] = "helper of a reducer"
				changed = true
			}
		}
	}
	allowed[pr.ParseLoop] = "acceptance case"
	for _, g := range c.acceptHelpers(pr) {
		allowed[g] = "acceptance case (helper tail-called by the parse loop at end of input)"
	}
	n := 0
	for _, f := range c.Funcs {
		p := fnPkgPath(f)
		if p != pkgRoot && p != pkgReduce {
			continue
		}
		for _, b := range f.Blocks {
			for _, in := range b.Instrs {
				call, ok := in.(*ssa.Call)
				if !ok || call.Call.StaticCallee() == nil {
					continue
				}
				callee := call.Call.StaticCallee()
				if fnPkgPath(callee) != pkgExpr || callee.Signature.Results().Len() != 1 || !isExprPtr(callee.Signature.Results().At(0).Type()) {
					continue
				}
				n++
				key := fnName(f) + "|" + fnName(callee)
				if why, ok := allowed[f]; ok {
					if why == "helper of a reducer" || why == "reducer" {
						// such a helper may assemble operator nodes from the operands it is given; a leaf built there
						// (from a number it parsed, a text it rewrote) is content no token carried
						leaf := false
						for _, o := range c.ctorOperatorsDeep(callee, 0) {
							if o == "expr.Literal" || o == "expr.Wild" || o == "expr.Regexp" {
								leaf = true
							}
						}
						if len(c.ctorOperator(callee)) == 0 && callee != c.pkgFunc(pkgExpr, "Expr") {
							leaf = true // a constructor whose node kind is not fixed (classifies by content)
						}
						if leaf {
							r.bad(rule, key, c.instrPos(in), fnName(f)+", "+map[string]string{"reducer": "a reducer", "helper of a reducer": "a helper of the reducers"}[why]+", builds a leaf node: leaves come from the token→literal function only — a leaf made from a value the helper derived (a quoted text re-read as a number, say) is content that no token of the input carried in that form")
							continue
						}
					}
					if f == pr.ParseLoop {
						// must be inside the acceptance block
						acc := false
						for _, a := range c.expand(c.domAtoms(b), nil) {
							if a.Kind == "cmp" && a.Val == "lex.TEOF" && a.Op == "==" {
								acc = true
							}
						}
						if !acc {
							r.bad(rule, key, c.instrPos(in), "the parse loop builds an expression node outside the single-term acceptance case: tree content without a source token")
							continue
						}
					}
					r.ok(rule, key, c.instrPos(in), why)
				} else {
					r.bad(rule, key, c.instrPos(in), fnName(f)+" builds an expression node but is neither the token→literal function, a reducer, nor the acceptance case: the tree would contain content that no production derived from the input")
				}
			}
		}
	}
	r.floor(rule, "constructor call sites", n, 20)
	// tokens constructed in the root package
	nt := 0
	for _, f := range c.Funcs {
		if fnPkgPath(f) != pkgRoot {
			continue
		}
		for _, b := range f.Blocks {
			for _, in := range b.Instrs {
				a, ok := in.(*ssa.Alloc)
				if !ok || !strings.HasSuffix(typeStr(a.Type()), "lex.Token") {
					continue
				}
				hasField := false
				copied := false
				for _, ref := range *a.Referrers() {
					if st, ok := ref.(*ssa.Store); ok && st.Addr == ssa.Value(a) && !selfCopy(st) {
						copied = true // a copy of an existing token (e.g. a spilled parameter), not a fabrication
					}
				}
				if copied {
					continue
				}
				for _, ref := range *a.Referrers() {
					if fa, ok := ref.(*ssa.FieldAddr); ok {
						for _, r2 := range *fa.Referrers() {
							if _, ok := r2.(*ssa.Store); ok {
								hasField = true
							}
						}
					}
				}
				if !hasField {
					continue
				}
				nt++
				typ := c.localTokenTyp(&ssa.UnOp{X: a})
				key := fnName(f) + "|token-literal|" + typ
				if f == pr.Parse && typ == "lex.TStart" || (f == pr.ParseLoop || c.reachedOnlyFrom(f, pr.ParseLoop, 0)) && typ == "lex.TAnd" {
					r.ok(rule, key, c.instrPos(in), "documented synthetic token")
				} else {
					r.bad(rule, key, c.instrPos(in), "a token of type "+typ+" is fabricated in "+fnName(f)+": operator tokens must come from the lexer (except the start marker and the injected AND)")
				}
			}
		}
	}
}

// DF-FLOW (C11)
func ruleDFFLOW(c *Ctx, r *Report) {
	const rule = "DF-FLOW"
	r.doc(rule, "information flow of the default-field option: it may be tested only in the wrapping helper and in the single-term acceptance case; no production guard, shift decision or acceptance test depends on it")
	pr := c.parserPreamble(r, rule)
	if pr == nil {
		return
	}
	pt := c.prodTable()
	if pr.DefF == nil {
		r.bad(rule, "anchor", "-", "parser has no default-field member")
		return
	}
	// carriers: (function, parameter) pairs that hold the option's value — the reducer signature's third
	// parameter, and any parameter of a helper in the two packages that receives a carrier unchanged
	carrier := map[*ssa.Function]map[int]bool{}
	addCarrier := func(f *ssa.Function, i int) bool {
		if carrier[f] == nil {
			carrier[f] = map[int]bool{}
		}
		if carrier[f][i] {
			return false
		}
		carrier[f][i] = true
		return true
	}
	for _, f := range c.Funcs {
		if fnPkgPath(f) == pkgReduce && f.Signature.Params().Len() == 3 && f.Signature.Recv() == nil && len(f.Params) == 3 && isStringType(f.Params[2].Type()) {
			addCarrier(f, 2)
		}
	}
	isCarrierArg := func(f *ssa.Function, a ssa.Value) bool {
		// a conversion between string-kinded types (a named type for the field name) hands the same name on
		for {
			if cv, ok := a.(*ssa.ChangeType); ok && isStringKind(cv.Type()) {
				a = cv.X
				continue
			}
			if cv, ok := a.(*ssa.Convert); ok && isStringKind(cv.Type()) && isStringKind(cv.X.Type()) {
				a = cv.X
				continue
			}
			break
		}
		k := c.key(a, nil)
		if strings.HasSuffix(k, "."+pr.DefF.Name()) && !strings.ContainsAny(k, "(,") {
			return true
		}
		for i := range carrier[f] {
			if k == fmt.Sprintf("$%d", i) {
				return true
			}
		}
		return false
	}
	for changed := true; changed; {
		changed = false
		for _, f := range c.Funcs {
			p := fnPkgPath(f)
			if p != pkgRoot && p != pkgReduce {
				continue
			}
			for _, b := range f.Blocks {
				for _, in := range b.Instrs {
					call, ok := in.(*ssa.Call)
					if !ok {
						continue
					}
					g := call.Call.StaticCallee()
					if g == nil || len(g.Blocks) == 0 || (fnPkgPath(g) != pkgRoot && fnPkgPath(g) != pkgReduce) || len(call.Call.Args) != len(g.Params) {
						continue
					}
					for j, a := range call.Call.Args {
						if isCarrierArg(f, a) && addCarrier(g, j) {
							changed = true
						}
					}
				}
			}
		}
	}
	n := 0
	for _, f := range c.Funcs {
		p := fnPkgPath(f)
		if p != pkgRoot && p != pkgReduce {
			continue
		}
		for _, b := range f.Blocks {
			iff, ok := b.Instrs[len(b.Instrs)-1].(*ssa.If)
			if !ok {
				continue
			}
			for _, a := range c.atoms(iff.Cond, true, nil) {
				s := a.String()
				isField := func(k string) bool {
					k = strings.TrimSuffix(strings.TrimPrefix(k, "len("), ")")
					return strings.HasSuffix(k, "."+pr.DefF.Name()) && !strings.ContainsAny(k, "(,")
				}
				mentions := isField(a.Subj) || isField(a.Val)
				for i := range carrier[f] {
					pk := fmt.Sprintf("$%d", i)
					if a.Subj == pk || a.Val == pk || a.Subj == "len("+pk+")" {
						mentions = true
					}
				}
				if fk := fmt.Sprintf("$%d", pt.WFld); f == pt.Wrapper && (a.Subj == fk || strings.Contains(s, fk)) {
					n++
					r.ok(rule, fnName(f)+"|"+s, c.instrPos(iff), "the wrapper may test the field name")
					continue
				}
				if !mentions {
					continue
				}
				n++
				key := fnName(f) + "|" + s
				isAcceptHelper := false
				for _, g := range c.acceptHelpers(pr) {
					if g == f {
						isAcceptHelper = true
					}
				}
				if isAcceptHelper {
					r.ok(rule, key, c.instrPos(iff), "single-term acceptance case (helper)")
					continue
				}
				if f == pr.ParseLoop {
					acc := false
					for _, d := range c.expand(c.domAtoms(b), nil) {
						if d.Kind == "cmp" && d.Val == "lex.TEOF" && d.Op == "==" {
							acc = true
						}
					}
					if acc {
						r.ok(rule, key, c.instrPos(iff), "single-term acceptance case")
						continue
					}
				}
				r.bad(rule, key, c.instrPos(iff), fmt.Sprintf("%s branches on the default-field option (%s): with the option set a different set of queries is accepted or a different tree shape is built — the option must only scope bare terms", fnName(f), s))
			}
		}
	}
	r.floor(rule, "tests of the option", n, 2)
	// every place the option's value is handed on: only to reduce.Reduce / the reducers / the wrapping
	// helper, or inside the acceptance case
	reduceFn := c.pkgFunc(pkgReduce, "Reduce")
	isReducer := map[*ssa.Function]bool{}
	for _, f := range pt.Reducers {
		isReducer[f] = true
	}
	nUse := 0
	for _, f := range c.Funcs {
		p := fnPkgPath(f)
		if p != pkgRoot && p != pkgReduce {
			continue
		}
		helper := false
		for _, g := range c.acceptHelpers(pr) {
			if g == f {
				helper = true
			}
		}
		for _, b := range f.Blocks {
			for _, in := range b.Instrs {
				call, ok := in.(*ssa.Call)
				if !ok {
					continue
				}
				for _, a := range call.Call.Args {
					if !isCarrierArg(f, a) {
						continue
					}
					nUse++
					callee := call.Call.StaticCallee()
					key := fnName(f) + "|passes-option-to|" + c.key(call.Call.Value, nil)
					switch {
					case callee == reduceFn || isReducer[callee] || (callee != nil && callee == pt.Wrapper):
						r.ok(rule, key, c.instrPos(in), "handed to the reducers / wrapping helper")
					case callee != nil && callee != f && fnPkgPath(callee) == pkgReduce && p == pkgReduce && len(carrier[callee]) > 0 && len(callee.Blocks) > 0:
						r.ok(rule, key, c.instrPos(in), "handed to a helper of the reducers whose use of it is checked by this rule")
					case callee == nil && p == pkgReduce:
						r.ok(rule, key, c.instrPos(in), "handed to a reducer through the reducer list")
					case (f == pr.ParseLoop || helper || f == pt.Wrapper) && callee != nil && fnPkgPath(callee) == pkgExpr:
						r.ok(rule, key, c.instrPos(in), "acceptance case / wrapping helper: handed to an expression constructor")
					default:
						r.bad(rule, key, c.instrPos(in), fmt.Sprintf("%s hands the default-field option to %s: the option may only reach the wrapping helper (through the reducers) and the single-term acceptance case — any other consumer scopes or rewrites terms in a way the two documented mechanisms do not", fnName(f), c.key(call.Call.Value, nil)))
					}
				}
			}
		}
	}
	r.floor(rule, "hand-overs of the option", nUse, 5)
	for _, row := range pt.Rows {
		for _, o := range row.Other {
			if strings.Contains(o, "$2") {
				r.bad(rule, row.name()+"|guard|"+o, c.instrPos(row.Path.Ret), "a production's guard depends on the default-field option: "+o)
			}
		}
	}
}

// LOOP (C01): non-lexer loops.
func ruleLOOP(c *Ctx, r *Report) {
	const rule = "LOOP"
	r.doc(rule, "every natural loop in the reachable set is classified: bounded range loop (counter tested < len in the header, or map iteration); lexer loops (LEX-LOOP / LEX-STATES on this run); parser loops — every cycle of the parse loop passes the shift method or the reduce method whose error result exits, every cycle of the reduce method pops the stack and the empty-stack test exits. Any other loop is a violation.")
	reach := c.reachFrom(c.rootsC01())
	pr := c.parserRoles()
	lr := c.lexRoles()
	isState := map[*ssa.Function]bool{}
	if lr.Err == "" {
		for _, s := range lr.States {
			isState[s] = true
		}
	}
	nLoops := 0
	for _, fn := range sortedFuncs(reach) {
		if !inLib(fn) {
			continue
		}
		// back edges
		heads := map[*ssa.BasicBlock]bool{}
		for _, b := range fn.Blocks {
			for _, s := range b.Succs {
				if s == b || s.Dominates(b) {
					heads[s] = true
				}
			}
		}
		if len(heads) == 0 {
			continue
		}
		var hs []*ssa.BasicBlock
		for h := range heads {
			hs = append(hs, h)
		}
		sort.Slice(hs, func(i, j int) bool { return hs[i].Index < hs[j].Index })
		for li, h := range hs {
			nLoops++
			key := fmt.Sprintf("%s|loop%d", fnName(fn), li)
			pos := c.instrPos(h.Instrs[0])
			switch {
			case c.isRangeHeader(h):
				r.ok(rule, key, pos, "bounded range loop")
			case c.isCountingLoop(h):
				r.ok(rule, key, pos, "counting loop: induction variable strictly increases towards a loop-invariant bound")
			case c.isCountdownLoop(h):
				r.ok(rule, key, pos, "countdown loop: the counter (or the remaining slice) strictly decreases towards the bound")
			case isState[fn]:
				r.ok(rule, key, pos, "lexer state loop (LEX-LOOP)")
			case lr.Err == "" && c.lexHelperLoopCovered(lr, fn, h):
				r.ok(rule, key, pos, "loop of a lexer helper that LEX-LOOP reads in place in every state that calls it")
			case lr.Err == "" && fn == lr.Next:
				r.ok(rule, key, pos, "state-machine loop (LEX-STATES: transition relation acyclic)")
			case pr.Err == "" && fn == pr.ParseLoop:
				c.parseLoopProgress(r, rule, key, fn, h, pr)
			case pr.Err == "" && fn == pr.ReduceM:
				c.reduceLoopProgress(r, rule, key, fn, h, pr)
			case pr.Err == "" && c.parserInl(pr).Pred(fn) && c.reachedOnlyFrom(fn, pr.ParseLoop, 0):
				// a helper method of the parse loop: the same progress argument, cycle by cycle
				c.parseLoopProgress(r, rule, key, fn, h, pr)
			default:
				r.bad(rule, key, pos, fnName(fn)+" contains a loop that is neither a bounded range loop nor one of the lexer/parser loops with a checked progress argument")
			}
		}
	}
	r.floor(rule, "loops", nLoops, 12)
}

// lexHelperLoopCovered: fn is a helper of the lexer that is only ever called (directly or through such
// helpers) from state functions, where the path walker reads it in place; the loop head was seen on a
// cycle path of some state, so LEX-LOOP's progress/exit argument was applied to it.
func (c *Ctx) lexHelperLoopCovered(lr *LexRoles, fn *ssa.Function, h *ssa.BasicBlock) bool {
	opts := c.lexInl(lr, false)
	isState := map[*ssa.Function]bool{}
	for _, s := range lr.States {
		isState[s] = true
	}
	var fromStates func(g *ssa.Function, depth int) bool
	fromStates = func(g *ssa.Function, depth int) bool {
		if isState[g] {
			return true
		}
		if depth > 3 || !opts.Pred(g) {
			return false
		}
		sites, ok := c.privateHelper(g)
		if !ok {
			return false
		}
		for _, cs := range sites {
			if !fromStates(cs.Parent(), depth+1) {
				return false
			}
		}
		return true
	}
	if !fromStates(fn, 0) {
		return false
	}
	memo := "lexCoveredHeads"
	var heads map[*ssa.BasicBlock]bool
	if v, ok := c.roles[memo]; ok {
		heads = v.(map[*ssa.BasicBlock]bool)
	} else {
		heads = map[*ssa.BasicBlock]bool{}
		for _, s := range lr.States {
			cps, complete := c.cyclePathsOpt(s, opts)
			if !complete {
				continue
			}
			for _, cp := range cps {
				heads[cp.head] = true
			}
		}
		c.roles[memo] = heads
	}
	return heads[h]
}

// isCountingLoop: header tests `i < X` / `i <= X` for a phi i of the header whose every back-edge value
// is i plus a positive constant (possibly through nested phis), and X is loop-invariant.
func (c *Ctx) isCountingLoop(h *ssa.BasicBlock) bool {
	iff, ok := h.Instrs[len(h.Instrs)-1].(*ssa.If)
	if !ok {
		return false
	}
	bo, ok := iff.Cond.(*ssa.BinOp)
	if !ok || (bo.Op.String() != "<" && bo.Op.String() != "<=") {
		return false
	}
	ph, ok := bo.X.(*ssa.Phi)
	if !ok || ph.Block() != h {
		return false
	}
	// bound: defined outside the loop (its block dominates the header and is not the header), a
	// constant, or len of such a value
	inv := func(v ssa.Value) bool {
		switch x := v.(type) {
		case *ssa.Const, *ssa.Parameter:
			return true
		case ssa.Instruction:
			return x.Block() != h && x.Block().Dominates(h)
		}
		return false
	}
	bound := bo.Y
	if call, ok := bound.(*ssa.Call); ok {
		if bi, ok := call.Call.Value.(*ssa.Builtin); ok && bi.Name() == "len" {
			a := call.Call.Args[0]
			if _, isStr := a.Type().Underlying().(*types.Basic); isStr || inv(a) {
				if inv(a) || loopInvariantLoad(a, h) {
					bound = nil
				}
			}
			// len of a package-level table that is only written by the package initialiser
			if ld, ok := a.(*ssa.UnOp); ok && bound != nil {
				if g, ok := ld.X.(*ssa.Global); ok && g.Pkg != nil && c.onlyInitWrites(g) {
					bound = nil
				}
			}
		}
	}
	if bound != nil && !inv(bound) {
		return false
	}
	var minInc func(v ssa.Value, depth int) (int64, bool)
	minInc = func(v ssa.Value, depth int) (int64, bool) {
		if depth > 10 {
			return 0, false
		}
		if v == ssa.Value(ph) {
			return 0, true
		}
		switch x := v.(type) {
		case *ssa.BinOp:
			if x.Op.String() == "+" {
				if n, ok := constIntVal(x.Y); ok && n > 0 {
					if m, ok := minInc(x.X, depth+1); ok {
						return m + n, true
					}
				}
			}
		case *ssa.Phi:
			best := int64(-1)
			for _, e := range x.Edges {
				m, ok := minInc(e, depth+1)
				if !ok {
					return 0, false
				}
				if best < 0 || m < best {
					best = m
				}
			}
			return best, best >= 0
		}
		return 0, false
	}
	for i, pred := range h.Preds {
		if !(pred == h || h.Dominates(pred)) {
			continue // entry edge
		}
		m, ok := minInc(ph.Edges[i], 0)
		if !ok || m <= 0 {
			return false
		}
	}
	return true
}

// onlyInitWrites: the package-level variable is stored to (directly) only in its package's initialiser.
func (c *Ctx) onlyInitWrites(g *ssa.Global) bool {
	init := g.Pkg.Func("init")
	for _, f := range c.Funcs {
		if f == init {
			continue
		}
		for _, b := range f.Blocks {
			for _, in := range b.Instrs {
				if st, ok := in.(*ssa.Store); ok && st.Addr == ssa.Value(g) {
					return false
				}
			}
		}
	}
	return true
}

// isCountdownLoop: header tests `i >= c` / `i > c` for a phi i whose every back-edge value is i minus a
// positive constant; or tests len(x) > 0 / != 0 for a slice/string phi x whose every back-edge value is a
// strictly shorter re-slice of x (x[k:], k ≥ 1, or x[:len(x)-k]).
func (c *Ctx) isCountdownLoop(h *ssa.BasicBlock) bool {
	iff, ok := h.Instrs[len(h.Instrs)-1].(*ssa.If)
	if !ok {
		return false
	}
	bo, ok := iff.Cond.(*ssa.BinOp)
	if !ok {
		return false
	}
	op := bo.Op.String()
	if ph, ok := bo.X.(*ssa.Phi); ok && ph.Block() == h && (op == ">=" || op == ">") {
		if _, isC := bo.Y.(*ssa.Const); !isC {
			return false
		}
		for i, pred := range h.Preds {
			if !(pred == h || h.Dominates(pred)) {
				continue
			}
			sub, ok := ph.Edges[i].(*ssa.BinOp)
			if !ok || sub.Op.String() != "-" || sub.X != ssa.Value(ph) {
				return false
			}
			if n, ok := constIntVal(sub.Y); !ok || n <= 0 {
				return false
			}
		}
		return true
	}
	// len(x) > 0
	if call, ok := bo.X.(*ssa.Call); ok && (op == ">" || op == "!=") {
		bi, isB := call.Call.Value.(*ssa.Builtin)
		if !isB || bi.Name() != "len" {
			return false
		}
		if n, ok := constIntVal(bo.Y); !ok || n != 0 {
			return false
		}
		ph, ok := call.Call.Args[0].(*ssa.Phi)
		if !ok || ph.Block() != h {
			return false
		}
		for i, pred := range h.Preds {
			if !(pred == h || h.Dominates(pred)) {
				continue
			}
			sl, ok := ph.Edges[i].(*ssa.Slice)
			if !ok || sl.X != ssa.Value(ph) {
				return false
			}
			shorter := false
			if sl.Low != nil {
				if n, ok := constIntVal(sl.Low); ok && n >= 1 {
					shorter = true
				}
			}
			if sl.High != nil {
				if _, fe, ok := c.lenRelIndex(sl.High, nil, ph); ok && fe {
					shorter = true
				}
			}
			if !shorter {
				return false
			}
		}
		return true
	}
	return false
}

func (c *Ctx) isRangeHeader(h *ssa.BasicBlock) bool {
	// rangeindex: phi(-1, idx) ; idx = phi+1 ; idx < len
	iff, ok := h.Instrs[len(h.Instrs)-1].(*ssa.If)
	if ok {
		if bo, ok := iff.Cond.(*ssa.BinOp); ok && bo.Op.String() == "<" {
			if add, ok := bo.X.(*ssa.BinOp); ok {
				if ph, ok := add.X.(*ssa.Phi); ok && ph.Block() == h {
					if n, ok := constIntVal(add.Y); ok && n == 1 {
						if call, ok := bo.Y.(*ssa.Call); ok {
							if bi, ok := call.Call.Value.(*ssa.Builtin); ok && bi.Name() == "len" {
								return true
							}
						}
						// range over an array: the bound is the array's constant length
						if _, isC := constIntVal(bo.Y); isC {
							return true
						}
					}
				}
			}
		}
		// map / string range: Next instruction tested
		if ex, ok := iff.Cond.(*ssa.Extract); ok {
			if _, ok := ex.Tuple.(*ssa.Next); ok {
				return true
			}
		}
	}
	return false
}

func (c *Ctx) parseLoopProgress(r *Report, rule, key string, fn *ssa.Function, h *ssa.BasicBlock, pr *ParserRoles) {
	cps, complete := c.cyclePathsOpt(fn, c.parserInl(pr))
	if !complete {
		r.bad(rule, key, c.pos(fn.Pos()), "too many paths")
		return
	}
	n := 0
	for _, cp := range cps {
		if cp.head != h {
			continue
		}
		n++
		shift := c.countCalls(cp.instrs, pr.ShiftM) > 0
		reduce := false
		for _, in := range cp.instrs {
			if call, ok := in.(*ssa.Call); ok && call.Call.StaticCallee() == pr.ReduceM {
				// the cycle continues only under err == nil
				for _, a := range cp.atoms {
					if a.Kind == "nil" && a.Pos && a.Subj == c.key(call, cp.p.Env) {
						reduce = true
					}
				}
			}
		}
		k := fmt.Sprintf("%s|cycle%d", key, n)
		if shift || reduce {
			r.ok(rule, k, c.instrPos(h.Instrs[0]), fmt.Sprintf("cycle passes shift=%v / successful reduce=%v", shift, reduce))
		} else {
			r.bad(rule, k, c.instrPos(h.Instrs[0]), "the parse loop has a cycle that neither shifts a token nor performs a successful reduction: the parser can loop forever")
		}
	}
	if n == 0 {
		r.bad(rule, key, c.instrPos(h.Instrs[0]), "no cycle found for a loop header in the parse loop")
	}
}

func (c *Ctx) reduceLoopProgress(r *Report, rule, key string, fn *ssa.Function, h *ssa.BasicBlock, pr *ParserRoles) {
	cps, _ := c.cyclePathsOpt(fn, c.parserInl(pr))
	n := 0
	for _, cp := range cps {
		if cp.head != h {
			continue
		}
		n++
		pops := false
		for _, in := range cp.instrs {
			if st, ok := in.(*ssa.Store); ok {
				if fa, ok := st.Addr.(*ssa.FieldAddr); ok && fieldVar(fa.X.Type(), fa.Field) == pr.StackF {
					if sl, ok := st.Val.(*ssa.Slice); ok && isFieldLoad(sl.X, pr.StackF) {
						pops = true
					}
				}
			}
		}
		guarded := false
		for _, a := range cp.atoms {
			if a.Kind == "len" && strings.HasSuffix(a.Subj, "."+pr.StackF.Name()) && (a.Op == "!=" && a.N == 0 || a.Op == ">" && a.N == 0) {
				guarded = true
			}
		}
		k := fmt.Sprintf("%s|cycle%d", key, n)
		if pops && guarded {
			r.ok(rule, k, c.instrPos(h.Instrs[0]), "pops one element per cycle; exits on the empty stack")
		} else {
			r.bad(rule, k, c.instrPos(h.Instrs[0]), fmt.Sprintf("the reduce method's loop must pop the stack on every cycle and leave when it is empty (pops=%v, empty-stack test=%v): otherwise it indexes an empty stack or never terminates", pops, guarded))
		}
	}
	if n == 0 {
		r.bad(rule, key, c.instrPos(h.Instrs[0]), "no cycle found for the reduce loop")
	}
}

// REC (C01): recursive cycles descend into strict sub-terms.
func ruleREC(c *Ctx, r *Report) {
	const rule = "REC"
	r.doc(rule, "every call-graph cycle in the reachable set passes, at each recursive call, an argument that is a field/element/assertion path of the corresponding parameter, and no cycle consists only of non-strict steps; renderers hand only strict sub-terms of their node to fmt/json (which re-enter String/GoString/MarshalJSON)")
	reach := c.reachFrom(append(c.rootsC01(), c.rootsC13()...))
	// static call graph restricted to library functions
	type edge struct {
		to     *ssa.Function
		strict bool
		ok     bool
		at     ssa.Instruction
		arg    string
		raw    []Atom         // facts at the call (in the owner's terms)
		consts map[int]string // constant arguments by position ("nil" for a nil constant)
	}
	edges := map[*ssa.Function][]edge{}
	// A private helper that does not call itself has no node of its own: its calls are attributed to each
	// of its callers, with the caller's facts at the call added and the helper's parameters read as the
	// caller's arguments. A case of a function that was moved behind a helper is then judged exactly as it
	// was in place.
	liftable := func(h *ssa.Function) bool {
		if !inLib(h) || !reach[h] || c.calls(h, h) {
			return false
		}
		sites, ok := c.privateHelper(h)
		if !ok {
			return false
		}
		for _, cs := range sites {
			if !reach[cs.Parent()] {
				return false
			}
		}
		return true
	}
	var collect func(owner, fn *ssa.Function, outer []Atom, depth int)
	collect = func(owner, fn *ssa.Function, outer []Atom, depth int) {
		for _, b := range fn.Blocks {
			for _, in := range b.Instrs {
				call, ok := in.(*ssa.Call)
				if !ok {
					continue
				}
				sc := call.Call.StaticCallee()
				if sc == nil || !inLib(sc) || !reach[sc] {
					continue
				}
				here := append(append([]Atom(nil), outer...), c.domAtoms(b)...)
				if sc != fn && sc != owner && depth < 2 && liftable(sc) && len(call.Call.Args) == len(sc.Params) {
					old := c.ctxEnv
					ce := &env{mem: map[*ssa.Alloc]ssa.Value{}, phi: map[*ssa.Phi]ssa.Value{}, par: map[*ssa.Parameter]ssa.Value{}, dom: true}
					if old != nil {
						for k, v := range old.par {
							ce.par[k] = v
						}
					}
					for j, a := range call.Call.Args {
						ce.par[sc.Params[j]] = a
					}
					c.ctxEnv = ce
					collect(owner, sc, here, depth+1)
					c.ctxEnv = old
					continue
				}
				// the tree-carrying argument: the first argument of interface or *Expression type
				e := edge{to: sc, at: in, raw: here, consts: map[int]string{}}
				for j, a := range call.Call.Args {
					if k, ok := c.resolve(a, nil).(*ssa.Const); ok {
						if k.Value == nil {
							e.consts[j] = "nil"
						} else {
							e.consts[j] = c.constName(k)
						}
					}
				}
				for _, a := range call.Call.Args {
					if isEmptyInterface(a.Type()) || isExprPtr(a.Type()) {
						k := c.key(a, nil)
						e.arg = k
						alts := []string{k}
						if strings.HasPrefix(k, "elem{") && strings.HasSuffix(k, "}") {
							alts = strings.Split(k[5:len(k)-1], "|") // one of the values of a local array literal
						}
						e.ok, e.strict = true, true
						for _, alt := range alts {
							okAlt := strings.HasPrefix(alt, "$")
							rest := alt
							if len(alt) >= 2 {
								rest = alt[2:]
							}
							e.ok = e.ok && okAlt
							e.strict = e.strict && okAlt && (strings.Contains(rest, ".Left") || strings.Contains(rest, ".Right") || strings.Contains(rest, ".Min") || strings.Contains(rest, ".Max") || strings.Contains(rest, "["))
						}
						break
					}
				}
				edges[owner] = append(edges[owner], e)
			}
		}
	}
	nLifted := 0
	for fn := range reach {
		if !inLib(fn) {
			continue
		}
		if liftable(fn) {
			nLifted++
			continue
		}
		collect(fn, fn, nil, 0)
	}
	r.extra["rec_helpers_attributed_to_callers"] = nLifted
	// context: constants an edge passes for each parameter of its callee, and the guard atoms of
	// each call site. A pair (incoming edge into F, outgoing edge from F) is infeasible when the
	// guard of the outgoing call contradicts the constants the incoming call passes — this is what
	// breaks the constructor cycle Expr → literalToExpr → Lit → Expr (Lit passes a leaf operator and
	// no right operands; Expr's calls back are guarded by a non-leaf operator or len(right) ≥ 1).
	type cedge struct {
		from *ssa.Function
		e    edge
	}
	var all []cedge
	for f, es := range edges {
		for _, e := range es {
			all = append(all, cedge{f, e})
		}
	}
	sort.Slice(all, func(i, j int) bool {
		if fnName(all[i].from) != fnName(all[j].from) {
			return fnName(all[i].from) < fnName(all[j].from)
		}
		if all[i].e.at.Pos() != all[j].e.at.Pos() {
			return all[i].e.at.Pos() < all[j].e.at.Pos()
		}
		return all[i].e.arg < all[j].e.arg
	})
	feasible := func(in, out cedge) bool {
		raw := out.e.raw
		guard := c.expand(raw, nil)
		var given []Atom
		for j, name := range in.e.consts {
			if name != "nil" {
				given = append(given, Atom{Kind: "cmp", Subj: fmt.Sprintf("$%d", j), Op: "==", Val: name})
			}
		}
		sort.Slice(given, func(i, j int) bool { return given[i].Subj < given[j].Subj })
		for _, g := range raw {
			if !c.callCompatible(g, given) {
				return false
			}
		}
		for j, name := range in.e.consts {
			pk := fmt.Sprintf("$%d", j)
			if name == "nil" {
				// nil slice / nil interface: contradicts len($j) ≥ 1 and $j != nil
				lo, _ := lenRange(guard, pk)
				if lo >= 1 {
					return false
				}
				for _, g := range guard {
					if g.Kind == "nil" && g.Subj == pk && !g.Pos {
						return false
					}
				}
				continue
			}
			poss := map[string]bool{name: true}
			for _, g := range guard {
				if g.Kind == "cmp" && g.Subj == pk {
					if g.Op == "==" && g.Val != name || g.Op == "!=" && g.Val == name {
						delete(poss, name)
					}
				}
			}
			if len(poss) == 0 {
				return false
			}
		}
		return true
	}
	// line graph: node = edge index; arc i→j if all[i].e.to == all[j].from and the pair is feasible
	arcs := map[int][]int{}
	for i := range all {
		for j := range all {
			if all[i].e.to == all[j].from && feasible(all[i], all[j]) {
				arcs[i] = append(arcs[i], j)
			}
		}
	}
	lreach := func(from, to int, only func(int) bool) bool {
		seen := map[int]bool{}
		var dfs func(i int) bool
		dfs = func(i int) bool {
			for _, j := range arcs[i] {
				if only != nil && !only(j) {
					continue
				}
				if j == to {
					return true
				}
				if !seen[j] {
					seen[j] = true
					if dfs(j) {
						return true
					}
				}
			}
			return false
		}
		return dfs(from)
	}
	n := 0
	nBroken := 0
	cyc := map[int]bool{}
	for i := range all {
		if lreach(i, i, nil) {
			cyc[i] = true
		}
	}
	// edges on a static cycle that the context makes infeasible (for the evidence)
	for i, ce := range all {
		if cyc[i] {
			continue
		}
		seen := map[*ssa.Function]bool{}
		var dfs func(f *ssa.Function) bool
		dfs = func(f *ssa.Function) bool {
			for _, e := range edges[f] {
				if e.to == ce.from {
					return true
				}
				if !seen[e.to] {
					seen[e.to] = true
					if dfs(e.to) {
						return true
					}
				}
			}
			return false
		}
		if ce.e.to == ce.from || dfs(ce.e.to) {
			nBroken++
			r.ok(rule, fmt.Sprintf("%s→%s|context-broken|%s", fnName(ce.from), fnName(ce.e.to), ce.e.arg), c.instrPos(ce.e.at), "on a static call-graph cycle, but every way round the cycle contradicts this call's guard (operator / operand-count context)")
		}
	}
	for i, ce := range all {
		if !cyc[i] {
			continue
		}
		n++
		key := fmt.Sprintf("%s→%s|%s", fnName(ce.from), fnName(ce.e.to), ce.e.arg)
		if !ce.e.ok {
			r.bad(rule, key, c.instrPos(ce.e.at), fmt.Sprintf("recursive call %s → %s passes %s, which is not a sub-term of the caller's own argument: the recursion is not structurally decreasing", fnName(ce.from), fnName(ce.e.to), ce.e.arg))
		} else {
			r.ok(rule, key, c.instrPos(ce.e.at), fmt.Sprintf("sub-term (strict=%v)", ce.e.strict))
		}
	}
	for i, ce := range all {
		if cyc[i] && !ce.e.strict && lreach(i, i, func(j int) bool { return cyc[j] && !all[j].e.strict }) {
			r.bad(rule, "non-decreasing-cycle|"+fnName(ce.from), c.pos(ce.from.Pos()), fnName(ce.from)+" can re-enter itself through calls that never descend into a child of the node: unbounded recursion")
		}
	}
	r.extra["rec_cycle_edges"] = n
	r.extra["rec_context_broken_edges"] = nBroken
	r.floor(rule, "recursive call edges", n, 6)
	// operands handed to fmt / json in renderers & encoder are strict sub-terms
	rops := c.rendererOps()
	nf := 0
	// the node parameter of a renderer (functions take it first, methods of a style type second)
	nodeKey := func(fn *ssa.Function) string {
		for i, p := range fn.Params {
			if isExprPtr(p.Type()) {
				return fmt.Sprintf("$%d.", i)
			}
		}
		return "$0."
	}
	checkFmt := func(host, root *ssa.Function) {
		for _, b := range host.Blocks {
			for _, in := range b.Instrs {
				_, _, operands, ok := c.fmtCall(in)
				if !ok {
					continue
				}
				for _, op := range operands {
					mi, isMI := op.(*ssa.MakeInterface)
					if isMI {
						if !isExprPtr(mi.X.Type()) {
							continue
						}
					} else if !isEmptyInterface(op.Type()) {
						continue
					}
					in, op := in, op
					c.withContexts(host, root, 0, func(_ []Atom) {
						nf++
						k := c.key(op, nil)
						key := fnName(root) + "|fmt-operand|" + k
						if strings.HasPrefix(k, nodeKey(root)) {
							r.ok(rule, key, c.instrPos(in), "strict sub-term of the node")
						} else {
							r.bad(rule, key, c.instrPos(in), "a renderer passes "+k+" to fmt, which re-enters String/GoString on it: not a strict sub-term of the node being rendered, so printing may not terminate")
						}
					})
				}
			}
		}
	}
	for fn := range rops {
		checkFmt(fn, fn)
	}
	// helpers shared by the renderers that do the formatting for them (st.operand(e.Left)): the operand is the
	// helper's parameter, so every call site must hand over a strict sub-term of the node its renderer prints
	var argOK func(h *ssa.Function, idx int, depth int, seen map[*ssa.Function]bool) (string, bool)
	argOK = func(h *ssa.Function, idx int, depth int, seen map[*ssa.Function]bool) (string, bool) {
		sites, priv := c.privateHelper(h)
		if !priv || depth > 3 || seen[h] {
			return "helper " + fnName(h) + " is not private", false
		}
		seen[h] = true
		for _, cs := range sites {
			g := cs.Parent()
			if idx >= len(cs.Call.Args) {
				return "arity", false
			}
			a := cs.Call.Args[idx]
			k := c.key(a, nil)
			if rops[g] != nil {
				if !strings.HasPrefix(k, nodeKey(g)) {
					return fnName(g) + " passes " + k, false
				}
				nf++ // one operand of one renderer, formatted through the helper
				continue
			}
			// another helper handing on its own parameter
			if pa, ok := c.resolve(a, nil).(*ssa.Parameter); ok {
				j := -1
				for i, q := range g.Params {
					if q == pa {
						j = i
					}
				}
				if j >= 0 {
					if why, ok := argOK(g, j, depth+1, seen); !ok {
						return why, false
					}
					continue
				}
			}
			if strings.Contains(k, ".Left") || strings.Contains(k, ".Right") || strings.Contains(k, ".Min") || strings.Contains(k, ".Max") {
				// a field of a sub-term reached inside a helper (elements of the list, the ends of the boundary)
				continue
			}
			return fnName(g) + " passes " + k, false
		}
		return "", true
	}
	for _, h := range c.Funcs {
		if fnPkgPath(h) != pkgExpr || rops[h] != nil || h.Parent() != nil {
			continue
		}
		reachedFromRenderer := false
		for fn := range rops {
			if c.calls(fn, h) {
				reachedFromRenderer = true
			}
		}
		if !reachedFromRenderer {
			continue
		}
		for _, b := range h.Blocks {
			for _, in := range b.Instrs {
				_, _, operands, ok := c.fmtCall(in)
				if !ok {
					continue
				}
				for _, op := range operands {
					mi, isMI := op.(*ssa.MakeInterface)
					if isMI {
						if !isExprPtr(mi.X.Type()) {
							continue
						}
					} else if !isEmptyInterface(op.Type()) {
						continue
					}
					pa, isParam := c.resolve(op, nil).(*ssa.Parameter)
					if !isParam {
						continue // a sub-term computed in the helper: covered when the helper is itself registered
					}
					idx := -1
					for i, q := range h.Params {
						if q == pa {
							idx = i
						}
					}
					nf++
					key := fnName(h) + "|fmt-operand|" + c.key(op, nil)
					if why, ok := argOK(h, idx, 0, map[*ssa.Function]bool{}); ok {
						r.ok(rule, key, c.instrPos(in), "every caller hands over a strict sub-term of the node it renders")
					} else {
						r.bad(rule, key, c.instrPos(in), "a helper of the renderers passes its parameter to fmt, which re-enters String/GoString on it, and not every caller hands over a strict sub-term of the node being rendered ("+why+"): printing may not terminate")
					}
				}
			}
		}
	}
	r.floor(rule, "formatter operands in renderers", nf, 15)
}

// NUM-BASE (C03/C06): numeric typing of a bare word is decimal.
func ruleNUMBASE(c *Ctx, r *Report) {
	const rule = "NUM-BASE"
	r.doc(rule, "every number parse in the library (token→literal typing, reducers, decoder, range functions of the driver) is decimal and full width: strconv.Atoi, or ParseInt/ParseUint with constant base 10 and bit size 0/64, ParseFloat with bit size 64 (base 0 reads a leading 0 as octal and 0x/0b prefixes; a narrower width makes large integers fall through to the float or string reading, or rounds floats)")
	pr := c.parserPreamble(r, rule)
	if pr == nil || pr.TokToLit == nil {
		return
	}
	n := 0
	inTok := c.reachFrom([]*ssa.Function{pr.TokToLit})
	all := c.reachFrom(append(c.rootsC01(), c.rootsC13()...))
	for _, fn := range sortedFuncs(all) {
		if !inLib(fn) {
			continue
		}
		for _, b := range fn.Blocks {
			for _, in := range b.Instrs {
				call, ok := in.(*ssa.Call)
				if !ok {
					continue
				}
				name := calleeFullName(call)
				switch name {
				case "strconv.Atoi":
					if inTok[fn] {
						n++
					}
					r.ok(rule, fnName(fn)+"|Atoi", c.instrPos(in), "decimal, full width")
				case "strconv.ParseInt", "strconv.ParseUint":
					if inTok[fn] {
						n++
					}
					base, isC := constIntVal(c.resolve(call.Call.Args[1], nil))
					if isC && base == 10 {
						r.ok(rule, fnName(fn)+"|"+name, c.instrPos(in), "base 10")
					} else {
						r.badW(rule, fnName(fn)+"|"+name+"|base", c.instrPos(in), fmt.Sprintf("%s types integers with %s base %s: a zero-padded number is read as octal (and 0x/0b prefixes are accepted), so the rendered number is not the one written in the query", fnName(fn), name, c.key(call.Call.Args[1], nil)), "`a:010` renders `\"a\" = 8`")
					}
					bits, isC := constIntVal(c.resolve(call.Call.Args[2], nil))
					if isC && (bits == 0 || bits == 64) {
						r.ok(rule, fnName(fn)+"|"+name+"|width", c.instrPos(in), "full width")
					} else {
						r.badW(rule, fnName(fn)+"|"+name+"|width", c.instrPos(in), fmt.Sprintf("%s parses integers with bit size %s: an integer outside that width is not recognised as an integer any more (it is rejected, or falls through to the float or string reading and is rendered rounded or quoted)", fnName(fn), c.key(call.Call.Args[2], nil)), "`a:[9007199254740993 TO *]` renders `\"a\" >= 9007199254740992.00`")
					}
				case "strconv.ParseFloat":
					bits, isC := constIntVal(c.resolve(call.Call.Args[1], nil))
					if isC && bits == 64 {
						r.ok(rule, fnName(fn)+"|"+name+"|width", c.instrPos(in), "float64")
					} else {
						r.badW(rule, fnName(fn)+"|"+name+"|width", c.instrPos(in), fmt.Sprintf("%s parses floats with bit size %s: the value is rounded to float32 precision, so the number in the tree and in the SQL is not the one written", fnName(fn), c.key(call.Call.Args[1], nil)), "`a:0.1` renders `\"a\" = 0.10000000149011612`")
					}
				}
			}
		}
	}
	r.floor(rule, "integer parses in the token→literal function", n, 1)
}

// NO-RECLASSIFY (C08/C11): raw payloads re-read from existing nodes are never handed back to a constructor.
func ruleNORECLASSIFY(c *Ctx, r *Report) {
	const rule = "NO-RECLASSIFY"
	r.doc(rule, "in the packages lucene and reduce every operand passed to an expression constructor is a whole node or a value freshly typed from a token; a raw payload re-read from an existing node (x.Left) is never passed, because the general constructor classifies raw strings by content (a quoted \"what?\" would become a pattern)")
	n := 0
	for _, f := range c.Funcs {
		p := fnPkgPath(f)
		if p != pkgRoot && p != pkgReduce {
			continue
		}
		for _, b := range f.Blocks {
			for _, in := range b.Instrs {
				call, ok := in.(*ssa.Call)
				if !ok || call.Call.StaticCallee() == nil {
					continue
				}
				callee := call.Call.StaticCallee()
				if fnPkgPath(callee) != pkgExpr || callee.Signature.Results().Len() != 1 || !isExprPtr(callee.Signature.Results().At(0).Type()) {
					continue
				}
				for ai, a := range c.flattenArgs(call, nil) {
					n++
					v := c.resolve(a, nil)
					k := c.key(v, nil)
					if !isEmptyInterface(v.Type()) {
						continue
					}
					if strings.HasSuffix(k, ".Left") || strings.HasSuffix(k, ".Right") {
						r.badW(rule, fmt.Sprintf("%s|%s|arg%d←%s", fnName(f), fnName(callee), ai, k), c.instrPos(in),
							fmt.Sprintf("%s passes the raw payload %s of an existing node to %s: the constructor re-classifies raw strings by their content, so a quoted value containing * or ?, or delimited by slashes, changes kind", fnName(f), k, fnName(callee)),
							"`\"what?\"` with a default field parses to f:WILD(what?) while `a AND \"what?\"` keeps LITERAL(what?)")
					}
				}
			}
		}
	}
	// the printed form of a node is not a payload: String()/GoString() quote a text that contains a blank,
	// print numbers and columns in their own ways and lose the kind — a leaf built from it carries characters
	// the query did not contain
	nPrinted := 0
	for _, f := range c.Funcs {
		p := fnPkgPath(f)
		if p != pkgRoot && p != pkgReduce && p != pkgExpr {
			continue
		}
		for _, b := range f.Blocks {
			for _, in := range b.Instrs {
				call, ok := in.(*ssa.Call)
				if !ok || call.Call.StaticCallee() == nil {
					continue
				}
				callee := call.Call.StaticCallee()
				if fnPkgPath(callee) != pkgExpr || callee.Signature.Results().Len() != 1 || !isExprPtr(callee.Signature.Results().At(0).Type()) || callee.Signature.Recv() != nil {
					continue
				}
				for ai, a := range c.flattenArgs(call, nil) {
					av := c.resolve(a, nil)
					if !isStringKind(av.Type()) {
						continue // a number read back from the printed form is PROD-GUARD's (known) matter
					}
					k := c.key(av, nil)
					if strings.Contains(k, "expr.(Expression).String(") || strings.Contains(k, "expr.(Expression).GoString(") || strings.Contains(k, "expr.(*Expression).String(") {
						nPrinted++
						r.bad(rule, fmt.Sprintf("%s|%s|arg%d←printed-form", fnName(f), fnName(callee), ai), c.instrPos(in),
							fmt.Sprintf("%s builds a node from the printed form of another node (%s): the printed text is not the payload — a text containing a blank is printed between double quotes, so the new leaf's value gains two quote characters (and loses its kind)", fnName(f), k))
					}
				}
			}
		}
	}
	if nPrinted == 0 {
		r.ok(rule, "printed-form", "-", "no node is built from the String()/GoString() of another node")
	}
	// inside the constructors themselves: the content classifier (raw value → Literal/Wild/Regexp leaf) is
	// applied to raw operands only, never to the payload of a node that already has a kind
	general := c.pkgFunc(pkgExpr, "Expr")
	var classifier *ssa.Function
	for _, f := range c.Funcs {
		if fnPkgPath(f) == pkgExpr && f.Parent() == nil && f.Signature.Params().Len() == 1 && isEmptyInterface(f.Signature.Params().At(0).Type()) &&
			f.Signature.Results().Len() == 1 && isExprPtr(f.Signature.Results().At(0).Type()) {
			ops := map[string]bool{}
			for _, b := range f.Blocks {
				for _, in := range b.Instrs {
					if call, ok := in.(*ssa.Call); ok && call.Call.StaticCallee() != nil {
						for _, o := range c.ctorOperator(call.Call.StaticCallee()) {
							ops[o] = true
						}
					}
				}
			}
			if ops["expr.Wild"] && ops["expr.Regexp"] && ops["expr.Literal"] {
				classifier = f
			}
		}
	}
	if general != nil && classifier != nil {
		for _, f := range c.Funcs {
			if fnPkgPath(f) != pkgExpr || (f != general && !c.reachedOnlyFrom(f, general, 0)) {
				continue
			}
			for _, b := range f.Blocks {
				for _, in := range b.Instrs {
					call, ok := in.(*ssa.Call)
					if !ok || call.Call.StaticCallee() != classifier || len(call.Call.Args) != 1 {
						continue
					}
					n++
					k := c.key(call.Call.Args[0], nil)
					if strings.HasSuffix(k, ".Left") || strings.HasSuffix(k, ".Right") {
						r.badW(rule, fmt.Sprintf("%s|%s|arg0←%s", fnName(f), fnName(classifier), k), c.instrPos(in),
							fmt.Sprintf("%s re-classifies the payload %s of an existing node by its content: a quoted value containing * or ?, or delimited by slashes, becomes a pattern and the comparison becomes a pattern match", fnName(f), k),
							"`a:\"what?\"` renders SIMILAR TO 'what_'")
					}
				}
			}
		}
	}
	r.ok(rule, "operands-examined", "-", fmt.Sprintf("%d constructor operands in the parser packages examined", n))
	r.floor(rule, "constructor operands", n, 25)
}

// acceptHelpers: parser methods the parse loop tail-calls under the acceptance condition (end of input).
func (c *Ctx) acceptHelpers(pr *ParserRoles) []*ssa.Function {
	if v, ok := c.roles["accepthelpers"]; ok {
		return v.([]*ssa.Function)
	}
	var out []*ssa.Function
	paths, _ := c.enumPaths(pr.ParseLoop, 5000)
	for _, p := range paths {
		g := c.identityTailCallee(pr.ParseLoop, p)
		if g == nil {
			continue
		}
		acc := false
		for _, a := range c.expand(p.Atoms, p.Env) {
			if a.Kind == "cmp" && a.Op == "==" && a.Val == "lex.TEOF" {
				acc = true
			}
		}
		if acc {
			dup := false
			for _, o := range out {
				if o == g {
					dup = true
				}
			}
			if !dup {
				out = append(out, g)
			}
		}
	}
	c.roles["accepthelpers"] = out
	return out
}

// tableOfClosure: f is an anonymous function defined in the package initialiser and stored (only) into an
// element of the literal behind a package-level slice; returns that variable.
func (c *Ctx) tableOfClosure(f *ssa.Function) *ssa.Global {
	parent := f.Parent()
	if parent == nil || parent.Name() != "init" || parent.Pkg == nil {
		return nil
	}
	var arr *ssa.Alloc
	for _, b := range parent.Blocks {
		for _, in := range b.Instrs {
			st, ok := in.(*ssa.Store)
			if !ok {
				continue
			}
			v := st.Val
			if mc, ok := v.(*ssa.MakeClosure); ok {
				v = mc.Fn
			}
			if v != ssa.Value(f) {
				continue
			}
			fa, ok := st.Addr.(*ssa.FieldAddr)
			if !ok {
				return nil
			}
			ia, ok := fa.X.(*ssa.IndexAddr)
			if !ok {
				return nil
			}
			a, ok := ia.X.(*ssa.Alloc)
			if !ok || (arr != nil && arr != a) {
				return nil
			}
			arr = a
		}
	}
	if arr == nil {
		return nil
	}
	for _, m := range parent.Pkg.Members {
		if g, ok := m.(*ssa.Global); ok && c.globalSliceArray(g) == arr {
			return g
		}
	}
	return nil
}

// TOK-IMMUTABLE (C09/C16/C06): the parser packages never edit a token they got from the lexer.
func ruleTOKIMMUTABLE(c *Ctx, r *Report) {
	const rule = "TOK-IMMUTABLE"
	r.doc(rule, "outside package lex no field of a lex.Token is stored to, except in the composite literals of the two documented synthetic tokens: the type and text the lexer assigned (keyword or term, by case-insensitive spelling) are what the parser and the reducers see — a token is never re-typed by context")
	n := 0
	for _, f := range c.Funcs {
		p := fnPkgPath(f)
		if p != pkgRoot && p != pkgReduce {
			continue
		}
		for _, b := range f.Blocks {
			for _, in := range b.Instrs {
				st, ok := in.(*ssa.Store)
				if !ok {
					continue
				}
				fa, ok := st.Addr.(*ssa.FieldAddr)
				if !ok {
					continue
				}
				bt := fa.X.Type()
				if pt, ok := bt.(*types.Pointer); ok {
					bt = pt.Elem()
				}
				if !isNamed(bt, pkgLex, "Token") {
					continue
				}
				n++
				fresh := false
				if a, ok := fa.X.(*ssa.Alloc); ok {
					fresh = true
					for _, ref := range *a.Referrers() {
						if s2, ok := ref.(*ssa.Store); ok && s2.Addr == ssa.Value(a) && !selfCopy(s2) {
							fresh = false // a copy of an existing token
						}
					}
				}
				if ia, ok := fa.X.(*ssa.IndexAddr); ok {
					// element of a fresh literal array ([]lex.Token{{Typ: TStart}})
					if a, ok := ia.X.(*ssa.Alloc); ok {
						if _, isArr := a.Type().Underlying().(*types.Pointer).Elem().Underlying().(*types.Array); isArr {
							fresh = true
						}
					}
				}
				key := fnName(f) + "|" + fieldName(fa.X.Type(), fa.Field) + "←" + c.key(st.Val, nil)
				if fresh {
					r.ok(rule, key, c.instrPos(in), "field of a token literal being constructed (NODE-SOURCES checks which literals are allowed)")
				} else {
					r.bad(rule, key, c.instrPos(in), fmt.Sprintf("%s changes field %s of a token it received from the lexer to %s: the token is re-typed or re-spelled by context, so the same spelling is an operator in one place and a term in another (and its letter case reaches the tree)", fnName(f), fieldName(fa.X.Type(), fa.Field), c.key(st.Val, nil)))
				}
			}
		}
	}
	r.ok(rule, "stores-examined", "-", fmt.Sprintf("%d stores to token fields in the parser packages", n))
}

// numericReadingIgnored: the path established that the word reads as an int (or, failing that, as a
// finite float) but the leaf payload is not that reading's value. Returns a description, "" if fine.
// intReadingFailed: the path has found the integer reading's error non-nil.
func intReadingFailed(atoms []Atom) bool {
	for _, a := range atoms {
		if a.Kind == "nil" && !a.Pos && strings.HasSuffix(a.Subj, "#1") && (strings.Contains(a.Subj, "strconv.Atoi(") || strings.Contains(a.Subj, "strconv.ParseInt(")) {
			return true
		}
	}
	return false
}

func numericReadingIgnored(atoms []Atom, argKey string) string {
	intOK, intFail, floatOK, nonFinite := false, false, false, false
	for _, a := range withFiniteFacts(atoms) {
		switch {
		case a.Kind == "nil" && strings.HasSuffix(a.Subj, "#1") && (strings.Contains(a.Subj, "strconv.Atoi(") || strings.Contains(a.Subj, "strconv.ParseInt(")):
			if a.Pos {
				intOK = true
			} else {
				intFail = true
			}
		case a.Kind == "nil" && a.Pos && strings.HasSuffix(a.Subj, "#1") && strings.Contains(a.Subj, "strconv.ParseFloat("):
			floatOK = true
		case a.Kind == "call" && a.Pos && (a.Subj == "math.IsNaN" || a.Subj == "math.IsInf"):
			nonFinite = true
		}
	}
	switch {
	case intOK && !strings.Contains(argKey, "strconv.Atoi(") && !strings.Contains(argKey, "strconv.ParseInt("):
		return "the integer reading of the word succeeded"
	case intFail && floatOK && !nonFinite && !strings.Contains(argKey, "strconv.ParseFloat("):
		return "the float reading of the word succeeded (and the value was not found to be NaN or infinite)"
	}
	return ""
}

// loopInvariantLoad: a is a load from a local variable (or a field of one) that does not escape and is
// not stored to in any block the loop header dominates — the loop re-reads the same value every time.
func loopInvariantLoad(a ssa.Value, h *ssa.BasicBlock) bool {
	ld, ok := a.(*ssa.UnOp)
	if !ok || ld.Op != token.MUL {
		return false
	}
	var alloc *ssa.Alloc
	switch x := ld.X.(type) {
	case *ssa.Alloc:
		alloc = x
	case *ssa.FieldAddr:
		alloc, _ = x.X.(*ssa.Alloc)
	}
	if alloc == nil || alloc.Referrers() == nil {
		return false
	}
	storedInLoop := func(addr ssa.Value) (bad bool) {
		for _, ref := range *addr.Referrers() {
			switch y := ref.(type) {
			case *ssa.Store:
				if y.Val == addr {
					return true // the address itself is stored somewhere: escapes
				}
				if h.Dominates(y.Block()) {
					return true
				}
			case *ssa.UnOp, *ssa.DebugRef:
			case *ssa.FieldAddr:
			default:
				return true // passed to a call, converted, …: may be written through
			}
		}
		return false
	}
	if storedInLoop(alloc) {
		return false
	}
	for _, ref := range *alloc.Referrers() {
		if fa, ok := ref.(*ssa.FieldAddr); ok && fa.Referrers() != nil && storedInLoop(fa) {
			return false
		}
	}
	return true
}

// ctorOperatorsDeep: the operators of every node a call of f may construct (f's own calls of the general
// constructor with a constant operator, and those of the library functions it calls, three levels deep).
func (c *Ctx) ctorOperatorsDeep(f *ssa.Function, depth int) []string {
	set := map[string]bool{}
	general := c.pkgFunc(pkgExpr, "Expr")
	var walk func(g *ssa.Function, d int)
	seen := map[*ssa.Function]bool{}
	walk = func(g *ssa.Function, d int) {
		if g == nil || seen[g] || d > 3 || len(g.Blocks) == 0 {
			return
		}
		seen[g] = true
		for _, o := range c.ctorOperator(g) {
			set[o] = true
		}
		for _, b := range g.Blocks {
			for _, in := range b.Instrs {
				call, ok := in.(*ssa.Call)
				if !ok {
					continue
				}
				h := call.Call.StaticCallee()
				if h == nil || h == general || !inLib(h) {
					continue
				}
				if isExprPtr(resultType0(h)) {
					walk(h, d+1)
				}
			}
		}
	}
	walk(f, depth)
	return setKeys(set)
}

func resultType0(f *ssa.Function) types.Type {
	if f.Signature.Results().Len() == 0 {
		return types.Typ[types.Invalid]
	}
	return f.Signature.Results().At(0).Type()
}

// ESC-DECODE (C08, escaping clause): what the token→literal function does with the backslashes of a bare
// word. The lexer lets a backslash escape any following character, a backslash included; the writer's
// contract in the property is "a backslash before each special character denotes exactly that text as a
// plain value". Structural reading, per bare-word path that ends in a text leaf:
//   - a plain Literal carries the token text with exactly the escaping backslashes removed: the text itself
//     where the path established that it contains no backslash, or the pair-wise unescape (an escaped
//     backslash stands for one backslash; any other backslash is dropped and the next character kept);
//   - the * / ? test that makes a Wild leaf is not applied to the raw text, in which an escaped \* or \?
//     still counts as a pattern character.
func ruleESCDECODE(c *Ctx, r *Report) {
	const rule = "ESC-DECODE"
	r.doc(rule, "in the token→literal function, on every bare-word path that ends in a text leaf: a Literal carries the token text itself (where the path shows it has no backslash) or its pair-wise unescape — strings.NewReplacer(`\\\\`→`\\`, `\\`→``) or an equivalent recognised form; dropping every backslash loses escaped backslashes; any other rewrite of the text is not a decoding of the lexer's escapes. The wildcard test is made on a text in which escaped * and ? do not count")
	pr := c.parserPreamble(r, rule)
	if pr == nil || pr.TokToLit == nil {
		if pr != nil {
			r.bad(rule, "anchor", "-", "token→literal function not found")
		}
		return
	}
	fn := pr.TokToLit
	paths, complete := c.enumPathsOpt(fn, 20000, c.inlBool())
	if !complete {
		r.bad(rule, "paths", c.pos(fn.Pos()), "too many paths")
		return
	}
	nLit, nWild := 0, 0
	type verdict struct {
		bad, known    bool
		pos, msg, wit string
	}
	out := map[string]*verdict{}
	set := func(key string, v verdict) {
		if old, ok := out[key]; ok && old.bad {
			return
		}
		vv := v
		out[key] = &vv
	}
	for _, p := range paths {
		if p.Ret == nil || len(p.Ret.Results) != 2 || !isNilConst(c.resolve(p.Ret.Results[1], p.Env)) {
			continue
		}
		toks := possibleToks(c, p.Atoms, "$0.Typ")
		if len(toks) == 1 && (toks["lex.TQuoted"] || toks["lex.TRegexp"]) {
			continue
		}
		res, re := c.resolveE(p.Ret.Results[0], p.Env)
		call, isCall := res.(*ssa.Call)
		if !isCall || call.Call.StaticCallee() == nil || len(call.Call.Args) == 0 {
			continue
		}
		ops := c.ctorOperator(call.Call.StaticCallee())
		if len(ops) != 1 {
			continue // LIT-TYPE reports leaves of undecided kind
		}
		arg, ae := c.resolveE(call.Call.Args[0], re)
		if mi, ok := arg.(*ssa.MakeInterface); ok {
			arg, ae = c.resolveE(mi.X, ae)
		}
		if !isStringType(arg.Type()) {
			continue
		}
		argKey := c.key(arg, ae)
		pos := c.instrPos(p.Ret)
		switch ops[0] {
		case "expr.Literal":
			nLit++
			noBackslash := false
			for _, a := range p.Atoms {
				if subj, cs, pol, ok := c.charsetAtom(a); ok && !pol && subj == "$0.Val" && strings.Contains(cs, "\\") {
					noBackslash = true
				}
			}
			switch {
			case argKey == "$0.Val" && noBackslash:
				set("literal|text-without-backslash", verdict{pos: pos, msg: "the token text, on a path that established it has no backslash"})
			case argKey == "$0.Val":
				set("literal|raw-text", verdict{bad: true, pos: pos, msg: "a bare word is delivered as its raw token text on a path that has not established that it contains no backslash: the escaping backslashes reach the tree, the SQL constant and the parameter list"})
			default:
				if rc, ok := arg.(*ssa.Call); ok && calleeFullName(rc) == "(*strings.Replacer).Replace" && len(rc.Call.Args) == 2 && c.key(rc.Call.Args[1], ae) == "$0.Val" {
					pairs := c.replacerPairs(c.resolve(rc.Call.Args[0], ae))
					if len(pairs) == 2 && pairs[0] == [2]string{"\\\\", "\\"} && pairs[1] == [2]string{"\\", ""} {
						set("literal|pairwise-unescape", verdict{pos: pos, msg: "pair-wise unescape: `\\\\` → `\\`, any other `\\` dropped"})
						break
					}
					set("literal|rewrite|"+fmt.Sprint(pairs), verdict{bad: true, pos: pos, msg: fmt.Sprintf("the bare word's text is rewritten with the replacer %q, which is not the decoding of the lexer's escapes (an escaped backslash stands for one backslash, any other backslash is dropped, the character after it is kept whatever it is)", pairs)})
					break
				}
				if inner, ie, desc, ok := c.rewriteOfE(arg, ae); ok && c.key(inner, ie) == "$0.Val" {
					if desc == "rewrite[\\→]" {
						set("literal|every-backslash-dropped", verdict{bad: true, known: true, pos: pos, msg: "the escapes of a bare word are decoded by deleting every backslash, so an escaped backslash is deleted as well: the text the writer escaped is not the value delivered", wit: "`a:x\\\\y` (the text x\\y, its backslash escaped) → LITERAL(\"xy\")"})
					} else {
						set("literal|"+desc, verdict{bad: true, pos: pos, msg: "the bare word's text is rewritten by " + desc + ", which is not the decoding of the lexer's escapes"})
					}
					break
				}
				set("literal|payload|"+argKey, verdict{bad: true, pos: pos, msg: "a bare word becomes a Literal with the text " + argKey + "; it cannot be established that this is the token text with exactly the escaping backslashes removed (every backslash the lexer accepted escapes the character after it, whatever that character is, up to the last one of the word)"})
			}
		case "expr.Wild":
			nWild++
			subj := ""
			for i := len(p.Atoms) - 1; i >= 0 && subj == ""; i-- {
				if s, cs, pol, ok := c.charsetAtom(p.Atoms[i]); ok && pol && strings.ContainsAny(cs, "*?") {
					subj = s
				}
			}
			switch {
			case subj == "":
				set("wild-test|extract", verdict{bad: true, pos: pos, msg: "a Wild leaf is built on a path without a recognisable test for * or ?"})
			case subj == "$0.Val":
				set("wild-test|raw-text", verdict{bad: true, known: true, pos: pos, msg: "the wildcard test looks at the raw token text, in which an escaped \\* or \\? still counts: a bare word whose only * or ? is escaped becomes a pattern instead of the plain value the property promises", wit: "`a:b\\*` → (a) LIKE (WILD(\"b\\\\*\")), SQL `\"a\" SIMILAR TO 'b\\%'`"})
			default:
				set("wild-test|"+subj, verdict{bad: true, pos: pos, msg: "the wildcard test is made on " + subj + "; it cannot be established that escaped * and ? (and only those) are disregarded"})
			}
		}
	}
	var keys []string
	for k := range out {
		keys = append(keys, k)
	}
	sort.Strings(keys)
	for _, k := range keys {
		v := out[k]
		switch {
		case v.bad:
			r.badW(rule, k, v.pos, v.msg, v.wit)
		default:
			r.ok(rule, k, v.pos, v.msg)
		}
	}
	r.floor(rule, "bare-word text leaves", nLit, 1)
	r.floor(rule, "wildcard leaves", nWild, 1)
}

// pathHasWildcard: some atom of the path says positively that the token text contains * or ?.
// pathExcludesWildcard: the path has tested the word for * / ? and found none.
func pathExcludesWildcard(c *Ctx, atoms []Atom) bool {
	excluded := ""
	for _, a := range atoms {
		if _, set, pos, ok := c.charsetAtom(a); ok && !pos {
			excluded += set // tests for single characters add up
		}
	}
	return strings.Contains(excluded, "*") && strings.Contains(excluded, "?")
}

func pathHasWildcard(c *Ctx, atoms []Atom) bool {
	for _, a := range atoms {
		if _, set, pos, ok := c.charsetAtom(a); ok && pos && strings.ContainsAny(set, "*?") && !strings.ContainsAny(set, "0123456789") {
			return true
		}
	}
	return false
}
