package main

// Helper summaries (A3): what a boolean helper's result implies about its arguments, and which
// dynamic types a function returning an interface can produce.

import (
	"go/types"
	"sort"
	"strings"

	"golang.org/x/tools/go/ssa"
)

// boolSummary: for each truth value, the atoms common to all paths on which fn may return it,
// expressed over the callee's parameter keys ($0, $1, …).
type boolSummary struct {
	True, False         []Atom   // atoms common to all paths returning that value
	TrueSets, FalseSets [][]Atom // per-path conjunctions (DNF)
	ok                  bool
}

func (c *Ctx) boolSummaryOf(fn *ssa.Function) *boolSummary {
	memo := "boolsum:" + fnName(fn)
	if s, ok := c.roles[memo]; ok {
		return s.(*boolSummary)
	}
	s := &boolSummary{}
	c.roles[memo] = s // guards recursion
	if fn == nil || fn.Blocks == nil || fn.Signature.Results().Len() != 1 || !isBool(fn.Signature.Results().At(0).Type()) {
		return s
	}
	paths, complete := c.enumPaths(fn, 500)
	if !complete {
		return s
	}
	var trueSets, falseSets [][]Atom
	for _, p := range paths {
		if p.Ret == nil {
			if p.Cut {
				return s
			}
			continue
		}
		rv := c.resolve(p.Ret.Results[0], p.Env)
		// nested helper calls are expanded here, in the helper's own frame, where their
		// arguments are still available as values
		if b, ok := constBoolVal(rv); ok {
			if b {
				trueSets = append(trueSets, c.expand(p.Atoms, p.Env))
			} else {
				falseSets = append(falseSets, c.expand(p.Atoms, p.Env))
			}
			continue
		}
		for _, alt := range c.atomAlts(rv, true, p.Env) {
			trueSets = append(trueSets, c.expand(append(append([]Atom(nil), p.Atoms...), alt...), p.Env))
		}
		for _, alt := range c.atomAlts(rv, false, p.Env) {
			falseSets = append(falseSets, c.expand(append(append([]Atom(nil), p.Atoms...), alt...), p.Env))
		}
	}
	s.True = commonAtoms(trueSets)
	s.False = commonAtoms(falseSets)
	s.TrueSets, s.FalseSets = trueSets, falseSets
	s.ok = true
	return s
}

func commonAtoms(sets [][]Atom) []Atom {
	if len(sets) == 0 {
		return nil
	}
	var out []Atom
	for _, a := range sets[0] {
		all := true
		for _, s := range sets[1:] {
			if !hasAtom(s, a.String()) {
				all = false
				break
			}
		}
		if all {
			out = append(out, a)
		}
	}
	return out
}

func substParams(s string, args []string) string {
	if !strings.Contains(s, "$") {
		return s
	}
	var b strings.Builder
	for i := 0; i < len(s); i++ {
		if s[i] == '$' && i+1 < len(s) && s[i+1] >= '0' && s[i+1] <= '9' {
			n := int(s[i+1] - '0')
			if n < len(args) {
				b.WriteString(args[n])
				i++
				continue
			}
		}
		b.WriteByte(s[i])
	}
	return b.String()
}

// expand adds, for every call atom on a module helper, the atoms its summary implies (one level of
// nesting is expanded recursively up to depth 3).
func (c *Ctx) expand(atoms []Atom, e *env) []Atom {
	return c.expandD(atoms, e, 3)
}

func (c *Ctx) expandD(atoms []Atom, e *env, depth int) []Atom {
	out := append([]Atom(nil), atoms...)
	if depth == 0 {
		return out
	}
	for _, a := range atoms {
		if a.Kind == "cmp" && (a.Op == "==" || a.Op == "!=") {
			// a comparison of a classifying helper's result with a constant: what the helper established on the
			// paths that return that constant (or, for !=, on all paths that return another one)
			if sub := c.valueSummaryAtoms(a, e, atoms); len(sub) > 0 {
				out = append(out, c.expandD(sub, e, depth-1)...)
			}
			continue
		}
		if a.Kind != "call" || a.Fn == nil || !inModule(a.Fn) {
			continue
		}
		s := c.boolSummaryOf(a.Fn)
		if !s.ok {
			continue
		}
		ae := e
		if ae == nil && a.Env != nil {
			ae = a.Env
		}
		var args []string
		for _, v := range a.Args {
			args = append(args, c.key(v, ae))
		}
		src := s.True
		if !a.Pos {
			src = s.False
		}
		var sub []Atom
		for _, x := range src {
			y := x
			y.Subj = substParams(x.Subj, args)
			y.Val = substParams(x.Val, args)
			// arguments of nested call atoms are callee-local values; keep Fn for further expansion
			// only when the nested call's arguments are the callee's own parameters
			if y.Kind == "call" && y.Fn != nil {
				var mapped []ssa.Value
				okMap := true
				for _, na := range x.Args {
					if p, isP := c.resolve(na, nil).(*ssa.Parameter); isP {
						idx := -1
						for i, fp := range a.Fn.Params {
							if fp == p {
								idx = i
							}
						}
						if idx >= 0 && idx < len(a.Args) {
							mapped = append(mapped, a.Args[idx])
							continue
						}
					}
					okMap = false
				}
				if okMap {
					y.Args = mapped
				} else {
					y.Fn = nil
				}
			}
			sub = append(sub, y)
		}
		out = append(out, c.expandD(sub, e, depth-1)...)
	}
	return out
}

// dynTypesReturned: concrete types (as strings) a function can return in result i when that result
// has interface type; "nil" for the nil interface; "⊤" when a returned value is not a MakeInterface.
func (c *Ctx) dynTypesReturned(fn *ssa.Function, i int) []string {
	set := map[string]bool{}
	for _, b := range fn.Blocks {
		for _, in := range b.Instrs {
			r, ok := in.(*ssa.Return)
			if !ok || i >= len(r.Results) {
				continue
			}
			c.dynTypesOf(r.Results[i], set, map[ssa.Value]bool{})
		}
	}
	var out []string
	for k := range set {
		out = append(out, k)
	}
	sort.Strings(out)
	return out
}

func (c *Ctx) dynTypesOf(v ssa.Value, set map[string]bool, seen map[ssa.Value]bool) {
	if seen[v] {
		return
	}
	seen[v] = true
	switch x := v.(type) {
	case *ssa.MakeInterface:
		set[typeStr(x.X.Type())] = true
	case *ssa.Const:
		if x.Value == nil {
			set["nil"] = true
		} else {
			set["⊤"] = true
		}
	case *ssa.Phi:
		for _, e := range x.Edges {
			c.dynTypesOf(e, set, seen)
		}
	case *ssa.ChangeInterface:
		c.dynTypesOf(x.X, set, seen)
	default:
		if _, isIface := v.Type().Underlying().(*types.Interface); !isIface {
			set[typeStr(v.Type())] = true
		} else {
			set["⊤"] = true
		}
	}
}

// callCompatible: can the helper call atom hold together with the given atoms? (some path of the
// helper returning the required value is not contradicted by them)
func (c *Ctx) callCompatible(a Atom, given []Atom) bool {
	if a.Kind != "call" || a.Fn == nil || !inModule(a.Fn) {
		return true
	}
	s := c.boolSummaryOf(a.Fn)
	if !s.ok {
		return true
	}
	var args []string
	for _, v := range a.Args {
		args = append(args, c.key(v, nil))
	}
	sets := s.TrueSets
	if !a.Pos {
		sets = s.FalseSets
	}
	if len(sets) == 0 {
		return false
	}
	for _, set := range sets {
		var sub []Atom
		for _, x := range set {
			y := x
			y.Subj = substParams(x.Subj, args)
			y.Val = substParams(x.Val, args)
			sub = append(sub, y)
		}
		if !contradicts(given, sub) {
			return true
		}
	}
	return false
}

// valueSummary: for a module function with one result of a basic non-bool kind (an enum, typically), the path
// conditions under which each constant is returned, over the callee's parameter keys. ok is false when some path
// returns something that is not a constant.
type valueSummary struct {
	byConst map[string][][]Atom
	ok      bool
}

func (c *Ctx) valueSummaryOf(fn *ssa.Function) *valueSummary {
	memo := "valsum:" + fnName(fn)
	if s, ok := c.roles[memo]; ok {
		return s.(*valueSummary)
	}
	s := &valueSummary{byConst: map[string][][]Atom{}}
	c.roles[memo] = s
	if fn == nil || fn.Blocks == nil || fn.Signature.Results().Len() != 1 {
		return s
	}
	b, isBasic := fn.Signature.Results().At(0).Type().Underlying().(*types.Basic)
	if !isBasic || b.Info()&types.IsBoolean != 0 || b.Info()&(types.IsInteger|types.IsString) == 0 {
		return s
	}
	paths, complete := c.enumPaths(fn, 2000)
	if !complete || len(paths) == 0 {
		return s
	}
	for _, p := range paths {
		if p.Ret == nil {
			if p.Cut {
				return s
			}
			continue
		}
		k, isConst := c.resolve(p.Ret.Results[0], p.Env).(*ssa.Const)
		if !isConst {
			return s
		}
		key := c.constName(k)
		s.byConst[key] = append(s.byConst[key], append([]Atom(nil), p.Atoms...))
	}
	s.ok = true
	return s
}

func (c *Ctx) valueSummaryAtoms(a Atom, e *env, others []Atom) []Atom {
	bo, ok := a.Src.(*ssa.BinOp)
	if !ok {
		return nil
	}
	ae := e
	if ae == nil && a.Env != nil {
		ae = a.Env
	}
	var call *ssa.Call
	for _, side := range []ssa.Value{bo.X, bo.Y} {
		if cl, isCall := c.resolve(side, ae).(*ssa.Call); isCall && cl.Call.StaticCallee() != nil && inModule(cl.Call.StaticCallee()) {
			call = cl
		}
	}
	if call == nil {
		return nil
	}
	vs := c.valueSummaryOf(call.Call.StaticCallee())
	if !vs.ok {
		return nil
	}
	// all comparisons of this same call's result that hold here decide together which constants remain
	// (`!= actAccept ∧ != actShift` in the default branch of a switch leaves actReduce)
	var sets [][]Atom
	for k, ss := range vs.byConst {
		keep := true
		for _, o := range append([]Atom{a}, others...) {
			if o.Kind != "cmp" || o.Subj != a.Subj || o.Op != "==" && o.Op != "!=" {
				continue
			}
			if (o.Op == "==") != (k == o.Val) {
				keep = false
			}
		}
		if keep {
			sets = append(sets, ss...)
		}
	}
	if len(sets) == 0 {
		return nil
	}
	var args []string
	for _, v := range call.Call.Args {
		args = append(args, c.key(v, ae))
	}
	var out []Atom
	for _, x := range commonAtoms(sets) {
		y := x
		y.Subj = substParams(x.Subj, args)
		y.Val = substParams(x.Val, args)
		if y.Kind == "call" && y.Fn != nil {
			// keep the callee for further reading only when its arguments are the classifying helper's own
			// parameters: they are then the arguments of this call
			g := call.Call.StaticCallee()
			var mapped []ssa.Value
			okMap := true
			for _, na := range x.Args {
				idx := -1
				if p, isP := c.resolve(na, nil).(*ssa.Parameter); isP {
					for i, fp := range g.Params {
						if fp == p {
							idx = i
						}
					}
				}
				if idx >= 0 && idx < len(call.Call.Args) {
					mapped = append(mapped, call.Call.Args[idx])
				} else {
					okMap = false
				}
			}
			if okMap {
				y.Args = mapped
			} else {
				y.Fn = nil
			}
		}
		y.Env = ae
		out = append(out, y)
	}
	return out
}
