package main

// PREC-TABLE (C05), BRACKETS: the shift decision as an explicit table over TokType × TokType,
// compared with the oracle written from the property text on the care set.

import (
	"fmt"
	"sort"
	"strings"
)

func sortStrings(s []string) { sort.Strings(s) }

// binding strength from the property text: tightest first. '<' and '>' share a level.
var rankedChain = [][]string{
	{"TEqual"}, {"TGreater", "TLess"}, {"TColon"}, {"TPlus"}, {"TMinus"}, {"TTilde"}, {"TCarrot"}, {"TNot"}, {"TAnd"}, {"TOr"},
}

func rankOf(name string) int {
	for i, lvl := range rankedChain {
		for _, n := range lvl {
			if n == name {
				return i
			}
		}
	}
	return -1
}

var openBrackets = map[string]bool{"TLParen": true, "TLSquare": true, "TLCurly": true}
var closeBrackets = map[string]bool{"TRParen": true, "TRSquare": true, "TRCurly": true}
var terminalToks = map[string]bool{"TLiteral": true, "TQuoted": true, "TRegexp": true}

// shiftOracle: expected decision for (curr on top of nonTerminals, next from the lexer); care=false
// for pairs the documented behaviour does not constrain.
func shiftOracle(curr, next string) (shift, care bool, why string) {
	switch {
	case next == "TEOF" || next == "TErr":
		return false, true, "S1: never shift end-of-input or a lexical error"
	case terminalToks[next]:
		return true, true, "S2: terms are always shifted"
	case openBrackets[curr] || openBrackets[next]:
		return true, true, "S3: always shift into / after an opening bracket"
	case next == "TRSquare" || next == "TRCurly":
		return true, true, "S4: a closing range bracket is shifted so the range production can fire"
	case closeBrackets[curr]:
		return false, true, "S5: reduce the bracketed group before moving past it"
	}
	rc, rn := rankOf(curr), rankOf(next)
	if rc >= 0 && rn >= 0 {
		if rc == rn {
			if curr == next && (curr == "TAnd" || curr == "TOr") {
				return false, true, "S6: binary operators are left-associative (ties reduce)"
			}
			if curr == next && (curr == "TTilde" || curr == "TCarrot") {
				return false, true, "S6: a postfix operator applies to the operand completed before it, so a repeated ~ or ^ reduces the first one (a^2^3 is BOOST(BOOST(a,2),3))"
			}
			return false, false, ""
		}
		return rn < rc, true, "S6: shift iff the next operator binds strictly tighter (OR < AND < NOT < ^ < ~ < - < + < : < <,> < =)"
	}
	if curr == "TStart" && rn >= 0 {
		return true, true, "S7: any operator is shifted onto the empty operator stack"
	}
	if next == "TRParen" && rc >= 0 {
		return false, true, "S8: reduce pending operators before a closing parenthesis"
	}
	return false, false, ""
}

func rulePRECTABLE(c *Ctx, r *Report) {
	const rule = "PREC-TABLE"
	r.doc(rule, "the parser's shift predicate (with IsTerminal, the bracket predicates, HasLessPrecedence and the TokType constants) extracted as an exact table over all TokType × TokType pairs by constant propagation over the finite enum domain; compared with the oracle S1–S8 on its care set")
	pr := c.parserPreamble(r, rule)
	if pr == nil {
		return
	}
	toks := c.tokTypeConsts()
	r.floor(rule, "TokType constants", len(toks), 24)
	var domain []int64
	byVal := map[int64]string{}
	for n, v := range toks {
		domain = append(domain, v)
		byVal[v] = n
	}
	sort.Slice(domain, func(i, j int) bool { return domain[i] < domain[j] })
	fn := pr.ShouldShift
	var argKeys []string
	for i := range fn.Params {
		argKeys = append(argKeys, fmt.Sprintf("$%d", i))
	}
	leaves, table, why := c.decisionTable(fn, argKeys, domain)
	if why != "" {
		r.bad(rule, "extract", c.pos(fn.Pos()), "the shift predicate is no longer a pure decision over (top of nonTerminals, next token) types: "+why)
		return
	}
	if len(leaves) != 2 {
		r.bad(rule, "extract", c.pos(fn.Pos()), fmt.Sprintf("the shift predicate depends on %d token-type inputs %v; expected the top non-terminal and the next token", len(leaves), leaves))
		return
	}
	// which leaf is `next` (the Token parameter) and which is `curr`
	nextIdx := -1
	tokParam := len(fn.Params) - 1
	for i, l := range leaves {
		if strings.HasPrefix(l, fmt.Sprintf("$%d.", tokParam)) {
			nextIdx = i
		}
	}
	if nextIdx < 0 {
		r.bad(rule, "extract", c.pos(fn.Pos()), fmt.Sprintf("cannot tell which input is the next token: %v", leaves))
		return
	}
	currKey := leaves[1-nextIdx]
	if !strings.Contains(currKey, pr.NTF.Name()+"[(len(") {
		r.bad(rule, "extract", c.pos(fn.Pos()), "the current operator is not read from the top of parser."+pr.NTF.Name()+": "+currKey)
		return
	}
	r.unit("decision-table inputs", "curr="+currKey)
	r.unit("decision-table inputs", "next="+leaves[nextIdx])
	pairs, care, mism := 0, 0, 0
	rows := map[string][]string{}
	for _, cv := range domain {
		cn := byVal[cv]
		if terminalToks[cn] || cn == "TErr" || cn == "TEOF" {
			continue // never on the operator stack (PAR-PUSH: only non-terminals are pushed)
		}
		for _, nv := range domain {
			nn := byVal[nv]
			tuple := []int64{cv, nv}
			if nextIdx == 0 {
				tuple = []int64{nv, cv}
			}
			got := table[fmt.Sprint(tuple)]
			pairs++
			want, cares, reason := shiftOracle(cn, nn)
			if got {
				rows[cn] = append(rows[cn], nn)
			}
			if !cares {
				continue
			}
			care++
			if got != want {
				mism++
				if mism <= 12 {
					act := map[bool]string{true: "shift", false: "reduce"}
					r.bad(rule, fmt.Sprintf("pair|curr=%s,next=%s", cn, nn), c.pos(fn.Pos()),
						fmt.Sprintf("with %s on top of the operator stack and %s next, the parser decides to %s but must %s — %s", cn, nn, act[got], act[want], reason))
				}
			}
		}
	}
	if mism == 0 {
		r.ok(rule, "care-set", c.pos(fn.Pos()), fmt.Sprintf("%d pairs evaluated, %d in the care set, all agree with S1–S8", pairs, care))
	} else if mism > 12 {
		r.note("PREC-TABLE: %d mismatching pairs in total, first 12 reported", mism)
	}
	r.extra["prec_table_pairs"] = pairs
	r.extra["prec_table_care"] = care
	var sample []string
	for _, cn := range []string{"TStart", "TOr", "TAnd", "TNot", "TColon", "TRParen"} {
		sort.Strings(rows[cn])
		sample = append(sample, fmt.Sprintf("curr=%s shifts: %s", cn, strings.Join(rows[cn], " ")))
	}
	r.extra["prec_table_rows"] = sample
}

// BRACKETS: the lexer's symbol table produces the three bracket pairs, and terminal tokens are
// exactly {Err, Literal, Quoted, Regexp, EOF}.
func ruleBRACKETS(c *Ctx, r *Report) {
	const rule = "BRACKETS"
	r.doc(rule, "table agreement: lex.symbols maps ( ) [ ] { } : + = > < ~ ^ to their token types; terminalTokens is exactly {TErr,TLiteral,TQuoted,TRegexp,TEOF}")
	sym := c.readTable(pkgLex, "symbols")
	if sym.Err != "" {
		r.bad(rule, "symbols", "-", sym.Err)
		return
	}
	want := map[string]string{"40": "lex.TLParen", "41": "lex.TRParen", "91": "lex.TLSquare", "93": "lex.TRSquare", "123": "lex.TLCurly", "125": "lex.TRCurly",
		"58": "lex.TColon", "43": "lex.TPlus", "61": "lex.TEqual", "62": "lex.TGreater", "60": "lex.TLess", "126": "lex.TTilde", "94": "lex.TCarrot"}
	got := map[string]string{}
	for _, e := range sym.Entries {
		got[e.KeyName] = c.key(e.Val, nil)
	}
	for k, v := range want {
		key := "symbols|" + k
		if got[k] == v {
			r.ok(rule, key, "-", v)
		} else {
			r.bad(rule, key, sym.where(c), fmt.Sprintf("the symbol %q must lex as %s; the table maps it to %q", rune(atoi(k)), v, got[k]))
		}
	}
	for k, v := range got {
		if _, ok := want[k]; !ok {
			r.bad(rule, "symbols|extra|"+k, sym.where(c), fmt.Sprintf("unexpected symbol %q → %s in the lexer's symbol table", rune(atoi(k)), v))
		}
	}
	// terminal tokens: the exported predicate IsTerminal folded at every TokType constant (the table
	// behind it, if any, is an implementation detail)
	isTerm := c.pkgFunc(pkgLex, "IsTerminal")
	if isTerm == nil {
		r.bad(rule, "IsTerminal", "-", "lex.IsTerminal not found")
		return
	}
	toks := c.tokTypeConsts()
	var domain []int64
	byVal := map[int64]string{}
	for n, v := range toks {
		domain = append(domain, v)
		byVal[v] = n
	}
	leaves, table, why := c.decisionTable(isTerm, []string{"$0"}, domain)
	if why != "" || len(leaves) != 1 {
		r.bad(rule, "IsTerminal|extract", c.pos(isTerm.Pos()), "IsTerminal is not a pure predicate on the token type: "+why)
		return
	}
	var terms []string
	for _, v := range domain {
		if table[fmt.Sprint([]int64{v})] {
			terms = append(terms, byVal[v])
		}
	}
	sort.Strings(terms)
	ks := strings.Join(terms, ",")
	if ks == "TEOF,TErr,TLiteral,TQuoted,TRegexp" {
		r.ok(rule, "terminalTokens", c.pos(isTerm.Pos()), ks)
	} else {
		r.bad(rule, "terminalTokens", c.pos(isTerm.Pos()), "terminal token set must be {TErr,TLiteral,TQuoted,TRegexp,TEOF}; IsTerminal accepts {"+ks+"}")
	}
}

func atoi(s string) int {
	n := 0
	fmt.Sscan(s, &n)
	return n
}
