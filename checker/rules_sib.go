package main

// C04: sibling agreement between the inline and the parameterized renderer, placeholder/parameter
// balance, and non-interference of values with the SQL text.

import (
	"fmt"
	"go/types"
	"regexp"
	"sort"
	"strings"

	"golang.org/x/tools/go/ssa"
)

var serCallRe = regexp.MustCompile(`driver\.\(Base\)\.[A-Za-z0-9_]+\(`)

func setKeys(m map[string]bool) []string {
	var out []string
	for k := range m {
		out = append(out, k)
	}
	sort.Strings(out)
	return out
}

// lookupSite: the `fn, ok := b.RenderFNs[e.Op]` lookup in a renderer.
func (c *Ctx) renderLookup(fn *ssa.Function) *ssa.Lookup {
	for _, b := range fn.Blocks {
		for _, in := range b.Instrs {
			if lk, ok := in.(*ssa.Lookup); ok && lk.CommaOk {
				k := c.key(lk.X, nil)
				if strings.HasSuffix(k, ".RenderFNs") {
					return lk
				}
			}
		}
	}
	return nil
}

// preLookupOps: operators for which the renderer returns before reaching the table lookup with a
// value that is not an error propagation (handled specially).
func (c *Ctx) specialCasedOps(fn *ssa.Function) map[string]string {
	out := map[string]string{}
	lk := c.renderLookup(fn)
	paths, _ := c.enumPaths(fn, 20000)
	for _, p := range paths {
		if p.Ret == nil {
			continue
		}
		n := len(p.Ret.Results)
		if !isNilConst(c.resolve(p.Ret.Results[n-1], p.Env)) {
			// forwarded error from a special function: look at the call
		}
		passed := false
		for _, in := range p.Instrs {
			if in == ssa.Instruction(lk) {
				passed = true
			}
		}
		if passed {
			continue
		}
		// returns before the lookup: which ops, and what is returned
		v := c.resolve(p.Ret.Results[0], p.Env)
		var call *ssa.Call
		if ex, ok := v.(*ssa.Extract); ok {
			call, _ = ex.Tuple.(*ssa.Call)
		}
		if cl, ok := v.(*ssa.Call); ok {
			call = cl
		}
		if call == nil || call.Call.StaticCallee() == nil {
			continue
		}
		callee := call.Call.StaticCallee()
		if callee == fn || fnName(callee) == fnName(fn) {
			continue
		}
		for _, a := range p.Atoms {
			if a.Kind == "cmp" && a.Op == "==" && strings.HasSuffix(a.Subj, ".Op") && strings.HasPrefix(a.Val, "expr.") {
				out[a.Val] = fnName(callee)
			}
		}
	}
	return out
}

func ruleSIBRENDER(c *Ctx, r *Report) {
	const rule = "SIB-RENDER"
	r.doc(rule, "Render vs RenderParam: same set of operators whose non-simple operands are parenthesised, same isSimple helper, same lookup b.RenderFNs[e.Op] with a non-nil error on a missing entry, children serialised left then right")
	dr := c.driverRoles()
	if dr.Err != "" {
		r.bad(rule, "anchor", "-", dr.Err)
		return
	}
	w1, s1 := c.wrapOps(dr.Render)
	w2, s2 := c.wrapOps(dr.RenderParam)
	r.floor(rule, "wrap sites (inline)", s1, 2)
	r.floor(rule, "wrap sites (parameterized)", s2, 2)
	a, b := strings.Join(setKeys(w1), ","), strings.Join(setKeys(w2), ",")
	if a == b {
		r.ok(rule, "wrap-set", c.pos(dr.RenderParam.Pos()), a)
	} else {
		var diff []string
		for k := range w1 {
			if !w2[k] {
				diff = append(diff, k+" (inline only)")
			}
		}
		for k := range w2 {
			if !w1[k] {
				diff = append(diff, k+" (parameterized only)")
			}
		}
		sort.Strings(diff)
		r.bad(rule, "wrap-set", c.pos(dr.RenderParam.Pos()), "the two renderers parenthesise non-simple operands for different operator sets: "+strings.Join(diff, ", ")+" — the parameterized SQL groups differently from the inline SQL")
	}
	// both use the same simplicity helper
	if dr.IsSimple != nil && c.callsTransitively(dr.Render, dr.IsSimple, 2, map[*ssa.Function]bool{}) && c.callsTransitively(dr.RenderParam, dr.IsSimple, 2, map[*ssa.Function]bool{}) {
		r.ok(rule, "isSimple", c.pos(dr.IsSimple.Pos()), "shared helper")
	} else {
		r.bad(rule, "isSimple", c.pos(dr.RenderParam.Pos()), "the two renderers do not share the same simplicity test")
	}
	// children left then right
	for _, t := range []struct {
		name string
		fn   *ssa.Function
		ser  *ssa.Function
	}{{"inline", dr.Render, dr.Ser}, {"param", dr.RenderParam, dr.SerParam}} {
		var order []string
		for _, bb := range t.fn.Blocks {
			for _, in := range bb.Instrs {
				if call, ok := in.(*ssa.Call); ok && call.Call.StaticCallee() == t.ser {
					order = append(order, c.key(call.Call.Args[len(call.Call.Args)-1], nil))
				}
			}
		}
		// blocks are in source order for straight-line code; verify by dominance
		key := t.name + "|children-order"
		if len(order) == 2 && strings.HasSuffix(order[0], ".Left") && strings.HasSuffix(order[1], ".Right") {
			r.ok(rule, key, c.pos(t.fn.Pos()), "Left then Right")
		} else {
			r.bad(rule, key, c.pos(t.fn.Pos()), fmt.Sprintf("children must be serialised exactly once each, Left then Right; found %v", order))
		}
	}
}

func ruleSIBSER(c *Ctx, r *Report) {
	const rule = "SIB-SER"
	r.doc(rule, "the two serialisers have the same set of dynamic-type cases, the same identifier checks and the same RangeBoundary skeletons")
	dr := c.driverRoles()
	if dr.Err != "" {
		r.bad(rule, "anchor", "-", dr.Err)
		return
	}
	type caseInfo struct {
		skels  map[string]bool
		guards map[string]bool
		errs   int
	}
	collect := func(fn *ssa.Function) map[string]*caseInfo {
		out := map[string]*caseInfo{}
		paths, _ := c.enumPathsInl(fn, 20000, c.serKeep()...)
		n := fn.Signature.Results().Len()
		for _, p := range paths {
			if p.Ret == nil {
				continue
			}
			typ := "default"
			for _, a := range p.Atoms {
				if a.Kind == "type" && a.Pos && a.Subj == "$1" {
					typ = a.Val
				}
			}
			if hasAtom(p.Atoms, "$1==nil") {
				typ = "nil"
			}
			ci := out[typ]
			if ci == nil {
				ci = &caseInfo{skels: map[string]bool{}, guards: map[string]bool{}}
				out[typ] = ci
			}
			if isNilConst(c.resolve(p.Ret.Results[n-1], p.Env)) {
				ci.skels[skelString(c.skeleton(p.Ret.Results[0], p.Env))] = true
				for _, a := range p.Atoms {
					if a.Kind == "type" || a.Kind == "nil" && a.Subj == "$1" {
						continue
					}
					s := a.String()
					// guards local to the case: about the payload itself
					if strings.Contains(s, "$1.(") && !strings.Contains(s, "#") {
						ci.guards[s] = true
					}
				}
			} else {
				ci.errs++
			}
		}
		return out
	}
	ci, cp := collect(dr.Ser), collect(dr.SerParam)
	var kinds []string
	seen := map[string]bool{}
	for k := range ci {
		seen[k] = true
	}
	for k := range cp {
		seen[k] = true
	}
	for k := range seen {
		kinds = append(kinds, k)
	}
	sort.Strings(kinds)
	for _, k := range kinds {
		a, b := ci[k], cp[k]
		key := "case|" + k
		switch {
		case a == nil:
			r.bad(rule, key, c.pos(dr.SerParam.Pos()), "payload kind "+k+" is handled only by the parameterized serialiser")
		case b == nil:
			r.bad(rule, key, c.pos(dr.Ser.Pos()), "payload kind "+k+" is handled only by the inline serialiser")
		default:
			if k == "expr.Column" || k == "*expr.RangeBoundary" || k == "*expr.Expression" {
				// these do not carry values: same skeletons, same guards
				sa, sb := strings.Join(setKeys(a.skels), " | "), strings.Join(setKeys(b.skels), " | ")
				// normalise the recursive call names
				// the recursive call may go through a helper method of the driver (e.g. one that
				// special-cases an unbounded range end): any driver method applied to the same
				// sub-term is the same hole
				norm := func(s string) string {
					return serCallRe.ReplaceAllString(s, "SER(")
				}
				ga, gb := strings.Join(setKeys(a.guards), " ∧ "), strings.Join(setKeys(b.guards), " ∧ ")
				if norm(sa) != norm(sb) {
					r.bad(rule, key+"|skeleton", c.pos(dr.SerParam.Pos()), fmt.Sprintf("the two serialisers render %s differently: inline %s, parameterized %s", k, sa, sb))
				} else if ga != gb {
					r.bad(rule, key+"|guards", c.pos(dr.SerParam.Pos()), fmt.Sprintf("the two serialisers check %s differently: inline requires [%s], parameterized requires [%s]", k, ga, gb))
				} else {
					r.ok(rule, key, c.pos(dr.SerParam.Pos()), norm(sa)+" under ["+ga+"]")
				}
			} else {
				r.ok(rule, key, c.pos(dr.SerParam.Pos()), "handled by both")
			}
		}
	}
	r.floor(rule, "payload kinds", len(kinds), 6)
}

// PH-LINEAR (INV-PH)
func rulePHLINEAR(c *Ctx, r *Report) {
	const rule = "PH-LINEAR"
	r.doc(rule, "INV-PH: in the parameterized serialiser every success return pairs a `?` skeleton with exactly one appended parameter and a `?`-free leaf skeleton with none; in every function that composes fragments in parameterized mode each operand hole that may carry placeholders occurs exactly once in every result skeleton, in left-to-right order, and parameters are concatenated left then right")
	dr := c.driverRoles()
	pt := c.pgPreamble(r, rule)
	if dr.Err != "" || pt == nil {
		r.bad(rule, "anchor", "-", "roles unresolved")
		return
	}
	// 1. serialiser leaves
	rows, _ := c.successSkeletons(dr.SerParam)
	nLeaf := 0
	for _, row := range rows {
		typ := "default"
		for _, a := range row.Atoms {
			if a.Kind == "type" && a.Pos && a.Subj == "$1" {
				typ = a.Val
			}
		}
		if typ == "*expr.Expression" || typ == "[]*expr.Expression" || typ == "*expr.RangeBoundary" || hasAtom(row.Atoms, "$1==nil") {
			continue
		}
		nLeaf++
		params := c.key(row.P.Ret.Results[1], row.P.Env)
		q := strings.Count(row.Str, "?")
		np := 0
		if params != "nil" && params != "$ret1" {
			if strings.HasPrefix(params, "[") && strings.HasSuffix(params, "]") && !strings.Contains(params, ",") {
				np = 1
			} else {
				np = -1
			}
		}
		key := fmt.Sprintf("serialiser|%s|%s", typ, row.Str)
		if q == np {
			r.ok(rule, key, c.instrPos(row.P.Ret), fmt.Sprintf("%d placeholder(s), %d parameter(s)", q, np))
		} else {
			r.bad(rule, key, c.instrPos(row.P.Ret), fmt.Sprintf("the parameterized serialiser returns the text %s with parameter list %s: placeholders and parameters are out of step", row.Str, params))
		}
	}
	r.floor(rule, "leaf serialisations", nLeaf, 3)
	// 1b. list elements: parameters accumulate in element order (append(acc, elem params...))
	for _, b := range dr.SerParam.Blocks {
		for _, in := range b.Instrs {
			call, ok := in.(*ssa.Call)
			if !ok {
				continue
			}
			if bi, ok := call.Call.Value.(*ssa.Builtin); ok && bi.Name() == "append" && len(call.Call.Args) == 2 {
				a0, a1 := c.key(call.Call.Args[0], nil), c.key(call.Call.Args[1], nil)
				if strings.Contains(a1, "[]*expr.Expression)[") && strings.Contains(a1, "#1") {
					if strings.HasPrefix(a0, "phi{") {
						r.ok(rule, "serialiser|list-params-order", c.instrPos(in), "append(accumulated, element params...)")
					} else {
						r.bad(rule, "serialiser|list-params-order", c.instrPos(in), "list element parameters are not appended to the accumulated list in element order")
					}
				} else if strings.Contains(a0, "[]*expr.Expression)[") && strings.Contains(a0, "#1") {
					r.bad(rule, "serialiser|list-params-order", c.instrPos(in), "parameters of a list element are placed before those of the earlier elements: they no longer line up with the placeholders")
				}
			}
		}
	}
	// 2. RenderParam concatenates lparams then rparams
	found := false
	for _, b := range dr.RenderParam.Blocks {
		for _, in := range b.Instrs {
			call, ok := in.(*ssa.Call)
			if !ok {
				continue
			}
			if bi, ok := call.Call.Value.(*ssa.Builtin); ok && bi.Name() == "append" && len(call.Call.Args) == 2 {
				a0, a1 := c.key(call.Call.Args[0], nil), c.key(call.Call.Args[1], nil)
				if strings.Contains(a0, ".Left)#1") && strings.Contains(a1, ".Right)#1") {
					found = true
					r.ok(rule, "RenderParam|params-order", c.instrPos(in), "append(left params, right params...)")
				} else if strings.Contains(a0, ".Right)#1") && strings.Contains(a1, ".Left)#1") {
					found = true
					r.bad(rule, "RenderParam|params-order", c.instrPos(in), "parameters of the right operand are placed before those of the left operand: they no longer line up with the placeholders in the SQL text")
				}
			}
		}
	}
	if !found {
		r.bad(rule, "RenderParam|params-order", c.pos(dr.RenderParam.Pos()), "RenderParam does not concatenate the left operand's parameters followed by the right operand's")
	}
	// 3. every composing function: holes once, in order
	type comp struct {
		op string
		fn *ssa.Function
		e  *TableEntry
	}
	var comps []comp
	special := c.specialCasedOps(dr.RenderParam)
	for op, e := range pt.Eff {
		if e.Fn == nil || special[op] != "" {
			continue
		}
		comps = append(comps, comp{op, e.Fn, e})
	}
	if dr.LikeParam != nil {
		comps = append(comps, comp{"expr.Like", dr.LikeParam, nil})
	}
	if dr.RangeParam != nil {
		comps = append(comps, comp{"expr.Range", dr.RangeParam, nil})
	}
	sort.Slice(comps, func(i, j int) bool { return comps[i].op < comps[j].op })
	for _, cm := range comps {
		rows, err := c.successSkeletons(cm.fn)
		if err != "" {
			r.bad(rule, cm.op+"|paths", c.pos(cm.fn.Pos()), err)
			continue
		}
		leftLeaf := false
		if vf := c.validatorFacts(cm.op); vf.Err == "" {
			leftLeaf = vf.all(func(f []Atom) bool { return c.leafAt(f, "$0.Left") })
		}
		for _, row := range rows {
			s := row.Str
			nl, nr := strings.Count(s, "{$0}"), strings.Count(s, "{$1}")
			if cm.fn == dr.RangeParam {
				// right is split into its two ends: each end may occur at most once
				rt := c.rangeTableOf(cm.fn)
				_ = rt
				continue
			}
			key := fmt.Sprintf("%s|%s", cm.op, c.bindSkeleton(s, cm.e))
			okOrder := true
			if nl > 0 && nr > 0 && strings.Index(s, "{$0}") > strings.Index(s, "{$1}") {
				okOrder = false
			}
			switch {
			case nl > 1 && !leftLeaf:
				r.bad(rule, key, c.instrPos(row.P.Ret), fmt.Sprintf("the left operand text occurs %d times in %s; it may contain placeholders, whose parameters are supplied once", nl, s))
			case nr > 1:
				r.bad(rule, key, c.instrPos(row.P.Ret), fmt.Sprintf("the right operand text occurs %d times in %s; it may contain placeholders, whose parameters are supplied once", nr, s))
			case !okOrder:
				r.bad(rule, key, c.instrPos(row.P.Ret), "the right operand's text precedes the left operand's while parameters are ordered left then right")
			default:
				r.ok(rule, key, c.instrPos(row.P.Ret), fmt.Sprintf("left×%d right×%d", nl, nr))
			}
		}
	}
	// 4. the range function repeats the field: the field of a Range node is a leaf, but a leaf that
	// is not a Column is serialised as a placeholder
	if dr.RangeParam != nil {
		rt := c.rangeTableOf(dr.RangeParam)
		maxL := 0
		pos := "-"
		for _, row := range rt.Rows {
			if n := strings.Count(row.Skel, "{L}"); n > maxL {
				maxL = n
				pos = c.instrPos(row.P.Ret)
			}
		}
		colOnly := c.rangeFieldIsColumn()
		switch {
		case maxL <= 1:
			r.ok(rule, "expr.Range|field-once", pos, "field text occurs once")
		case colOnly:
			r.ok(rule, "expr.Range|field-once", pos, "field is proven to be a Column (never a placeholder)")
		default:
			r.badW(rule, "expr.Range|field-repeated", pos, fmt.Sprintf("the parameterized range function writes the field text %d times; the validator only proves the field to be a leaf, and a non-column leaf (number, quoted string) is serialised as `?` with a single parameter", maxL), "`5:[1 TO 2]` → `? >= ? AND ? <= ?` with 3 parameters")
		}
	}
}

// rangeFieldIsColumn: does the Range validator prove Left's payload to be an expr.Column?
func (c *Ctx) rangeFieldIsColumn() bool {
	vf := c.validatorFacts("expr.Range")
	if vf.Err != "" {
		return false
	}
	return vf.all(func(f []Atom) bool {
		for _, a := range f {
			if a.Kind == "type" && a.Pos && a.Subj == "$0.Left.(*expr.Expression).Left" && a.Val == "expr.Column" {
				return true
			}
		}
		return false
	})
}

// SIB-RANGE: decision tables of the inline and parameterized range functions agree.
func ruleSIBRANGE(c *Ctx, r *Report) {
	const rule = "SIB-RANGE"
	r.doc(rule, "the decision table of the parameterized range function (same extraction as SQL-RANGE) equals the inline table: same stage ↔ same stage, numeric placeholders ↔ int stage, other placeholders ↔ string stage (a defect both share is a C03 matter, not a disagreement)")
	pt := c.pgPreamble(r, rule)
	dr := c.driverRoles()
	if pt == nil || dr.RangeParam == nil {
		r.bad(rule, "anchor", "-", "parameterized range function not found (the function RenderParam calls in its Range branch)")
		return
	}
	e := pt.Eff["expr.Range"]
	if e == nil || e.Fn == nil {
		r.bad(rule, "anchor", "-", "inline range function not registered")
		return
	}
	ti, tp := c.rangeTableOf(e.Fn), c.rangeTableOf(dr.RangeParam)
	if ti.Err != "" {
		r.bad(rule, "inline|extract", c.pos(e.Fn.Pos()), ti.Err)
		return
	}
	if tp.Err != "" {
		r.bad(rule, "param|extract", c.pos(dr.RangeParam.Pos()), tp.Err)
		return
	}
	tab := func(rt *rangeTable) map[string]string {
		m := map[string]string{}
		for _, row := range rt.Rows {
			for _, ex := range dims(row.Excl) {
				for _, mo := range dims(row.MinOpen) {
					for _, xo := range dims(row.MaxOpen) {
						k := fmt.Sprintf("%s|excl=%v|minOpen=%v|maxOpen=%v", row.Stage, ex, mo, xo)
						// a path that determines the dimension takes precedence over one that leaves it open
						if _, have := m[k]; have && (row.Excl == -1 || row.MinOpen == -1 || row.MaxOpen == -1) {
							continue
						}
						m[k] = row.Skel
					}
				}
			}
		}
		return m
	}
	mi, mp := tab(ti), tab(tp)
	n := 0
	// the same stage in both functions, and the placeholder stages against the inline stage that
	// handles the same kind of value (numbers ↔ int stage, other kinds ↔ string stage)
	counterpart := map[string]string{"int": "int", "float": "float", "string": "string", "param-number": "int", "param-other": "string"}
	var keys []string
	for k := range mp {
		keys = append(keys, k)
	}
	sort.Strings(keys)
	for _, k := range keys {
		stage := strings.SplitN(k, "|", 2)[0]
		cs, ok := counterpart[stage]
		if !ok {
			r.bad(rule, "stage|"+stage, c.pos(dr.RangeParam.Pos()), "unrecognised stage in the parameterized range function")
			continue
		}
		ik := cs + "|" + strings.SplitN(k, "|", 2)[1]
		iv, ok := mi[ik]
		n++
		switch {
		case !ok:
			r.bad(rule, "diff|"+k, c.pos(dr.RangeParam.Pos()), "the parameterized range function has a case "+k+" with no inline counterpart "+ik)
		case iv != mp[k]:
			r.bad(rule, "diff|"+k, c.pos(dr.RangeParam.Pos()), fmt.Sprintf("for %s the parameterized range function renders `%s` but the inline function renders `%s` for %s: substituting the parameters does not give the inline predicate", k, mp[k], iv, ik))
		}
	}
	for k := range mi {
		if _, ok := mp[k]; !ok {
			r.bad(rule, "diff|missing|"+k, c.pos(dr.RangeParam.Pos()), "the parameterized range function has no case for "+k)
		}
	}
	r.ok(rule, "tables-compared", c.pos(dr.RangeParam.Pos()), fmt.Sprintf("%d (stage, exclusive, open-lower, open-upper) rows of the parameterized table compared with the inline table", n))
	r.floor(rule, "rows compared", n, 20)
	r.extra["range_table_param"] = func() []string {
		var out []string
		for _, row := range tp.Rows {
			out = append(out, fmt.Sprintf("stage=%s excl=%d minOpen=%d maxOpen=%d → %s", row.Stage, row.Excl, row.MinOpen, row.MaxOpen, row.Skel))
		}
		return out
	}()
}

// SIB-LIKE: regexp-vs-wildcard test agrees between inline and parameterized mode.
func ruleSIBLIKE(c *Ctx, r *Report) {
	const rule = "SIB-LIKE"
	r.doc(rule, "the `/…/` regexp test of the inline like function (on the quoted text: offset 1) and of the parameterized path (on the raw value: offset 0) must be the same predicate on the raw value: minimum length − 2·offset and the tested positions agree; both rewrite * → % and ? → _ exactly when the test fails")
	pt := c.pgPreamble(r, rule)
	dr := c.driverRoles()
	if pt == nil || dr.Err != "" {
		return
	}
	type test struct {
		where  string
		minLen int64
		offset int64
		pos    string
		ok     bool
	}
	// extract from a function: on the path to the `~` skeleton (or the no-rewrite path), the atoms
	// len(x) >= N, x[k] == '/', x[len-1-k] == '/'
	extract := func(fn *ssa.Function, wantTilde bool) []test {
		var out []test
		for _, lt := range c.regexpTests(fn) {
			out = append(out, test{where: fnName(fn), pos: lt.pos, minLen: lt.minLen, offset: lt.offset, ok: lt.ok})
		}
		return out
	}
	var inl, par []test
	if e := pt.Eff["expr.Like"]; e != nil && e.Fn != nil {
		inl = extract(e.Fn, true)
	}
	if dr.LikeParam != nil {
		par = extract(dr.LikeParam, true)
	}
	// RenderParam: the path on which the parameter is *not* rewritten
	rp := c.renderParamRegexpTest(dr.RenderParam)
	if len(inl) == 0 || !inl[0].ok {
		r.bad(rule, "inline|extract", "-", "the inline like function has no recognisable /…/ test on its regexp path")
		return
	}
	rawMin := inl[0].minLen - 2*inl[0].offset
	r.ok(rule, "inline", inl[0].pos, fmt.Sprintf("len ≥ %d at offset %d ⇒ raw pattern length ≥ %d", inl[0].minLen, inl[0].offset, rawMin))
	for _, t := range par {
		key := "param|" + t.where
		if !t.ok {
			r.bad(rule, key, t.pos, "no recognisable /…/ test")
			continue
		}
		if t.minLen-2*t.offset == rawMin {
			r.ok(rule, key, t.pos, fmt.Sprintf("raw pattern length ≥ %d", t.minLen-2*t.offset))
		} else {
			r.badW(rule, key, t.pos, fmt.Sprintf("%s treats a pattern as a regular expression when its raw length is ≥ %d; the inline like function does so at raw length ≥ %d: short regexps are `~` inline but SIMILAR TO parameterized", t.where, t.minLen-2*t.offset, rawMin), "`a:/b/`")
		}
	}
	if len(par) == 0 {
		r.bad(rule, "param|extract", "-", "the parameterized like function has no regexp path")
	}
	// the rewrite applied to the pattern must be the same on both sides (canonical rewrite descriptor)
	inlineChain, paramChain := "", ""
	if e := pt.Eff["expr.Like"]; e != nil && e.Fn != nil {
		rows, _ := c.successSkeletons(e.Fn)
		for _, row := range rows {
			for _, sg := range row.Skel {
				if !sg.isLit() && strings.HasPrefix(sg.Hole, "rewrite[") {
					inlineChain = sg.Hole[:strings.Index(sg.Hole, "]")+1]
				} else if !sg.isLit() && strings.Contains(sg.Hole, "Replace") {
					inlineChain = "non-canonical: " + sg.Hole
				}
			}
		}
	}
	{
		paths, _ := c.enumPathsOpt(dr.RenderParam, 40000, c.inlBool(append(c.serKeep(), dr.LikeParam, dr.RangeParam)...))
		for _, p := range paths {
			for _, in := range p.Instrs {
				st, ok := in.(*ssa.Store)
				if !ok {
					continue
				}
				if _, isIdx := st.Addr.(*ssa.IndexAddr); !isIdx {
					continue
				}
				if _, desc, ok := c.rewriteOf(st.Val, p.Env); ok {
					paramChain = desc
				} else if strings.Contains(c.key(st.Val, p.Env), "Replace") {
					paramChain = "non-canonical: " + c.key(st.Val, p.Env)
				}
			}
		}
	}
	if inlineChain == "" || paramChain == "" {
		r.bad(rule, "rewrite-chain|extract", c.pos(dr.RenderParam.Pos()), fmt.Sprintf("wildcard rewrite not recognised (inline %q, parameterized %q)", inlineChain, paramChain))
	} else if inlineChain == paramChain {
		r.ok(rule, "rewrite-chain", c.pos(dr.RenderParam.Pos()), inlineChain)
	} else {
		r.bad(rule, "rewrite-chain", c.pos(dr.RenderParam.Pos()), fmt.Sprintf("the wildcard pattern is rewritten differently in the two modes: inline applies %s, parameterized applies %s — the parameter is not the inline constant", inlineChain, paramChain))
	}
	if rp.outside != "" {
		r.bad(rule, "param|"+fnName(dr.RenderParam)+"|rewrite-outside-like", rp.outside, "RenderParam rewrites * → % / ? → _ in a parameter on a path where the node is not a LIKE comparison: the bound value differs from the constant the inline renderer writes")
	}
	if rp.ok {
		key := "param|" + fnName(dr.RenderParam) + "|rewrite"
		if rp.minLen-2*rp.offset == rawMin {
			r.ok(rule, key, rp.pos, fmt.Sprintf("wildcard rewrite skipped at raw length ≥ %d", rp.minLen))
		} else {
			r.badW(rule, key, rp.pos, fmt.Sprintf("RenderParam keeps a pattern unrewritten (as a regexp) when its raw length is ≥ %d; the inline like function does so at raw length ≥ %d", rp.minLen-2*rp.offset, rawMin), "`a:/b/`")
		}
	} else {
		r.bad(rule, "param|RenderParam|rewrite", c.pos(dr.RenderParam.Pos()), "RenderParam has no recognisable regexp test guarding the * → % / ? → _ rewrite of the parameter")
	}
}

type likeTest struct {
	minLen, offset int64
	pos            string
	ok             bool
	outside        string // position of a wildcard rewrite of a parameter on a path that is not a Like node
}

// inlBool: inlining options that also read boolean predicates in place (their tests become atoms on the
// caller's own values, so a test written in a helper and one written in place look the same).
func (c *Ctx) inlBool(keep ...*ssa.Function) *InlineOpts {
	o := &InlineOpts{Keep: map[*ssa.Function]bool{}, Bool: true}
	for _, k := range keep {
		if k != nil {
			o.Keep[k] = true
		}
	}
	return o
}

// slashTest reads the /…/ test off a conjunction of atoms: x[k] == '/' and x[len(x)-1-k] == '/' with a
// lower bound on len(x).
func slashTest(atoms []Atom) (t likeTest) {
	t.minLen, t.offset = -1, -1
	subj := ""
	n := 0
	for _, a := range atoms {
		if a.Kind == "cmp" && a.Op == "==" && a.Val == "47" {
			base, idx, ok := splitIndexKey(a.Subj)
			if !ok {
				continue
			}
			n++
			subj = base
			var k int64
			if _, err := fmt.Sscan(idx, &k); err == nil {
				t.offset = k
			}
		}
	}
	if subj != "" && n >= 2 && t.offset >= 0 {
		lo, _ := lenRange(atoms, subj)
		t.minLen = lo
		t.ok = true
		return t
	}
	// the same test through the library: strings.HasPrefix(x, "/") && strings.HasSuffix(x, "/") holds
	// exactly for the texts of length ≥ 1 that start and end with a slash
	pre, suf := "", ""
	for _, a := range atoms {
		if a.Kind != "call" || !a.Pos || !strings.HasSuffix(a.Val, `,"/"`) {
			continue
		}
		switch a.Subj {
		case "strings.HasPrefix":
			pre = strings.TrimSuffix(a.Val, `,"/"`)
		case "strings.HasSuffix":
			suf = strings.TrimSuffix(a.Val, `,"/"`)
		}
	}
	if pre != "" && pre == suf {
		lo, _ := lenRange(atoms, pre)
		if lo < 1 {
			lo = 1
		}
		t.minLen, t.offset, t.ok = lo, 0, true
	}
	return t
}

// regexpTests: the /…/ test on every success path of a like function that renders the `~` operator.
func (c *Ctx) regexpTests(fn *ssa.Function) []likeTest {
	var out []likeTest
	paths, _ := c.enumPathsOpt(fn, 20000, c.inlBool(c.serKeep()...))
	for _, p := range paths {
		if p.Ret == nil {
			continue
		}
		n := len(p.Ret.Results)
		if !isNilConst(c.resolve(p.Ret.Results[n-1], p.Env)) {
			continue
		}
		if !strings.Contains(skelString(c.skeleton(p.Ret.Results[0], p.Env)), " ~ ") {
			continue
		}
		t := slashTest(p.Atoms)
		t.pos = c.instrPos(p.Ret)
		out = append(out, t)
	}
	return out
}

// renderParamRegexpTest: on the paths of RenderParam for a Like node with one string parameter on which
// the parameter is NOT rewritten (* → %, ? → _), the /…/ test that holds.
func (c *Ctx) renderParamRegexpTest(fn *ssa.Function) likeTest {
	var t likeTest
	dr := c.driverRoles()
	keep := append(c.serKeep(), dr.LikeParam, dr.RangeParam)
	paths, _ := c.enumPathsOpt(fn, 40000, c.inlBool(keep...))
	nRewritten := 0
	for _, p := range paths {
		if p.Ret == nil {
			continue
		}
		isLike := false
		for _, a := range p.Atoms {
			if a.Kind == "cmp" && a.Op == "==" && a.Val == "expr.Like" && a.Subj == "$1.Op" {
				isLike = true
			}
		}
		rewritten := false
		var at ssa.Instruction
		for _, in := range p.Instrs {
			if st, ok := in.(*ssa.Store); ok {
				if _, isIdx := st.Addr.(*ssa.IndexAddr); isIdx {
					if _, _, ok := c.rewriteOf(st.Val, p.Env); ok {
						rewritten = true
						at = in
					}
				}
			}
		}
		if rewritten {
			nRewritten++
			if !isLike && t.outside == "" {
				t.outside = c.instrPos(at)
			}
			continue
		}
		if !isLike {
			continue
		}
		lt := slashTest(p.Atoms)
		if lt.ok {
			lt.pos = c.instrPos(p.Ret)
			if !t.ok || lt.minLen-2*lt.offset < t.minLen-2*t.offset {
				lt.outside = t.outside
				t = lt
			}
		}
	}
	if nRewritten == 0 {
		t.ok = false
	}
	return t
}

// NONINT: the parameterized SQL text does not depend on leaf payload values.
func ruleNONINT(c *Ctx, r *Report) {
	const rule = "NONINT"
	r.doc(rule, "non-interference: in the parameterized serialiser no branch that selects the SQL text tests the *value* of a string/number payload (dynamic type, operator and the two declassified tests — pattern is /…/, range end is the unbounded * of a Wild node — are allowed)")
	dr := c.driverRoles()
	if dr.Err != "" {
		r.bad(rule, "anchor", "-", dr.Err)
		return
	}
	n := 0
	for _, b := range dr.SerParam.Blocks {
		iff, ok := b.Instrs[len(b.Instrs)-1].(*ssa.If)
		if !ok {
			continue
		}
		for _, a := range c.atoms(iff.Cond, true, nil) {
			n++
			s := a.String()
			// a comparison of the asserted string/number payload with a constant, or a call on it
			if (a.Kind == "cmp" || a.Kind == "call") && (strings.Contains(a.Subj, "$1.(string)") || strings.Contains(a.Val, "$1.(string)")) && !strings.HasPrefix(a.Subj, "len(") {
				r.badW(rule, "serialiser|string-value-test|"+s, c.instrPos(iff), "the parameterized serialiser branches on the value of a string payload ("+s+"): for that value the SQL text differs and no parameter is produced, so the SQL text depends on user data", "`a:\"*\"` is inlined as '*' and `a:*` yields no parameter")
				continue
			}
			// the payload of a leaf node reached through the operand (e.g. $1.(*expr.Expression).Left.(string) == "*"):
			// declassified only for the ends of a range (the unbounded-end marker), i.e. under the RangeBoundary case
			if a.Kind == "cmp" && strings.HasPrefix(a.Val, `"`) && strings.Contains(a.Subj, ".Left.(string)") {
				inRB := false
				for _, d := range c.domAtoms(b) {
					if d.Kind == "type" && d.Pos && d.Subj == "$1" && d.Val == "*expr.RangeBoundary" {
						inRB = true
					}
				}
				if !inRB {
					r.badW(rule, "serialiser|leaf-value-test|"+s, c.instrPos(iff), "the parameterized serialiser branches on the value of a leaf's payload ("+s+") outside the range-end case: for that value the SQL text differs and no parameter is produced, so the SQL text depends on user data", "`a:*` yields the text '*' and no parameter while the inline SQL is SIMILAR TO '%'")
				}
			}
		}
	}
	r.ok(rule, "serialiser|conditions-examined", c.pos(dr.SerParam.Pos()), fmt.Sprintf("%d branch conditions examined", n))
	// data dependence: the SQL text of a value leaf is the constant `?`
	rows, _ := c.successSkeletons(dr.SerParam)
	for _, row := range rows {
		typ := "default"
		for _, a := range row.Atoms {
			if a.Kind == "type" && a.Pos && a.Subj == "$1" {
				typ = a.Val
			}
		}
		if typ == "*expr.Expression" || typ == "[]*expr.Expression" || typ == "*expr.RangeBoundary" || typ == "expr.Column" || hasAtom(row.Atoms, "$1==nil") {
			continue
		}
		v := "$1"
		if typ != "default" {
			v = "$1.(" + typ + ")"
		}
		c.checkParamCase(r, rule, "serialiser|value-leaf|"+typ, row, v)
	}
}

// splitIndexKey splits "base[idx]" at the bracket matching the final "]".
func splitIndexKey(k string) (base, idx string, ok bool) {
	if !strings.HasSuffix(k, "]") {
		return "", "", false
	}
	depth := 0
	for i := len(k) - 1; i >= 0; i-- {
		switch k[i] {
		case ']':
			depth++
		case '[':
			depth--
			if depth == 0 {
				return k[:i], k[i+1 : len(k)-1], true
			}
		}
	}
	return "", "", false
}

// OPEN-END (C04/C08): only the unbounded `*` of a Wild node is an open range end.
func ruleOPENEND(c *Ctx, r *Report) {
	const rule = "OPEN-END"
	r.doc(rule, "wherever a serialiser (or a helper with a serialiser's signature) answers with the open-end marker '*' without producing a parameter, the operand is proven to be a Wild leaf whose payload is the string \"*\": a quoted \"*\" (a Literal) is a value and must travel as a parameter")
	dr := c.driverRoles()
	if dr.Err != "" {
		r.bad(rule, "anchor", "-", dr.Err)
		return
	}
	n := 0
	for _, f := range c.serKeep() {
		if f == nil || f == dr.Render || f == dr.RenderParam || f.Signature.Results().Len() != 3 {
			continue // the parameterized serialiser and its wrappers
		}
		rows, _ := c.successSkeletons(f)
		for _, row := range rows {
			if row.Str != "'*'" {
				continue
			}
			n++
			wild := subsetOf(c.possibleOps(row.Atoms, "$1.(*expr.Expression).Op"), []string{"expr.Wild"})
			star := false
			for _, a := range c.expand(row.Atoms, nil) {
				if a.Kind == "cmp" && a.Op == "==" && a.Val == `"*"` && strings.HasSuffix(a.Subj, ".Left.(string)") {
					star = true
				}
			}
			key := fnName(f) + "|marker"
			if wild && star {
				r.ok(rule, key, c.instrPos(row.P.Ret), "Wild leaf with payload \"*\"")
			} else {
				r.badW(rule, key, c.instrPos(row.P.Ret), fmt.Sprintf("%s renders an operand as the open-end marker '*' with no parameter without having established that it is a Wild leaf (%v) holding \"*\" (%v): a quoted \"*\" used as a range bound is dropped from the parameter list", fnName(f), wild, star), "`a:[\"*\" TO \"z\"]`")
			}
		}
	}
	r.floor(rule, "marker answers", n, 1)
}

// PARAM-VERBATIM (C08/C04): the parameter list carries the payloads themselves. The only value that may be
// rewritten on its way into the list is the pattern of a Like node (* → %, ? → _).
func rulePARAMVERBATIM(c *Ctx, r *Report) {
	const rule = "PARAM-VERBATIM"
	r.doc(rule, "in package driver every store of a computed string (the result of a call or a concatenation, not the payload as it was read from the node) into an element of a parameter list happens only where the node's operator was compared equal to Like (calling contexts of private helpers included): a quoted text is delivered byte for byte in the parameter list for every other operator")
	dr := c.driverRoles()
	if dr.Err != "" {
		r.bad(rule, "anchor", "-", dr.Err)
		return
	}
	n, rewrites := 0, 0
	for _, f := range c.Funcs {
		if fnPkgPath(f) != pkgDriver || !inLib(f) {
			continue
		}
		for _, b := range f.Blocks {
			for _, in := range b.Instrs {
				st, ok := in.(*ssa.Store)
				if !ok {
					continue
				}
				ia, ok := st.Addr.(*ssa.IndexAddr)
				if !ok {
					continue
				}
				// element type: interface (a []any or the backing array of one)
				et := ia.Type().Underlying().(*types.Pointer).Elem()
				if _, isIface := et.Underlying().(*types.Interface); !isIface {
					continue
				}
				mi, ok := st.Val.(*ssa.MakeInterface)
				if !ok || !isStringType(mi.X.Type()) {
					continue
				}
				n++
				x := c.resolve(mi.X, nil)
				computed := false
				switch y := x.(type) {
				case *ssa.Call:
					computed = true
				case *ssa.BinOp:
					computed = true
				case *ssa.Phi:
					for _, e := range y.Edges {
						switch c.resolve(e, nil).(type) {
						case *ssa.Call, *ssa.BinOp:
							computed = true
						}
					}
				}
				if !computed {
					continue
				}
				// only stores that reach a parameter list matter: a message for fmt is not one
				if onlyForeignUseOfSlot(ia) {
					continue
				}
				rewrites++
				key := fmt.Sprintf("%s|param←%s", fnName(f), c.key(mi.X, nil))
				underLike, reached := true, false
				ok2 := c.withContexts(f, dr.RenderParam, 0, func(callerAtoms []Atom) {
					reached = true
					raw := append(append([]Atom(nil), callerAtoms...), c.domAtoms(st.Block())...)
					like := false
					for _, a := range c.expand(raw, nil) {
						if a.Kind == "cmp" && a.Op == "==" && ((a.Val == "expr.Like" && strings.HasSuffix(a.Subj, ".Op")) || (a.Subj == "expr.Like" && strings.HasSuffix(a.Val, ".Op"))) {
							like = true
						}
					}
					if !like {
						underLike = false
					}
				})
				switch {
				case !ok2 || !reached:
					r.bad(rule, key, c.instrPos(st), fmt.Sprintf("%s stores a computed string into a parameter list, and it is not reached from RenderParam through private helpers only, so the operator of the node cannot be established: a value other than a Like pattern may arrive rewritten", fnName(f)))
				case !underLike:
					r.bad(rule, key, c.instrPos(st), fmt.Sprintf("%s stores the rewritten string %s into the parameter list on a path on which the node's operator was not compared equal to Like: a quoted text containing * or ? (any operator with one right-hand parameter) arrives altered in the parameter list although the inline SQL delivers it verbatim", fnName(f), c.key(mi.X, nil)))
				default:
					r.ok(rule, key, c.instrPos(st), "under Op == Like in every calling context")
				}
			}
		}
	}
	r.ok(rule, "stores-examined", "-", fmt.Sprintf("%d stores of strings into interface slots of package driver, %d of them computed strings", n, rewrites))
	r.floor(rule, "rewritten parameters", rewrites, 1)
}

// onlyForeignUseOfSlot: the array the slot belongs to is only ever sliced and handed to functions outside the
// module (the variadic arguments of fmt.Errorf and the like).
func onlyForeignUseOfSlot(ia *ssa.IndexAddr) bool {
	a, ok := ia.X.(*ssa.Alloc)
	if !ok || a.Referrers() == nil {
		return false
	}
	for _, r2 := range *a.Referrers() {
		switch w := r2.(type) {
		case *ssa.IndexAddr, *ssa.DebugRef:
		case *ssa.Slice:
			if w.Referrers() == nil {
				return false
			}
			for _, r3 := range *w.Referrers() {
				if _, isDbg := r3.(*ssa.DebugRef); isDbg {
					continue
				}
				call, ok := r3.(*ssa.Call)
				if !ok {
					return false
				}
				if g := call.Call.StaticCallee(); g == nil || inModule(g) {
					return false
				}
			}
		default:
			return false
		}
	}
	return true
}

// PARAM-SPECIAL (C04): which operators the parameterized renderer renders itself. The sibling rules compare
// the two documented special cases (Like: the pattern travels as a rewritten parameter; Range: the form is
// chosen from the parameter kinds) with their inline counterparts; every other operator must go through the
// same table function as inline rendering, or nothing relates its parameterized SQL to the inline SQL.
func rulePARAMSPECIAL(c *Ctx, r *Report) {
	const rule = "PARAM-SPECIAL"
	r.doc(rule, "the operators RenderParam answers before its lookup in the render table are among Like and Range (whose parameterized forms SIB-LIKE / SIB-RANGE compare with the inline ones); every other operator is rendered by the function registered for it, exactly as in inline mode, so the SQL shape cannot depend on the mode or on how many values there are")
	dr := c.driverRoles()
	if dr.Err != "" {
		r.bad(rule, "anchor", "-", dr.Err)
		return
	}
	special := c.specialCasedOps(dr.RenderParam)
	var ops []string
	for op := range special {
		ops = append(ops, op)
	}
	sort.Strings(ops)
	for _, op := range ops {
		key := "RenderParam|special-cased|" + op
		if op == "expr.Like" || op == "expr.Range" {
			r.ok(rule, key, c.pos(dr.RenderParam.Pos()), "documented special case, compared with the inline form by the sibling rules")
		} else {
			r.bad(rule, key, c.pos(dr.RenderParam.Pos()), fmt.Sprintf("RenderParam renders %s itself (through %s) instead of calling the function registered for it: its parameterized SQL is produced by code that inline rendering does not use, so nothing guarantees that substituting the parameters gives the inline predicate (or that the placeholders match the parameters one by one)", op, special[op]))
		}
	}
	if len(ops) == 0 {
		r.ok(rule, "RenderParam|no-special-case", c.pos(dr.RenderParam.Pos()), "every operator goes through the table")
	}
}

// SIB-ERR (C04): the parameterized renderer has no rejection of its own.
func ruleSIBERR(c *Ctx, r *Report) {
	const rule = "SIB-ERR"
	r.doc(rule, "every constant error text raised in code that only the parameterized renderer reaches (RenderParam, the parameterized serialiser, range and like functions) is also raised somewhere in the code the inline renderer reaches: the parameterized path adds no rejection of its own (a limit, a hardening check), so it cannot fail on a query the inline path renders. Necessary only — that the conditions of the shared rejections agree is not decided")
	dr := c.driverRoles()
	if dr.Err != "" || dr.Render == nil || dr.RenderParam == nil {
		r.bad(rule, "anchor", "-", "driver roles unresolved")
		return
	}
	texts := func(f *ssa.Function) map[string]string {
		out := map[string]string{}
		for _, b := range f.Blocks {
			for _, in := range b.Instrs {
				call, ok := in.(*ssa.Call)
				if !ok {
					continue
				}
				switch calleeFullName(call) {
				case "fmt.Errorf", "errors.New":
					if s, isStr := constStringVal(c.resolve(call.Call.Args[0], nil)); isStr {
						out[s] = c.instrPos(in)
					}
				}
			}
		}
		return out
	}
	reachI := c.reachFrom([]*ssa.Function{dr.Render})
	reachP := c.reachFrom([]*ssa.Function{dr.RenderParam})
	inline := map[string]bool{}
	for f := range reachI {
		if inModule(f) {
			for s := range texts(f) {
				inline[s] = true
			}
		}
	}
	n := 0
	for _, f := range sortedFuncs(reachP) {
		if !inModule(f) || reachI[f] {
			continue
		}
		for s, pos := range texts(f) {
			n++
			key := fmt.Sprintf("%s|%q", fnName(f), s)
			if inline[s] {
				r.ok(rule, key, pos, "the inline path raises the same error")
			} else {
				r.bad(rule, key, pos, fmt.Sprintf("%s, which only the parameterized renderer reaches, raises %q, and nothing the inline renderer reaches does: a query can render inline and fail parameterized", fnName(f), s))
			}
		}
	}
	r.ok(rule, "texts-examined", "-", fmt.Sprintf("%d constant error texts on the parameterized side examined", n))
}
