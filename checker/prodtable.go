package main

// A9: production-table extraction for the reducers stored in reduce.reducers.

import (
	"fmt"
	"go/token"
	"go/types"
	"sort"
	"strings"

	"golang.org/x/tools/go/ssa"
)

type PosInfo struct {
	Kind     string          // "token" | "expr" | "unasserted"
	Toks     map[string]bool // allowed token types (names) when Kind == token
	TypTests int             // number of Typ comparisons on this position
}

type CtorArg struct {
	Pos      int // window position (resolved to absolute index), -1 if not a position
	Wrapped  bool
	Asserted string // asserted type of the position value ("" = raw any)
	Const    string // constant argument
	Val      ssa.Value
	Derived  []int // positions whose value feeds this (non-positional) argument
}

type ProdRow struct {
	Reducer  *ssa.Function
	Path     *Path
	MinLen   int64
	Exact    bool
	Suffix   int // for non-exact windows: number of trailing positions matched
	Pos      map[int]*PosInfo
	OutKind  string // "ctor" | "identity" | "other"
	Ctor     *ssa.Function
	Op       string // operator constant name built by the constructor ("expr.And")
	AltOps   []string
	Args     []CtorArg
	Identity int // OutKind==identity: the position returned
	Drop     int64
	DropOK   bool
	OutLen   int // number of elements in the returned slice, relative: for suffix windows = consumed→1
	Other    []string
	Err      string
}

func (r *ProdRow) name() string { return fnName(r.Reducer) }

// posKey renders the window as e.g. "E {TColon} {TGreater} E"
func (r *ProdRow) pattern() string {
	var idx []int
	for i := range r.Pos {
		idx = append(idx, i)
	}
	sort.Ints(idx)
	var parts []string
	n := int(r.MinLen)
	if !r.Exact {
		n = r.Suffix
		parts = append(parts, "…")
	}
	for i := 0; i < n; i++ {
		p := r.Pos[i]
		if p == nil {
			parts = append(parts, "?")
			continue
		}
		switch p.Kind {
		case "expr":
			parts = append(parts, "E")
		case "token":
			var ts []string
			for t := range p.Toks {
				ts = append(ts, strings.TrimPrefix(t, "lex."))
			}
			sort.Strings(ts)
			parts = append(parts, "{"+strings.Join(ts, ",")+"}")
		default:
			parts = append(parts, "?")
		}
	}
	return strings.Join(parts, " ")
}

type ProdTable struct {
	Reducers []*ssa.Function
	Rows     []*ProdRow
	Wrapper  *ssa.Function // default-field wrapping helper (role)
	WOp      int           // index among Wrapper.Params of the operand (*Expression)
	WFld     int           // index among Wrapper.Params of the field name (string-kinded; may be the receiver)
	Errs     []string
}

func (c *Ctx) prodTable() *ProdTable {
	if t, ok := c.roles["prodtable"]; ok {
		return t.(*ProdTable)
	}
	t := c.prodTable0()
	c.roles["prodtable"] = t
	return t
}

func (c *Ctx) prodTable0() *ProdTable {
	pt := &ProdTable{}
	tb := c.readTable(pkgReduce, "reducers")
	if tb.Err != "" {
		pt.Errs = append(pt.Errs, tb.Err)
		return pt
	}
	pt.Wrapper, pt.WOp, pt.WFld = c.defaultFieldWrapper()
	for _, e := range tb.Entries {
		if e.Fn == nil {
			pt.Errs = append(pt.Errs, "reducer entry "+e.KeyName+" is not a function")
			continue
		}
		pt.Reducers = append(pt.Reducers, e.Fn)
		paths, complete := c.enumPathsInl(e.Fn, 4000, pt.Wrapper)
		if !complete {
			pt.Errs = append(pt.Errs, "too many paths in "+fnName(e.Fn))
		}
		for _, p := range paths {
			if p.Ret == nil || len(p.Ret.Results) != 3 {
				if p.Ret == nil && !p.Cut {
					pt.Errs = append(pt.Errs, "reducer "+fnName(e.Fn)+" has a path that does not return (panic?)")
				}
				continue
			}
			ok, isConst := constBoolVal(c.resolve(p.Ret.Results[2], p.Env))
			if isConst && !ok {
				continue
			}
			row := c.prodRow(e.Fn, p, pt.Wrapper)
			if !isConst {
				row.Err = "third result is not a constant"
			}
			pt.Rows = append(pt.Rows, row)
		}
	}
	return pt
}

// defaultFieldWrapper resolves the role "function or method in package reduce that takes an operand
// (*expr.Expression) and the field name (a string-kinded value; it may be the receiver of a method on a named
// string type) and returns *expr.Expression". Returns the function and the indices of the two among its
// SSA parameters (a receiver is parameter 0).
func (c *Ctx) defaultFieldWrapper() (*ssa.Function, int, int) {
	type cand struct {
		f       *ssa.Function
		op, fld int
	}
	var cands []cand
	for _, f := range c.Funcs {
		if fnPkgPath(f) != pkgReduce || f.Parent() != nil || len(f.Params) != 2 || f.Synthetic != "" {
			continue
		}
		rs := f.Signature.Results()
		if rs.Len() != 1 || !isExprPtr(rs.At(0).Type()) {
			continue
		}
		op, fld := -1, -1
		for i, p := range f.Params {
			if isExprPtr(p.Type()) {
				op = i
			} else if b, ok := p.Type().Underlying().(*types.Basic); ok && b.Info()&types.IsString != 0 {
				fld = i
			}
		}
		if op >= 0 && fld >= 0 {
			cands = append(cands, cand{f, op, fld})
		}
	}
	if len(cands) == 1 {
		return cands[0].f, cands[0].op, cands[0].fld
	}
	return nil, 0, 1
}

// wrapperIdx: operand and field parameter indices of the default-field wrapper (memoised through prodTable).
func (c *Ctx) wrapperIdx() (int, int) {
	pt := c.prodTable()
	return pt.WOp, pt.WFld
}

func isExprPtr(t types.Type) bool {
	p, ok := t.(*types.Pointer)
	if !ok {
		return false
	}
	n, ok := p.Elem().(*types.Named)
	return ok && n.Obj().Name() == "Expression" && n.Obj().Pkg() != nil && n.Obj().Pkg().Path() == pkgExpr
}

func isNamed(t types.Type, pkg, name string) bool {
	n, ok := t.(*types.Named)
	return ok && n.Obj().Name() == name && n.Obj().Pkg() != nil && n.Obj().Pkg().Path() == pkg
}

func isStringType(t types.Type) bool {
	b, ok := t.Underlying().(*types.Basic)
	return ok && b.Kind() == types.String
}

// elemRef: is v (resolved) a read of window element elems[i] / elems[len-k], possibly asserted?
func (c *Ctx) elemRef(v ssa.Value, e *env, window ssa.Value) (idx int64, fromEnd bool, asserted types.Type, ok bool) {
	v, e = c.resolveE(v, e)
	switch x := v.(type) {
	case *ssa.Extract:
		if ta, isTA := x.Tuple.(*ssa.TypeAssert); isTA && x.Index == 0 {
			i, fe, _, ok := c.elemRef(ta.X, e, window)
			return i, fe, ta.AssertedType, ok
		}
	case *ssa.TypeAssert:
		if !x.CommaOk {
			i, fe, _, ok := c.elemRef(x.X, e, window)
			return i, fe, x.AssertedType, ok
		}
	case *ssa.UnOp:
		if x.Op == token.MUL {
			if ia, isIA := x.X.(*ssa.IndexAddr); isIA && c.resolve(ia.X, e) == window {
				i, fe, ok := c.lenRelIndex(ia.Index, e, window)
				return i, fe, nil, ok
			}
		}
	case *ssa.Index:
		if c.resolve(x.X, e) == window {
			i, fe, ok := c.lenRelIndex(x.Index, e, window)
			return i, fe, nil, ok
		}
	}
	return 0, false, nil, false
}

// lenRelIndex: index is the constant c (fromEnd=false) or len(window)-c (fromEnd=true).
func (c *Ctx) lenRelIndex(ix ssa.Value, e *env, window ssa.Value) (int64, bool, bool) {
	ix, e = c.resolveE(ix, e)
	if n, ok := constIntVal(ix); ok {
		return n, false, true
	}
	if b, ok := ix.(*ssa.BinOp); ok && b.Op == token.SUB {
		bx, be := c.resolveE(b.X, e)
		if call, ok := bx.(*ssa.Call); ok {
			if bi, ok := call.Call.Value.(*ssa.Builtin); ok && bi.Name() == "len" && c.resolve(call.Call.Args[0], be) == window {
				if n, ok := constIntVal(c.resolve(b.Y, e)); ok {
					return n, true, true
				}
			}
		}
	}
	return 0, false, false
}

// sliceLiteral: v is `slice A[:]` of a fresh array whose elements are stored by constant index.
func (c *Ctx) sliceLiteral(v ssa.Value, e *env) ([]ssa.Value, bool) {
	l, _, ok := c.sliceLiteralE(v, e)
	return l, ok
}

func (c *Ctx) sliceLiteralE(v ssa.Value, e *env) ([]ssa.Value, *env, bool) {
	v, e = c.resolveE(v, e)
	sl, ok := v.(*ssa.Slice)
	if !ok || sl.Low != nil || sl.High != nil {
		return nil, nil, false
	}
	arr, ok := sl.X.(*ssa.Alloc)
	if !ok {
		return nil, nil, false
	}
	at, ok := arr.Type().Underlying().(*types.Pointer).Elem().Underlying().(*types.Array)
	if !ok {
		return nil, nil, false
	}
	out := make([]ssa.Value, at.Len())
	for _, ref := range *arr.Referrers() {
		switch r := ref.(type) {
		case *ssa.IndexAddr:
			n, ok := constIntVal(r.Index)
			if !ok || n < 0 || n >= at.Len() {
				return nil, nil, false
			}
			for _, r2 := range *r.Referrers() {
				if st, ok := r2.(*ssa.Store); ok && st.Addr == r {
					out[n] = st.Val
				}
			}
		case *ssa.Slice:
		default:
			return nil, nil, false
		}
	}
	return out, e, true
}

// dropCount: v is `stack[:len(stack)-k]` of the nonTerminals parameter, directly or through a helper.
func (c *Ctx) dropCount(v ssa.Value, e *env, nt ssa.Value) (int64, bool) {
	v, e = c.resolveE(v, e)
	switch x := v.(type) {
	case *ssa.Slice:
		if c.resolve(x.X, e) == nt && x.Low == nil && x.High != nil {
			if n, fe, ok := c.lenRelIndex(x.High, e, nt); ok && fe {
				return n, true
			}
		}
	case *ssa.Call:
		f := x.Call.StaticCallee()
		if f == nil || len(x.Call.Args) != 2 || c.resolve(x.Call.Args[0], e) != nt {
			return 0, false
		}
		n, ok := constIntVal(c.resolve(x.Call.Args[1], e))
		if !ok {
			return 0, false
		}
		if isDropHelper(f) {
			return n, true
		}
	}
	return 0, false
}

// isDropHelper: the function's only return is p0[:len(p0)-p1] (generic origin, instance or wrapper).
func isDropHelper(f *ssa.Function) bool {
	if f.Blocks == nil && f.Origin() != nil {
		f = f.Origin()
	}
	if len(f.Params) != 2 {
		return false
	}
	for _, b := range f.Blocks {
		for _, in := range b.Instrs {
			r, ok := in.(*ssa.Return)
			if !ok {
				continue
			}
			if len(r.Results) != 1 {
				return false
			}
			v := r.Results[0]
			for {
				if ct, ok := v.(*ssa.ChangeType); ok {
					v = ct.X
					continue
				}
				break
			}
			switch x := v.(type) {
			case *ssa.Slice:
				base := x.X
				if ct, ok := base.(*ssa.ChangeType); ok {
					base = ct.X
				}
				if base != f.Params[0] || x.Low != nil || x.High == nil {
					return false
				}
				bo, ok := x.High.(*ssa.BinOp)
				if !ok || bo.Op != token.SUB || bo.Y != f.Params[1] {
					return false
				}
				call, ok := bo.X.(*ssa.Call)
				if !ok {
					return false
				}
				bi, ok := call.Call.Value.(*ssa.Builtin)
				if !ok || bi.Name() != "len" {
					return false
				}
				a := call.Call.Args[0]
				if ct, ok := a.(*ssa.ChangeType); ok {
					a = ct.X
				}
				if a != f.Params[0] {
					return false
				}
			case *ssa.Call:
				// instantiation wrapper calling the generic body
				g := x.Call.StaticCallee()
				if g == nil || g == f || !isDropHelper(g) {
					return false
				}
			default:
				return false
			}
		}
	}
	return true
}

// ctorOperator: the operator constant(s) a constructor passes to the general constructor expr.Expr.
func (c *Ctx) ctorOperator(f *ssa.Function) []string {
	general := c.pkgFunc(pkgExpr, "Expr")
	if f == general {
		return nil
	}
	set := map[string]bool{}
	for _, b := range f.Blocks {
		for _, in := range b.Instrs {
			call, ok := in.(*ssa.Call)
			if !ok || call.Call.StaticCallee() != general || len(call.Call.Args) < 2 {
				continue
			}
			if k, ok := call.Call.Args[1].(*ssa.Const); ok {
				set[c.constName(k)] = true
			}
		}
	}
	if len(set) == 0 {
		// the constructor goes through a helper that forwards the operator (Expr(e, op, …) with op a parameter
		// of the helper): the operator is the constant this constructor passes to the helper
		for _, b := range f.Blocks {
			for _, in := range b.Instrs {
				call, ok := in.(*ssa.Call)
				if !ok {
					continue
				}
				h := call.Call.StaticCallee()
				if h == nil || h == general || fnPkgPath(h) != pkgExpr || len(h.Blocks) == 0 {
					continue
				}
				for _, hb := range h.Blocks {
					for _, hin := range hb.Instrs {
						hc, ok := hin.(*ssa.Call)
						if !ok || hc.Call.StaticCallee() != general || len(hc.Call.Args) < 2 {
							continue
						}
						p, isP := c.resolve(hc.Call.Args[1], nil).(*ssa.Parameter)
						if !isP {
							continue
						}
						for i, q := range h.Params {
							if q == p && i < len(call.Call.Args) {
								if k, ok := c.resolve(call.Call.Args[i], nil).(*ssa.Const); ok {
									set[c.constName(k)] = true
								}
							}
						}
					}
				}
			}
		}
	}
	var out []string
	for k := range set {
		out = append(out, k)
	}
	sort.Strings(out)
	return out
}

func (c *Ctx) prodRow(fn *ssa.Function, p *Path, wrapper *ssa.Function) *ProdRow {
	row := &ProdRow{Reducer: fn, Path: p, Pos: map[int]*PosInfo{}}
	window := ssa.Value(fn.Params[0])
	nt := ssa.Value(fn.Params[1])
	lo, hi := lenRange(p.Atoms, "$0")
	row.MinLen = lo
	row.Exact = lo == hi
	toks := c.tokTypeConsts()
	abs := func(i int64, fromEnd bool) int {
		if !fromEnd {
			return int(i)
		}
		if row.Exact {
			return int(lo - i)
		}
		// suffix window: positions are numbered 0..Suffix-1 from the start of the suffix; fixed below
		return -int(i)
	}
	type rawPos struct {
		idx     int
		typ     string
		pos     bool
		typCmps []Atom
	}
	raw := map[int]*rawPos{}
	get := func(i int) *rawPos {
		if raw[i] == nil {
			raw[i] = &rawPos{idx: i}
		}
		return raw[i]
	}
	maxFromEnd := 0
	for _, a := range p.Atoms {
		ae := a.Env
		if ae == nil {
			ae = p.Env
		}
		switch a.Kind {
		case "type":
			if len(a.Args) == 1 {
				if i, fe, _, ok := c.elemRef(a.Args[0], ae, window); ok {
					if fe && int(i) > maxFromEnd {
						maxFromEnd = int(i)
					}
					rp := get(abs(i, fe))
					if a.Pos {
						rp.typ = a.Val
						rp.pos = true
					}
					continue
				}
			}
			row.Other = append(row.Other, a.String())
		case "cmp":
			// <elem>.(lex.Token).Typ ⋈ const
			src, se := c.resolveE(a.Src, ae)
			for {
				u, isNot := src.(*ssa.UnOp)
				if !isNot || u.Op != token.NOT {
					break
				}
				src, se = c.resolveE(u.X, se)
			}
			var l ssa.Value
			var le *env
			if bo, ok := src.(*ssa.BinOp); ok {
				l, le = c.resolveE(bo.X, se)
				if _, isC := l.(*ssa.Const); isC {
					l, le = c.resolveE(bo.Y, se)
				}
			} else if call, ok := src.(*ssa.Call); ok {
				// an (in)equality derived from a membership test in a list of constants
				if _, subj, sse, ok := c.membershipCall(call, se); ok {
					l, le = subj, sse
				}
			} else if ex, ok := src.(*ssa.Extract); ok {
				// … or from a comma-ok lookup in a small table of constants
				if lk, ok := ex.Tuple.(*ssa.Lookup); ok && lk.CommaOk {
					l, le = c.resolveE(lk.Index, se)
				}
			}
			if l != nil {
				if base, field := fieldLoad(c, l, le); base != nil && field == "Typ" {
					if i, fe, _, ok := c.elemRef(base, le, window); ok {
						if fe && int(i) > maxFromEnd {
							maxFromEnd = int(i)
						}
						rp := get(abs(i, fe))
						rp.typCmps = append(rp.typCmps, a)
						continue
					}
				}
			}
			row.Other = append(row.Other, a.String())
		case "len":
			if a.Subj != "$0" {
				row.Other = append(row.Other, a.String())
			}
		default:
			row.Other = append(row.Other, a.String())
		}
	}
	if !row.Exact {
		row.Suffix = maxFromEnd
	}
	fix := func(i int) int {
		if i < 0 { // from-end index in a suffix window
			return row.Suffix + i
		}
		return i
	}
	for i, rp := range raw {
		pi := &PosInfo{Kind: "unasserted"}
		if rp.pos {
			switch rp.typ {
			case "lex.Token":
				pi.Kind = "token"
				pi.Toks = map[string]bool{}
				for name := range toks {
					pi.Toks["lex."+name] = true
				}
				for _, a := range rp.typCmps {
					pi.TypTests++
					for name := range pi.Toks {
						keep := true
						switch a.Op {
						case "==":
							keep = name == a.Val
						case "!=":
							keep = name != a.Val
						default:
							keep = true
						}
						if !keep {
							delete(pi.Toks, name)
						}
					}
				}
			case "*expr.Expression":
				pi.Kind = "expr"
			default:
				pi.Kind = "unasserted"
			}
		}
		row.Pos[fix(i)] = pi
	}
	// results
	out, oe := c.resolveE(p.Ret.Results[0], p.Env)
	litEnv := oe
	var lit []ssa.Value
	if l, le, ok := c.sliceLiteralE(out, oe); ok {
		lit = l
		litEnv = le
		row.OutLen = len(l)
	} else if call, ok := out.(*ssa.Call); ok {
		if bi, ok := call.Call.Value.(*ssa.Builtin); ok && bi.Name() == "append" && len(call.Call.Args) == 2 {
			a0, a0e := c.resolveE(call.Call.Args[0], oe)
			if sl, ok := a0.(*ssa.Slice); ok && c.resolve(sl.X, a0e) == window && sl.Low == nil && sl.High != nil {
				if n, fe, ok := c.lenRelIndex(sl.High, a0e, window); ok && fe {
					if l, le, ok := c.sliceLiteralE(call.Call.Args[1], oe); ok {
						lit = l
						litEnv = le
						row.OutLen = len(l)
						if int(n) != row.Suffix && !row.Exact {
							row.Err = fmt.Sprintf("suffix production keeps elems[:len-%d] but matched %d trailing positions", n, row.Suffix)
						}
						if row.Exact {
							row.Err = "prefix pass-through in an exact-length production"
						}
					}
				}
			}
		}
	}
	if sl, ok := out.(*ssa.Slice); ok && lit == nil && c.resolve(sl.X, oe) == window && sl.Low == nil && sl.High != nil {
		// written in place: elems[len-k] = node; return elems[:len-k+1] — the same result as truncating to
		// len-k and appending the node (the append would reuse the same backing array)
		lenMinus := func(v ssa.Value) (int64, bool) {
			base, off := c.linear(v)
			if call, ok := base.(*ssa.Call); ok {
				if bi, ok := call.Call.Value.(*ssa.Builtin); ok && bi.Name() == "len" && c.resolve(call.Call.Args[0], oe) == window {
					return -off, true
				}
			}
			return 0, false
		}
		if d, ok := lenMinus(sl.High); ok && d >= 0 {
			var stored []ssa.Value
			okStores := true
			for _, in := range p.Instrs {
				st, isSt := in.(*ssa.Store)
				if !isSt {
					continue
				}
				ia, isIA := st.Addr.(*ssa.IndexAddr)
				if !isIA || c.resolve(ia.X, oe) != window {
					continue
				}
				if k, ok := lenMinus(ia.Index); ok && k == d+1 {
					stored = append(stored, st.Val)
				} else {
					okStores = false
				}
			}
			if okStores && len(stored) == 1 {
				lit = stored
				litEnv = oe
				row.OutLen = 1
				if int(d)+1 != row.Suffix && !row.Exact {
					row.Err = fmt.Sprintf("suffix production keeps elems[:len-%d] and overwrites the element before it but matched %d trailing positions", d, row.Suffix)
				}
				if row.Exact {
					row.Err = "prefix pass-through in an exact-length production"
				}
			}
		}
	}
	if lit == nil {
		row.OutKind = "other"
		row.Err = "returned elements are not a recognisable literal: " + c.key(out, oe)
	} else if len(lit) != 1 {
		row.OutKind = "other"
		row.Err = fmt.Sprintf("production returns %d elements", len(lit))
	} else {
		v, ve := c.resolveE(lit[0], litEnv)
		if i, fe, asserted, ok := c.elemRef(v, ve, window); ok {
			row.OutKind = "identity"
			row.Identity = fix(abs(i, fe))
			if asserted == nil {
				if pi := row.Pos[row.Identity]; pi == nil {
					row.Pos[row.Identity] = &PosInfo{Kind: "unasserted"}
				}
			}
		} else if call, ok := v.(*ssa.Call); ok && c.calleeE(call, ve) != nil {
			row.OutKind = "ctor"
			row.Ctor = c.calleeE(call, ve)
			ops := c.ctorOperator(row.Ctor)
			if len(ops) == 1 {
				row.Op = ops[0]
			} else if row.Ctor == c.pkgFunc(pkgExpr, "Expr") && len(call.Call.Args) >= 2 {
				if k, ok := c.resolve(call.Call.Args[1], ve).(*ssa.Const); ok {
					row.Op = c.constName(k)
				}
			} else {
				row.AltOps = ops
			}
			args, ae := c.flattenArgsE(call, ve)
			for _, a := range args {
				row.Args = append(row.Args, c.ctorArg(a, ae, p, window, wrapper, fix, abs))
			}
		} else {
			row.OutKind = "other"
			row.Err = "returned element is neither a window position nor a constructor call: " + c.key(v, ve)
		}
	}
	if n, ok := c.dropCount(p.Ret.Results[1], p.Env, nt); ok {
		row.Drop, row.DropOK = n, true
	}
	return row
}

// flattenArgs expands a variadic slice literal argument into its elements.
func (c *Ctx) flattenArgs(call *ssa.Call, e *env) []ssa.Value {
	out, _ := c.flattenArgsE(call, e)
	return out
}

// flattenArgsE: as flattenArgs; the returned environment is the one the arguments are read in (the
// variadic literal and the plain arguments live in the same frame as the call).
func (c *Ctx) flattenArgsE(call *ssa.Call, e *env) ([]ssa.Value, *env) {
	return c.flattenArgs0(call, e), e
}

func (c *Ctx) flattenArgs0(call *ssa.Call, e *env) []ssa.Value {
	var out []ssa.Value
	sig := call.Call.Signature()
	for i, a := range call.Call.Args {
		if sig.Variadic() && i == len(call.Call.Args)-1 {
			if l, le, ok := c.sliceLiteralE(a, e); ok && le == e {
				out = append(out, l...)
				continue
			}
			if isNilConst(c.resolve(a, e)) {
				continue
			}
		}
		out = append(out, a)
	}
	return out
}

func (c *Ctx) ctorArg(a ssa.Value, e *env, p *Path, window ssa.Value, wrapper *ssa.Function,
	fix func(int) int, abs func(int64, bool) int) CtorArg {
	v, e := c.resolveE(a, e)
	arg := CtorArg{Pos: -1, Val: v}
	if call, ok := v.(*ssa.Call); ok && wrapper != nil && call.Call.StaticCallee() == wrapper {
		// wrapped only if the helper receives the reducer's own default-field parameter unchanged
		_, wop, wfld := c.defaultFieldWrapper()
		if len(call.Call.Args) == 2 {
			fv := c.resolve(call.Call.Args[wfld], e)
			// a conversion to the wrapper's own field type (a named string type) hands the same name on
			for {
				if cv, ok := fv.(*ssa.ChangeType); ok {
					fv = c.resolve(cv.X, e)
					continue
				}
				if cv, ok := fv.(*ssa.Convert); ok && isStringKind(cv.X.Type()) && isStringKind(cv.Type()) {
					fv = c.resolve(cv.X, e)
					continue
				}
				break
			}
			if fv == ssa.Value(p.Fn.Params[len(p.Fn.Params)-1]) {
				arg.Wrapped = true
			}
		}
		v, e = c.resolveE(call.Call.Args[wop], e)
	}
	if i, fe, asserted, ok := c.elemRef(v, e, window); ok {
		arg.Pos = fix(abs(i, fe))
		if asserted != nil {
			arg.Asserted = typeStr(asserted)
		}
		return arg
	}
	if k, ok := v.(*ssa.Const); ok {
		arg.Const = c.constName(k)
		return arg
	}
	// nested constructor (e.g. IN(term, LIST(literals))) or derived scalar: collect feeding positions
	seen := map[ssa.Value]bool{}
	var walk func(x ssa.Value, xe *env, d int)
	walk = func(x ssa.Value, xe *env, d int) {
		x, xe = c.resolveE(x, xe)
		if x == nil || seen[x] || d > 12 {
			return
		}
		seen[x] = true
		if i, fe, _, ok := c.elemRef(x, xe, window); ok {
			arg.Derived = append(arg.Derived, fix(abs(i, fe)))
			return
		}
		if in, ok := x.(ssa.Instruction); ok {
			for _, op := range in.Operands(nil) {
				if *op != nil {
					walk(*op, xe, d+1)
				}
			}
		}
		if sl, sle, ok := c.sliceLiteralE(x, xe); ok {
			for _, el := range sl {
				walk(el, sle, d+1)
			}
		}
	}
	walk(v, e, 0)
	sort.Ints(arg.Derived)
	return arg
}

// fieldLoad: v is a load of field `name` of some base value (through a local struct copy or pointer).
func fieldLoad(c *Ctx, v ssa.Value, e *env) (base ssa.Value, name string) {
	switch x := v.(type) {
	case *ssa.UnOp:
		if x.Op == token.MUL {
			if fa, ok := x.X.(*ssa.FieldAddr); ok {
				b := fa.X
				if a, ok := b.(*ssa.Alloc); ok {
					if e != nil {
						if r, ok := e.mem[a]; ok {
							return r, fieldName(fa.X.Type(), fa.Field)
						}
					}
					if r := singleStore(a); r != nil {
						return r, fieldName(fa.X.Type(), fa.Field)
					}
				}
				return c.resolve(b, e), fieldName(fa.X.Type(), fa.Field)
			}
		}
	case *ssa.Field:
		return c.resolve(x.X, e), fieldName(x.X.Type(), x.Field)
	}
	return nil, ""
}

func isStringKind(t types.Type) bool {
	b, ok := t.Underlying().(*types.Basic)
	return ok && b.Info()&types.IsString != 0
}
