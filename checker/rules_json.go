package main

// C12: OP-BIJ, JSON-DEFAULTS, JSON-TAGS, JSON-LEAF.

import (
	"fmt"
	"go/constant"
	"go/token"
	"go/types"
	"reflect"
	"regexp"
	"sort"
	"strings"

	"golang.org/x/tools/go/ssa"
)

func ruleOPBIJ(c *Ctx, r *Report) {
	const rule = "OP-BIJ"
	r.doc(rule, "toString and fromString are total over the Operator constants (except Undefined) and mutually inverse; an unknown name decodes to Undefined, which VAL-TOTAL shows Validate rejects")
	ts, fs := c.readTable(pkgExpr, "toString"), c.readTable(pkgExpr, "fromString")
	if ts.Err != "" || fs.Err != "" {
		r.bad(rule, "tables", "-", ts.Err+" "+fs.Err)
		return
	}
	to := map[string]string{}
	for _, e := range ts.Entries {
		if s, ok := constStringVal(e.Val); ok {
			if _, dup := to[e.KeyName]; dup {
				r.bad(rule, "toString|dup|"+e.KeyName, c.instrPos(e.Pos), "duplicate key in toString")
			}
			to[e.KeyName] = s
		}
	}
	from := map[string]string{}
	for _, e := range fs.Entries {
		name, _ := constStringVal(e.Key)
		from[name] = c.key(e.Val, nil)
	}
	var ops []string
	for n := range c.operatorConsts() {
		if n != "Undefined" {
			ops = append(ops, "expr."+n)
		}
	}
	sort.Strings(ops)
	names := map[string]string{}
	for _, op := range ops {
		name, ok := to[op]
		key := "roundtrip|" + op
		switch {
		case !ok:
			r.bad(rule, key, ts.where(c), "toString has no name for "+op+": the operator member of the JSON encoding is empty and decoding yields an invalid expression")
		case name == "":
			r.bad(rule, key, ts.where(c), "toString maps "+op+" to the empty string")
		case from[name] != op:
			r.bad(rule, key, fs.where(c), fmt.Sprintf("toString maps %s to %q but fromString maps %q to %q: encoding then decoding changes the operator", op, name, name, from[name]))
		default:
			if prev, dup := names[name]; dup {
				r.bad(rule, key, ts.where(c), fmt.Sprintf("toString gives %s and %s the same name %q", prev, op, name))
			} else {
				names[name] = op
				r.ok(rule, key, ts.where(c), name)
			}
		}
	}
	for name, op := range from {
		if to[op] != name {
			r.bad(rule, "fromString|extra|"+name, fs.where(c), fmt.Sprintf("fromString accepts %q → %s but toString writes %s as %q: re-encoding does not reproduce the bytes", name, op, op, to[op]))
		}
	}
	r.floor(rule, "operators", len(ops), 19)
	// Operator.String and the encoder both read toString
	enc := c.method(pkgExpr, "Expression", "MarshalJSON")
	dec := c.method(pkgExpr, "Expression", "UnmarshalJSON")
	// directly, or through a function that reads the table (Operator.String), or — when the table is
	// written as a dispatch function — by calling that function
	var usesTable func(f *ssa.Function, tb *Table, depth int) bool
	usesTable = func(f *ssa.Function, tb *Table, depth int) bool {
		if f == nil || depth > 3 {
			return false
		}
		for _, b := range f.Blocks {
			for _, in := range b.Instrs {
				if u, ok := in.(*ssa.UnOp); ok && tb.Global != nil && u.X == ssa.Value(tb.Global) {
					return true
				}
				if call, ok := in.(*ssa.Call); ok {
					g := call.Call.StaticCallee()
					if g == nil || !inLib(g) {
						continue
					}
					if g == tb.Fn {
						return true
					}
					if g != f && fnPkgPath(g) == pkgExpr && g.Signature.Results().Len() <= 2 && len(g.Blocks) <= 3 && usesTable(g, tb, depth+1) {
						return true
					}
				}
			}
		}
		return false
	}
	if usesTable(enc, ts, 0) {
		r.ok(rule, "encoder-uses-toString", c.pos(enc.Pos()), "operator name written from toString")
	} else {
		r.bad(rule, "encoder-uses-toString", "-", "MarshalJSON does not take operator names from toString")
	}
	if usesTable(dec, fs, 0) {
		r.ok(rule, "decoder-uses-fromString", c.pos(dec.Pos()), "operator read through fromString")
	} else {
		r.bad(rule, "decoder-uses-fromString", "-", "UnmarshalJSON does not read operator names through fromString")
	}
}

func ruleJSONDEFAULTS(c *Ctx, r *Report) {
	const rule = "JSON-DEFAULTS"
	r.doc(rule, "writer/reader agreement on omitted members: the constant the encoder compares boostPower / fuzzyDistance with before omitting the member, the constant the decoder assigns when the member is absent, and the constants in empty()/Expr() are the same")
	et := c.namedType(pkgExpr, "Expression")
	if et == nil {
		r.bad(rule, "anchor", "-", "Expression type not found")
		return
	}
	st := et.Underlying().(*types.Struct)
	enc := c.method(pkgExpr, "Expression", "MarshalJSON")
	for i := 0; i < st.NumFields(); i++ {
		f := st.Field(i)
		if f.Exported() {
			continue
		}
		b, ok := f.Type().Underlying().(*types.Basic)
		if !ok || b.Info()&types.IsNumeric == 0 {
			continue
		}
		// constants stored anywhere
		stored := map[string]string{}
		for _, fs := range c.storesToFields(f) {
			if k, ok := fs.st.Val.(*ssa.Const); ok && k.Value != nil {
				stored[normNum(k.Value)] = c.instrPos(fs.st)
			}
		}
		// constants compared in the encoder
		badOp := ""
		compared := map[string]string{}
		// path-based, helpers read in place (the comparison may sit in a small generic helper)
		encPaths, _ := c.enumPathsInl(enc, 5000)
		for _, p := range encPaths {
			for _, a := range p.Atoms {
				if a.Kind != "cmp" || !strings.HasSuffix(a.Subj, "."+f.Name()) {
					continue
				}
				var fv float64
				if _, err := fmt.Sscan(a.Val, &fv); err != nil {
					continue
				}
				compared[fmt.Sprintf("%g", fv)] = c.instrPos(p.Ret)
				if a.Op != "!=" && a.Op != "==" {
					badOp = a.Op
				}
			}
		}
		key := "field|" + f.Name()
		cs, ss := setKeys(boolMap(compared)), setKeys(boolMap(stored))
		switch {
		case badOp != "":
			r.bad(rule, key, c.pos(enc.Pos()), fmt.Sprintf("the encoder decides whether to write %s with the comparison `%s %s` instead of (in)equality with the default: values on the other side of the default (e.g. 0) are dropped from the encoding and decode as the default", f.Name(), badOp, strings.Join(cs, ",")))
		case len(cs) != 1:
			r.bad(rule, key, c.pos(enc.Pos()), fmt.Sprintf("the encoder compares %s with %v before omitting the member; expected exactly one default", f.Name(), cs))
		case len(ss) == 0:
			r.bad(rule, key, c.pos(f.Pos()), "no default is ever assigned to "+f.Name())
		case len(ss) != 1 || ss[0] != cs[0]:
			r.bad(rule, key, c.pos(f.Pos()), fmt.Sprintf("the encoder omits %s when it equals %s, but the constructor/decoder assign the default(s) %v: a node encoded without the member decodes with a different value", f.Name(), cs[0], ss))
		default:
			r.ok(rule, key, c.pos(f.Pos()), "default "+cs[0]+" on both sides")
		}
	}
}

func boolMap(m map[string]string) map[string]bool {
	out := map[string]bool{}
	for k := range m {
		out[k] = true
	}
	return out
}

func normNum(v constant.Value) string {
	if f, ok := constant.Float64Val(constant.ToFloat(v)); ok {
		return fmt.Sprintf("%g", f)
	}
	return v.ExactString()
}

var tagNameRe = regexp.MustCompile(`^"([A-Za-z_]+)":$`)

func ruleJSONTAGS(c *Ctx, r *Report) {
	const rule = "JSON-TAGS"
	r.doc(rule, "the member names the range-boundary detector searches for equal the struct tags of RangeBoundary.Min/Max and of the wire struct's Left; encoder and decoder use the same wire struct type")
	rb := c.namedType(pkgExpr, "RangeBoundary")
	if rb == nil {
		r.bad(rule, "anchor", "-", "RangeBoundary not found")
		return
	}
	tags := map[string]string{}
	rst := rb.Underlying().(*types.Struct)
	for i := 0; i < rst.NumFields(); i++ {
		name := strings.Split(reflect.StructTag(rst.Tag(i)).Get("json"), ",")[0]
		tags["RangeBoundary."+rst.Field(i).Name()] = name
	}
	// wire struct: the struct type with a field tagged "operator"
	var wire *types.Named
	sc := c.Pkgs[pkgExpr].Types.Scope()
	for _, n := range sc.Names() {
		tn, ok := sc.Lookup(n).(*types.TypeName)
		if !ok {
			continue
		}
		nt, ok := tn.Type().(*types.Named)
		if !ok {
			continue
		}
		s, ok := nt.Underlying().(*types.Struct)
		if !ok {
			continue
		}
		for i := 0; i < s.NumFields(); i++ {
			if strings.Split(reflect.StructTag(s.Tag(i)).Get("json"), ",")[0] == "operator" {
				wire = nt
			}
		}
	}
	if wire == nil {
		r.bad(rule, "wire-struct", "-", "no wire struct with an `operator` member found")
		return
	}
	ws := wire.Underlying().(*types.Struct)
	wireTags := map[string]bool{}
	for i := 0; i < ws.NumFields(); i++ {
		wireTags[strings.Split(reflect.StructTag(ws.Tag(i)).Get("json"), ",")[0]] = true
	}
	// searched member names
	searched := map[string]string{}
	for _, f := range c.Funcs {
		if fnPkgPath(f) != pkgExpr {
			continue
		}
		for _, b := range f.Blocks {
			for _, in := range b.Instrs {
				call, ok := in.(*ssa.Call)
				if !ok || calleeFullName(call) != "strings.Contains" {
					continue
				}
				if s, ok := constStringVal(call.Call.Args[1]); ok {
					if m := tagNameRe.FindStringSubmatch(s); m != nil {
						searched[m[1]] = c.instrPos(in)
					}
					continue
				}
				// the names searched for in a loop over a literal list of them
				if ld, ok := call.Call.Args[1].(*ssa.UnOp); ok {
					if ia, ok := ld.X.(*ssa.IndexAddr); ok {
						var arr *ssa.Alloc
						switch x := ia.X.(type) {
						case *ssa.Alloc:
							arr = x
						case *ssa.Slice:
							arr, _ = x.X.(*ssa.Alloc)
						}
						if arr != nil {
							for _, el := range localArrayElems(arr) {
								if s, ok := constStringVal(el); ok {
									if m := tagNameRe.FindStringSubmatch(s); m != nil {
										searched[m[1]] = c.instrPos(in)
									}
								}
							}
						}
					}
				}
			}
		}
	}
	for _, want := range []string{tags["RangeBoundary.Min"], tags["RangeBoundary.Max"]} {
		key := "detector|" + want
		if _, ok := searched[want]; ok && want != "" {
			r.ok(rule, key, searched[want], "searched name equals the RangeBoundary tag")
		} else {
			r.bad(rule, key, c.pos(rb.Obj().Pos()), fmt.Sprintf("RangeBoundary is encoded with member %q but the decoder's boundary detector searches for %v: encoded ranges are decoded as plain expressions", want, setKeys(boolMap(searched))))
		}
	}
	for name, pos := range searched {
		if name == tags["RangeBoundary.Min"] || name == tags["RangeBoundary.Max"] {
			continue
		}
		key := "detector|" + name
		if wireTags[name] {
			r.ok(rule, key, pos, "a member of the wire struct")
		} else {
			r.bad(rule, key, pos, fmt.Sprintf("the boundary detector searches for member %q, which neither RangeBoundary nor the wire struct writes", name))
		}
	}
	r.floor(rule, "searched member names", len(searched), 3)
	enc := c.method(pkgExpr, "Expression", "MarshalJSON")
	dec := c.method(pkgExpr, "Expression", "UnmarshalJSON")
	uses := func(f *ssa.Function) bool {
		for _, b := range f.Blocks {
			for _, in := range b.Instrs {
				if a, ok := in.(*ssa.Alloc); ok {
					if pt, ok := a.Type().(*types.Pointer); ok && types.Identical(pt.Elem(), wire) {
						return true
					}
				}
			}
		}
		return false
	}
	if enc != nil && dec != nil && uses(enc) && uses(dec) {
		r.ok(rule, "wire-struct-shared", c.pos(wire.Obj().Pos()), wire.Obj().Name())
	} else {
		r.bad(rule, "wire-struct-shared", c.pos(wire.Obj().Pos()), "encoder and decoder do not use the same wire struct")
	}
}

func ruleJSONLEAF(c *Ctx, r *Report) {
	const rule = "JSON-LEAF"
	r.doc(rule, "the encoder's leaf test (bare JSON value) covers exactly Literal, Wild, Regexp, and the decoder's leaf constructor builds exactly those three operators")
	enc := c.method(pkgExpr, "Expression", "MarshalJSON")
	if enc == nil {
		r.bad(rule, "anchor", "-", "MarshalJSON not found")
		return
	}
	paths, _ := c.enumPaths(enc, 5000)
	bare := map[string]bool{}
	wrapped := map[string]bool{}
	for _, p := range paths {
		if p.Ret == nil {
			continue
		}
		v := c.resolve(p.Ret.Results[0], p.Env)
		opKey := ""
		for _, a := range p.Atoms {
			if a.Kind == "cmp" && strings.HasSuffix(a.Subj, ".Op") {
				opKey = a.Subj
			}
			if a.Kind == "call" && strings.HasSuffix(a.Val, ".Op") {
				opKey = a.Val
			}
		}
		ops := c.possibleOps(p.Atoms, opKey)
		isBare := false
		if ex, ok := v.(*ssa.Extract); ok {
			if call, ok := ex.Tuple.(*ssa.Call); ok && calleeFullName(call) == "encoding/json.Marshal" && strings.HasSuffix(c.key(call.Call.Args[0], p.Env), ".Left") {
				isBare = true
			}
		}
		for o := range ops {
			if isBare {
				bare[o] = true
			} else if !isNilConst(v) {
				wrapped[o] = true
			}
		}
	}
	got := strings.Join(setKeys(bare), ",")
	for _, o := range leafOps {
		if wrapped[o] {
			r.bad(rule, "encoder|leaf-other-writer|"+o, c.pos(enc.Pos()), "for "+o+" leaves the encoder has a path that writes something other than json.Marshal of the payload (a hand-made quoting, a wrapper object): the bytes are not what the decoder's leaf case reads back, or are not JSON at all for some payloads")
		}
	}
	if got == "expr.Literal,expr.Regexp,expr.Wild" {
		r.ok(rule, "encoder|leaf-set", c.pos(enc.Pos()), got)
	} else {
		r.bad(rule, "encoder|leaf-set", c.pos(enc.Pos()), "the encoder writes a bare JSON value for operators {"+got+"}; it must do so for exactly Literal, Wild and Regexp (the decoder rebuilds leaves from bare values)")
	}
	// decoder leaf constructor: functions returning *Expression from a string, building leaf ops
	lte := c.pkgFunc(pkgExpr, "literalToExpr")
	var ctor *ssa.Function = lte
	if ctor == nil {
		// role: called by the decoder with the decoded string
		for _, f := range c.Funcs {
			if fnPkgPath(f) == pkgExpr && f.Signature.Params().Len() == 1 && isEmptyInterface(f.Signature.Params().At(0).Type()) &&
				f.Signature.Results().Len() == 1 && isExprPtr(f.Signature.Results().At(0).Type()) && c.callsNamed(f, "strings.ContainsAny") {
				ctor = f
			}
		}
	}
	if ctor == nil {
		r.bad(rule, "decoder|leaf-ctor", "-", "decoder leaf constructor not found")
		return
	}
	built := map[string]bool{}
	for _, b := range ctor.Blocks {
		for _, in := range b.Instrs {
			if call, ok := in.(*ssa.Call); ok && call.Call.StaticCallee() != nil {
				for _, o := range c.ctorOperator(call.Call.StaticCallee()) {
					built[o] = true
				}
			}
		}
	}
	gb := strings.Join(setKeys(built), ",")
	if gb == "expr.Literal,expr.Regexp,expr.Wild" {
		r.ok(rule, "decoder|leaf-set", c.pos(ctor.Pos()), gb)
	} else {
		r.bad(rule, "decoder|leaf-set", c.pos(ctor.Pos()), "the decoder's leaf constructor builds {"+gb+"}; it must be able to build Literal, Wild and Regexp leaves and nothing else")
	}
}

// JSON-OP (C12): the decoder takes the operator from the document and does not rewrite it.
func ruleJSONOP(c *Ctx, r *Report) {
	const rule = "JSON-OP"
	r.doc(rule, "every store to the Op field in the JSON decoder (and in the private helpers it hands its receiver to) stores the result of the operator-name lookup: the decoder does not re-derive the operator from the operands (the general constructor does that for parsed queries; repeating it on decoded leaves, whose kind is inferred from their text, changes EQUALS into LIKE for a quoted pattern)")
	dec := c.method(pkgExpr, "Expression", "UnmarshalJSON")
	et := c.namedType(pkgExpr, "Expression")
	if dec == nil || et == nil {
		r.bad(rule, "anchor", "-", "UnmarshalJSON not found")
		return
	}
	st := et.Underlying().(*types.Struct)
	var opF *types.Var
	for i := 0; i < st.NumFields(); i++ {
		if st.Field(i).Name() == "Op" {
			opF = st.Field(i)
		}
	}
	fs := c.readTable(pkgExpr, "fromString")
	n := 0
	for _, s := range c.storesToFields(opF) {
		if s.fn != dec && !c.reachedOnlyFrom(s.fn, dec, 0) {
			continue
		}
		n++
		v := c.resolve(s.st.Val, nil)
		ok := false
		switch x := v.(type) {
		case *ssa.Call:
			// the same table written as a function from the name to the operator
			if fs.Fn != nil && x.Call.StaticCallee() == fs.Fn {
				ok = true
			}
		case *ssa.Lookup:
			if ld, isLd := x.X.(*ssa.UnOp); isLd && fs.Global != nil && ld.X == ssa.Value(fs.Global) {
				ok = true
			}
		case *ssa.Extract:
			if lk, isLk := x.Tuple.(*ssa.Lookup); isLk && x.Index == 0 {
				if ld, isLd := lk.X.(*ssa.UnOp); isLd && fs.Global != nil && ld.X == ssa.Value(fs.Global) {
					ok = true
				}
			}
		}
		key := fnName(s.fn) + "|Op←" + c.key(v, nil)
		if ok {
			r.ok(rule, key, c.instrPos(s.st), "operator-name lookup")
		} else {
			r.bad(rule, key, c.instrPos(s.st), fmt.Sprintf("the decoder sets the operator to %s instead of what the document names: re-encoding the decoded tree gives different bytes and different SQL", c.key(v, nil)))
		}
	}
	r.floor(rule, "stores to Op in the decoder", n, 1)
	// operands: what the decoder stores into Right is decoded from the document, never re-derived from the
	// node's own (already decoded) operands; the only rewrite of Left is the column wrapper
	var lrF []*types.Var
	for i := 0; i < st.NumFields(); i++ {
		if st.Field(i).Name() == "Left" || st.Field(i).Name() == "Right" {
			lrF = append(lrF, st.Field(i))
		}
	}
	for _, s := range c.storesToFields(lrF...) {
		if s.fn != dec && !c.reachedOnlyFrom(s.fn, dec, 0) {
			continue
		}
		k := c.key(s.st.Val, nil)
		key := fnName(s.fn) + "|" + s.field.Name() + "←" + k
		reRead := strings.Contains(k, "$0.Right") || (s.field.Name() == "Right" && strings.Contains(k, "$0.Left"))
		if reRead {
			r.bad(rule, key, c.instrPos(s.st), fmt.Sprintf("the decoder replaces %s by a value derived from the node's own operands (%s): a payload is re-typed after decoding (a quoted number becomes a number, …), so re-encoding gives different bytes and the SQL changes", s.field.Name(), k))
		} else {
			r.ok(rule, key, c.instrPos(s.st), "decoded from the document")
		}
	}
	// the decoder has no rejection criterion of its own: every error it returns is the error of a decoding call
	paths, _ := c.enumPaths(dec, 20000)
	nErr := 0
	seenErr := map[string]bool{}
	for _, p := range paths {
		if p.Ret == nil || len(p.Ret.Results) != 1 {
			continue
		}
		ev := c.resolve(p.Ret.Results[0], p.Env)
		if isNilConst(ev) {
			continue
		}
		k := c.key(ev, p.Env)
		if seenErr[k] {
			continue
		}
		seenErr[k] = true
		nErr++
		var call *ssa.Call
		switch x := ev.(type) {
		case *ssa.Extract:
			call, _ = x.Tuple.(*ssa.Call)
		case *ssa.Call:
			call = x
		}
		name := ""
		if call != nil {
			name = calleeFullName(call)
		}
		if call != nil && name != "fmt.Errorf" && name != "errors.New" {
			r.ok(rule, "error|"+k, c.instrPos(p.Ret), "error of a decoding call")
		} else {
			r.bad(rule, "error|"+k, c.instrPos(p.Ret), "the decoder rejects a document with an error of its own ("+k+"): a limit or shape test that the encoder does not respect makes some encoded expressions undecodable")
		}
	}
	r.floor(rule, "error returns of the decoder", nErr, 3)
}

// JSON-PRINT (C12): the printed form of a leaf does not depend on its kind.
func ruleJSONPRINT(c *Ctx, r *Report) {
	const rule = "JSON-PRINT"
	r.doc(rule, "a renderer registered for more than one of the leaf kinds Literal/Wild/Regexp does not branch on the node's operator when printing query text (verbose = false): the decoder infers a leaf's kind from its text, so a quoted pattern is a Literal in the parsed tree and a Wild in the decoded one, and both must print identically; a numeric payload is printed by the generic %v only — the fuzzy and boost productions read their number back through the operand's printed form, so a rounding or padded print changes the number in the tree")
	rops := c.rendererOps()
	n := 0
	for fn, ops := range rops {
		leafKinds := 0
		for _, o := range ops {
			if contains(leafOps, o) {
				leafKinds++
			}
		}
		if leafKinds < 2 || len(fn.Params) < 2 {
			continue
		}
		n++
		paths, complete := c.enumPathsInl(fn, 5000)
		if !complete {
			r.bad(rule, fnName(fn)+"|paths", c.pos(fn.Pos()), "too many paths")
			continue
		}
		bad := false
		for _, p := range paths {
			if p.Ret == nil {
				continue
			}
			verbose := false
			for _, a := range p.Atoms {
				if a.Kind == "bool" && a.Subj == "$1" && a.Pos {
					verbose = true
				}
			}
			if verbose {
				continue
			}
			for _, a := range p.Atoms {
				if a.Kind == "type" && a.Pos && a.Subj == "$0.Left" && a.Val != "string" {
					bad = true
					r.bad(rule, fnName(fn)+"|payload-type|"+a.Val, c.instrPos(p.Ret), fmt.Sprintf("%s prints a %s payload in a way of its own: the decoder narrows whole floats to int (and infers kinds from text), so the same value can print differently before and after a JSON round trip", fnName(fn), a.Val))
				}
				if (a.Kind == "cmp" || a.Kind == "call") && (a.Subj == "$0.Op" || strings.Contains(a.Val, "$0.Op")) {
					bad = true
					r.bad(rule, fnName(fn)+"|"+a.String(), c.instrPos(p.Ret), fmt.Sprintf("%s (registered for %v) prints a leaf differently depending on its kind (%s): a quoted pattern prints one way from the parsed tree and another way after a JSON round trip", fnName(fn), ops, a.String()))
				}
			}
		}
		if !bad {
			r.ok(rule, fnName(fn), c.pos(fn.Pos()), "query text of a leaf is independent of its kind")
		}
	}
	r.floor(rule, "renderers shared by leaf kinds", n, 1)
}

// JSON-NUM-EXACT (C12): integer leaves survive decoding exactly. encoding/json turns a number that lands in an
// `any` into a float64, which cannot hold every int; the encoder writes an int leaf with all its digits, so a
// decoder that narrows such a float64 back to an int changes integers beyond 2^53.
func ruleJSONNUMEXACT(c *Ctx, r *Report) {
	const rule = "JSON-NUM-EXACT"
	r.doc(rule, "in the functions the JSON decoder reaches: wherever a value is narrowed from float64 to an integer type after a type assertion from an interface (a JSON number decoded generically), every call of that narrowing function is made on a value for which an exact integer reading of the number's own text (strconv.Atoi / ParseInt on the raw message, stored into the same place under err == nil) has been tried first — so the float64 is only ever narrowed when the text was not an integer that fits")
	dec := c.method(pkgExpr, "Expression", "UnmarshalJSON")
	if dec == nil {
		r.bad(rule, "anchor", "-", "UnmarshalJSON not found")
		return
	}
	reach := c.reachFrom([]*ssa.Function{dec})
	// narrowing helpers: Convert float64 → integer of a value asserted from an interface
	narrow := map[*ssa.Function]*ssa.Convert{}
	for _, f := range sortedFuncs(reach) {
		if !inLib(f) {
			continue
		}
		for _, b := range f.Blocks {
			for _, in := range b.Instrs {
				cv, ok := in.(*ssa.Convert)
				if !ok {
					continue
				}
				from, okF := cv.X.Type().Underlying().(*types.Basic)
				to, okT := cv.Type().Underlying().(*types.Basic)
				if !okF || !okT || from.Info()&types.IsFloat == 0 || to.Info()&types.IsInteger == 0 {
					continue
				}
				x := cv.X
				if ex, ok := x.(*ssa.Extract); ok {
					x = ex.Tuple
				}
				if ta, ok := x.(*ssa.TypeAssert); ok {
					if _, isIface := ta.X.Type().Underlying().(*types.Interface); isIface {
						narrow[f] = cv
					}
				}
			}
		}
	}
	n := 0
	for _, f := range sortedFuncs(reach) {
		if !inLib(f) {
			continue
		}
		for _, b := range f.Blocks {
			for _, in := range b.Instrs {
				call, ok := in.(*ssa.Call)
				if !ok {
					continue
				}
				g := call.Call.StaticCallee()
				if g == nil || narrow[g] == nil || len(call.Call.Args) == 0 {
					continue
				}
				n++
				arg := call.Call.Args[0]
				key := fmt.Sprintf("%s|%s(%s)", fnName(f), fnName(g), c.key(arg, nil))
				// the place the value is read from: a field of a local
				exact := false
				// the place the value is read from: a field of a local — directly, or through a pointer parameter of
				// a closure / private helper that every caller hands the address of such a field
				type slot struct {
					fn *ssa.Function
					fa ssa.Value // the address the value is read from
					at *ssa.Call
				}
				var slots []slot
				if ld, ok := arg.(*ssa.UnOp); ok {
					switch x := ld.X.(type) {
					case *ssa.FieldAddr:
						slots = append(slots, slot{f, x, call})
					case *ssa.UnOp:
						// a pointer kept in a local table of the places to post-process (`*bound.value`)
						slots = append(slots, slot{f, x, call})
					case *ssa.Parameter:
						idx := -1
						for i, q := range f.Params {
							if q == x {
								idx = i
							}
						}
						allOK := idx >= 0
						nSites := 0
						for _, h := range c.Funcs {
							for _, hb := range h.Blocks {
								for _, hin := range hb.Instrs {
									hc, ok := hin.(*ssa.Call)
									if !ok || c.calleeE(hc, nil) != f && !closureCallOf(hc, f) {
										continue
									}
									nSites++
									if idx >= len(hc.Call.Args) {
										allOK = false
										continue
									}
									if fa, ok := hc.Call.Args[idx].(*ssa.FieldAddr); ok {
										slots = append(slots, slot{h, fa, hc})
									} else {
										allOK = false
									}
								}
							}
						}
						if !allOK || nSites == 0 {
							slots = nil
						}
					}
				}
				exactSlots := 0
				for _, sl := range slots {
					f, fa, call := sl.fn, sl.fa, sl.at
					slotExact := false
					{
						for _, b2 := range f.Blocks {
							for _, in2 := range b2.Instrs {
								st, ok := in2.(*ssa.Store)
								if !ok {
									continue
								}
								if fa2, ok := st.Addr.(*ssa.FieldAddr); ok {
									if fa1, ok := fa.(*ssa.FieldAddr); !ok || fa2.X != fa1.X || fa2.Field != fa1.Field {
										continue
									}
								} else if st.Addr != fa && c.key(st.Addr, nil) != c.key(fa, nil) {
									continue
								}
								v := st.Val
								if mi, ok := v.(*ssa.MakeInterface); ok {
									v = mi.X
								}
								if cv, ok := v.(*ssa.Convert); ok {
									v = cv.X
								}
								ex, ok := v.(*ssa.Extract)
								if !ok || ex.Index != 0 {
									continue
								}
								pc, ok := ex.Tuple.(*ssa.Call)
								if !ok {
									continue
								}
								guarded := false
								switch calleeFullName(pc) {
								case "strconv.Atoi", "strconv.ParseInt":
									errKey := c.key(pc, nil) + "#1"
									for _, a := range c.domAtoms(st.Block()) {
										if a.Kind == "nil" && a.Pos && a.Subj == errKey {
											guarded = true
										}
									}
								default:
									// a helper `func(text) (int, bool)` that returns strconv's integer reading and whether it
									// succeeded; the store must sit under its second result
									if g := pc.Call.StaticCallee(); g != nil && inLib(g) && c.exactIntReader(g) {
										okKey := c.key(pc, nil) + "#1"
										for _, a := range c.domAtoms(st.Block()) {
											if a.Kind == "bool" && a.Pos && a.Subj == okKey {
												guarded = true
											}
										}
									}
								}
								if guarded && (st.Block() == call.Block() || reachesBlock(st.Block(), call.Block())) {
									slotExact = true
								}
							}
						}
					}
					if slotExact {
						exactSlots++
					}
				}
				exact = len(slots) > 0 && exactSlots == len(slots)
				if exact {
					r.ok(rule, key, c.instrPos(call), "an exact integer reading of the text is stored first")
				} else {
					r.badW(rule, key, c.instrPos(call), fmt.Sprintf("%s narrows a generically decoded JSON number (a float64) to an int through %s without an exact integer reading of its text having been tried first: an integer beyond 2^53 that the encoder wrote with all its digits comes back changed, so the re-encoded bytes and both SQL renderings differ from the original", fnName(f), fnName(g)), "`a:[1 TO 9007199254740993]` decodes with the bound 9007199254740992")
				}
			}
		}
	}
	r.ok(rule, "narrowings-examined", "-", fmt.Sprintf("%d calls of float64→int narrowing helpers in the decoder", n))
}

func reachesBlock(from, to *ssa.BasicBlock) bool {
	seen := map[*ssa.BasicBlock]bool{}
	var walk func(b *ssa.BasicBlock) bool
	walk = func(b *ssa.BasicBlock) bool {
		if b == to {
			return true
		}
		for _, s := range b.Succs {
			if !seen[s] {
				seen[s] = true
				if walk(s) {
					return true
				}
			}
		}
		return false
	}
	return walk(from)
}

// closureCallOf: the call invokes the closure f through a local function value (fn := func…; fn(x)).
func closureCallOf(call *ssa.Call, f *ssa.Function) bool {
	v := call.Call.Value
	if ld, ok := v.(*ssa.UnOp); ok {
		if al, ok := ld.X.(*ssa.Alloc); ok && al.Referrers() != nil {
			for _, ref := range *al.Referrers() {
				if st, ok := ref.(*ssa.Store); ok && st.Addr == ssa.Value(al) {
					v = st.Val
				}
			}
		}
	}
	if mc, ok := v.(*ssa.MakeClosure); ok {
		return mc.Fn == ssa.Value(f)
	}
	if fn, ok := v.(*ssa.Function); ok {
		return fn == f
	}
	return false
}

// exactIntReader: g returns (n, ok) where n is the #0 result of the single strconv.Atoi / ParseInt call in g on
// every return, and ok is `err == nil` of that same call.
func (c *Ctx) exactIntReader(g *ssa.Function) bool {
	if g.Signature.Results().Len() != 2 || !isBool(g.Signature.Results().At(1).Type()) {
		return false
	}
	var parse *ssa.Call
	for _, b := range g.Blocks {
		for _, in := range b.Instrs {
			if call, ok := in.(*ssa.Call); ok {
				switch calleeFullName(call) {
				case "strconv.Atoi", "strconv.ParseInt":
					if parse != nil {
						return false
					}
					parse = call
				}
			}
		}
	}
	if parse == nil {
		return false
	}
	pk := c.key(parse, nil)
	nRet := 0
	for _, b := range g.Blocks {
		ret, ok := b.Instrs[len(b.Instrs)-1].(*ssa.Return)
		if !ok {
			continue
		}
		nRet++
		k0 := c.key(c.resolve(ret.Results[0], nil), nil)
		if k0 != pk+"#0" && !strings.HasSuffix(k0, "("+pk+"#0)") {
			return false
		}
		// the flag: err == nil
		okAtom := false
		for _, a := range c.atoms(ret.Results[1], true, nil) {
			if a.Kind == "nil" && a.Pos && a.Subj == pk+"#1" {
				okAtom = true
			}
		}
		if !okAtom {
			return false
		}
	}
	return nRet > 0
}

// JSON-ATTR (C12): the encoder writes the node's own boost power and fuzzy distance.
func ruleJSONATTR(c *Ctx, r *Report) {
	const rule = "JSON-ATTR"
	r.doc(rule, "in MarshalJSON every value stored into a pointer-typed numeric member of the wire struct (the boost power, the fuzzy distance) is the address of the receiver's own attribute field, or of a local that holds an unmodified copy of it: the number is encoded as it is, not rounded, clamped or recomputed — the decoder reads back exactly what was written")
	enc := c.method(pkgExpr, "Expression", "MarshalJSON")
	if enc == nil {
		r.bad(rule, "anchor", "-", "MarshalJSON not found")
		return
	}
	n := 0
	for _, b := range enc.Blocks {
		for _, in := range b.Instrs {
			st, ok := in.(*ssa.Store)
			if !ok {
				continue
			}
			fa, ok := st.Addr.(*ssa.FieldAddr)
			if !ok {
				continue
			}
			pt, isPtr := st.Val.Type().Underlying().(*types.Pointer)
			if !isPtr {
				continue
			}
			bt, isBasic := pt.Elem().Underlying().(*types.Basic)
			if !isBasic || bt.Info()&types.IsNumeric == 0 {
				continue
			}
			n++
			member := fieldName(fa.X.Type(), fa.Field)
			key := fnName(enc) + "|" + member
			own := func(v ssa.Value) bool {
				f, isF := v.(*ssa.FieldAddr)
				if !isF {
					return false
				}
				base := f.X
				if al, isAl := base.(*ssa.Alloc); isAl {
					// the spilled receiver
					for _, ref := range *al.Referrers() {
						if s2, isSt := ref.(*ssa.Store); isSt && s2.Addr == ssa.Value(al) {
							_, isParam := s2.Val.(*ssa.Parameter)
							return isParam
						}
					}
				}
				_, isParam := base.(*ssa.Parameter)
				return isParam
			}
			v := st.Val
			good := own(v)
			if al, isAl := v.(*ssa.Alloc); isAl && !good {
				// &local, where local = e.attr unchanged
				for _, ref := range *al.Referrers() {
					if s2, isSt := ref.(*ssa.Store); isSt && s2.Addr == ssa.Value(al) {
						if ld, isLd := s2.Val.(*ssa.UnOp); isLd && ld.Op == token.MUL && own(ld.X) {
							good = true
						} else {
							good = false
							break
						}
					}
				}
			}
			if call, isCall := v.(*ssa.Call); isCall && !good {
				// a helper that yields nil or (the address of) the value it was given: unlessDefault(e.attr, 1)
				if g := call.Call.StaticCallee(); g != nil && inModule(g) && len(g.Blocks) > 0 {
					for ai, a := range call.Call.Args {
						isOwn := own(a)
						if ld, isLd := a.(*ssa.UnOp); isLd && ld.Op == token.MUL && own(ld.X) {
							isOwn = true
						}
						if !isOwn || ai >= len(g.Params) {
							continue
						}
						prm := g.Params[ai]
						all := true
						for _, gb := range g.Blocks {
							ret, isRet := gb.Instrs[len(gb.Instrs)-1].(*ssa.Return)
							if !isRet || len(ret.Results) == 0 {
								continue
							}
							rv := ret.Results[0]
							switch x := rv.(type) {
							case *ssa.Const:
								if !x.IsNil() {
									all = false
								}
							case *ssa.Parameter:
								if x != prm {
									all = false
								}
							case *ssa.Alloc:
								// &param (the spilled copy), never written again
								stores := 0
								for _, ref := range *x.Referrers() {
									if s2, isSt := ref.(*ssa.Store); isSt && s2.Addr == ssa.Value(x) {
										stores++
										if s2.Val != ssa.Value(prm) {
											all = false
										}
									}
								}
								if stores != 1 {
									all = false
								}
							default:
								all = false
							}
						}
						if all {
							good = true
						}
					}
				}
			}
			if good {
				r.ok(rule, key, c.instrPos(in), "the node's own attribute")
			} else {
				r.bad(rule, key, c.instrPos(in), fmt.Sprintf("the encoder writes %s into the member %s instead of the node's own attribute: the number in the document is not the number in the tree (rounded, clamped or recomputed), so the decoded tree differs from the encoded one", c.key(v, nil), member))
			}
		}
	}
	r.floor(rule, "numeric attribute members written by the encoder", n, 2)
}

// JSON-LIST-LEAF (C12, C13): the members of a decoded value list are leaves. Validate does not descend into a
// []*Expression operand (the parser only ever puts terms there), so a list member decoded as a full nested
// expression is a subtree no validation looks at and the renderers index into unchecked.
func ruleJSONLISTLEAF(c *Ctx, r *Report) {
	const rule = "JSON-LIST-LEAF"
	r.doc(rule, "in the JSON decoder and the byte-reading helpers it reaches, every element stored into a []*Expression operand is nil, the result of a module function that cannot re-enter the expression decoder (the leaf decoder), or an element read from another such list; json.Unmarshal is never pointed at a collection of expressions. A value list therefore decodes to leaves only — the one shape Validate, which does not descend into list operands, and the renderers' list cases rely on")
	dec := c.method(pkgExpr, "Expression", "UnmarshalJSON")
	if dec == nil {
		r.bad(rule, "anchor", "-", "UnmarshalJSON not found")
		return
	}
	reach := c.reachFrom([]*ssa.Function{dec})
	var mod []*ssa.Function
	for f := range reach {
		if fnPkgPath(f) == pkgExpr && f.Blocks != nil {
			mod = append(mod, f)
		}
	}
	sort.Slice(mod, func(i, j int) bool { return mod[i].Pos() < mod[j].Pos() })
	holdsExpr := func(t types.Type) bool {
		if p, ok := t.Underlying().(*types.Pointer); ok {
			t = p.Elem()
		}
		if isExprPtr(t) {
			return true
		}
		if n, ok := t.(*types.Named); ok && n.Obj().Name() == "Expression" && n.Obj().Pkg() != nil && n.Obj().Pkg().Path() == pkgExpr {
			return true
		}
		return false
	}
	collOfExpr := func(t types.Type) bool {
		if p, ok := t.Underlying().(*types.Pointer); ok {
			t = p.Elem()
		}
		switch u := t.Underlying().(type) {
		case *types.Slice:
			return holdsExpr(u.Elem())
		case *types.Array:
			return holdsExpr(u.Elem())
		case *types.Map:
			return holdsExpr(u.Elem())
		}
		return false
	}
	// the target of a json decoding call, if the instruction is one
	decodeTarget := func(in ssa.Instruction) (types.Type, bool) {
		call, ok := in.(ssa.CallInstruction)
		if !ok {
			return nil, false
		}
		name := calleeFullName(call)
		args := call.Common().Args
		var tv ssa.Value
		switch name {
		case "encoding/json.Unmarshal":
			if len(args) == 2 {
				tv = args[1]
			}
		case "(*encoding/json.Decoder).Decode":
			if len(args) == 2 {
				tv = args[1]
			}
		}
		if tv == nil {
			return nil, false
		}
		if mi, ok := tv.(*ssa.MakeInterface); ok {
			return mi.X.Type(), true
		}
		return tv.Type(), true
	}
	reenters := map[*ssa.Function]bool{}
	for _, f := range mod {
		for _, b := range f.Blocks {
			for _, in := range b.Instrs {
				if t, ok := decodeTarget(in); ok && (holdsExpr(t) || collOfExpr(t)) {
					reenters[f] = true
				}
				if call, ok := in.(ssa.CallInstruction); ok && call.Common().StaticCallee() == dec {
					reenters[f] = true
				}
			}
		}
	}
	for changed := true; changed; {
		changed = false
		for _, f := range mod {
			if reenters[f] {
				continue
			}
			for _, b := range f.Blocks {
				for _, in := range b.Instrs {
					if call, ok := in.(ssa.CallInstruction); ok {
						if g := call.Common().StaticCallee(); g != nil && reenters[g] {
							reenters[f] = true
							changed = true
						}
					}
				}
			}
		}
	}
	readsBytes := func(f *ssa.Function) bool {
		if f == dec {
			return true
		}
		var has func(t types.Type, d int) bool
		has = func(t types.Type, d int) bool {
			if d > 3 {
				return false
			}
			if n, ok := t.(*types.Named); ok && n.Obj().Name() == "RawMessage" {
				return true
			}
			switch u := t.Underlying().(type) {
			case *types.Slice:
				if b, ok := u.Elem().Underlying().(*types.Basic); ok && b.Kind() == types.Byte {
					return true
				}
				return has(u.Elem(), d+1)
			case *types.Pointer:
				return has(u.Elem(), d+1)
			}
			return false
		}
		for _, p := range f.Params { // the receiver included
			if has(p.Type(), 0) {
				return true
			}
		}
		for _, fv := range f.FreeVars {
			if has(fv.Type(), 0) {
				return true
			}
		}
		return false
	}
	// filled: the node v points to is handed to a json decoding call or to the decoder method itself
	filled := func(v ssa.Value) bool {
		refs := v.Referrers()
		if refs == nil {
			return false
		}
		for _, u := range *refs {
			if ci, ok := u.(ssa.CallInstruction); ok {
				if _, isDec := decodeTarget(ci); isDec {
					return true
				}
				if g := ci.Common().StaticCallee(); g != nil && reenters[g] {
					return true
				}
			}
			if mi, ok := u.(*ssa.MakeInterface); ok {
				for _, u2 := range *mi.Referrers() {
					if _, isDec := decodeTarget(u2); isDec {
						return true
					}
				}
			}
		}
		return false
	}
	var origin func(v ssa.Value, seen map[ssa.Value]bool) string
	origin = func(v ssa.Value, seen map[ssa.Value]bool) string {
		if seen[v] {
			return ""
		}
		seen[v] = true
		if filled(v) {
			return "a node filled by a recursive json decoding call"
		}
		switch x := v.(type) {
		case *ssa.Const:
			if x.IsNil() {
				return ""
			}
		case *ssa.Extract:
			return origin(x.Tuple, seen)
		case *ssa.Call:
			g := x.Call.StaticCallee()
			if g != nil && fnPkgPath(g) == pkgExpr && !reenters[g] {
				return ""
			}
			if g != nil && reenters[g] {
				return "the result of " + g.Name() + ", which re-enters the expression decoder"
			}
			return "the result of a call that is not a module leaf decoder"
		case *ssa.Phi:
			for _, e := range x.Edges {
				if s := origin(e, seen); s != "" {
					return s
				}
			}
			return ""
		case *ssa.UnOp:
			if x.Op == token.MUL {
				if ia, ok := x.X.(*ssa.IndexAddr); ok && collOfExpr(ia.X.Type()) {
					return ""
				}
			}
		case *ssa.Index:
			if collOfExpr(x.X.Type()) {
				return ""
			}
		case *ssa.Alloc:
			for _, u := range *x.Referrers() {
				if ci, ok := u.(ssa.CallInstruction); ok {
					if _, isDec := decodeTarget(ci); isDec {
						return "a node filled by a recursive json decoding call"
					}
				}
				if mi, ok := u.(*ssa.MakeInterface); ok {
					for _, u2 := range *mi.Referrers() {
						if _, isDec := decodeTarget(u2); isDec {
							return "a node filled by a recursive json decoding call"
						}
					}
				}
			}
		}
		return "a value that is not the result of the leaf decoder"
	}
	n := 0
	for _, f := range mod {
		if !readsBytes(f) {
			continue
		}
		for _, b := range f.Blocks {
			for _, in := range b.Instrs {
				if t, ok := decodeTarget(in); ok && collOfExpr(t) {
					r.bad(rule, f.Name()+"|decode-into-list", c.instrPos(in), f.Name()+" points a json decoding call at a collection of expressions: its members are decoded as full nested expressions, which Validate never looks into")
				}
				st, ok := in.(*ssa.Store)
				if !ok || !isExprPtr(st.Val.Type()) {
					continue
				}
				ia, ok := st.Addr.(*ssa.IndexAddr)
				if !ok {
					continue
				}
				_ = ia
				n++
				key := fmt.Sprintf("%s|element#%d", f.Name(), n)
				if why := origin(st.Val, map[ssa.Value]bool{}); why != "" {
					r.bad(rule, f.Name()+"|element", c.instrPos(in), f.Name()+" puts into a decoded value list "+why+": a list member that is a whole expression is a subtree Validate does not descend into and the list renderers do not expect")
				} else {
					r.ok(rule, key, c.instrPos(in), "leaf decoder result")
				}
			}
		}
	}
	r.floor(rule, "list element stores in the decoder", n, 1)
}
