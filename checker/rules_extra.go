package main

// Rules added after the first round of seeded changes: LEX-EOF, DF-IDENT, DF-FRESH, JSON-COLUMN,
// JSON-LEAF-CLASS, NIL-RESULT, ERR-PROP, ENTRY-TAIL.

import (
	"fmt"
	"go/token"
	"go/types"
	"os"
	"sort"
	"strconv"
	"strings"

	"golang.org/x/tools/go/ssa"
)

// LEX-EOF (C16/C09): Next pre-sets the EOF token unconditionally before running the state machine,
// so a call in which no state emits (only whitespace left) reports end-of-input, never a stale token.
func ruleLEXEOF(c *Ctx, r *Report) {
	const rule = "LEX-EOF"
	r.doc(rule, "Next stores the EOF token into the current item on every path before the state loop (the store dominates every return of Next), so when no state emits — end of input or only whitespace left — the call reports end-of-input rather than repeating the previous token")
	lr := c.lexPreamble(r, rule)
	if lr == nil {
		return
	}
	var store *ssa.Store
	for _, fs := range c.lexStores(lr) {
		if fs.fn == lr.Next && fs.field == lr.ItemF {
			if store != nil {
				r.bad(rule, "Next|single-prologue", c.instrPos(fs.st), "Next stores the current item more than once")
			}
			store = fs.st
		}
	}
	if store == nil {
		r.bad(rule, "Next|prologue", c.pos(lr.Next.Pos()), "Next does not pre-set the current item")
		return
	}
	ok := true
	for _, b := range lr.Next.Blocks {
		for _, in := range b.Instrs {
			switch x := in.(type) {
			case *ssa.Return:
				if !(store.Block() == b || store.Block().Dominates(b)) {
					ok = false
				}
			case ssa.CallInstruction:
				// the state machine must run after the prologue
				if sc := staticCallee(x); sc == nil {
					if _, isB := x.Common().Value.(*ssa.Builtin); !isB && !(store.Block() == b || store.Block().Dominates(b)) {
						ok = false
					}
				}
			}
		}
	}
	if ok {
		r.ok(rule, "Next|prologue-dominates", c.instrPos(store), "EOF prologue dominates every return and the state loop")
	} else {
		r.bad(rule, "Next|prologue-dominates", c.instrPos(store), "the EOF prologue of Next is conditional: on a path where no state emits a token (e.g. only trailing whitespace is left) Next returns whatever the current item was — the previous token is delivered a second time")
	}
}

// DF-IDENT / DF-FRESH (C11)
func ruleDFIDENT(c *Ctx, r *Report) {
	const rule = "DF-IDENT"
	r.doc(rule, "the default-field option stores the caller's field name unchanged into a parser that is allocated per Parse call; nothing else writes the field")
	pr := c.parserPreamble(r, rule)
	if pr == nil || pr.DefF == nil {
		return
	}
	// a store of a whole parser value (`*p = parser{…}`) writes the field too — with the zero value unless the
	// literal names it
	for _, f := range c.Funcs {
		if !inLib(f) {
			continue
		}
		for _, b := range f.Blocks {
			for _, in := range b.Instrs {
				st, ok := in.(*ssa.Store)
				if !ok {
					continue
				}
				pt, isPtr := st.Addr.Type().Underlying().(*types.Pointer)
				if !isPtr || !types.Identical(pt.Elem(), pr.Type) {
					continue
				}
				if _, fresh := st.Addr.(*ssa.Alloc); fresh && f == pr.Parse {
					continue
				}
				r.bad(rule, fnName(f)+"|whole-parser", c.instrPos(in), fmt.Sprintf("%s overwrites the whole parser value: the default field set by the option is replaced by whatever the new value holds (the empty name, for a literal that does not mention it), so the rest of this Parse call runs without the caller's default field", fnName(f)))
			}
		}
	}
	n := 0
	for _, fs := range c.storesToFields(pr.DefF) {
		n++
		v := c.resolve(fs.st.Val, nil)
		key := fnName(fs.fn) + "|" + pr.DefF.Name()
		// composite literal initialisation in Parse is fine if it stores a constant ""
		if s, ok := constStringVal(v); ok && s == "" && fs.fn == pr.Parse {
			r.ok(rule, key+"|init", c.instrPos(fs.st), "initialised empty")
			continue
		}
		fv, isFV := v.(*ssa.FreeVar)
		if u, ok := v.(*ssa.UnOp); ok {
			fv, isFV = u.X.(*ssa.FreeVar)
		}
		if isFV && fs.fn.Parent() != nil && fs.fn.Parent().Pkg != nil && fs.fn.Parent().Name() == "WithDefaultField" {
			// the free variable must be bound to the option constructor's own parameter
			bound := false
			for _, b := range fs.fn.Parent().Blocks {
				for _, in := range b.Instrs {
					if mc, ok := in.(*ssa.MakeClosure); ok && mc.Fn == ssa.Value(fs.fn) {
						for i, bnd := range mc.Bindings {
							if fs.fn.FreeVars[i] == fv && paramBehind(bnd) != nil {
								bound = true
							}
						}
					}
				}
			}
			// … and on every path: a return of the option that the store does not dominate leaves the parser
			// without the caller's default field for some names
			skipped := ""
			if bound {
				for _, b := range fs.fn.Blocks {
					if ret, isRet := b.Instrs[len(b.Instrs)-1].(*ssa.Return); isRet && !fs.st.Block().Dominates(b) {
						skipped = c.instrPos(ret)
					}
				}
			}
			if bound && skipped != "" {
				r.bad(rule, key+"|conditional", c.instrPos(fs.st), fmt.Sprintf("the default-field option stores the field name on some paths only (it can return at %s without storing it): for the names it skips, bare terms stay unscoped although the caller asked for a default field", skipped))
			} else if bound {
				r.ok(rule, key, c.instrPos(fs.st), "the option stores its argument unchanged")
				continue
			}
		}
		r.bad(rule, key, c.instrPos(fs.st), fmt.Sprintf("%s stores %s into the parser's default field: the option must carry the caller's field name unchanged (and nothing else may set it)", fnName(fs.fn), c.key(v, nil)))
	}
	r.floor(rule, "writers of the default field", n, 1)
	// DF-FRESH: the parser is allocated in Parse on every call
	fresh := 0
	for _, fn := range c.Funcs {
		for _, b := range fn.Blocks {
			for _, in := range b.Instrs {
				al, ok := in.(*ssa.Alloc)
				if !ok || !al.Heap {
					continue
				}
				if pt, ok := al.Type().(*types.Pointer); ok && types.Identical(pt.Elem(), pr.Type) {
					if fn == pr.Parse || c.reachedOnlyFrom(fn, pr.Parse, 0) {
						fresh++
					} else {
						r.bad("DF-FRESH", "alloc|"+fnName(fn), c.instrPos(in), "a parser is allocated outside Parse (pooled / cached parsers carry the default field of an earlier call into later ones)")
					}
				}
			}
		}
	}
	// the parser Parse uses must be that allocation
	usesFresh := false
	for _, b := range pr.Parse.Blocks {
		for _, in := range b.Instrs {
			if call, ok := in.(*ssa.Call); ok && call.Call.StaticCallee() == pr.ParseLoop {
				if recv := c.resolve(call.Call.Args[0], nil); c.freshPtrVal(recv, 0) {
					usesFresh = true
				}
			}
		}
	}
	if fresh == 1 && usesFresh {
		r.ok("DF-FRESH", "Parse|fresh-parser", c.pos(pr.Parse.Pos()), "parser allocated per call")
	} else {
		r.bad("DF-FRESH", "Parse|fresh-parser", c.pos(pr.Parse.Pos()), "Parse does not run on a parser it has just allocated: option state can leak between calls")
	}
	r.doc("DF-FRESH", "Parse runs the parse loop on a parser struct it allocates itself on every call")
}

// guardAtomsAt: normalised dominating call/cmp atoms at an instruction, with the given keys renamed.
func (c *Ctx) guardAtomsAt(in ssa.Instruction, rename map[string]string) []string {
	var out []string
	for _, a := range c.domAtoms(in.Block()) {
		s := a.String()
		for k, v := range rename {
			s = strings.ReplaceAll(s, k, v)
		}
		out = append(out, s)
	}
	sort.Strings(out)
	return uniq(out)
}

// JSON-COLUMN (C12): decoder and constructor wrap the field of a column operator under the same test.
func ruleJSONCOLUMN(c *Ctx, r *Report) {
	const rule = "JSON-COLUMN"
	r.doc(rule, "sibling agreement: the JSON decoder re-wraps the left side in a Column under the same helper predicates as the general constructor does (otherwise a decoded tree differs from the parsed one for some field names)")
	general := c.pkgFunc(pkgExpr, "Expr")
	dec := c.method(pkgExpr, "Expression", "UnmarshalJSON")
	if general == nil || dec == nil {
		r.bad(rule, "anchor", "-", "Expr / UnmarshalJSON not found")
		return
	}
	// role: the wrapping helper = the function both call whose result is stored to / used as Left
	var helper *ssa.Function
	for _, b := range general.Blocks {
		for _, in := range b.Instrs {
			if call, ok := in.(*ssa.Call); ok && call.Call.StaticCallee() != nil && fnPkgPath(call.Call.StaticCallee()) == pkgExpr {
				h := call.Call.StaticCallee()
				if c.calls(dec, h) && h.Signature.Params().Len() == 1 && isEmptyInterface(h.Signature.Params().At(0).Type()) && h.Signature.Results().Len() == 1 && isExprPtr(h.Signature.Results().At(0).Type()) {
					// the one whose body mentions the Column type
					if strings.Contains(c.funcText(h), "expr.Column") {
						helper = h
					}
				}
			}
		}
	}
	if helper == nil {
		r.bad(rule, "helper", c.pos(dec.Pos()), "the decoder does not re-wrap the left side through the same column-wrapping helper as the constructor")
		return
	}
	site := func(f *ssa.Function) (ssa.Instruction, string) {
		for _, b := range f.Blocks {
			for _, in := range b.Instrs {
				if call, ok := in.(*ssa.Call); ok && call.Call.StaticCallee() == helper {
					return in, c.key(call.Call.Args[0], nil)
				}
			}
		}
		return nil, ""
	}
	si, ai := site(general)
	sd, ad := site(dec)
	if si == nil || sd == nil {
		r.bad(rule, "sites", "-", "wrapping call not found in both functions")
		return
	}
	// rename the operand and operator keys
	gi := c.guardAtomsAt(si, map[string]string{ai: "LEFT", "$1": "OP"})
	opKeyDec := ""
	for _, a := range c.domAtoms(sd.Block()) {
		if a.Kind == "call" && strings.Contains(a.Subj, "operatesOnColumn") {
			opKeyDec = a.Val
		}
	}
	gd := c.guardAtomsAt(sd, map[string]string{ad: "LEFT", opKeyDec: "OP"})
	// keep only atoms that mention LEFT or OP
	filter := func(in []string) []string {
		var out []string
		for _, s := range in {
			if strings.Contains(s, "LEFT") || strings.Contains(s, "(OP)") {
				out = append(out, s)
			}
		}
		return out
	}
	a, b := strings.Join(filter(gi), " ∧ "), strings.Join(filter(gd), " ∧ ")
	if a == b && a != "" {
		r.ok(rule, "guard", c.instrPos(sd), a)
	} else {
		r.bad(rule, "guard", c.instrPos(sd), fmt.Sprintf("the constructor wraps the left side in a Column under [%s] but the decoder under [%s]: for some field names the decoded expression is not the parsed one (and renders different SQL)", a, b))
	}
}

// funcText: a crude rendering of all keys in a function (used for role hints only).
func (c *Ctx) funcText(f *ssa.Function) string {
	var sb strings.Builder
	for _, b := range f.Blocks {
		for _, in := range b.Instrs {
			if v, ok := in.(ssa.Value); ok {
				sb.WriteString(c.key(v, nil))
				sb.WriteString(" ")
			}
		}
	}
	return sb.String()
}

// JSON-LEAF-CLASS (C12): the decoder's leaf classifier uses the same wildcard test as the parser.
func ruleJSONLEAFCLASS(c *Ctx, r *Report) {
	const rule = "JSON-LEAF-CLASS"
	r.doc(rule, "sibling agreement between the two leaf classifiers: the test under which the token→literal function builds a Wild leaf and the test under which the decoder's leaf constructor does are the same predicate on the text")
	pr := c.parserRoles()
	if pr.Err != "" || pr.TokToLit == nil {
		r.bad(rule, "anchor", "-", "token→literal function not found")
		return
	}
	dec := c.leafClassifier()
	for _, f := range c.Funcs {
		if true {
			break
		}
		if fnPkgPath(f) == pkgExpr && f.Parent() == nil && f.Signature.Params().Len() == 1 && isEmptyInterface(f.Signature.Params().At(0).Type()) &&
			f.Signature.Results().Len() == 1 && isExprPtr(f.Signature.Results().At(0).Type()) {
			ops := map[string]bool{}
			for _, b := range f.Blocks {
				for _, in := range b.Instrs {
					if call, ok := in.(*ssa.Call); ok && call.Call.StaticCallee() != nil {
						for _, o := range c.ctorOperator(call.Call.StaticCallee()) {
							ops[o] = true
						}
					}
				}
			}
			if ops["expr.Wild"] && ops["expr.Regexp"] && ops["expr.Literal"] {
				dec = f
			}
		}
	}
	if dec == nil {
		r.bad(rule, "decoder-classifier", "-", "decoder leaf constructor not found")
		return
	}
	wildGuard := func(f *ssa.Function) (string, string) {
		paths, _ := c.enumPathsOpt(f, 20000, c.inlBool())
		union, unionPos, unionSubj := "", "", ""
		for _, p := range paths {
			if p.Ret == nil {
				continue
			}
			rv, re := c.resolveE(p.Ret.Results[0], p.Env)
			call, ok := rv.(*ssa.Call)
			if !ok || call.Call.StaticCallee() == nil {
				continue
			}
			ops := c.ctorOperator(call.Call.StaticCallee())
			if len(ops) != 1 || ops[0] != "expr.Wild" {
				continue
			}
			arg := c.key(call.Call.Args[0], re)
			// the last positive atom on the text
			found := false
			for i := len(p.Atoms) - 1; i >= 0 && !found; i-- {
				a := p.Atoms[i]
				if subj, set, pos, ok := c.charsetAtom(a); ok {
					if pos {
						// one meaning, many spellings: compared as "contains one of these characters"; a test
						// written as a disjunction yields one Wild path per disjunct — the sets are united.
						// The text tested must be the same one on every such path (a test on a rewritten copy
						// of the text is a different predicate).
						subj = strings.ReplaceAll(subj, arg, "TEXT")
						if unionSubj != "" && unionSubj != subj {
							return "tests on different texts: " + unionSubj + " / " + subj, c.instrPos(p.Ret)
						}
						unionSubj = subj
						union += set
						unionPos = c.instrPos(p.Ret)
						found = true
					}
					continue
				}
				if a.Pos && (a.Kind == "call" || a.Kind == "bool") {
					return strings.ReplaceAll(a.String(), arg, "TEXT"), c.instrPos(p.Ret)
				}
			}
			if !found {
				return "<unconditional>", c.instrPos(p.Ret)
			}
		}
		if union != "" {
			return unionSubj + " contains one of " + strconv.Quote(sortedRunes(union)), unionPos
		}
		return "", ""
	}
	// the regexp test of the decoder's classifier: a regexp token is any text /…/ of length ≥ 2 (the lexer's
	// regexp state), so the classifier must call every such text a Regexp: offset 0, minimal length ≤ 2
	{
		paths, _ := c.enumPathsInl(dec, 5000)
		found := false
		for _, p := range paths {
			if p.Ret == nil {
				continue
			}
			rv, _ := c.resolveE(p.Ret.Results[0], p.Env)
			call, ok := rv.(*ssa.Call)
			if !ok || call.Call.StaticCallee() == nil {
				continue
			}
			ops := c.ctorOperator(call.Call.StaticCallee())
			if len(ops) != 1 || ops[0] != "expr.Regexp" {
				continue
			}
			found = true
			t := slashTest(p.Atoms)
			switch {
			case !t.ok:
				r.bad(rule, "regexp-test|extract", c.instrPos(p.Ret), "the decoder builds a Regexp leaf without testing for the /…/ delimiters")
			case t.offset != 0 || t.minLen > 2:
				r.bad(rule, "regexp-test", c.instrPos(p.Ret), fmt.Sprintf("the decoder calls a text a regular expression only from length %d (offset %d); the lexer's regexp token is any /…/ from length 2 (e.g. `//`), which then decodes as a different kind of leaf and the decoded tree no longer validates", t.minLen, t.offset))
			default:
				r.ok(rule, "regexp-test", c.instrPos(p.Ret), fmt.Sprintf("/…/ from length %d", t.minLen))
			}
		}
		if !found {
			r.bad(rule, "regexp-test|extract", "-", "the decoder's classifier has no path that builds a Regexp leaf")
		}
	}
	gp, _ := wildGuard(pr.TokToLit)
	gd, pos := wildGuard(dec)
	// quoted text: the parser's kind is Literal whatever the text is, the decoder's kind is a function of the text
	if gd != "" {
		quotedLiteral := false
		qpaths, _ := c.enumPathsOpt(pr.TokToLit, 20000, c.inlBool())
		for _, p := range qpaths {
			if p.Ret == nil || len(p.Ret.Results) != 2 || !isNilConst(c.resolve(p.Ret.Results[1], p.Env)) {
				continue
			}
			toks := possibleToks(c, p.Atoms, "$0.Typ")
			if len(toks) != 1 || !toks["lex.TQuoted"] {
				continue
			}
			rv, _ := c.resolveE(p.Ret.Results[0], p.Env)
			if call, ok := rv.(*ssa.Call); ok && call.Call.StaticCallee() != nil {
				if ops := c.ctorOperator(call.Call.StaticCallee()); len(ops) == 1 && ops[0] == "expr.Literal" {
					quotedLiteral = true
				}
			}
		}
		if quotedLiteral {
			r.badW(rule, "quoted|kind-from-content", pos, fmt.Sprintf("a quoted text is a Literal leaf whatever it contains, leaves are encoded as bare JSON values, and the decoder gives a bare string its kind by content [%s]: a quoted text containing * or ? (or of the form /…/) comes back as a pattern leaf. Where the kind decides the rendering — a Wild \"*\" as a range end is an open end without a parameter, a Literal \"*\" is a value — the decoded expression renders different parameterized SQL than the original", gd), "`a:[\"*\" TO 5]`: original `\"a\" BETWEEN ? AND ?` [* 5]; after encode/decode `\"a\" <= ?` [5]")
		}
	}
	switch {
	case gp == "" || gd == "":
		r.bad(rule, "wild-test|extract", "-", fmt.Sprintf("wildcard classification not found (parser %q, decoder %q)", gp, gd))
	case gp == gd:
		r.ok(rule, "wild-test", pos, gp)
	default:
		r.bad(rule, "wild-test", pos, fmt.Sprintf("the parser types a bare word as a wildcard pattern under [%s] but the JSON decoder under [%s]: some patterns decode as plain literals (or vice versa), so the decoded tree is not the encoded one and may not validate", gp, gd))
	}
}

// NIL-RESULT (C13/C12/C01): a pointer result that may be nil is not dereferenced before the error check.
func ruleNILRESULT(c *Ctx, r *Report) {
	const rule = "NIL-RESULT"
	r.doc(rule, "for every library function with results (*T, …, error) some return of which yields a nil pointer: at each call site result #0 is dereferenced (load, field or index address, method call with pointer receiver) only under a dominating err == nil test on the same call's error")
	n := 0
	mayNil := map[*ssa.Function]bool{}
	for _, f := range c.Funcs {
		if !inLib(f) {
			continue
		}
		res := f.Signature.Results()
		if res.Len() < 2 || !isErrorType(res.At(res.Len()-1).Type()) {
			continue
		}
		if _, isPtr := res.At(0).Type().Underlying().(*types.Pointer); !isPtr {
			continue
		}
		for _, b := range f.Blocks {
			for _, in := range b.Instrs {
				if ret, ok := in.(*ssa.Return); ok && isNilConst(c.resolve(ret.Results[0], nil)) {
					mayNil[f] = true
				}
			}
		}
	}
	for _, f := range c.Funcs {
		if !inLib(f) {
			continue
		}
		for _, b := range f.Blocks {
			for _, in := range b.Instrs {
				call, ok := in.(*ssa.Call)
				if !ok || !mayNil[call.Call.StaticCallee()] {
					continue
				}
				callee := call.Call.StaticCallee()
				errIdx := callee.Signature.Results().Len() - 1
				errKey := c.key(call, nil) + fmt.Sprintf("#%d", errIdx)
				for _, ref := range *call.Referrers() {
					ex, ok := ref.(*ssa.Extract)
					if !ok || ex.Index != 0 {
						continue
					}
					for _, use := range *ex.Referrers() {
						deref := false
						switch u := use.(type) {
						case *ssa.UnOp:
							deref = u.X == ssa.Value(ex)
						case *ssa.FieldAddr:
							deref = u.X == ssa.Value(ex)
						case *ssa.IndexAddr:
							deref = u.X == ssa.Value(ex)
						case *ssa.Call:
							if len(u.Call.Args) > 0 && u.Call.Args[0] == ssa.Value(ex) && u.Call.StaticCallee() != nil && u.Call.StaticCallee().Signature.Recv() != nil {
								deref = true
							}
						}
						if !deref {
							continue
						}
						n++
						guarded := false
						for _, a := range c.domAtoms(use.Block()) {
							if a.Kind == "nil" && a.Pos && a.Subj == errKey {
								guarded = true
							}
						}
						key := fmt.Sprintf("%s|deref(%s#0)", fnName(f), fnName(callee))
						if guarded {
							r.ok(rule, key, c.instrPos(use), "under err == nil")
						} else {
							r.bad(rule, key, c.instrPos(use), fmt.Sprintf("%s dereferences the pointer returned by %s before checking its error, and %s returns a nil pointer on an error path: nil-pointer panic", fnName(f), fnName(callee), fnName(callee)))
						}
					}
				}
			}
		}
	}
	var names []string
	for f := range mayNil {
		names = append(names, fnName(f))
	}
	sort.Strings(names)
	r.ok(rule, "functions-with-nil-results", "-", fmt.Sprintf("%d library functions may return (nil, err): %s; %d dereferences of their results examined", len(names), strings.Join(names, ", "), n))
}

// ERR-PROP (C15/C10/C02): no error of a renderer/serialiser call is dropped or overwritten.
func ruleERRPROP(c *Ctx, r *Report) {
	const rule = "ERR-PROP"
	r.doc(rule, "in the renderers, serialisers, registered render functions and the entry points: the error result of every call of a library function is tested against nil or returned on some use — an error that is never looked at (dropped, or overwritten before any test) lets partial SQL through")
	dr := c.driverRoles()
	if dr.Err != "" {
		r.bad(rule, "anchor", "-", dr.Err)
		return
	}
	var fns []*ssa.Function
	for _, f := range c.Funcs {
		if p := fnPkgPath(f); (p == pkgDriver || p == pkgRoot) && inLib(f) {
			fns = append(fns, f)
		}
	}
	n := 0
	for _, f := range fns {
		for _, b := range f.Blocks {
			for _, in := range b.Instrs {
				call, ok := in.(*ssa.Call)
				if !ok {
					continue
				}
				var res *types.Tuple
				name := ""
				if sc := call.Call.StaticCallee(); sc != nil {
					if !inLib(sc) {
						continue
					}
					res, name = sc.Signature.Results(), fnName(sc)
				} else if _, isB := call.Call.Value.(*ssa.Builtin); !isB {
					res, name = call.Call.Signature().Results(), c.key(call.Call.Value, nil)
				} else {
					continue
				}
				if res.Len() == 0 || !isErrorType(res.At(res.Len()-1).Type()) {
					continue
				}
				n++
				used := false
				var check func(v ssa.Value, depth int)
				check = func(v ssa.Value, depth int) {
					if depth > 4 {
						return
					}
					for _, ref := range *v.Referrers() {
						switch x := ref.(type) {
						case *ssa.BinOp, *ssa.Return, *ssa.Store, *ssa.MakeInterface:
							used = true
						case *ssa.Phi:
							// merging into a loop header means the next iteration overwrites it untested
							hdr := false
							for _, pr := range x.Block().Preds {
								if x.Block().Dominates(pr) {
									hdr = true
								}
							}
							if !hdr {
								check(x, depth+1)
							}
						}
					}
				}
				if res.Len() == 1 {
					check(call, 0)
				} else {
					for _, ref := range *call.Referrers() {
						if ex, ok := ref.(*ssa.Extract); ok && ex.Index == res.Len()-1 {
							check(ex, 0)
						}
					}
					// returned as a whole tuple? (return f(x))
					for _, ref := range *call.Referrers() {
						if _, ok := ref.(*ssa.Return); ok {
							used = true
						}
					}
				}
				key := fmt.Sprintf("%s|%s(%s)", fnName(f), name, c.argKeys(call))
				if used {
					r.ok(rule, key, c.instrPos(in), "error examined or returned")
				} else {
					r.bad(rule, key, c.instrPos(in), fmt.Sprintf("%s ignores the error of %s (never tested, e.g. overwritten by a later assignment): a failing sub-expression yields SQL with a hole in it and no error", fnName(f), name))
				}
			}
		}
	}
	r.floor(rule, "error-returning calls", n, 15)
	// a tested error is handed on: where one of these functions returns straight from the branch on which an
	// error was found non-nil, its own error result is not the nil constant (the sub-expression failed, the
	// caller must hear of it — otherwise the text assembled so far goes out as a result)
	swallowed := 0
	for _, f := range fns {
		nres := f.Signature.Results().Len()
		if nres == 0 || !isErrorType(f.Signature.Results().At(nres-1).Type()) {
			continue
		}
		for _, b := range f.Blocks {
			iff, ok := b.Instrs[len(b.Instrs)-1].(*ssa.If)
			if !ok || len(b.Succs) != 2 {
				continue
			}
			for si, pol := range []bool{true, false} {
				isErrBranch := false
				errKey := ""
				for _, a := range c.atoms(iff.Cond, pol, nil) {
					if a.Kind == "nil" && !a.Pos && strings.HasSuffix(a.Subj, fmt.Sprintf("#%d", 1)) || a.Kind == "nil" && !a.Pos && isErrorKey(a.Subj) {
						isErrBranch = true
						errKey = a.Subj
					}
				}
				if !isErrBranch {
					continue
				}
				// only the errors of rendering a sub-expression (the renderers, the serialisers, a registered
				// render function, Parse): a failed number reading in the range function means "not a number",
				// not a failure
				subRender := false
				if bo, ok := iff.Cond.(*ssa.BinOp); ok {
					for _, opnd := range []ssa.Value{bo.X, bo.Y} {
						ex, ok := c.resolve(opnd, nil).(*ssa.Extract)
						if !ok {
							continue
						}
						call, ok := ex.Tuple.(*ssa.Call)
						if !ok {
							continue
						}
						g := call.Call.StaticCallee()
						switch {
						case g == nil && !call.Call.IsInvoke():
							subRender = true // a render function taken from the table
						case g != nil && (g == dr.Render || g == dr.RenderParam || g == dr.Ser || g == dr.SerParam || g == dr.RangeParam || g == dr.LikeParam):
							subRender = true
						case g != nil && fnPkgPath(g) == pkgRoot && g.Name() == "Parse":
							subRender = true
						case g != nil && g.Signature.Recv() != nil && fnPkgPath(g) == pkgDriver && (c.calls(g, dr.Ser) || c.calls(g, dr.SerParam)):
							subRender = true
						}
					}
				}
				if !subRender {
					continue
				}
				succ := b.Succs[si]
				if len(succ.Preds) != 1 {
					continue
				}
				ret, ok := succ.Instrs[len(succ.Instrs)-1].(*ssa.Return)
				if !ok || len(ret.Results) != nres {
					continue
				}
				// only straight-line blocks (the branch body itself)
				if k, isC := c.resolve(ret.Results[nres-1], nil).(*ssa.Const); isC && k.IsNil() {
					swallowed++
					r.bad(rule, fmt.Sprintf("%s|swallowed|%s", fnName(f), errKey), c.instrPos(ret), fmt.Sprintf("%s finds the error %s non-nil and returns with a nil error: the failure of a sub-expression is swallowed and whatever text was assembled (possibly nothing) is delivered as the rendering", fnName(f), errKey))
				}
			}
		}
	}
	if swallowed == 0 {
		r.ok(rule, "tested-errors-handed-on", "-", "no function in scope returns a nil error from the branch on which it found an error")
	}
}

// isErrorKey: the key names an error value (the last result of a call).
func isErrorKey(k string) bool {
	i := strings.LastIndex(k, "#")
	return i > 0 && strings.HasSuffix(k[:i], ")")
}

func (c *Ctx) argKeys(call *ssa.Call) string {
	var ks []string
	for _, a := range call.Call.Args {
		ks = append(ks, c.key(a, nil))
	}
	s := strings.Join(ks, ",")
	if len(s) > 80 {
		s = s[:80]
	}
	return s
}

// ENTRY-TAIL (C15/C04): the entry points hand Parse's result to the driver unchanged.
func ruleENTRYTAIL(c *Ctx, r *Report) {
	const rule = "ENTRY-TAIL"
	r.doc(rule, "ToPostgres and ToParameterizedPostgres render exactly the expression Parse returned (under err == nil) with the package-level driver, and return the driver's results unchanged — no pre-processing of the tree on one of the two paths")
	parse := c.pkgFunc(pkgRoot, "Parse")
	dr := c.driverRoles()
	for _, t := range []struct {
		name   string
		render *ssa.Function
	}{{"ToPostgres", dr.Render}, {"ToParameterizedPostgres", dr.RenderParam}} {
		f := c.pkgFunc(pkgRoot, t.name)
		if f == nil || parse == nil || t.render == nil {
			r.bad(rule, t.name+"|anchor", "-", "entry point not found")
			continue
		}
		paths, _ := c.enumPaths(f, 2000)
		okN := 0
		for _, p := range paths {
			if p.Ret == nil {
				continue
			}
			n := len(p.Ret.Results)
			ev := c.resolve(p.Ret.Results[n-1], p.Env)
			ex, isEx := ev.(*ssa.Extract)
			if !isEx {
				// Parse's error handed on in another wrapping: still a failure exactly when Parse fails
				parseFailed := false
				for _, a := range p.Atoms {
					if a.Kind == "nil" && !a.Pos && strings.HasSuffix(a.Subj, "#1") && strings.HasPrefix(a.Subj, fnName(parse)+"(") {
						parseFailed = true
					}
				}
				if parseFailed && neverNil(ev) {
					r.ok(rule, t.name+"|parse-error-wrapped", c.instrPos(p.Ret), "a fresh error returned under Parse's err != nil")
					continue
				}
				r.bad(rule, t.name+"|own-return|"+c.key(ev, p.Env), c.instrPos(p.Ret), fmt.Sprintf("%s has a return of its own (error %s) that is neither Parse's error nor the renderer's result: this entry point rejects (or accepts) queries the other one does not", t.name, c.key(ev, p.Env)))
				continue
			}
			call, ok := ex.Tuple.(*ssa.Call)
			if !ok || call.Call.StaticCallee() == parse {
				continue // error propagated from Parse
			}
			key := t.name + "|render-call"
			pos := c.instrPos(p.Ret)
			if call.Call.StaticCallee() != t.render {
				r.bad(rule, key, pos, fmt.Sprintf("%s returns the results of %s instead of the driver's renderer", t.name, c.key(call, p.Env)))
				continue
			}
			arg := c.resolve(call.Call.Args[len(call.Call.Args)-1], p.Env)
			ae, isAE := arg.(*ssa.Extract)
			fromParse := false
			if isAE && ae.Index == 0 {
				if pc, ok := ae.Tuple.(*ssa.Call); ok && pc.Call.StaticCallee() == parse {
					fromParse = true
				}
			}
			same := true
			for i, res := range p.Ret.Results {
				re, ok := c.resolve(res, p.Env).(*ssa.Extract)
				if !ok || re.Tuple != ssa.Value(call) || re.Index != i {
					same = false
				}
			}
			switch {
			case !fromParse:
				r.bad(rule, key, pos, fmt.Sprintf("%s renders %s rather than the expression Parse returned: the tree is altered on this entry point only (e.g. an operator is unwrapped), so the two entry points no longer accept the same queries", t.name, c.key(arg, p.Env)))
			case !same:
				r.bad(rule, key, pos, t.name+" does not return the renderer's results unchanged")
			case !parseSucceeded(p.Atoms, fnName(parse)):
				r.bad(rule, key+"|unchecked", pos, fmt.Sprintf("%s renders Parse's result on a path on which Parse's error has not been found nil: a query that does not parse is rendered (as the empty filter of a nil expression) instead of being rejected", t.name))
			default:
				okN++
				r.ok(rule, key, pos, "renderer applied to Parse's result; results returned unchanged")
			}
		}
		if okN == 0 {
			r.bad(rule, t.name+"|no-render-path", c.pos(f.Pos()), t.name+" has no path that renders Parse's result")
		}
	}
}

// parseSucceeded: the path conditions contain "the error result of Parse is nil".
func parseSucceeded(atoms []Atom, parseName string) bool {
	for _, a := range atoms {
		if a.Kind == "nil" && a.Pos && strings.HasSuffix(a.Subj, "#1") && strings.HasPrefix(a.Subj, parseName+"(") {
			return true
		}
	}
	return false
}

// CTOR-SHAPE (C03/C06): the general constructor's operator-specific branches.
func ruleCTORSHAPE(c *Ctx, r *Report) {
	const rule = "CTOR-SHAPE"
	r.doc(rule, "in the general constructor: the operator is rewritten to Like only under op == Equals with a Wild/Regexp right operand; a RangeBoundary takes Min from the first, Max from the second and Inclusive from the third extra operand; the chained-literal recogniser used for value lists descends through Or nodes only and accepts Literal leaves only")
	general := c.pkgFunc(pkgExpr, "Expr")
	if general == nil {
		r.bad(rule, "anchor", "-", "expr.Expr not found")
		return
	}
	et := c.namedType(pkgExpr, "Expression")
	st := et.Underlying().(*types.Struct)
	var opF *types.Var
	for i := 0; i < st.NumFields(); i++ {
		if st.Field(i).Name() == "Op" {
			opF = st.Field(i)
		}
	}
	nOp := 0
	for _, fs := range c.storesToFields(opF) {
		fs := fs
		c.withContexts(fs.fn, general, 0, func(callerAtoms []Atom) {
			v := c.resolve(fs.st.Val, nil)
			if _, isParam := v.(*ssa.Parameter); isParam {
				return
			}
			nOp++
			k, isC := v.(*ssa.Const)
			key := "op-rewrite|" + c.key(v, nil)
			if !isC || c.constName(k) != "expr.Like" {
				r.bad(rule, key, c.instrPos(fs.st), "the constructor rewrites the operator to "+c.key(v, nil)+"; the only documented rewrite is Equals → Like for pattern operands")
				return
			}
			raw := append(append([]Atom(nil), callerAtoms...), c.domAtoms(fs.st.Block())...)
			at := c.expand(raw, nil)
			eq, pat := false, false
			for _, a := range at {
				if a.Kind == "cmp" && a.Subj == "$1" && a.Op == "==" && a.Val == "expr.Equals" {
					eq = true
				}
			}
			ops := c.possibleOps(at, "$2[0].(*expr.Expression).Op")
			pat = subsetOf(ops, []string{"expr.Wild", "expr.Regexp"})
			if !pat {
				// through the helper's DNF
				for _, a := range raw {
					if a.Kind == "call" && a.Pos && a.Fn != nil && a.Val == "$2[0]" {
						s := c.boolSummaryOf(a.Fn)
						okAll := s.ok && len(s.TrueSets) > 0
						for _, set := range s.TrueSets {
							if !subsetOf(c.possibleOps(set, "$0.(*expr.Expression).Op"), []string{"expr.Wild", "expr.Regexp"}) {
								okAll = false
							}
						}
						if okAll {
							pat = true
						}
					}
				}
			}
			if !pat {
				// a disjunction written in place (`p.Op == Wild || p.Op == Regexp`): the block is entered over
				// several edges, each of which establishes one alternative
				alts := c.blockAlternatives(fs.st.Block())
				if len(alts) > 1 {
					all := true
					for _, alt := range alts {
						full := c.expand(append(append([]Atom(nil), callerAtoms...), alt...), nil)
						if !subsetOf(c.possibleOps(full, "$2[0].(*expr.Expression).Op"), []string{"expr.Wild", "expr.Regexp"}) {
							all = false
						}
					}
					pat = all
				}
			}
			if eq && pat {
				r.ok(rule, key, c.instrPos(fs.st), "Equals with a Wild/Regexp operand becomes Like")
			} else {
				r.bad(rule, key, c.instrPos(fs.st), fmt.Sprintf("the Equals → Like rewrite is not confined to op == Equals (%v) with a Wild/Regexp right operand (%v): other comparisons or plain values would be rendered as pattern matches", eq, pat))
			}
		})
	}
	r.floor(rule, "operator rewrites in the constructor", nOp, 1)
	// RangeBoundary fields
	rb := c.namedType(pkgExpr, "RangeBoundary")
	rst := rb.Underlying().(*types.Struct)
	want := map[string]string{"Min": "$2[0]", "Max": "$2[1]", "Inclusive": "$2[2]"}
	seen := 0
	for i := 0; i < rst.NumFields(); i++ {
		f := rst.Field(i)
		for _, fs := range c.storesToFields(f) {
			fs := fs
			c.withContexts(fs.fn, general, 0, func(callerAtoms []Atom) {
				seen++
				k := c.key(fs.st.Val, nil)
				key := "range-boundary|" + f.Name()
				if strings.Contains(k, want[f.Name()]) && !strings.Contains(strings.ReplaceAll(k, want[f.Name()], ""), "$2[") {
					r.ok(rule, key, c.instrPos(fs.st), k)
				} else {
					r.bad(rule, key, c.instrPos(fs.st), fmt.Sprintf("RangeBoundary.%s is built from %s; it must come from the operand %s (lower bound, upper bound, inclusive flag in that order)", f.Name(), k, want[f.Name()]))
				}
			})
		}
	}
	r.floor(rule, "RangeBoundary field stores in the constructor", seen, 3)
	// the chained-literal recogniser (role: function returning ([]*Expression, bool) called by the
	// production that builds In nodes)
	var rec *ssa.Function
	for _, f := range c.Funcs {
		if fnPkgPath(f) == pkgReduce && f.Signature.Results().Len() == 2 && f.Signature.Params().Len() == 1 && isExprPtr(f.Signature.Params().At(0).Type()) && isBool(f.Signature.Results().At(1).Type()) {
			rec = f
		}
	}
	if rec == nil {
		r.bad(rule, "list-recogniser", "-", "chained-literal recogniser not found in package reduce")
		return
	}
	nRec := 0
	for _, b := range rec.Blocks {
		for _, in := range b.Instrs {
			call, ok := in.(*ssa.Call)
			if !ok || call.Call.StaticCallee() != rec {
				continue
			}
			nRec++
			ops := c.possibleOps(c.domAtoms(b), "$0.Op")
			key := "list-recogniser|descend|" + c.key(call.Call.Args[0], nil)
			if subsetOf(ops, []string{"expr.Or"}) {
				r.ok(rule, key, c.instrPos(in), "descends through Or only")
			} else {
				r.bad(rule, key, c.instrPos(in), fmt.Sprintf("the value-list recogniser descends into nodes of kind %v: only a chain of ORs of plain values is a value list (an AND chain would be turned into IN (…), which has OR meaning)", setKeys(ops)))
			}
		}
	}
	paths, _ := c.enumPaths(rec, 2000)
	for _, p := range paths {
		if p.Ret == nil || len(p.Ret.Results) != 2 {
			continue
		}
		if b, ok := constBoolVal(c.resolve(p.Ret.Results[1], p.Env)); !ok || !b {
			continue
		}
		// a base case: returns [in] with true
		ops := c.possibleOps(p.Atoms, "$0.Op")
		if subsetOf(ops, []string{"expr.Literal"}) {
			r.ok(rule, "list-recogniser|base", c.instrPos(p.Ret), "only Literal leaves are list values")
		} else {
			r.bad(rule, "list-recogniser|base", c.instrPos(p.Ret), fmt.Sprintf("the value-list recogniser accepts nodes of kind %v as list values; only plain Literal leaves are (patterns need LIKE, sub-expressions are not values)", setKeys(ops)))
		}
	}
	// on a path through both recursive calls the verdict returned must take both into account
	for _, p := range paths {
		if p.Ret == nil || len(p.Ret.Results) != 2 {
			continue
		}
		var calls []*ssa.Call
		for _, in := range p.Instrs {
			if call, ok := in.(*ssa.Call); ok && call.Call.StaticCallee() == rec {
				calls = append(calls, call)
			}
		}
		if len(calls) < 2 {
			continue
		}
		rv := c.resolve(p.Ret.Results[1], p.Env)
		if b, ok := constBoolVal(rv); ok && !b {
			continue
		}
		rk := c.key(rv, p.Env)
		for _, call := range calls {
			vk := c.key(call, p.Env) + "#1"
			used := strings.Contains(rk, vk)
			for _, a := range p.Atoms {
				if a.Kind == "bool" && a.Pos && a.Subj == vk {
					used = true
				}
			}
			key := "list-recogniser|verdict|" + c.key(call.Call.Args[0], p.Env)
			if used {
				r.ok(rule, key, c.instrPos(p.Ret), "verdict of this operand is taken into account")
			} else {
				r.bad(rule, key, c.instrPos(p.Ret), "the value-list recogniser can report success without looking at the verdict for "+c.key(call.Call.Args[0], p.Env)+": a non-literal operand of the OR chain is silently dropped from the query")
			}
		}
	}
	r.floor(rule, "recursive descents of the list recogniser", nRec, 2)
}

// NIL-ASSERT (C13/C01): the value of a comma-ok assertion to a pointer type is dereferenced only where ok holds.
func ruleNILASSERT(c *Ctx, r *Report) {
	const rule = "NIL-ASSERT"
	r.doc(rule, "for every `v, ok := x.(*T)` in the library: v is dereferenced (field address, load, pointer-receiver call) only at points dominated by ok == true (with ok false v is nil)")
	n := 0
	for _, f := range c.Funcs {
		if !inLib(f) {
			continue
		}
		for _, b := range f.Blocks {
			for _, in := range b.Instrs {
				ta, ok := in.(*ssa.TypeAssert)
				if !ok || !ta.CommaOk {
					continue
				}
				if _, isPtr := ta.AssertedType.Underlying().(*types.Pointer); !isPtr {
					continue
				}
				subj := c.key(ta.X, nil)
				want := typeStr(ta.AssertedType)
				for _, ref := range *ta.Referrers() {
					ex, ok := ref.(*ssa.Extract)
					if !ok || ex.Index != 0 {
						continue
					}
					for _, use := range c.derefUses(ex, 0) {
						n++
						guarded := false
						for _, a := range c.domAtoms(use.Block()) {
							if a.Kind == "type" && a.Pos && a.Subj == subj && a.Val == want {
								guarded = true
							}
							if a.Kind == "nil" && !a.Pos && a.Subj == c.key(ex, nil) {
								guarded = true
							}
						}
						key := fmt.Sprintf("%s|deref(%s.(%s))", fnName(f), subj, want)
						if guarded {
							r.ok(rule, key, c.instrPos(use), "under ok")
						} else {
							r.bad(rule, key, c.instrPos(use), fmt.Sprintf("%s dereferences the result of the comma-ok assertion %s.(%s) at a point where ok may be false (the value is nil then): nil-pointer panic", fnName(f), subj, want))
						}
					}
				}
			}
		}
	}
	r.ok(rule, "derefs-examined", "-", fmt.Sprintf("%d dereferences of comma-ok asserted pointers examined", n))
	r.floor(rule, "dereferences of asserted pointers", n, 10)
}

// derefUses: instructions that dereference pointer v (through phis).
func (c *Ctx) derefUses(v ssa.Value, depth int) []ssa.Instruction {
	var out []ssa.Instruction
	if depth > 3 || v.Referrers() == nil {
		return out
	}
	for _, use := range *v.Referrers() {
		switch u := use.(type) {
		case *ssa.UnOp:
			if u.X == v && u.Op.String() == "*" {
				out = append(out, use)
			}
		case *ssa.FieldAddr:
			if u.X == v {
				out = append(out, use)
			}
		case *ssa.IndexAddr:
			if u.X == v {
				out = append(out, use)
			}
		case *ssa.Phi:
			out = append(out, c.derefUses(u, depth+1)...)
		case *ssa.Call:
			// handed to a library function that dereferences the corresponding parameter at a point where the
			// parameter has not been compared with nil: the call is the dereference
			g := u.Call.StaticCallee()
			if g == nil || !inLib(g) || len(g.Blocks) == 0 || len(g.Params) != len(u.Call.Args) {
				continue
			}
			for i, a := range u.Call.Args {
				if a != v {
					continue
				}
				pk := c.key(g.Params[i], nil)
				for _, inner := range c.derefUses(g.Params[i], depth+1) {
					guarded := false
					for _, at := range c.domAtoms(inner.Block()) {
						if at.Kind == "nil" && !at.Pos && at.Subj == pk {
							guarded = true
						}
					}
					if !guarded {
						out = append(out, use)
						break
					}
				}
			}
		}
	}
	return out
}

// kindRestricted: methods of reflect.Value that panic when the value is not of the kind they are defined for.
var kindRestricted = map[string]bool{"Len": true, "Cap": true, "Index": true, "Int": true, "Uint": true, "Float": true, "Complex": true,
	"Bool": true, "Bytes": true, "Elem": true, "Field": true, "FieldByName": true, "FieldByIndex": true, "NumField": true, "MapKeys": true,
	"MapIndex": true, "Convert": true, "SetFloat": true, "SetBool": true, "SetMapIndex": true, "MapRange": true, "IsNil": true, "Slice": true, "Slice3": true, "Call": true, "NumMethod": false, "Set": true,
	"SetInt": true, "SetString": true, "SetLen": true, "OverflowInt": true, "OverflowFloat": true, "Pointer": true, "UnsafePointer": true,
	"Recv": true, "Send": true, "Close": true}

// containsBuilder: the type is strings.Builder or a struct holding one by value (embedded or as a field).
func containsBuilder(t types.Type, depth int) bool {
	if depth > 3 {
		return false
	}
	if typeStr(t) == "strings.Builder" {
		return true
	}
	if st, ok := t.Underlying().(*types.Struct); ok {
		for i := 0; i < st.NumFields(); i++ {
			if containsBuilder(st.Field(i).Type(), depth+1) {
				return true
			}
		}
	}
	return false
}

// PANIC-LIB (C13/C01): standard-library calls that panic on a bad argument.
func rulePANICLIB(c *Ctx, r *Report) {
	const rule = "PANIC-LIB"
	r.doc(rule, "reachable calls of strings.Repeat / bytes.Repeat need a provably non-negative count; make with a computed length needs a provably non-negative length; no kind-restricted method of reflect.Value (Len, Index, Int, Elem, Field, …) is called on a payload; regexp.MustCompile only with a constant pattern; no write into a strings.Builder received by value (copy check panics)")
	reach := c.reachFrom(append(c.rootsC01(), c.rootsC13()...))
	n := 0
	for _, fn := range sortedFuncs(reach) {
		if !inLib(fn) {
			continue
		}
		for _, b := range fn.Blocks {
			for _, in := range b.Instrs {
				var arg ssa.Value
				what := ""
				switch x := in.(type) {
				case *ssa.Call:
					name := calleeFullName(x)
					if name == "strings.Repeat" || name == "bytes.Repeat" {
						arg, what = x.Call.Args[1], name+" count"
					}
					if strings.HasPrefix(name, "(reflect.Value).") && kindRestricted[strings.TrimPrefix(name, "(reflect.Value).")] {
						n++
						r.bad(rule, fnName(fn)+"|"+name, c.instrPos(in), fmt.Sprintf("%s calls %s, which panics for a value of any other kind than the ones it is defined for; the values that reach it are untyped payloads (any)", fnName(fn), name))
					}
					if strings.HasPrefix(name, "(*strings.Builder).") && len(x.Call.Args) > 0 {
						switch strings.TrimPrefix(name, "(*strings.Builder).") {
						case "Write", "WriteString", "WriteByte", "WriteRune", "Grow":
							base := x.Call.Args[0]
							for {
								if fa, isFA := base.(*ssa.FieldAddr); isFA {
									base = fa.X
									continue
								}
								break
							}
							if al, isAlloc := base.(*ssa.Alloc); isAlloc && al.Referrers() != nil {
								for _, ref := range *al.Referrers() {
									if st, isStore := ref.(*ssa.Store); isStore && st.Addr == al {
										if prm, isParam := st.Val.(*ssa.Parameter); isParam {
											n++
											r.bad(rule, fnName(fn)+"|"+name+"|by-value "+prm.Name(), c.instrPos(in), fmt.Sprintf("%s writes into a strings.Builder that it received by value (inside %s): the Builder detects the copy and panics as soon as the caller has written to its own before, and what is written here never reaches the caller", fnName(fn), prm.Name()))
										}
									}
								}
							}
						}
					}
					if (strings.HasPrefix(name, "fmt.Fprint") || name == "io.WriteString") && len(x.Call.Args) > 0 {
						// the same through a writer interface: fmt.Fprintf(&w, …) with w a by-value parameter that is
						// (or embeds) a strings.Builder
						if mi, isBox := x.Call.Args[0].(*ssa.MakeInterface); isBox {
							base := mi.X
							for {
								if fa, isFA := base.(*ssa.FieldAddr); isFA {
									base = fa.X
									continue
								}
								break
							}
							if al, isAlloc := base.(*ssa.Alloc); isAlloc && al.Referrers() != nil && containsBuilder(al.Type().Underlying().(*types.Pointer).Elem(), 0) {
								for _, ref := range *al.Referrers() {
									if st, isStore := ref.(*ssa.Store); isStore && st.Addr == al {
										if prm, isParam := st.Val.(*ssa.Parameter); isParam {
											n++
											r.bad(rule, fnName(fn)+"|"+name+"|by-value "+prm.Name(), c.instrPos(in), fmt.Sprintf("%s writes (through %s) into a strings.Builder that it received by value (inside %s): the Builder detects the copy and panics as soon as the caller has written to its own before, and what is written here never reaches the caller", fnName(fn), name, prm.Name()))
										}
									}
								}
							}
						}
					}
					if name == "regexp.MustCompile" || name == "regexp.MustCompilePOSIX" {
						n++
						if _, isConst := c.resolve(x.Call.Args[0], nil).(*ssa.Const); isConst {
							r.ok(rule, fnName(fn)+"|"+name, c.instrPos(in), "constant pattern")
						} else {
							r.bad(rule, fnName(fn)+"|"+name, c.instrPos(in), fmt.Sprintf("%s compiles a computed pattern with %s, which panics if the pattern is not a valid regular expression", fnName(fn), name))
						}
					}
				case *ssa.MakeSlice:
					if _, isC := x.Len.(*ssa.Const); !isC {
						arg, what = x.Len, "make length"
					}
				}
				if arg == nil {
					continue
				}
				n++
				atoms := c.atomsAt(in)
				key := fnName(fn) + "|" + what + "|" + c.key(arg, nil)
				ok := c.nonNegative(arg, atoms, map[ssa.Value]bool{})
				if !ok {
					// len(x) - k with a fact len(x) ≥ k
					base, off := c.linear(arg)
					if call, isCall := base.(*ssa.Call); isCall && off < 0 {
						if bi, isB := call.Call.Value.(*ssa.Builtin); isB && bi.Name() == "len" {
							lo, _ := lenRange(atoms, c.key(call.Call.Args[0], nil))
							ok = lo >= -off
						}
					}
				}
				if ok {
					r.ok(rule, key, c.instrPos(in), "non-negative")
				} else {
					r.bad(rule, key, c.instrPos(in), fmt.Sprintf("%s passes %s as %s, which can be negative (e.g. for an empty list): the call panics", fnName(fn), c.key(arg, nil), what))
				}
			}
		}
	}
	r.ok(rule, "calls-examined", "-", fmt.Sprintf("%d calls examined", n))
}

// JSON-KINDS (C12): payload kinds the parser can produce ⊆ kinds the decoder can reproduce.
func ruleJSONKINDS(c *Ctx, r *Report) {
	const rule = "JSON-KINDS"
	r.doc(rule, "every Go kind of leaf payload the token→literal function can produce (static types of the values it hands to the leaf constructors) is a kind the JSON literal decoder can produce too; the decoder's int narrowing is not restricted to a magnitude below 2^53")
	pr := c.parserRoles()
	if pr.Err != "" || pr.TokToLit == nil {
		r.bad(rule, "anchor", "-", "token→literal function not found")
		return
	}
	kinds := func(f *ssa.Function) map[string]string {
		out := map[string]string{}
		for fn := range c.reachFrom([]*ssa.Function{f}) {
			if fnPkgPath(fn) != fnPkgPath(f) {
				continue
			}
			for _, b := range fn.Blocks {
				for _, in := range b.Instrs {
					call, ok := in.(*ssa.Call)
					if !ok || call.Call.StaticCallee() == nil || fnPkgPath(call.Call.StaticCallee()) != pkgExpr || len(call.Call.Args) == 0 {
						continue
					}
					callee := call.Call.StaticCallee()
					if callee.Signature.Results().Len() != 1 || !isExprPtr(callee.Signature.Results().At(0).Type()) {
						continue
					}
					a := call.Call.Args[0]
					if mi, ok := a.(*ssa.MakeInterface); ok {
						out[typeStr(mi.X.Type())] = c.instrPos(in)
					}
				}
			}
		}
		return out
	}
	dec := c.rawLeafDecoder()
	if dec == nil {
		r.bad(rule, "decoder-literal", "-", "JSON literal decoder (func(json.RawMessage) (*Expression, error)) not found")
		return
	}
	pk, dk := kinds(pr.TokToLit), kinds(dec)
	for k, pos := range pk {
		key := "parser-kind|" + k
		if _, ok := dk[k]; ok {
			r.ok(rule, key, pos, "decoder can produce it")
		} else {
			r.bad(rule, key, pos, fmt.Sprintf("the parser produces leaf payloads of kind %s, which the JSON literal decoder never produces (it yields %v): such a query encodes but cannot be decoded back", k, setKeys(boolMap(dk))))
		}
	}
	r.floor(rule, "payload kinds of the parser", len(pk), 3)
	// int narrowing of decoded numbers
	for _, f := range c.Funcs {
		if fnPkgPath(f) != pkgExpr || f.Signature.Params().Len() != 1 || f.Signature.Results().Len() != 1 || !isEmptyInterface(f.Signature.Params().At(0).Type()) || !isEmptyInterface(f.Signature.Results().At(0).Type()) {
			continue
		}
		paths, _ := c.enumPaths(f, 500)
		for _, p := range paths {
			if p.Ret == nil {
				continue
			}
			mi, ok := p.Ret.Results[0].(*ssa.MakeInterface)
			if !ok || typeStr(mi.X.Type()) != "int" {
				continue
			}
			limited := ""
			for _, a := range p.Atoms {
				if a.Kind == "cmp" && (a.Op == "<" || a.Op == "<=") {
					var lim float64
					if _, err := fmt.Sscan(a.Val, &lim); err == nil && lim < 9007199254740992 && lim > 0 {
						limited = a.String()
					}
				}
			}
			key := fnName(f) + "|int-narrowing"
			if limited == "" {
				r.ok(rule, key, c.instrPos(p.Ret), "whole floats are narrowed to int without a magnitude limit below 2^53")
			} else {
				r.bad(rule, key, c.instrPos(p.Ret), fmt.Sprintf("the decoder narrows whole numbers to int only under %s: larger integers (which the parser types as int) decode as float64, so the decoded tree is not the encoded one and renders differently", limited))
			}
		}
	}
}

// REC-ONCE (C01): a recursive function does not visit the same sub-term twice on one path.
func ruleRECONCE(c *Ctx, r *Report) {
	const rule = "REC-ONCE"
	r.doc(rule, "in every self-recursive library function, no path makes two recursive calls on the same sub-term: visiting a child twice per level makes the running time exponential in the depth of the tree; likewise the JSON encoder encodes, and every printer reachable from String / GoString prints, each child at most once per path")
	n := 0
	// callees through which f re-enters itself (f itself for direct recursion)
	reenters := func(f *ssa.Function) map[*ssa.Function]bool {
		out := map[*ssa.Function]bool{}
		for _, b := range f.Blocks {
			for _, in := range b.Instrs {
				if call, ok := in.(ssa.CallInstruction); ok {
					if g := call.Common().StaticCallee(); g != nil && inLib(g) && !out[g] {
						if g == f || c.reachFrom([]*ssa.Function{g})[f] {
							out[g] = true
						}
					}
				}
			}
		}
		return out
	}
	for _, f := range c.Funcs {
		if !inLib(f) || len(f.Blocks) == 0 {
			continue
		}
		cyc := reenters(f)
		if len(cyc) == 0 {
			continue
		}
		paths, complete := c.enumPaths(f, 5000)
		if !complete {
			continue
		}
		bad := map[string]string{}
		for _, p := range paths {
			seen := map[string]int{}
			for _, pc := range p.Calls {
				if g := pc.Call.Call.StaticCallee(); g != nil && cyc[g] {
					k := strings.Join(pc.Args, ",") // as the arguments were when the call was met
					if g != f {
						k = fnName(g) + "(" + k + ")"
					}
					seen[k]++
					if seen[k] == 2 {
						bad[k] = c.instrPos(pc.Call)
					}
				}
			}
		}
		n++
		if len(bad) == 0 {
			r.ok(rule, fnName(f), c.pos(f.Pos()), "each sub-term visited at most once per path")
		}
		for k, pos := range bad {
			r.bad(rule, fnName(f)+"|"+k, pos, fmt.Sprintf("%s re-enters itself twice on the same sub-term (%s) on one path (directly or through the function named): the work doubles at every level, so the running time is exponential in the nesting depth", fnName(f), k))
		}
	}
	r.floor(rule, "self-recursive functions", n, 2)
	// the JSON encoder re-enters itself through json.Marshal(child): encoding the same child twice on one path
	// (directly or in a helper that "only looks") doubles the work at every level
	if enc := c.method(pkgExpr, "Expression", "MarshalJSON"); enc != nil {
		paths, _ := c.enumPathsOpt(enc, 20000, c.inlBool())
		bad := map[string]string{}
		for _, p := range paths {
			seen := map[string]int{}
			for _, pc := range p.Calls {
				if calleeFullName(pc.Call) == "encoding/json.Marshal" && len(pc.Args) == 1 && (strings.HasSuffix(pc.Args[0], ".Left") || strings.HasSuffix(pc.Args[0], ".Right")) {
					seen[pc.Args[0]]++
					if seen[pc.Args[0]] == 2 {
						bad[pc.Args[0]] = c.instrPos(pc.Call)
					}
				}
			}
		}
		if len(bad) == 0 {
			r.ok(rule, fnName(enc)+"|json.Marshal", c.pos(enc.Pos()), "each child encoded at most once per path")
		}
		for k, pos := range bad {
			r.bad(rule, fnName(enc)+"|json.Marshal|"+k, pos, fmt.Sprintf("%s encodes the same child (%s) twice on one path: json.Marshal re-enters MarshalJSON, so the work doubles at every level and encoding takes time exponential in the nesting depth", fnName(enc), k))
		}
	}
	// the printers re-enter themselves through fmt (an *Expression operand is printed by its String / GoString):
	// the same child handed to fmt twice on one path doubles the work at every level
	nP := 0
	for _, root := range []*ssa.Function{c.method(pkgExpr, "Expression", "String"), c.method(pkgExpr, "Expression", "GoString")} {
		if root == nil {
			continue
		}
		for _, f := range sortedFuncs(c.reachFrom([]*ssa.Function{root})) {
			if fnPkgPath(f) != pkgExpr || len(f.Blocks) == 0 {
				continue
			}
			paths, complete := c.enumPaths(f, 5000)
			if !complete {
				continue
			}
			bad := map[string]string{}
			printed := false
			for _, p := range paths {
				seen := map[string]int{}
				for _, pc := range p.Calls {
					if pc.Call.Parent() != f || !strings.HasPrefix(calleeFullName(pc.Call), "fmt.") || !pc.Call.Call.Signature().Variadic() {
						continue
					}
					for _, op := range c.flattenArgs(pc.Call, nil) {
						k := c.key(op, nil)
						if !(strings.HasSuffix(k, ".Left") || strings.HasSuffix(k, ".Right") || strings.HasSuffix(k, ".Min") || strings.HasSuffix(k, ".Max")) {
							continue
						}
						printed = true
						seen[k]++
						if seen[k] == 2 {
							bad[k] = c.instrPos(pc.Call)
						}
					}
				}
			}
			if !printed {
				continue
			}
			nP++
			if len(bad) == 0 {
				r.ok(rule, fnName(f)+"|fmt", c.pos(f.Pos()), "each child printed at most once per path")
			}
			for k, pos := range bad {
				r.bad(rule, fnName(f)+"|fmt|"+k, pos, fmt.Sprintf("%s prints the same child (%s) twice on one path: fmt re-enters String/GoString for it, so the work doubles at every level and printing takes time exponential in the nesting depth", fnName(f), k))
			}
		}
	}
	_ = nP
}

// PARSE-INPUT (C05/C06/C08/C09/C16): the query text reaches the lexer untouched and nothing but the
// lexer and the shift/reduce machinery decides about it.
func rulePARSEINPUT(c *Ctx, r *Report) {
	const rule = "PARSE-INPUT"
	r.doc(rule, "in Parse the lexer is constructed on the input parameter itself (no trimming, rewriting or re-slicing before lexing) and no branch of Parse depends on the input text (no acceptance or rejection outside the lexer and the shift/reduce loop); ToPostgres and ToParameterizedPostgres hand their input to Parse unchanged")
	pr := c.parserRoles()
	lr := c.lexRoles()
	if pr.Err != "" || lr.Err != "" || pr.Parse == nil {
		r.bad(rule, "anchor", "-", "Parse / lexer constructor not resolved")
		return
	}
	fn := pr.Parse
	n := 0
	// the lexer construction, in Parse or in a private helper of it (read in Parse's terms)
	for _, f := range c.Funcs {
		if fnPkgPath(f) != pkgRoot {
			continue
		}
		for _, b := range f.Blocks {
			for _, in := range b.Instrs {
				call, ok := in.(*ssa.Call)
				if !ok || call.Call.StaticCallee() != lr.LexCtor || len(call.Call.Args) < 1 {
					continue
				}
				in := in
				c.withContexts(f, fn, 0, func(_ []Atom) {
					n++
					k := c.key(call.Call.Args[0], nil)
					if k == "$0" {
						r.ok(rule, "lexer-input", c.instrPos(in), "lex.Lex(input)")
					} else {
						r.bad(rule, "lexer-input", c.instrPos(in), "the lexer is constructed on "+k+" instead of the query text itself: characters are removed or changed before tokenisation (escaped or quoted text at the edges is not delivered verbatim, and the tokens no longer tile the input)")
					}
				})
			}
		}
	}
	loopKey := fnName(pr.ParseLoop) + "("
	for _, b := range fn.Blocks {
		if iff, ok := b.Instrs[len(b.Instrs)-1].(*ssa.If); ok {
			for _, a := range c.atoms(iff.Cond, true, nil) {
				mentions := func(s string) bool {
					if strings.Contains(s, loopKey) {
						return false // a test on what the parse loop returned
					}
					return s == "$0" || strings.HasPrefix(s, "$0[") || strings.Contains(s, "($0") || strings.Contains(s, ",$0") || strings.HasPrefix(s, "len($0")
				}
				if mentions(a.Subj) || mentions(a.Val) {
					r.bad(rule, "input-test|"+a.String(), c.instrPos(iff), "Parse branches on the query text itself ("+a.String()+"): a pre-check outside the lexer decides which queries are accepted, and it does not know about quoting and escaping")
				}
			}
		}
	}
	r.floor(rule, "lexer constructions in Parse", n, 1)
	for _, name := range []string{"ToPostgres", "ToParameterizedPostgres"} {
		f := c.pkgFunc(pkgRoot, name)
		if f == nil {
			continue
		}
		for _, b := range f.Blocks {
			for _, in := range b.Instrs {
				if call, ok := in.(*ssa.Call); ok && call.Call.StaticCallee() == fn && len(call.Call.Args) >= 1 {
					k := c.key(call.Call.Args[0], nil)
					if k == "$0" {
						r.ok(rule, name+"|parse-input", c.instrPos(in), "Parse(input, …)")
					} else {
						r.bad(rule, name+"|parse-input", c.instrPos(in), name+" parses "+k+" instead of its input")
					}
				}
			}
		}
	}
}

// PARSE-RETURNS (C05/C06/C10/C11): Parse has no acceptance criterion of its own.
func rulePARSERETURNS(c *Ctx, r *Report) {
	const rule = "PARSE-RETURNS"
	r.doc(rule, "every return of Parse whose error may be non-nil returns the error of the parse loop or of expr.Validate unchanged; Parse adds no criterion of its own (a length, depth or shape limit applied after parsing would accept a different set of queries depending on options that change the tree's shape)")
	pr := c.parserRoles()
	if pr.Err != "" || pr.Parse == nil {
		r.bad(rule, "anchor", "-", "Parse not resolved")
		return
	}
	validate := c.pkgFunc(pkgExpr, "Validate")
	paths, complete := c.enumPaths(pr.Parse, 5000)
	if !complete {
		r.bad(rule, "paths", c.pos(pr.Parse.Pos()), "too many paths")
		return
	}
	n := 0
	for _, p := range paths {
		if p.Ret == nil || len(p.Ret.Results) != 2 {
			continue
		}
		ev := c.resolve(p.Ret.Results[1], p.Env)
		if isNilConst(ev) {
			continue
		}
		n++
		var call *ssa.Call
		switch x := ev.(type) {
		case *ssa.Extract:
			call, _ = x.Tuple.(*ssa.Call)
		case *ssa.Call:
			call = x
		}
		key := "error-return|" + c.key(ev, p.Env)
		if call != nil && (call.Call.StaticCallee() == pr.ParseLoop || (validate != nil && call.Call.StaticCallee() == validate)) {
			r.ok(rule, key, c.instrPos(p.Ret), "propagated unchanged")
		} else {
			r.bad(rule, key, c.instrPos(p.Ret), "Parse fails with an error of its own ("+c.key(ev, p.Env)+"): a criterion outside the lexer, the shift/reduce loop and the validators decides which queries are accepted")
		}
	}
	r.floor(rule, "error returns of Parse", n, 2)
}

// LOOP-RETURNS (C05/C06/C07/C09/C10): the parse loop fails only where the grammar machinery fails.
func ruleLOOPRETURNS(c *Ctx, r *Report) {
	const rule = "LOOP-RETURNS"
	r.doc(rule, "every return of the parse loop whose error may be non-nil either passes on the error of the token→literal function or of the reduce method, or is an error of the acceptance case (end of input reached): the loop has no rejection criterion of its own in the shift path (a table of 'tokens an operand can end with', a depth limit, …) — such a criterion rejects some spelling of a query whose other spellings parse")
	pr := c.parserRoles()
	if pr.Err != "" {
		r.bad(rule, "anchor", "-", pr.Err)
		return
	}
	paths, complete := c.enumPathsOpt(pr.ParseLoop, 20000, c.parserInl(pr))
	if !complete {
		r.bad(rule, "paths", c.pos(pr.ParseLoop.Pos()), "too many paths")
		return
	}
	n := 0
	seen := map[string]bool{}
	for _, p := range paths {
		if p.Ret == nil || len(p.Ret.Results) != 2 {
			continue
		}
		ev, ee := c.resolveE(p.Ret.Results[1], p.Env)
		if isNilConst(ev) {
			continue
		}
		var call *ssa.Call
		switch x := ev.(type) {
		case *ssa.Extract:
			call, _ = x.Tuple.(*ssa.Call)
		case *ssa.Call:
			call = x
		}
		key := "error-return|" + c.key(ev, ee)
		if seen[key] {
			continue
		}
		n++
		if call != nil && (call.Call.StaticCallee() == pr.ReduceM || (pr.TokToLit != nil && call.Call.StaticCallee() == pr.TokToLit)) {
			seen[key] = true
			r.ok(rule, key, c.instrPos(p.Ret), "propagated unchanged")
			continue
		}
		accepting := false
		for _, a := range c.expand(p.Atoms, nil) {
			if a.Kind == "cmp" && a.Op == "==" && a.Val == "lex.TEOF" {
				accepting = true
			}
			if a.Kind == "call" && a.Pos && pr.Accept != nil && a.Fn == pr.Accept {
				accepting = true
			}
		}
		if accepting {
			seen[key] = true
			r.ok(rule, key, c.instrPos(p.Ret), "error of the acceptance case (end of input)")
			continue
		}
		seen[key] = true
		r.bad(rule, key, c.instrPos(p.Ret), "the parse loop fails with an error of its own ("+c.key(ev, ee)+") before end of input: a criterion outside the shift predicate, the reducers and the token→literal function rejects queries (conditions: "+strings.Join(atomStrings(p.Atoms), " ∧ ")+")")
	}
	r.floor(rule, "error returns of the parse loop", n, 2)
}

// REDUCE-SITES (C05/C07/C09): reductions happen only where the shift predicate says "reduce".
func ruleREDUCESITES(c *Ctx, r *Report) {
	const rule = "REDUCE-SITES"
	r.doc(rule, "every call of the reduce method in the parse loop (and its private helpers) is dominated by a negative outcome of the shift predicate — for the next token, or for the injected AND — and by no positive one: when and how far the stack is reduced is decided by the precedence table alone, never by what a token looks like (a special case such as 'a number after ^ completes the operator' makes one spelling of a query parse and another fail)")
	pr := c.parserRoles()
	if pr.Err != "" {
		r.bad(rule, "anchor", "-", pr.Err)
		return
	}
	n := 0
	for _, f := range c.Funcs {
		if fnPkgPath(f) != pkgRoot || (f != pr.ParseLoop && !c.reachedOnlyFrom(f, pr.ParseLoop, 0)) || f == pr.ReduceM {
			continue
		}
		for _, b := range f.Blocks {
			for _, in := range b.Instrs {
				call, ok := in.(*ssa.Call)
				if !ok || call.Call.StaticCallee() != pr.ReduceM {
					continue
				}
				n++
				neg, pos := false, false
				var facts []string
				decided := false
				check := func(atoms []Atom) {
					// atoms come nearest dominator first: the innermost verdict of the shift predicate decides
					for _, a := range atoms {
						if a.Kind == "call" && a.Fn == pr.ShouldShift && !decided {
							decided = true
							facts = append(facts, a.String())
							if a.Pos {
								pos = true
							} else {
								neg = true
							}
						}
					}
				}
				check(c.expand(c.domAtoms(b), nil))
				if f != pr.ParseLoop {
					// a helper: the facts at its call sites count as well
					c.withContexts(f, pr.ParseLoop, 0, func(outer []Atom) { check(outer) })
				}
				// the loop form `for !shouldShift(tok) { reduce() }`: the header's test dominates the body on its false edge
				key := fnName(f) + "|reduce#" + c.callOrdinal(f, in)
				switch {
				case neg && !pos:
					r.ok(rule, key, c.instrPos(in), "only under a 'reduce' verdict of the shift predicate: "+strings.Join(facts, " ∧ "))
				case pos:
					r.bad(rule, key, c.instrPos(in), "the parse loop reduces inside a branch in which the shift predicate said 'shift' ("+strings.Join(facts, " ∧ ")+"): a reduction decided by something other than the precedence table")
				default:
					r.bad(rule, key, c.instrPos(in), "the parse loop reduces without having asked the shift predicate: a reduction decided by something other than the precedence table")
				}
			}
		}
	}
	r.floor(rule, "reduce calls in the parse loop", n, 2)
}

// NIL-TYPED (C13/C01/C12): no typed nil pointer becomes an operand. The validators and renderers test
// operands with `x == nil` / `x != nil` on the interface value; a nil *Expression boxed into the interface
// passes those tests and is dereferenced afterwards.
func ruleNILTYPED(c *Ctx, r *Report) {
	const rule = "NIL-TYPED"
	r.doc(rule, "every *Expression / *RangeBoundary that the library boxes into an interface value (operand fields, constructor arguments) is provably non-nil where it is boxed: a fresh allocation, the result of a library function all of whose returns are non-nil, a comma-ok assertion under ok, or a local that no foreign callee (encoding/json given its address) can have set to nil")
	n := 0
	for _, f := range c.Funcs {
		if !inLib(f) {
			continue
		}
		for _, b := range f.Blocks {
			for _, in := range b.Instrs {
				mi, ok := in.(*ssa.MakeInterface)
				if !ok {
					continue
				}
				pt, ok := mi.X.Type().Underlying().(*types.Pointer)
				if !ok || !(isNamed(pt.Elem(), pkgExpr, "Expression") || isNamed(pt.Elem(), pkgExpr, "RangeBoundary")) {
					continue
				}
				if onlyForeignUse(mi) {
					continue // handed to fmt / reflect only (a message): not an operand
				}
				n++
				why := c.ptrMayBeNil(mi.X, mi, 0)
				if why != "" && c.nilInfeasibleHere(f, mi) {
					why = ""
				}
				key := fmt.Sprintf("%s|box(%s)", fnName(f), c.key(mi.X, nil))
				if why == "" {
					r.ok(rule, key, c.instrPos(in), "non-nil where boxed")
				} else {
					r.bad(rule, key, c.instrPos(in), fmt.Sprintf("%s stores a %s in an interface value although it may be a nil pointer (%s): the operand then is a typed nil, which every `!= nil` test of the validators lets through and the next field access dereferences", fnName(f), typeStr(mi.X.Type()), why))
				}
			}
		}
	}
	r.floor(rule, "pointers boxed into operands", n, 8)
}

// ptrMayBeNil: "" if pointer v is known non-nil at instruction at; otherwise the reason.
func (c *Ctx) ptrMayBeNil(v ssa.Value, at ssa.Instruction, depth int) string {
	if depth > 4 {
		return ""
	}
	// a dominating v != nil test
	if at != nil {
		k := c.key(v, nil)
		for _, a := range c.domAtoms(at.Block()) {
			if a.Kind == "nil" && !a.Pos && a.Subj == k {
				return ""
			}
		}
	}
	switch x := v.(type) {
	case *ssa.Alloc, *ssa.FieldAddr, *ssa.IndexAddr, *ssa.MakeClosure:
		return ""
	case *ssa.Const:
		if x.IsNil() {
			return "the nil constant"
		}
		return ""
	case *ssa.Phi:
		for _, e := range x.Edges {
			if e == ssa.Value(x) {
				continue
			}
			if w := c.ptrMayBeNil(e, nil, depth+1); w != "" {
				return w
			}
		}
		return ""
	case *ssa.Extract:
		switch t := x.Tuple.(type) {
		case *ssa.TypeAssert:
			if !t.CommaOk || x.Index != 0 {
				return ""
			}
			if at != nil {
				subj, want := c.key(t.X, nil), typeStr(t.AssertedType)
				for _, a := range c.domAtoms(at.Block()) {
					if a.Kind == "type" && a.Pos && a.Subj == subj && a.Val == want {
						return ""
					}
				}
				return "result of the comma-ok assertion " + subj + ".(" + want + ") used where ok may be false"
			}
			return ""
		case *ssa.Call:
			// the comma-ok convention of a module helper: (nil, …, false) returns do not count where the use is
			// dominated by a test that found the helper's last (bool) result true
			c.okGuardAt = nil
			if at != nil && at.Parent() == t.Parent() {
				c.okGuardAt = at
			}
			w := c.callResultMayBeNil(t, x.Index, depth)
			c.okGuardAt = nil
			return w
		}
		return ""
	case *ssa.Call:
		return c.callResultMayBeNil(x, 0, depth)
	case *ssa.UnOp:
		if x.Op != token.MUL {
			return ""
		}
		a, ok := x.X.(*ssa.Alloc)
		if !ok || a.Referrers() == nil {
			return "" // a field or element of an existing node: non-nil by induction
		}
		for _, ref := range *a.Referrers() {
			switch u := ref.(type) {
			case *ssa.Store:
				if u.Addr == ssa.Value(a) {
					if w := c.ptrMayBeNil(u.Val, nil, depth+1); w != "" {
						return w
					}
				}
			case *ssa.MakeInterface, *ssa.Call, *ssa.ChangeType, *ssa.Convert:
				// the address of the pointer variable leaves the function: whoever receives it may set it to nil
				// (encoding/json does, for the JSON value null)
				if name := c.escapeTarget(ref); name != "" {
					return "the address of this pointer variable is handed to " + name + ", which may leave or set it nil (json.Unmarshal does for `null`)"
				}
			}
		}
		// never stored to at all: the zero value
		stored := false
		for _, ref := range *a.Referrers() {
			if u, ok := ref.(*ssa.Store); ok && u.Addr == ssa.Value(a) {
				stored = true
			}
		}
		if !stored {
			return "pointer variable that is never assigned"
		}
		return ""
	case *ssa.Parameter:
		fn := x.Parent()
		if fn == nil || (fn.Signature.Recv() != nil && len(fn.Params) > 0 && fn.Params[0] == x) {
			return ""
		}
		idx := -1
		for i, p := range fn.Params {
			if p == x {
				idx = i
			}
		}
		for _, g := range c.Funcs {
			if !inLib(g) {
				continue
			}
			for _, b := range g.Blocks {
				for _, in := range b.Instrs {
					call, ok := in.(*ssa.Call)
					if !ok || call.Call.StaticCallee() != fn || idx >= len(call.Call.Args) {
						continue
					}
					if w := c.ptrMayBeNil(call.Call.Args[idx], call, depth+1); w != "" {
						return fmt.Sprintf("argument of the call at %s: %s", c.instrPos(call), w)
					}
				}
			}
		}
		return ""
	}
	return ""
}

func (c *Ctx) escapeTarget(ref ssa.Instruction) string {
	switch u := ref.(type) {
	case *ssa.Call:
		if g := u.Call.StaticCallee(); g != nil && !inModule(g) {
			return calleeFullName(u)
		}
	case *ssa.MakeInterface:
		if u.Referrers() != nil {
			for _, r2 := range *u.Referrers() {
				if call, ok := r2.(*ssa.Call); ok {
					if g := call.Call.StaticCallee(); g != nil && !inModule(g) {
						return calleeFullName(call)
					}
				}
			}
		}
	}
	return ""
}

func (c *Ctx) callResultMayBeNil(call *ssa.Call, idx int, depth int) string {
	g := call.Call.StaticCallee()
	if g == nil || !inLib(g) || len(g.Blocks) == 0 {
		return ""
	}
	if c.freshPtrFn(g, 0) && idx == 0 {
		return ""
	}
	nres := g.Signature.Results().Len()
	hasErr := nres >= 2 && isErrorType(g.Signature.Results().At(nres-1).Type())
	okGuarded := false
	if at := c.okGuardAt; at != nil && nres >= 2 && idx < nres-1 {
		if b, isB := g.Signature.Results().At(nres - 1).Type().Underlying().(*types.Basic); isB && b.Kind() == types.Bool {
			subj := fmt.Sprintf("%s#%d", c.key(call, nil), nres-1)
			for _, a := range c.domAtoms(at.Block()) {
				if a.Kind == "bool" && a.Pos && a.Subj == subj {
					okGuarded = true
				}
			}
		}
	}
	c.okGuardAt = nil
	for _, b := range g.Blocks {
		ret, ok := b.Instrs[len(b.Instrs)-1].(*ssa.Return)
		if !ok || idx >= len(ret.Results) {
			continue
		}
		if okGuarded {
			if bk, isC := c.resolve(ret.Results[nres-1], nil).(*ssa.Const); isC && bk.Value != nil && bk.Value.String() == "false" {
				continue // a "not found" return: the caller has tested for it
			}
		}
		rv := c.resolve(ret.Results[idx], nil)
		if k, ok := rv.(*ssa.Const); ok && k.IsNil() {
			if hasErr {
				// (nil, err): the caller's error test is NIL-RESULT's and ERR-PROP's matter — unless this return's
				// error is the nil constant as well
				if ek, ok := c.resolve(ret.Results[nres-1], nil).(*ssa.Const); !ok || !ek.IsNil() {
					continue
				}
			}
			return fnName(g) + " returns nil at " + c.instrPos(ret)
		}
		if w := c.ptrMayBeNil(rv, nil, depth+1); w != "" {
			return fnName(g) + ": " + w
		}
	}
	return ""
}

// onlyForeignUse: every use of the boxed value is an argument of a function outside the module (directly or
// as an element of the variadic slice built for such a call).
func onlyForeignUse(v ssa.Value) bool {
	if v.Referrers() == nil || len(*v.Referrers()) == 0 {
		return false
	}
	foreignCall := func(in ssa.Instruction) bool {
		call, ok := in.(*ssa.Call)
		if !ok {
			return false
		}
		g := call.Call.StaticCallee()
		return g != nil && !inModule(g)
	}
	for _, ref := range *v.Referrers() {
		switch u := ref.(type) {
		case *ssa.DebugRef:
		case *ssa.Call:
			if !foreignCall(u) {
				return false
			}
		case *ssa.Store:
			ia, ok := u.Addr.(*ssa.IndexAddr)
			if !ok || u.Val != v {
				return false
			}
			a, ok := ia.X.(*ssa.Alloc)
			if !ok || a.Referrers() == nil {
				return false
			}
			for _, r2 := range *a.Referrers() {
				switch w := r2.(type) {
				case *ssa.IndexAddr, *ssa.DebugRef:
				case *ssa.Slice:
					if w.Referrers() == nil {
						return false
					}
					for _, r3 := range *w.Referrers() {
						if _, isDbg := r3.(*ssa.DebugRef); !isDbg && !foreignCall(r3) {
							return false
						}
					}
				default:
					return false
				}
			}
		default:
			return false
		}
	}
	return true
}

// nilInfeasibleHere: the boxed pointer is the result of a library function that has a nil return, but with the
// callee (and boolean helpers) read in place no path of f reaches the boxing with the nil result — the
// caller's own tests exclude that return (`if num, ok := parseNumber(s); ok { … num … }`, or a guard whose
// helper summary contradicts the callee's nil path).
func (c *Ctx) nilInfeasibleHere(f *ssa.Function, mi *ssa.MakeInterface) bool {
	var g *ssa.Function
	switch x := mi.X.(type) {
	case *ssa.Call:
		g = x.Call.StaticCallee()
	case *ssa.Extract:
		if call, ok := x.Tuple.(*ssa.Call); ok {
			g = call.Call.StaticCallee()
		}
	}
	if g == nil || !inLib(g) || fnPkgPath(g) != fnPkgPath(f) {
		return false
	}
	paths, complete := c.enumPathsOpt(f, 20000, &InlineOpts{Bool: true, Cyc: true, Pred: func(h *ssa.Function) bool {
		if h == g {
			return true
		}
		rs := h.Signature.Results()
		return rs.Len() == 1 && isBool(rs.At(0).Type())
	}})
	if os.Getenv("LUCDBG") != "" {
		fmt.Fprintln(os.Stderr, "nilInfeasibleHere", fnName(f), fnName(g), "paths", len(paths), complete)
	}
	if !complete {
		return false
	}
	seen := 0
	for _, p := range paths {
		on := false
		for _, in := range p.Instrs {
			if in == ssa.Instruction(mi) {
				on = true
			}
		}
		if !on {
			continue
		}
		seen++
		v, _ := c.resolveE(mi.X, p.Env)
		if os.Getenv("LUCDBG") != "" {
			fmt.Fprintln(os.Stderr, "  path", atomsText(p.Atoms), "=>", c.key(v, nil))
		}
		if k, ok := v.(*ssa.Const); ok && k.IsNil() {
			return false
		}
		if v == mi.X {
			return false // the callee was not read in place on this path: nothing learnt
		}
		if c.ptrMayBeNil(v, nil, 1) != "" {
			return false
		}
	}
	return seen > 0
}

// leafClassifier: the function of package expr that gives a raw value its leaf kind by content
// (func(any) *Expression building Literal, Wild and Regexp leaves) — the JSON decoder's leaf constructor.
func (c *Ctx) leafClassifier() *ssa.Function {
	var dec *ssa.Function
	for _, f := range c.Funcs {
		if fnPkgPath(f) == pkgExpr && f.Parent() == nil && f.Signature.Params().Len() == 1 && isEmptyInterface(f.Signature.Params().At(0).Type()) &&
			f.Signature.Results().Len() == 1 && isExprPtr(f.Signature.Results().At(0).Type()) {
			ops := map[string]bool{}
			for _, b := range f.Blocks {
				for _, in := range b.Instrs {
					if call, ok := in.(*ssa.Call); ok && call.Call.StaticCallee() != nil {
						for _, o := range c.ctorOperator(call.Call.StaticCallee()) {
							ops[o] = true
						}
					}
				}
			}
			if ops["expr.Wild"] && ops["expr.Regexp"] && ops["expr.Literal"] {
				dec = f
			}
		}
	}
	return dec
}

// blockAlternatives: the facts that hold on entry to b, one set per incoming edge (the dominating facts of the
// predecessor plus the condition of the edge taken); for a block with a single predecessor, its dominating facts.
func (c *Ctx) blockAlternatives(b *ssa.BasicBlock) [][]Atom {
	if len(b.Preds) <= 1 {
		return [][]Atom{c.domAtoms(b)}
	}
	var out [][]Atom
	for _, p := range b.Preds {
		atoms := append([]Atom(nil), c.domAtoms(p)...)
		if iff, ok := p.Instrs[len(p.Instrs)-1].(*ssa.If); ok && p.Succs[0] != p.Succs[1] {
			atoms = append(atoms, c.atoms(iff.Cond, p.Succs[0] == b, nil)...)
		}
		out = append(out, atoms)
	}
	return out
}

// CTOR-FRESH (C03, C06): the general constructor builds the node it was asked for.
func ruleCTORFRESH(c *Ctx, r *Report) {
	const rule = "CTOR-FRESH"
	r.doc(rule, "every value the general constructor expr.Expr returns is a node allocated during that call (directly, or by a module function that itself returns only fresh nodes), never one of its operands or a node taken from them; where it delegates to a constructor that takes an operator, the operator passed on is its own operator parameter or a constant. The constructor therefore cannot answer a request for NOT x with x's own subtree or with a different comparison: one node of the requested kind per call is what the production table and the SQL operator table both assume")
	general := c.pkgFunc(pkgExpr, "Expr")
	if general == nil {
		r.bad(rule, "anchor", "-", "expr.Expr not found")
		return
	}
	isOperator := func(t types.Type) bool {
		n, ok := t.(*types.Named)
		return ok && n.Obj().Name() == "Operator" && n.Obj().Pkg() != nil && n.Obj().Pkg().Path() == pkgExpr
	}
	memo := map[*ssa.Function]string{}
	var freshFn func(f *ssa.Function, depth int) string
	var fresh func(f *ssa.Function, v ssa.Value, seen map[ssa.Value]bool, depth int) string
	fresh = func(f *ssa.Function, v ssa.Value, seen map[ssa.Value]bool, depth int) string {
		if seen[v] {
			return ""
		}
		seen[v] = true
		switch x := v.(type) {
		case *ssa.Const:
			if x.IsNil() {
				return ""
			}
		case *ssa.Alloc:
			return ""
		case *ssa.Phi:
			for _, e := range x.Edges {
				if s := fresh(f, e, seen, depth); s != "" {
					return s
				}
			}
			return ""
		case *ssa.Call:
			g := x.Call.StaticCallee()
			if g == nil || g.Blocks == nil || fnPkgPath(g) != pkgExpr {
				return "the result of a call that is not a module constructor"
			}
			for _, a := range x.Call.Args {
				if !isOperator(a.Type()) {
					continue
				}
				if _, isConst := a.(*ssa.Const); isConst {
					continue
				}
				if p, isParam := a.(*ssa.Parameter); isParam && p.Parent() == f {
					continue
				}
				return "the result of " + g.Name() + " called with an operator that is neither the constructor's own operator parameter nor a constant"
			}
			if g == f || g == general {
				return "" // the general constructor's own returns are judged once, above
			}
			if depth > 4 {
				return "a constructor chain deeper than the analysis follows"
			}
			// a helper that finishes the node it is handed returns its parameter: fresh when the argument is
			for _, gb := range g.Blocks {
				for _, gin := range gb.Instrs {
					ret, ok := gin.(*ssa.Return)
					if !ok {
						continue
					}
					for _, res := range ret.Results {
						if !isExprPtr(res.Type()) {
							continue
						}
						if p, isParam := res.(*ssa.Parameter); isParam {
							for i, gp := range g.Params {
								if gp == p && i < len(x.Call.Args) {
									if s := fresh(f, x.Call.Args[i], seen, depth); s != "" {
										return s
									}
								}
							}
							continue
						}
						if s := fresh(g, res, map[ssa.Value]bool{}, depth+1); s != "" {
							return s
						}
					}
				}
			}
			return ""
		}
		return "a value that is not a node allocated during the call (an operand, or a node read from one)"
	}
	freshFn = func(f *ssa.Function, depth int) string {
		if s, ok := memo[f]; ok {
			return s
		}
		memo[f] = ""
		if depth > 4 {
			return "a constructor chain deeper than the analysis follows"
		}
		for _, b := range f.Blocks {
			for _, in := range b.Instrs {
				ret, ok := in.(*ssa.Return)
				if !ok {
					continue
				}
				for _, res := range ret.Results {
					if !isExprPtr(res.Type()) {
						continue
					}
					if s := fresh(f, res, map[ssa.Value]bool{}, depth); s != "" {
						memo[f] = s
						return s
					}
				}
			}
		}
		return ""
	}
	_ = freshFn
	n := 0
	for _, b := range general.Blocks {
		for _, in := range b.Instrs {
			ret, ok := in.(*ssa.Return)
			if !ok || len(ret.Results) != 1 {
				continue
			}
			n++
			if s := fresh(general, ret.Results[0], map[ssa.Value]bool{}, 0); s != "" {
				r.bad(rule, "Expr|return", c.instrPos(in), "the general constructor returns "+s+": the caller asked for one new node of the given operator over the given operands")
			} else {
				r.ok(rule, fmt.Sprintf("Expr|return#%d", n), c.instrPos(in), "fresh node")
			}
		}
	}
	r.floor(rule, "returns of the general constructor", n, 1)
	// the named constructors (NOT, MUST, Eq, ...): exported functions that hand their operands to the general one
	var named []*ssa.Function
	for _, f := range c.Funcs {
		if fnPkgPath(f) != pkgExpr || f.Parent() != nil || f.Signature.Recv() != nil || f == general || f.Object() == nil || !f.Object().Exported() {
			continue
		}
		if f.Signature.Results().Len() != 1 || !isExprPtr(f.Signature.Results().At(0).Type()) {
			continue
		}
		calls := false
		for _, b := range f.Blocks {
			for _, in := range b.Instrs {
				if call, ok := in.(*ssa.Call); ok && call.Call.StaticCallee() == general {
					calls = true
				}
			}
		}
		if calls {
			named = append(named, f)
		}
	}
	sort.Slice(named, func(i, j int) bool { return named[i].Pos() < named[j].Pos() })
	for _, f := range named {
		bad := ""
		pos := c.pos(f.Pos())
		for _, b := range f.Blocks {
			for _, in := range b.Instrs {
				ret, ok := in.(*ssa.Return)
				if !ok || len(ret.Results) != 1 {
					continue
				}
				if s := fresh(f, ret.Results[0], map[ssa.Value]bool{}, 0); s != "" && bad == "" {
					bad = s
					pos = c.instrPos(in)
				}
			}
		}
		if bad != "" {
			r.bad(rule, f.Name()+"|return", pos, "the constructor "+f.Name()+" returns "+bad+": a typed operator that is given no node of its own in the tree")
		} else {
			r.ok(rule, f.Name()+"|returns", pos, "fresh nodes only")
		}
	}
	r.floor(rule, "named constructors over the general one", len(named), 8)
}
