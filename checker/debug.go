package main

import (
	"fmt"
	"go/token"
	"go/types"
	"os"
	"strings"

	"golang.org/x/tools/go/ssa"
)

func (c *Ctx) findFunc(name string) *ssa.Function {
	for _, f := range c.Funcs {
		if fnName(f) == name {
			return f
		}
	}
	return nil
}

func debugDump(c *Ctx, what string) {
	switch {
	case what == "funcs":
		for _, f := range c.Funcs {
			fmt.Println(fnName(f))
		}
	case what == "tables":
		for _, t := range [][2]string{{pkgLex, "symbols"}, {pkgLex, "terminalTokens"}, {pkgLex, "tokStrings"},
			{pkgReduce, "reducers"}, {pkgExpr, "renderers"}, {pkgExpr, "validators"}, {pkgExpr, "toString"},
			{pkgExpr, "fromString"}, {pkgDriver, "Shared"}} {
			tb := c.readTable(t[0], t[1])
			fmt.Printf("== %s.%s err=%q n=%d\n", t[0], t[1], tb.Err, len(tb.Entries))
			for _, e := range tb.Entries {
				fmt.Printf("   %s -> %s fn=%s bound=%d\n", e.KeyName, c.key(e.Val, nil), fnName(e.Fn), len(e.Bound))
			}
		}
		pt := c.pgTable()
		fmt.Printf("== pgTable err=%q copy=%v ctor=%s\n", pt.Err, pt.CopyLoop, fnName(pt.Ctor))
		for k, e := range pt.Eff {
			fmt.Printf("   %s -> %s\n", k, fnName(e.Fn))
		}
	case what == "sites":
		// every index / slice / string-index instruction of the library packages (file:line:col)
		for _, fn := range c.Funcs {
			if !inLib(fn) {
				continue
			}
			for _, b := range fn.Blocks {
				for _, in := range b.Instrs {
					switch in.(type) {
					case *ssa.IndexAddr, *ssa.Index, *ssa.Slice:
						fmt.Printf("%s %s\n", c.instrPos(in), fnName(fn))
					case *ssa.Lookup:
						if isStringType(in.(*ssa.Lookup).X.Type()) {
							fmt.Printf("%s %s\n", c.instrPos(in), fnName(fn))
						}
					}
				}
			}
		}
	case what == "survey":
		for _, fn := range c.Funcs {
			if !inLib(fn) {
				continue
			}
			for _, b := range fn.Blocks {
				for _, in := range b.Instrs {
					switch x := in.(type) {
					case *ssa.Convert:
						fmt.Printf("CONV %s %s: %s -> %s\n", c.instrPos(in), fnName(fn), typeStr(x.X.Type()), typeStr(x.Type()))
					case *ssa.BinOp:
						if x.Op == token.EQL || x.Op == token.NEQ {
							_, li := x.X.Type().Underlying().(*types.Interface)
							_, ri := x.Y.Type().Underlying().(*types.Interface)
							if li || ri {
								fmt.Printf("IFACEEQ %s %s: %s %s %s\n", c.instrPos(in), fnName(fn), c.key(x.X, nil), x.Op, c.key(x.Y, nil))
							}
						}
					case ssa.CallInstruction:
						if x.Common().IsInvoke() {
							fmt.Printf("INVOKE %s %s: %s.%s\n", c.instrPos(in), fnName(fn), c.key(x.Common().Value, nil), x.Common().Method.Name())
						}
					case *ssa.Range:
						fmt.Printf("RANGE %s %s: over %s\n", c.instrPos(in), fnName(fn), typeStr(x.X.Type()))
					case *ssa.MapUpdate, *ssa.Lookup:
						fmt.Printf("MAPOP %s %s: %s\n", c.instrPos(in), fnName(fn), in.String())
					}
				}
			}
		}
	case what == "prod":
		pt := c.prodTable()
		fmt.Println("errs:", pt.Errs, "wrapper:", fnName(pt.Wrapper))
		for _, r := range pt.Rows {
			var args []string
			for _, a := range r.Args {
				args = append(args, fmt.Sprintf("{pos=%d wrapped=%v as=%s const=%s derived=%v}", a.Pos, a.Wrapped, a.Asserted, a.Const, a.Derived))
			}
			fmt.Printf("%-16s %-44s out=%s op=%s alt=%v id=%d drop=%d(%v) outlen=%d other=%v err=%q\n      args=%s\n",
				r.name(), r.pattern(), r.OutKind, r.Op, r.AltOps, r.Identity, r.Drop, r.DropOK, r.OutLen, r.Other, r.Err, strings.Join(args, " "))
		}
	case strings.HasPrefix(what, "paths:"):
		name := strings.TrimPrefix(what, "paths:")
		inl := strings.HasSuffix(name, "+inl")
		name = strings.TrimSuffix(name, "+inl")
		fn := c.findFunc(name)
		if fn == nil {
			fmt.Println("no such function")
			return
		}
		paths, complete := c.enumPaths(fn, 5000)
		if inl {
			paths, complete = c.enumPathsInl(fn, 5000)
		}
		fmt.Printf("%d paths complete=%v\n", len(paths), complete)
		for i, p := range paths {
			ret := "<no return>"
			if p.Ret != nil {
				var rs []string
				for _, r := range p.Ret.Results {
					rs = append(rs, c.key(r, p.Env))
				}
				ret = strings.Join(rs, " ; ")
			}
			fmt.Printf("#%d cut=%v [%s]\n    => %s\n", i, p.Cut, strings.Join(atomStrings(p.Atoms), " ∧ "), ret)
			if p.Ret != nil && len(p.Ret.Results) > 0 && isStringType(p.Ret.Results[0].Type()) {
				fmt.Printf("    skel: %s\n", skelString(c.skeleton(p.Ret.Results[0], p.Env)))
			}
		}
	case strings.HasPrefix(what, "ssa:"):
		fn := c.findFunc(strings.TrimPrefix(what, "ssa:"))
		if fn == nil {
			fmt.Println("no such function")
			return
		}
		fn.WriteTo(os.Stdout)
	case strings.HasPrefix(what, "dom:"):
		fn := c.findFunc(strings.TrimPrefix(what, "dom:"))
		if fn == nil {
			fmt.Println("no such function")
			return
		}
		for _, b := range fn.Blocks {
			fmt.Printf("block %d: %s\n", b.Index, strings.Join(atomStrings(c.domAtoms(b)), " ∧ "))
		}
	}
}

func (r *Report) dumpObs() {
	for _, o := range r.Obs {
		fmt.Printf("%-12s %-14s %s  [%s] %s%s\n", o.Status, o.Rule, strings.TrimPrefix(o.Key, o.Rule+"|"), o.Pos, o.By, o.Detail)
	}
}
