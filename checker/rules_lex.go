package main

// Lexer rules (C16, C09, C08, C01-LOOP): LEX-PEEK, LEX-TOK, LEX-WRITE, LEX-DEPTH, LEX-FIRST,
// LEX-LOOP, LEX-STATES, LEX-ERR, WS-SET, KW-CASE, PHRASE-LOOP.

import (
	"fmt"
	"go/token"
	"go/types"
	"sort"
	"strings"
	"unicode/utf8"

	"golang.org/x/tools/go/ssa"
)

type LexRoles struct {
	Lexer                             *types.Named
	Struct                            *types.Struct
	InputF, PosF, StartF, EOFF, ItemF *types.Var
	Advance, Backup, Errorf, ToTok    *ssa.Function
	Emit, Next, Peek, LexCtor         *ssa.Function
	States                            []*ssa.Function
	Initial                           *ssa.Function
	StateType                         types.Type
	Err                               string
}

func (c *Ctx) lexRoles() *LexRoles {
	if r, ok := c.roles["lex"]; ok {
		return r.(*LexRoles)
	}
	lr := c.lexRoles0()
	c.roles["lex"] = lr
	return lr
}

// usesNamed: f calls the named function or hands it on as a value (directly, or in a closure it makes).
func (c *Ctx) usesNamed(f *ssa.Function, full string) bool {
	if c.callsNamed(f, full) {
		return true
	}
	for _, b := range f.Blocks {
		for _, in := range b.Instrs {
			for _, op := range in.Operands(nil) {
				switch x := (*op).(type) {
				case *ssa.Function:
					name := x.String()
					if x.Pkg != nil && x.Signature.Recv() == nil {
						name = x.Pkg.Pkg.Path() + "." + x.Name()
					}
					if name == full {
						return true
					}
				case *ssa.MakeClosure:
					if g, ok := x.Fn.(*ssa.Function); ok && g != f && c.callsNamed(g, full) {
						return true
					}
				}
			}
		}
	}
	return false
}

func (c *Ctx) callsNamed(f *ssa.Function, full string) bool {
	for _, b := range f.Blocks {
		for _, in := range b.Instrs {
			if call, ok := in.(ssa.CallInstruction); ok && calleeFullName(call) == full {
				return true
			}
		}
	}
	return false
}

func (c *Ctx) lexRoles0() *LexRoles {
	lr := &LexRoles{}
	lr.Lexer = c.namedType(pkgLex, "Lexer")
	if lr.Lexer == nil {
		lr.Err = "lex.Lexer not found"
		return lr
	}
	st, ok := lr.Lexer.Underlying().(*types.Struct)
	if !ok {
		lr.Err = "lex.Lexer is not a struct"
		return lr
	}
	lr.Struct = st
	lr.Next = c.method(pkgLex, "Lexer", "Next")
	lr.Peek = c.method(pkgLex, "Lexer", "Peek")
	lr.LexCtor = c.pkgFunc(pkgLex, "Lex")
	if lr.Next == nil || lr.Peek == nil || lr.LexCtor == nil {
		lr.Err = "Lexer.Next / Lexer.Peek / lex.Lex not found"
		return lr
	}
	var ints []*types.Var
	for i := 0; i < st.NumFields(); i++ {
		f := st.Field(i)
		switch t := f.Type().(type) {
		case *types.Basic:
			switch {
			case t.Kind() == types.String:
				lr.InputF = f
			case t.Kind() == types.Bool:
				lr.EOFF = f
			case t.Info()&types.IsInteger != 0:
				ints = append(ints, f)
			}
		case *types.Named:
			if isNamed(t, pkgLex, "Token") {
				lr.ItemF = f
			}
		}
	}
	// a lexer operation: a method of Lexer, or a package function whose first parameter is the lexer and
	// which is not a state function (func(*Lexer) state) — the two spellings are interchangeable
	isLexMethod := func(f *ssa.Function) bool {
		recv := f.Signature.Recv()
		var t types.Type
		if recv != nil {
			if f.Signature.Params().Len() == 0 && f.Signature.Results().Len() == 1 && isFuncType(f.Signature.Results().At(0).Type()) {
				return false // a state function written as a method (used through a method expression)
			}
			t = recv.Type()
		} else {
			ps, rs := f.Signature.Params(), f.Signature.Results()
			if ps.Len() == 0 || f == lr.LexCtor {
				return false
			}
			if ps.Len() == 1 && rs.Len() == 1 && isFuncType(rs.At(0).Type()) {
				return false // a state function
			}
			t = ps.At(0).Type()
			if _, isPtr := t.(*types.Pointer); !isPtr {
				return false
			}
		}
		if p, ok := t.(*types.Pointer); ok {
			t = p.Elem()
		}
		return types.Identical(t, lr.Lexer)
	}
	for _, f := range c.Funcs {
		if fnPkgPath(f) != pkgLex || f.Parent() != nil {
			continue
		}
		if isLexMethod(f) {
			switch {
			case c.callsNamed(f, "unicode/utf8.DecodeRuneInString"):
				lr.Advance = f
			case c.callsNamed(f, "unicode/utf8.DecodeLastRuneInString"):
				lr.Backup = f
			}
			rs := f.Signature.Results()
			nonRecv := opParams(f)
			if len(nonRecv) == 1 && rs.Len() == 1 && isNamed(nonRecv[0], pkgLex, "TokType") && isNamed(rs.At(0).Type(), pkgLex, "Token") {
				lr.ToTok = f
			}
			if f.Signature.Variadic() && rs.Len() == 1 && f != lr.Next {
				lr.Errorf = f
			}
			// the error operation by what it does: the one operation besides the constructor that stores the input
			if f != lr.Next && f != lr.Peek && f != lr.LexCtor && rs.Len() == 1 && isFuncType(rs.At(0).Type()) && lr.InputF != nil && lr.Errorf == nil {
				for _, b := range f.Blocks {
					for _, in := range b.Instrs {
						if st, ok := in.(*ssa.Store); ok {
							if fa, ok := st.Addr.(*ssa.FieldAddr); ok && fieldVar(fa.X.Type(), fa.Field) == lr.InputF {
								lr.Errorf = f
							}
						}
					}
				}
			}
			continue
		}
		// state functions: func(*Lexer) <func type>, or the same as a method without further parameters
		ps, rs := f.Signature.Params(), f.Signature.Results()
		if rs.Len() == 1 && isFuncType(rs.At(0).Type()) {
			var pt types.Type
			switch {
			case f.Signature.Recv() != nil && ps.Len() == 0:
				pt = f.Signature.Recv().Type()
			case f.Signature.Recv() == nil && ps.Len() == 1:
				pt = ps.At(0).Type()
			}
			if p, ok := pt.(*types.Pointer); ok && types.Identical(p.Elem(), lr.Lexer) {
				lr.States = append(lr.States, f)
				lr.StateType = rs.At(0).Type()
			}
		}
	}
	if lr.Advance == nil || lr.Backup == nil || lr.Errorf == nil || lr.InputF == nil || lr.EOFF == nil || lr.ItemF == nil || len(ints) != 2 {
		lr.Err = "lexer primitives not resolved (advance/backup/toTok/errorf methods; input/pos/start/atEOF/currItem fields)"
		return lr
	}
	// pos = the int field the advance method stores
	for _, b := range lr.Advance.Blocks {
		for _, in := range b.Instrs {
			if st, ok := in.(*ssa.Store); ok {
				if fa, ok := st.Addr.(*ssa.FieldAddr); ok {
					fv := fieldVar(fa.X.Type(), fa.Field)
					for _, iv := range ints {
						if fv == iv {
							lr.PosF = iv
						}
					}
				}
			}
		}
	}
	for _, iv := range ints {
		if iv != lr.PosF {
			lr.StartF = iv
		}
	}
	if lr.PosF == nil || lr.StartF == nil {
		lr.Err = "cursor fields not resolved"
		return lr
	}
	// emit: the method taking a TokType that sets the current item (through toTok or directly)
	for _, f := range c.Funcs {
		if fnPkgPath(f) != pkgLex || !isLexMethod(f) || f == lr.ToTok || f.Parent() != nil {
			continue
		}
		nonRecv := opParams(f)
		if len(nonRecv) != 1 || !isNamed(nonRecv[0], pkgLex, "TokType") {
			continue
		}
		if lr.ToTok != nil && c.calls(f, lr.ToTok) {
			lr.Emit = f
			continue
		}
		for _, b := range f.Blocks {
			for _, in := range b.Instrs {
				if st, ok := in.(*ssa.Store); ok {
					if fa, ok := st.Addr.(*ssa.FieldAddr); ok && fieldVar(fa.X.Type(), fa.Field) == lr.ItemF && lr.Emit == nil {
						lr.Emit = f
					}
				}
			}
		}
	}
	if lr.ToTok == nil && lr.Emit == nil {
		lr.Err = "neither a token-cutting method (TokType → Token) nor an emit method found"
		return lr
	}
	// initial state: the function constant flowing into the state variable of Next
	for _, b := range lr.Next.Blocks {
		for _, in := range b.Instrs {
			if ph, ok := in.(*ssa.Phi); ok && isFuncType(ph.Type()) {
				for _, e := range ph.Edges {
					if fn, ok := c.resolve(e, nil).(*ssa.Function); ok {
						lr.Initial = fn
					}
				}
			}
		}
	}
	sort.Slice(lr.States, func(i, j int) bool { return fnName(lr.States[i]) < fnName(lr.States[j]) })
	if len(lr.States) == 0 || lr.Initial == nil {
		lr.Err = "state functions / initial state not resolved"
	}
	return lr
}

// selfCopy: `*a = *a` — the store-back of a named result that go/ssa emits before a return; not a write
// of a different value.
func selfCopy(st *ssa.Store) bool {
	ld, ok := st.Val.(*ssa.UnOp)
	return ok && ld.Op == token.MUL && ld.X == st.Addr
}

// opParams: the parameter types of a lexer operation without the lexer itself (receiver or first parameter).
func opParams(f *ssa.Function) []types.Type {
	var out []types.Type
	ps := f.Signature.Params()
	start := 0
	if f.Signature.Recv() == nil {
		start = 1
	}
	for i := start; i < ps.Len(); i++ {
		out = append(out, ps.At(i).Type())
	}
	return out
}

func (c *Ctx) lexPreamble(r *Report, rule string) *LexRoles {
	lr := c.lexRoles()
	if lr.Err != "" {
		r.bad(rule, "anchor", "-", "lexer roles unresolved: "+lr.Err)
		return nil
	}
	for _, s := range lr.States {
		r.unit("lexer states", fnName(s))
	}
	return lr
}

func deepValueType(t types.Type, seen map[types.Type]bool) (bool, string) {
	if seen[t] {
		return true, ""
	}
	seen[t] = true
	switch u := t.Underlying().(type) {
	case *types.Basic:
		if u.Kind() == types.UnsafePointer {
			return false, "unsafe.Pointer"
		}
		return true, ""
	case *types.Struct:
		for i := 0; i < u.NumFields(); i++ {
			if ok, why := deepValueType(u.Field(i).Type(), seen); !ok {
				return false, u.Field(i).Name() + ": " + why
			}
		}
		return true, ""
	case *types.Array:
		return deepValueType(u.Elem(), seen)
	}
	return false, typeStr(t)
}

// LEX-PEEK: Peek ≡ the next Next and has no effect on the stream.
func ruleLEXPEEK(c *Ctx, r *Report) {
	const rule = "LEX-PEEK"
	r.doc(rule, "Peek has a by-value Lexer receiver; every field of Lexer is (transitively) a basic type or string so the copy is deep; Peek's non-shortcut return is Next on the copy, the shortcut returns the stored EOF token")
	lr := c.lexPreamble(r, rule)
	if lr == nil {
		return
	}
	recv := lr.Peek.Signature.Recv()
	if _, isPtr := recv.Type().(*types.Pointer); isPtr {
		r.bad(rule, "receiver", c.pos(lr.Peek.Pos()), "Lexer.Peek has a pointer receiver: calling Next inside it consumes the token from the real stream, so the parser's Peek-then-Next reads skip tokens")
	} else {
		r.ok(rule, "receiver", c.pos(lr.Peek.Pos()), "value receiver")
	}
	if ok, why := deepValueType(lr.Lexer, map[types.Type]bool{}); ok {
		r.ok(rule, "deep-copy", c.pos(lr.Lexer.Obj().Pos()), "all Lexer fields are value types")
	} else {
		r.bad(rule, "deep-copy", c.pos(lr.Lexer.Obj().Pos()), "Lexer has a reference-typed field ("+why+"): the copy Peek works on shares state with the real lexer")
	}
	// returns of Peek
	paths, _ := c.enumPaths(lr.Peek, 200)
	nNext, nShort := 0, 0
	for _, p := range paths {
		if p.Ret == nil {
			continue
		}
		v := c.resolve(p.Ret.Results[0], p.Env)
		key := c.key(v, p.Env)
		if call, ok := v.(*ssa.Call); ok && call.Call.StaticCallee() == lr.Next {
			// receiver must be the address of the local copy
			if _, isAlloc := call.Call.Args[0].(*ssa.Alloc); isAlloc {
				nNext++
				r.ok(rule, "return|next-on-copy", c.instrPos(p.Ret), key)
			} else {
				r.bad(rule, "return|next-on-copy", c.instrPos(p.Ret), "Peek calls Next on something other than its own copy: "+key)
			}
			continue
		}
		// shortcut: stored item under Typ == TEOF
		eof := false
		for _, a := range p.Atoms {
			if a.Kind == "cmp" && a.Op == "==" && a.Val == "lex.TEOF" && strings.HasSuffix(a.Subj, "."+lr.ItemF.Name()+".Typ") {
				eof = true
			}
		}
		if eof && strings.HasSuffix(key, "."+lr.ItemF.Name()) {
			nShort++
			r.ok(rule, "return|sticky-eof", c.instrPos(p.Ret), "returns the stored EOF token")
		} else {
			r.bad(rule, "return|other", c.instrPos(p.Ret), "Peek returns something that is neither Next() on its copy nor the stored EOF token: "+key)
		}
	}
	r.floor(rule, "Peek returns through Next", nNext, 1)
	// the parser side: the token pushed is Next() after a Peek() with no other lexer call in between
	pr := c.parserRoles()
	if pr.Err == "" && pr.ShiftM != nil {
		if c.calls(pr.ShiftM, lr.Next) {
			r.ok(rule, "parser|shift-is-Next", c.pos(pr.ShiftM.Pos()), "the parser's shift reads with Next")
		}
		n := 0
		for _, f := range c.Funcs {
			if fnPkgPath(f) != pkgRoot {
				continue
			}
			for _, b := range f.Blocks {
				for _, in := range b.Instrs {
					if call, ok := in.(ssa.CallInstruction); ok {
						sc := staticCallee(call)
						if sc == lr.Next && f != pr.ShiftM && !(pr.ShiftM == lr.Next && f == pr.ParseLoop) {
							r.bad(rule, "parser|extra-Next|"+fnName(f), c.instrPos(in), "the lexer is advanced outside the parser's shift method")
						}
						if sc == lr.Peek {
							n++
						}
					}
				}
			}
		}
		r.floor(rule, "Peek call sites in the parser", n, 1)
	}
}

// lexStores enumerates all stores to Lexer fields in the module.
func (c *Ctx) lexStores(lr *LexRoles) []fieldStore {
	return c.storesToFields(lr.InputF, lr.PosF, lr.StartF, lr.EOFF, lr.ItemF)
}

// LEX-WRITE: who may write the cursor fields and how (INV-LEX).
func ruleLEXWRITE(c *Ctx, r *Report) {
	const rule = "LEX-WRITE"
	r.doc(rule, "who-may-write on Lexer.pos/start/input/atEOF: pos += w only with w from DecodeRuneInString(input[pos:]) under pos < len(input); pos -= w only with w from DecodeLastRuneInString(input[:pos]) under !atEOF && pos > 0; start = pos or 0; input only truncated together with pos = start = 0; atEOF only set true under pos >= len(input)")
	lr := c.lexPreamble(r, rule)
	if lr == nil {
		return
	}
	n := 0
	for _, fs := range c.lexStores(lr) {
		st := fs.st
		fa := st.Addr.(*ssa.FieldAddr)
		pos := c.instrPos(st)
		val := c.resolve(st.Val, nil)
		vk := c.key(val, nil)
		key := fmt.Sprintf("%s|%s=%s", fnName(fs.fn), fs.field.Name(), vk)
		// constructor: stores into the fresh Lexer allocation in lex.Lex
		if a, ok := fa.X.(*ssa.Alloc); ok && fs.fn == lr.LexCtor && a.Heap {
			switch fs.field {
			case lr.PosF, lr.StartF:
				if n0, ok := constIntVal(val); ok && n0 == 0 {
					r.ok(rule, key, pos, "initial 0")
				} else {
					r.bad(rule, key, pos, "the cursor must start at 0")
				}
			case lr.InputF:
				if _, ok := val.(*ssa.Parameter); ok {
					r.ok(rule, key, pos, "input is the argument")
				} else {
					r.bad(rule, key, pos, "the lexer's input must be the caller's string unchanged")
				}
			default:
				r.ok(rule, key, pos, "initialisation")
			}
			continue
		}
		// stores into Peek's local copy are invisible outside
		if a, ok := fa.X.(*ssa.Alloc); ok && !a.Heap {
			r.ok(rule, key, pos, "store into a local copy")
			continue
		}
		n++
		atoms := c.atomsAt(st)
		recvKey := c.key(fa.X, nil)
		posK, inK, eofK := recvKey+"."+lr.PosF.Name(), recvKey+"."+lr.InputF.Name(), recvKey+"."+lr.EOFF.Name()
		switch fs.field {
		case lr.ItemF:
			r.ok(rule, key, pos, "current item (checked by LEX-TOK)")
		case lr.PosF:
			okW := false
			why := ""
			if bo, ok := val.(*ssa.BinOp); ok && c.key(bo.X, nil) == posK {
				wk := c.key(bo.Y, nil)
				switch {
				case bo.Op == token.ADD && wk == "unicode/utf8.DecodeRuneInString("+inK+"["+posK+":])#1":
					if hasAtom(atoms, posK+"<len("+inK+")") {
						okW = true
						why = "advance by the decoded width under pos < len(input)"
					} else {
						why = "advance not guarded by pos < len(input)"
					}
				case bo.Op == token.SUB && wk == "unicode/utf8.DecodeLastRuneInString("+inK+"[:"+posK+"])#1":
					g1, g2 := false, false
					for _, a := range atoms {
						if a.Kind == "bool" && a.Subj == eofK && !a.Pos {
							g1 = true
						}
						if a.Kind == "cmp" && a.Subj == posK && a.Op == ">" && a.Val == "0" {
							g2 = true
						}
					}
					if g1 && g2 {
						okW = true
						why = "step back by the last rune's width under !atEOF && pos > 0"
					} else {
						why = "backup not guarded by !atEOF && pos > 0"
					}
				case bo.Op == token.ADD && wk == "1":
					// a byte below utf8.RuneSelf is a whole character of width 1
					if hasAtom(atoms, posK+"<len("+inK+")") && asciiBound(atoms, inK+"["+posK+"]") {
						okW, why = true, "advance by one over a single-byte character under pos < len(input)"
					} else {
						why = "advance by one byte without having established pos < len(input) and input[pos] < utf8.RuneSelf"
					}
				case bo.Op == token.SUB && wk == "1":
					g1, g2 := false, false
					for _, a := range atoms {
						if a.Kind == "bool" && a.Subj == eofK && !a.Pos {
							g1 = true
						}
						if a.Kind == "cmp" && a.Subj == posK && a.Op == ">" && a.Val == "0" {
							g2 = true
						}
					}
					if g1 && g2 && asciiBound(atoms, inK+"[("+posK+" - 1)]") {
						okW, why = true, "step back by one over a single-byte character under !atEOF && pos > 0"
					} else {
						why = "step back by one byte without !atEOF && pos > 0 && input[pos-1] < utf8.RuneSelf"
					}
				default:
					why = "pos changed by something other than a decoded rune width: " + wk
				}
			} else if n0, ok := constIntVal(val); ok && n0 == 0 && fs.fn == lr.Errorf {
				okW, why = true, "reset in the error function"
			} else {
				why = "unrecognised assignment to the cursor"
			}
			if okW {
				r.ok(rule, key, pos, why)
			} else {
				r.bad(rule, key, pos, "Lexer."+lr.PosF.Name()+": "+why+" (INV-LEX 0 ≤ start ≤ pos ≤ len(input) and rune-aligned stepping are no longer guaranteed)")
			}
		case lr.StartF:
			if vk == posK {
				r.ok(rule, key, pos, "start = pos")
			} else if n0, ok := constIntVal(val); ok && n0 == 0 && fs.fn == lr.Errorf {
				r.ok(rule, key, pos, "reset in the error function")
			} else {
				r.bad(rule, key, pos, "Lexer."+lr.StartF.Name()+" may only be assigned the current position (token texts must tile the input without gaps or overlaps); got "+vk)
			}
		case lr.InputF:
			trunc := false
			if sl, ok := val.(*ssa.Slice); ok && c.key(sl.X, nil) == inK && sl.Low == nil && sl.High != nil {
				if n0, ok := constIntVal(sl.High); ok && n0 == 0 {
					trunc = true
				}
			}
			if s, ok := constStringVal(val); ok && s == "" {
				trunc = true
			}
			if trunc && fs.fn == lr.Errorf {
				r.ok(rule, key, pos, "truncated to empty in the error function")
			} else {
				r.bad(rule, key, pos, "Lexer."+lr.InputF.Name()+" may only be truncated to empty by the error function; got "+vk)
			}
		case lr.EOFF:
			if b, ok := constBoolVal(val); ok && b && hasAtom(atoms, posK+">=len("+inK+")") {
				r.ok(rule, key, pos, "set at end of input")
			} else {
				r.bad(rule, key, pos, "Lexer."+lr.EOFF.Name()+" may only be set (to true) when pos >= len(input); got "+vk)
			}
		}
	}
	r.floor(rule, "cursor-field writers", n, 8)
	// the error function resets all three together
	got := map[*types.Var]bool{}
	for _, fs := range c.lexStores(lr) {
		if fs.fn == lr.Errorf {
			got[fs.field] = true
		}
	}
	if got[lr.PosF] && got[lr.StartF] && got[lr.InputF] {
		r.ok("LEX-ERR", "errorf|truncates", c.pos(lr.Errorf.Pos()), "input, pos and start reset together")
	} else {
		r.bad("LEX-ERR", "errorf|truncates", c.pos(lr.Errorf.Pos()), "the lexer's error function must truncate the input and reset pos and start, so that the stream reports end-of-input forever after an error")
	}
	r.doc("LEX-ERR", "every lexical error goes through the function that truncates the input (stream ends); error tokens have Typ TErr")
}

// LEX-TOK: the only constructors of Token values in package lex.
func ruleLEXTOK(c *Ctx, r *Report) {
	const rule = "LEX-TOK"
	r.doc(rule, "every Token value built in package lex is one of: toTok's {Typ: t, Val: input[start:pos]} followed by start = pos; Next's EOF prologue; the error function's TErr token")
	lr := c.lexPreamble(r, rule)
	if lr == nil {
		return
	}
	n := 0
	for _, f := range c.Funcs {
		if fnPkgPath(f) != pkgLex {
			continue
		}
		for _, b := range f.Blocks {
			for _, in := range b.Instrs {
				a, ok := in.(*ssa.Alloc)
				if !ok {
					continue
				}
				pt, ok := a.Type().(*types.Pointer)
				if !ok || !isNamed(pt.Elem(), pkgLex, "Token") {
					continue
				}
				// field stores into this alloc
				fields := map[string]ssa.Value{}
				whole := false
				for _, ref := range *a.Referrers() {
					switch x := ref.(type) {
					case *ssa.FieldAddr:
						for _, r2 := range *x.Referrers() {
							if st, ok := r2.(*ssa.Store); ok && st.Addr == x {
								fields[fieldName(x.X.Type(), x.Field)] = st.Val
							}
						}
					case *ssa.Store:
						if x.Addr == a && !selfCopy(x) {
							whole = true
						}
					}
				}
				if whole || len(fields) == 0 {
					continue // a copy of an existing token (parameter spill), not a construction
				}
				n++
				typ, val := fields["Typ"], fields["Val"]
				key := fmt.Sprintf("%s|Token{Typ:%s}", fnName(f), c.key(typ, nil))
				pos := c.instrPos(a)
				switch {
				case f == lr.ToTok || (lr.ToTok == nil && f == lr.Emit):
					recv := c.key(f.Params[0], nil)
					want := fmt.Sprintf("%s.%s[%s.%s:%s.%s]", recv, lr.InputF.Name(), recv, lr.StartF.Name(), recv, lr.PosF.Name())
					vk := c.key(val, nil)
					_, isParam := c.resolve(typ, nil).(*ssa.Parameter)
					// start = pos afterwards
					adv := false
					for _, fs := range c.lexStores(lr) {
						if fs.fn == f && fs.field == lr.StartF && c.key(fs.st.Val, nil) == recv+"."+lr.PosF.Name() {
							adv = true
						}
					}
					switch {
					case vk != want:
						r.bad(rule, key, pos, "token text must be exactly input[start:pos]; it is "+vk)
					case !isParam:
						r.bad(rule, key, pos, "token type must be the requested type")
					case !adv:
						r.bad(rule, key, pos, "toTok must move start to pos after cutting the token (otherwise token texts overlap)")
					default:
						r.ok(rule, key, pos, "Val = input[start:pos]; start = pos")
					}
				case f == lr.Next || c.reachedOnlyFrom(f, lr.Next, 0):
					if c.key(typ, nil) == "lex.TEOF" {
						r.ok(rule, key, pos, "EOF prologue")
					} else {
						r.bad(rule, key, pos, "Next may only pre-set the EOF token")
					}
				case f == lr.Errorf || c.reachedOnlyFrom(f, lr.Errorf, 0):
					if c.key(typ, nil) == "lex.TErr" {
						r.ok(rule, key, pos, "error token")
					} else {
						r.bad(rule, key, pos, "the error function must produce a TErr token")
					}
				default:
					r.bad(rule, key, pos, "a Token is constructed outside toTok / Next's EOF prologue / the error function: its text is not a slice of the input at the cursor")
				}
			}
		}
	}
	r.floor(rule, "token constructions", n, 3)
	// a token is never edited after it was cut: every store to a field of a lex.Token in package lex
	// must be one of the field stores of the constructions above
	for _, f := range c.Funcs {
		if fnPkgPath(f) != pkgLex {
			continue
		}
		for _, b := range f.Blocks {
			for _, in := range b.Instrs {
				st, ok := in.(*ssa.Store)
				if !ok {
					continue
				}
				fa, ok := st.Addr.(*ssa.FieldAddr)
				if !ok {
					continue
				}
				bt := fa.X.Type()
				if p, ok := bt.(*types.Pointer); ok {
					bt = p.Elem()
				}
				if !isNamed(bt, pkgLex, "Token") {
					continue
				}
				// base must be a fresh local literal (no whole-value store into it)
				okBase := false
				if a, ok := fa.X.(*ssa.Alloc); ok {
					okBase = true
					for _, ref := range *a.Referrers() {
						if s2, ok := ref.(*ssa.Store); ok && s2.Addr == ssa.Value(a) && !selfCopy(s2) {
							okBase = false
						}
					}
				}
				if !okBase {
					r.bad(rule, fnName(f)+"|token-edited|"+fieldName(fa.X.Type(), fa.Field), c.instrPos(st), fmt.Sprintf("%s modifies field %s of a token after it was cut from the input (%s): the token text is no longer the slice of the input it was lexed from", fnName(f), fieldName(fa.X.Type(), fa.Field), c.key(st.Val, nil)))
				}
			}
		}
	}
}

// depth dataflow -------------------------------------------------------------------------------

type emitSite struct {
	fn    *ssa.Function
	call  ssa.Instruction
	depth int
	typ   string
}

type depthAnalysis struct {
	c      *Ctx
	lr     *LexRoles
	r      *Report
	emits  []emitSite
	backup map[ssa.Instruction]int // min depth before each backup call
	memo   map[string]int
	bad    []string
}

const depthCap = 3

// run returns the min depth at the function's returns given the entry depth (−1 if no return).
func (d *depthAnalysis) run(fn *ssa.Function, entry int, stack int) int {
	if stack > 6 {
		return 0
	}
	in := make([]int, len(fn.Blocks))
	for i := range in {
		in[i] = -1 // unreached
	}
	in[0] = entry
	retMin := -1
	for iter := 0; iter < 50; iter++ {
		changed := false
		for _, b := range fn.Blocks {
			if in[b.Index] < 0 {
				continue
			}
			cur := in[b.Index]
			for _, ins := range b.Instrs {
				switch x := ins.(type) {
				case *ssa.Store:
					if fa, ok := x.Addr.(*ssa.FieldAddr); ok {
						fv := fieldVar(fa.X.Type(), fa.Field)
						if fv == d.lr.StartF {
							cur = 0
						}
					}
				case ssa.CallInstruction:
					sc := staticCallee(x)
					switch {
					case sc == nil:
					case sc == d.lr.Advance:
						if cur < depthCap {
							cur++
						}
					case sc == d.lr.Backup:
						if old, ok := d.backup[ins]; !ok || cur < old {
							d.backup[ins] = cur
						}
						if cur > 0 && cur < depthCap {
							cur--
						} else if cur == 0 {
							cur = 0
						}
					case sc == d.lr.ToTok || sc == d.lr.Emit:
						typ := ""
						if len(x.Common().Args) >= 2 {
							typ = d.c.key(x.Common().Args[1], nil)
						}
						found := false
						for i := range d.emits {
							if d.emits[i].call == ins {
								found = true
								if cur < d.emits[i].depth {
									d.emits[i].depth = cur
								}
							}
						}
						if !found {
							d.emits = append(d.emits, emitSite{fn, ins, cur, typ})
						}
						cur = 0
					case sc == d.lr.Errorf:
						cur = 0
					case fnPkgPath(sc) == pkgLex && sc.Signature.Recv() != nil && sc.Blocks != nil:
						if _, isPtr := sc.Signature.Recv().Type().(*types.Pointer); isPtr {
							res := d.run(sc, cur, stack+1)
							if res >= 0 {
								cur = res
							}
						}
					}
				case *ssa.Return:
					if retMin < 0 || cur < retMin {
						retMin = cur
					}
				}
			}
			for _, s := range b.Succs {
				if in[s.Index] < 0 || cur < in[s.Index] {
					in[s.Index] = cur
					changed = true
				}
			}
		}
		if !changed {
			break
		}
	}
	return retMin
}

func (c *Ctx) lexDepth(r *Report, lr *LexRoles) *depthAnalysis {
	d := &depthAnalysis{c: c, lr: lr, r: r, backup: map[ssa.Instruction]int{}, memo: map[string]int{}}
	for _, s := range lr.States {
		d.run(s, 0, 0)
	}
	return d
}

// LEX-DEPTH: every backup is preceded by at least one advance since start was set (pos ≥ start).
func ruleLEXDEPTH(c *Ctx, r *Report) {
	const rule = "LEX-DEPTH"
	r.doc(rule, "min-depth dataflow over each state function's CFG (depth = advances − backups since start was set; join = min; widened at 3; helper methods analysed in context): every backup call has min-depth ≥ 1, hence pos ≥ start always")
	lr := c.lexPreamble(r, rule)
	if lr == nil {
		return
	}
	d := c.lexDepth(r, lr)
	n := 0
	for ins, depth := range d.backup {
		n++
		f := ins.Parent()
		key := fmt.Sprintf("%s|backup#%s", fnName(f), c.callOrdinal(f, ins))
		if depth >= 1 {
			r.ok(rule, key, c.instrPos(ins), fmt.Sprintf("min depth %d", depth))
		} else {
			r.bad(rule, key, c.instrPos(ins), fmt.Sprintf("%s steps the cursor back on a path where nothing has been read since the token start: pos can fall below start, and the token text input[start:pos] panics or re-reads earlier input", fnName(f)))
		}
	}
	r.floor(rule, "backup call sites", n, 5)
}

func (c *Ctx) callOrdinal(f *ssa.Function, at ssa.Instruction) string {
	target := ""
	if call, ok := at.(ssa.CallInstruction); ok {
		target = calleeFullName(call)
	}
	n := 0
	for _, b := range f.Blocks {
		for _, in := range b.Instrs {
			if call, ok := in.(ssa.CallInstruction); ok && calleeFullName(call) == target && in.Pos() < at.Pos() {
				n++
			}
		}
	}
	return fmt.Sprint(n)
}

// advanceCalls on a path segment
func (c *Ctx) countCalls(instrs []ssa.Instruction, f *ssa.Function) int {
	n := 0
	for _, in := range instrs {
		if call, ok := in.(ssa.CallInstruction); ok && staticCallee(call) == f {
			n++
		}
	}
	return n
}

// atomFalseAt: does the atom evaluate to false when the rune with key rk has value rv?
func (c *Ctx) atomFalseAt(a Atom, rk string, rv int64) (isFalse bool, known bool) {
	switch a.Kind {
	case "cmp":
		if a.Subj != rk {
			return false, false
		}
		var n int64
		if _, err := fmt.Sscan(a.Val, &n); err != nil {
			return false, false
		}
		var res bool
		switch a.Op {
		case "==":
			res = rv == n
		case "!=":
			res = rv != n
		case "<":
			res = rv < n
		case "<=":
			res = rv <= n
		case ">":
			res = rv > n
		case ">=":
			res = rv >= n
		default:
			return false, false
		}
		return !res, true
	case "call":
		if a.Subj == "strings.ContainsRune" && strings.HasSuffix(a.Val, ","+rk) {
			// membership in a constant string
			if set, ok := runeSetOfKeyString(strings.TrimSuffix(a.Val, ","+rk)); ok && utf8.ValidString(set) {
				in := rv >= 0 && rv != utf8.RuneError && strings.ContainsRune(set, rune(rv))
				return in != a.Pos, true
			}
		}
		if strings.HasPrefix(a.Subj, "unicode.Is") && a.Val == rk && rv < 0 {
			// the unicode range predicates are false for every negative rune
			return a.Pos, true
		}
		if a.Fn == nil || a.Val != rk || !inModule(a.Fn) {
			return false, false
		}
		b, why := c.runePredAt(a.Fn, rv)
		if why != "" {
			return false, false
		}
		return b != a.Pos, true
	}
	return false, false
}

// cyclePaths: for each loop-free path that was cut at a back edge, the suffix forming one cycle.
type cyclePath struct {
	p      *Path
	head   *ssa.BasicBlock
	instrs []ssa.Instruction
	atoms  []Atom
}

func (c *Ctx) cyclePaths(fn *ssa.Function) ([]cyclePath, bool) {
	return c.cyclePathsOpt(fn, nil)
}

// lexInl: inlining options for reading the lexer's state functions: helper methods of the lexer (or
// functions taking the lexer) that return nothing or a next state are read in place — a scanning loop
// moved into such a helper, or two states merged into one parameterised helper, is then analysed as the
// code of the state that calls it, with the constant arguments of the call substituted. The rune
// primitives (advance, backup, emit, token cutting, errorf, Next, Peek), the states themselves and every
// helper that returns a rune or a token stay calls.
func (c *Ctx) lexInl(lr *LexRoles, boolToo bool) *InlineOpts {
	prim := map[*ssa.Function]bool{lr.Advance: true, lr.Backup: true, lr.Emit: true, lr.ToTok: true, lr.Errorf: true, lr.Next: true, lr.Peek: true, lr.LexCtor: true}
	for _, s := range lr.States {
		prim[s] = true
	}
	takesLexer := func(g *ssa.Function) bool {
		for _, p := range g.Params {
			t := p.Type()
			if pt, ok := t.(*types.Pointer); ok {
				t = pt.Elem()
			}
			if types.Identical(t, lr.Lexer) {
				return true
			}
		}
		return false
	}
	return &InlineOpts{Keep: prim, Pred: func(g *ssa.Function) bool {
		if prim[g] {
			return false
		}
		rs := g.Signature.Results()
		if rs.Len() == 1 && isBool(rs.At(0).Type()) {
			return boolToo && !takesLexer(g)
		}
		if !takesLexer(g) {
			return false
		}
		return rs.Len() == 0 || (rs.Len() == 1 && isFuncType(rs.At(0).Type()))
	}}
}

func (c *Ctx) lexPaths(lr *LexRoles, fn *ssa.Function, max int) ([]*Path, bool) {
	return c.enumPathsOpt(fn, max, c.lexInl(lr, false))
}

func (c *Ctx) cyclePathsOpt(fn *ssa.Function, o *InlineOpts) ([]cyclePath, bool) {
	// a cycle stands for an arbitrary iteration: values carried round the loop are unknown
	if o == nil {
		o = &InlineOpts{None: true, Havoc: true}
	} else {
		oc := *o
		oc.Havoc = true
		o = &oc
	}
	paths, complete := c.enumPathsOpt(fn, 5000, o)
	var out []cyclePath
	for _, p := range paths {
		if !p.Cut || p.CutTo == nil {
			continue
		}
		start := -1
		for i, in := range p.Instrs {
			if in.Block() == p.CutTo {
				start = i
				break
			}
		}
		if start < 0 {
			continue
		}
		cp := cyclePath{p: p, head: p.CutTo, instrs: p.Instrs[start:]}
		// atoms established within the cycle: those whose If is in the cycle's blocks
		inCycle := map[*ssa.BasicBlock]bool{}
		for _, in := range cp.instrs {
			inCycle[in.Block()] = true
		}
		for _, a := range p.Atoms {
			if in, ok := a.Src.(ssa.Instruction); ok && inCycle[in.Block()] {
				cp.atoms = append(cp.atoms, a)
			} else if _, isInstr := a.Src.(ssa.Instruction); !isInstr {
				cp.atoms = append(cp.atoms, a)
			}
		}
		out = append(out, cp)
	}
	return out, complete
}

// LEX-LOOP (C01/C16): every loop of every state function consumes a rune per cycle and leaves at EOF.
func ruleLEXLOOP(c *Ctx, r *Report) {
	const rule = "LEX-LOOP"
	r.doc(rule, "every cycle of every loop in the lexer's state functions passes a call of the rune-advance method, and with the rune = eof (−1) some condition on the cycle is false (constant folding of the rune predicates at eof), so end of input always leaves the loop; the state-transition relation read off the returns is acyclic")
	lr := c.lexPreamble(r, rule)
	if lr == nil {
		return
	}
	nCycles := 0
	for _, s := range lr.States {
		cps, complete := c.cyclePathsOpt(s, c.lexInl(lr, false))
		if !complete {
			r.bad(rule, fnName(s)+"|paths", c.pos(s.Pos()), "too many paths")
			continue
		}
		rk := fnName(lr.Advance) + "($0)"
		byHead := map[*ssa.BasicBlock]int{}
		for _, cp := range cps {
			nCycles++
			byHead[cp.head]++
			key := fmt.Sprintf("%s|cycle%d", fnName(s), byHead[cp.head])
			pos := c.instrPos(cp.head.Instrs[0])
			if c.countCalls(cp.instrs, lr.Advance) == 0 {
				r.bad(rule, key, pos, fnName(s)+" has a loop cycle that reads no rune: the lexer can spin forever on the same input position")
				continue
			}
			exits := false
			for _, a := range cp.atoms {
				if f, known := c.atomFalseAt(a, rk, -1); known && f {
					exits = true
				}
			}
			if exits {
				r.ok(rule, key, pos, "cycle reads a rune and is infeasible at eof")
			} else {
				r.bad(rule, key, pos, fmt.Sprintf("%s has a loop cycle that stays feasible when the rune read is end-of-input (conditions on the cycle: %s): at end of input the lexer loops forever", fnName(s), strings.Join(atomStrings(cp.atoms), " ∧ ")))
			}
		}
	}
	r.floor(rule, "loop cycles in state functions", nCycles, 8)
	// state transition graph
	edges := map[*ssa.Function]map[*ssa.Function]bool{}
	for _, s := range lr.States {
		edges[s] = map[*ssa.Function]bool{}
		for _, b := range s.Blocks {
			for _, in := range b.Instrs {
				ret, ok := in.(*ssa.Return)
				if !ok {
					continue
				}
				c.stateTargets(lr, ret.Results[0], edges[s], r, s, map[ssa.Value]bool{})
			}
		}
	}
	// cycle detection
	color := map[*ssa.Function]int{}
	var cyc []string
	var dfs func(f *ssa.Function, trail []string)
	dfs = func(f *ssa.Function, trail []string) {
		color[f] = 1
		for g := range edges[f] {
			if color[g] == 1 {
				cyc = append(trail, fnName(f), fnName(g))
			} else if color[g] == 0 {
				dfs(g, append(trail, fnName(f)))
			}
		}
		color[f] = 2
	}
	for _, s := range lr.States {
		if color[s] == 0 {
			dfs(s, nil)
		}
	}
	if len(cyc) > 0 {
		r.bad("LEX-STATES", "acyclic", c.pos(lr.Next.Pos()), "the lexer's state-transition relation has a cycle ("+strings.Join(cyc, " → ")+"): Next's state loop may not terminate")
	} else {
		var es []string
		for f, m := range edges {
			for g := range m {
				es = append(es, fnName(f)+"→"+fnName(g))
			}
		}
		sort.Strings(es)
		r.ok("LEX-STATES", "acyclic", c.pos(lr.Next.Pos()), strings.Join(es, " "))
	}
	r.doc("LEX-STATES", "the relation 'state f may return state g' is acyclic, so Next's state loop runs at most #states iterations per token")
}

func (c *Ctx) stateTargets(lr *LexRoles, v ssa.Value, out map[*ssa.Function]bool, r *Report, from *ssa.Function, seen map[ssa.Value]bool) {
	v = c.resolve(v, nil)
	if seen[v] {
		return
	}
	seen[v] = true
	switch x := v.(type) {
	case *ssa.Const:
		return // nil
	case *ssa.Function:
		out[x] = true
	case *ssa.Phi:
		for _, e := range x.Edges {
			c.stateTargets(lr, e, out, r, from, seen)
		}
	case *ssa.Call:
		f := x.Call.StaticCallee()
		if f == nil {
			r.bad("LEX-STATES", fnName(from)+"|dynamic-return", c.instrPos(x), "a state function returns the result of a dynamic call")
			return
		}
		for _, b := range f.Blocks {
			for _, in := range b.Instrs {
				if ret, ok := in.(*ssa.Return); ok && len(ret.Results) == 1 {
					c.stateTargets(lr, ret.Results[0], out, r, from, seen)
				}
			}
		}
	default:
		r.bad("LEX-STATES", fnName(from)+"|opaque-return", c.instrPos(v.(ssa.Instruction)), "a state function returns a state that cannot be resolved statically: "+c.key(v, nil))
	}
}

// LEX-FIRST: no state can emit an empty token.
func ruleLEXFIRST(c *Ctx, r *Report) {
	const rule = "LEX-FIRST"
	r.doc(rule, "progress of every token: every emit has min-depth ≥ 1, or — for emits reachable with depth 0 — every (dispatch path into the state) × (empty-token path of the state) pair is contradictory on the dispatched rune, so the first rune is always consumed")
	lr := c.lexPreamble(r, rule)
	if lr == nil {
		return
	}
	d := c.lexDepth(r, lr)
	rk := fnName(lr.Advance) + "($0)"
	// dispatch paths: for each state, paths returning another state with their atoms on the rune
	type dispatch struct {
		from  *ssa.Function
		atoms []Atom
		pos   string
		bkp   int // backups after the dispatching read
	}
	disp := map[*ssa.Function][]dispatch{}
	for _, s := range lr.States {
		paths, _ := c.enumPathsOpt(s, 20000, c.lexInl(lr, true))
		for _, p := range paths {
			if p.Ret == nil {
				continue
			}
			if g, ok := c.resolve(p.Ret.Results[0], p.Env).(*ssa.Function); ok {
				disp[g] = append(disp[g], dispatch{s, p.Atoms, c.instrPos(p.Ret), 0})
			}
		}
	}
	n := 0
	for _, es := range d.emits {
		n++
		key := fmt.Sprintf("%s|emit(%s)#%s", fnName(es.fn), es.typ, c.callOrdinal(es.fn, es.call))
		pos := c.instrPos(es.call)
		if es.depth >= 1 {
			r.ok(rule, key, pos, fmt.Sprintf("min depth %d", es.depth))
			continue
		}
		// zero-depth emit: enumerate the state's paths reaching this emit with advances == backups
		paths, _ := c.enumPathsOpt(es.fn, 20000, c.lexInl(lr, true))
		var empties []*Path
		for _, p := range paths {
			reaches := false
			var upto []ssa.Instruction
			for i, in := range p.Instrs {
				if in == es.call {
					reaches = true
					upto = p.Instrs[:i]
					break
				}
			}
			if !reaches {
				continue
			}
			if c.countCalls(upto, lr.Advance)-c.countCalls(upto, lr.Backup) <= 0 {
				empties = append(empties, p)
			}
		}
		ds := disp[es.fn]
		if es.fn == lr.Initial && len(empties) > 0 {
			r.bad(rule, key, pos, "the initial state can emit a token without consuming a rune")
			continue
		}
		if len(ds) == 0 && len(empties) > 0 {
			r.bad(rule, key, pos, fnName(es.fn)+" can emit an empty token and no dispatching state constrains its first rune")
			continue
		}
		okAll := true
		var witness string
		for _, dp := range ds {
			for _, ep := range empties {
				// rename: both use the key of the advance call on $0
				var da, ea []Atom
				for _, a := range dp.atoms {
					if a.Subj == rk || a.Val == rk {
						da = append(da, a)
					}
				}
				for _, a := range ep.Atoms {
					if a.Subj == rk || a.Val == rk {
						ea = append(ea, a)
					}
				}
				if !contradicts(da, ea) {
					okAll = false
					witness = fmt.Sprintf("dispatch from %s under [%s] is compatible with the empty-token path [%s]", fnName(dp.from), strings.Join(atomStrings(da), " ∧ "), strings.Join(atomStrings(ea), " ∧ "))
				}
			}
		}
		if okAll {
			r.ok(rule, key, pos, fmt.Sprintf("%d dispatch × %d empty-token path pairs all contradictory", len(ds), len(empties)))
		} else {
			r.bad(rule, key, pos, fnName(es.fn)+" can emit an empty token: "+witness+" — the stream would never advance (endless identical tokens)")
		}
	}
	r.floor(rule, "emit sites", n, 5)
}

// WS-SET / LEX-SKIP (C09, C16)
func ruleWSSET(c *Ctx, r *Report) {
	const rule = "WS-SET"
	r.doc(rule, "the initial (skipping) state discards exactly runes compared equal to constants ⊇ {space, \\t, \\n, \\r}; none of these continues a word (constant folding of the word state's cycle conditions at each), and the skipping state is entered before every token")
	lr := c.lexPreamble(r, rule)
	if lr == nil {
		return
	}
	rk := fnName(lr.Advance) + "($0)"
	cps, _ := c.cyclePathsOpt(lr.Initial, c.lexInl(lr, false))
	skipped := map[int64]bool{}
	for _, cp := range cps {
		one := false
		for _, a := range cp.atoms {
			if a.Kind == "cmp" && a.Subj == rk && a.Op == "==" {
				var n int64
				if _, err := fmt.Sscan(a.Val, &n); err == nil {
					skipped[n] = true
					one = true
				}
			}
			if a.Kind == "call" && a.Pos && a.Val == rk && a.Fn != nil {
				// a predicate such as isSpace(r): fold it at the four required runes
				for _, w := range []int64{' ', '\t', '\n', '\r'} {
					if b, why := c.runePredAt(a.Fn, w); why == "" && b {
						skipped[w] = true
						one = true
					}
				}
			}
		}
		if !one {
			r.bad(rule, "skip|unconstrained-cycle", c.instrPos(cp.head.Instrs[0]), "the skipping state has a cycle that discards a rune without testing that it is whitespace (LEX-SKIP: only whitespace may be dropped between tokens)")
		}
	}
	// runes that are NOT whitespace of the query language must not be skipped: fold every cycle of the
	// skipping state at a probe set (other Unicode spaces, controls, and ordinary token characters)
	probes := map[int64]string{'\v': "vertical tab", '\f': "form feed", 0x85: "U+0085 NEL", 0xA0: "U+00A0 no-break space", 0x2028: "U+2028 line separator", 0x3000: "U+3000 ideographic space", 0: "NUL", '#': "#", 'a': "a", '0': "0", '"': "quote", '(': "("}
	var pks []int64
	for p := range probes {
		pks = append(pks, p)
	}
	sort.Slice(pks, func(i, j int) bool { return pks[i] < pks[j] })
	for _, pr := range pks {
		for _, cp := range cps {
			infeasible, unknown := false, false
			for _, a := range cp.atoms {
				if a.Subj != rk && a.Val != rk {
					continue
				}
				f, known := c.atomFalseAt(a, rk, pr)
				if !known {
					unknown = true
				} else if f {
					infeasible = true
				}
			}
			if infeasible {
				continue
			}
			key := fmt.Sprintf("skip|extra|%s", probes[pr])
			if unknown {
				r.bad(rule, key, c.pos(lr.Initial.Pos()), fmt.Sprintf("cannot establish that the skipping state does not discard %s (condition not foldable)", probes[pr]))
			} else {
				r.bad(rule, key, c.pos(lr.Initial.Pos()), fmt.Sprintf("the skipping state discards %s, which is not whitespace of the query language (space, tab, newline, carriage return): such a character is dropped silently instead of being a lexical error or part of a term", probes[pr]))
			}
		}
	}
	names := map[int64]string{' ': "space", '\t': "tab", '\n': "newline", '\r': "carriage-return"}
	for _, w := range []int64{' ', '\t', '\n', '\r'} {
		if skipped[w] {
			r.ok(rule, "skip|"+names[w], c.pos(lr.Initial.Pos()), "skipped between tokens")
		} else {
			r.bad(rule, "skip|"+names[w], c.pos(lr.Initial.Pos()), names[w]+" is not skipped between tokens")
		}
	}
	for w := range skipped {
		if names[w] == "" {
			r.bad(rule, fmt.Sprintf("skip|extra|%d", w), c.pos(lr.Initial.Pos()), fmt.Sprintf("the skipping state discards rune %q, which is not whitespace: query content would be dropped", rune(w)))
		}
	}
	// no whitespace rune continues a bare word or is a symbol / opener: fold every other state's
	// first-cycle conditions; we check the word-like states: those reached from the dispatcher whose
	// cycle conditions do not compare with an opener
	for _, s := range lr.States {
		if s == lr.Initial {
			continue
		}
		// a state that emits a quoted/regexp token keeps whitespace by design
		if c.emitsConst(lr, s, "lex.TQuoted") || c.emitsConst(lr, s, "lex.TRegexp") {
			continue
		}
		cps, _ := c.cyclePathsOpt(s, c.lexInl(lr, false))
		// no reserved symbol continues a bare word either (a field name glued to its colon and value must
		// split at the colon whatever the neighbouring characters are)
		for _, w := range []int64{'(', ')', '[', ']', '{', '}', ':', '+', '=', '>', '<', '~', '^', '"', '\''} {
			for i, cp := range cps {
				infeasible := false
				for _, a := range cp.atoms {
					if f, known := c.atomFalseAt(a, rk, w); known && f {
						infeasible = true
					}
					if a.Kind == "call" && a.Val == rk {
						if b, ok := c.tablePredAt(a, w); ok && b != a.Pos {
							infeasible = true
						}
					}
				}
				key := fmt.Sprintf("%s|cycle%d|symbol %q", fnName(s), i, rune(w))
				if infeasible {
					r.ok(rule, key, c.pos(s.Pos()), "cycle infeasible at this rune")
				} else {
					r.bad(rule, key, c.pos(s.Pos()), fmt.Sprintf("%s keeps reading over the reserved symbol %q under some condition (%s): whether the symbol separates two tokens then depends on the characters around it, so spacing or parentheses change the tree", fnName(s), rune(w), strings.Join(atomStrings(cp.atoms), " ∧ ")))
				}
			}
		}
		for _, w := range []int64{' ', '\t', '\n', '\r'} {
			for i, cp := range cps {
				infeasible := false
				for _, a := range cp.atoms {
					if f, known := c.atomFalseAt(a, rk, w); known && f {
						infeasible = true
					}
				}
				key := fmt.Sprintf("%s|cycle%d|%s", fnName(s), i, names[w])
				if infeasible {
					r.ok(rule, key, c.pos(s.Pos()), "cycle infeasible at this rune")
				} else {
					r.bad(rule, key, c.pos(s.Pos()), fmt.Sprintf("%s keeps reading over %s: whitespace would join two terms into one token", fnName(s), names[w]))
				}
			}
		}
	}
	if lr.Initial != nil {
		r.ok(rule, "initial-state", c.pos(lr.Next.Pos()), "Next starts in "+fnName(lr.Initial))
	}
}

func (c *Ctx) emitsConst(lr *LexRoles, s *ssa.Function, typ string) bool {
	memo := "emits:" + fnName(s)
	var set map[string]bool
	if v, ok := c.roles[memo]; ok {
		set = v.(map[string]bool)
	} else {
		set = map[string]bool{}
		// path-based, helpers read in place: the token type may be a constant argument of the helper
		paths, _ := c.lexPaths(lr, s, 5000)
		for _, p := range paths {
			for _, pc := range p.Calls {
				sc := pc.Call.Call.StaticCallee()
				if (sc == lr.Emit || sc == lr.ToTok) && len(pc.Args) >= 2 {
					set[pc.Args[1]] = true
				}
			}
		}
		c.roles[memo] = set
	}
	return set[typ]
}

// KW-CASE (C09)
func ruleKWCASE(c *Ctx, r *Report) {
	const rule = "KW-CASE"
	r.doc(rule, "wherever package lex produces a keyword token type (as the argument of the emit method or as the result of a classification helper), the dominating condition compares the case-normalised word (strings.ToUpper / EqualFold) with the keyword; the mapping is exactly AND→TAnd, OR→TOr, NOT→TNot, TO→TTO")
	lr := c.lexPreamble(r, rule)
	if lr == nil {
		return
	}
	want := map[string]string{"lex.TAnd": "AND", "lex.TOr": "OR", "lex.TNot": "NOT", "lex.TTO": "TO"}
	found := map[string]bool{}
	check := func(in ssa.Instruction, fn *ssa.Function, typ string, subst [][]string) {
		kw := want[typ]
		found[typ] = true
		key := "keyword|" + kw
		okNorm := false
		var got []string
		for _, a := range c.atomsAt(in) {
			subjs := []string{a.Subj}
			vals := []string{a.Val}
			for _, args := range subst {
				subjs = append(subjs, substParams(a.Subj, args))
				vals = append(vals, substParams(a.Val, args))
			}
			for si, subj := range subjs {
				if a.Kind == "cmp" && a.Op == "==" && strings.HasPrefix(a.Val, `"`) {
					got = append(got, subj+"=="+a.Val)
					if strings.Contains(subj, "strings.ToUpper(") && a.Val == fmt.Sprintf("%q", kw) {
						okNorm = true
					}
				}
				if a.Kind == "call" && a.Pos && a.Subj == "strings.EqualFold" && strings.Contains(vals[si], fmt.Sprintf("%q", kw)) {
					okNorm = true
				}
			}
		}
		if okNorm {
			r.ok(rule, key, c.instrPos(in), "matched on the upper-cased word")
		} else {
			r.bad(rule, key, c.instrPos(in), fmt.Sprintf("the %s keyword token type is produced without a case-insensitive comparison of the word with %q (conditions: %s): `%s` would become a plain term", kw, kw, strings.Join(uniq(got), " ∧ "), strings.ToLower(kw)))
		}
	}
	// the keyword table form: the token type is the value found in a package-level map keyed by the
	// upper-cased word, used under the lookup's found flag
	kwTables := map[*ssa.Global]bool{}
	checkMap := func(in ssa.Instruction, v ssa.Value) {
		ex, ok := c.resolve(v, nil).(*ssa.Extract)
		if !ok || ex.Index != 0 {
			return
		}
		lk, ok := ex.Tuple.(*ssa.Lookup)
		if !ok || !lk.CommaOk {
			return
		}
		ld, ok := lk.X.(*ssa.UnOp)
		if !ok {
			return
		}
		g, ok := ld.X.(*ssa.Global)
		if !ok || g.Pkg == nil {
			return
		}
		tb := c.readTable(g.Pkg.Pkg.Path(), g.Name())
		if tb.Err != "" {
			r.bad(rule, "keyword-table|"+g.Name(), c.instrPos(in), "keyword table cannot be read: "+tb.Err)
			return
		}
		kwTables[g] = true
		idxKey := c.key(lk.Index, nil)
		guarded := false
		for _, a := range c.atomsAt(in) {
			if a.Kind == "call" && a.Pos && a.Subj == "haskey:"+c.key(lk.X, nil) && a.Val == idxKey {
				guarded = true
			}
		}
		norm := strings.Contains(idxKey, "strings.ToUpper(")
		got := map[string]string{}
		for _, e := range tb.Entries {
			if s, ok := constStringVal(e.Key); ok {
				got[s] = c.key(e.Val, nil)
			}
		}
		for typ, kw := range want {
			found[typ] = true
			key := "keyword|" + kw
			switch {
			case got[kw] != typ:
				r.bad(rule, key, c.instrPos(in), fmt.Sprintf("the keyword table maps %q to %q; it must be %s", kw, got[kw], typ))
			case !norm:
				r.bad(rule, key, c.instrPos(in), fmt.Sprintf("the keyword table is consulted with %s, not with the upper-cased word: `%s` would become a plain term", idxKey, strings.ToLower(kw)))
			case !guarded:
				r.bad(rule, key, c.instrPos(in), "the value looked up in the keyword table is used without its found flag: a word that is no keyword gets the zero token type")
			default:
				r.ok(rule, key, c.instrPos(in), "keyword table entry, consulted with the upper-cased word under the found flag")
			}
		}
		for k, v := range got {
			isWant := false
			for typ, kw := range want {
				if k == kw && v == typ {
					isWant = true
				}
			}
			if !isWant {
				r.bad(rule, "keyword-table|extra|"+k, c.instrPos(in), fmt.Sprintf("the keyword table has the entry %q → %s: that word is no longer a plain term", k, v))
			}
		}
	}
	for _, f := range c.Funcs {
		if fnPkgPath(f) != pkgLex {
			continue
		}
		// call sites of f (for helpers: the word may be normalised by the caller)
		var subst [][]string
		for _, g := range c.Funcs {
			if fnPkgPath(g) != pkgLex {
				continue
			}
			for _, b := range g.Blocks {
				for _, in := range b.Instrs {
					if call, ok := in.(ssa.CallInstruction); ok && staticCallee(call) == f {
						var args []string
						for _, a := range call.Common().Args {
							args = append(args, c.key(a, nil))
						}
						subst = append(subst, args)
					}
				}
			}
		}
		for _, b := range f.Blocks {
			for _, in := range b.Instrs {
				switch x := in.(type) {
				case ssa.CallInstruction:
					sc := staticCallee(x)
					if (sc == lr.Emit || (lr.ToTok != nil && sc == lr.ToTok)) && len(x.Common().Args) >= 2 {
						if typ := c.key(x.Common().Args[1], nil); want[typ] != "" {
							check(in, f, typ, subst)
						} else {
							checkMap(in, x.Common().Args[1])
						}
					}
				case *ssa.Return:
					if len(x.Results) == 1 && isNamed(x.Results[0].Type(), pkgLex, "TokType") {
						if k, ok := x.Results[0].(*ssa.Const); ok {
							if typ := c.constName(k); want[typ] != "" {
								check(in, f, typ, subst)
							}
						} else {
							checkMap(in, x.Results[0])
						}
					}
				}
			}
		}
	}
	for typ, kw := range want {
		if !found[typ] {
			r.bad(rule, "keyword|"+kw, "-", "package lex never produces "+typ+" for the keyword "+kw)
		}
	}
	// conversely: wherever a function that classifies keywords produces TLiteral, the word is known not
	// to be a keyword (all four excluded) — otherwise a keyword is a term or an operator depending on
	// something else (e.g. the character that follows)
	for _, f := range c.Funcs {
		if fnPkgPath(f) != pkgLex {
			continue
		}
		producesKW := false
		type site struct {
			in ssa.Instruction
		}
		var lits []ssa.Instruction
		for _, b := range f.Blocks {
			for _, in := range b.Instrs {
				typ := ""
				switch x := in.(type) {
				case ssa.CallInstruction:
					sc := staticCallee(x)
					if (sc == lr.Emit || (lr.ToTok != nil && sc == lr.ToTok)) && len(x.Common().Args) >= 2 {
						typ = c.key(x.Common().Args[1], nil)
					}
				case *ssa.Return:
					if len(x.Results) == 1 && isNamed(x.Results[0].Type(), pkgLex, "TokType") {
						if k, ok := x.Results[0].(*ssa.Const); ok {
							typ = c.constName(k)
						}
					}
				}
				if want[typ] != "" {
					producesKW = true
				}
				if strings.HasPrefix(typ, "@lex.") && strings.HasSuffix(typ, "#0") {
					for g := range kwTables {
						if strings.HasPrefix(typ, "@lex."+g.Name()+"[") {
							producesKW = true
						}
					}
				}
				if typ == "lex.TLiteral" {
					lits = append(lits, in)
				}
			}
		}
		if !producesKW {
			continue
		}
		for _, in := range lits {
			excluded := map[string]bool{}
			for _, a := range c.atomsAt(in) {
				if a.Kind == "cmp" && a.Op == "!=" && strings.HasPrefix(a.Val, `"`) {
					excluded[strings.Trim(a.Val, `"`)] = true
				}
				// a failed lookup of the upper-cased word in the keyword table excludes all its keys
				if a.Kind == "call" && !a.Pos && strings.HasPrefix(a.Subj, "haskey:@lex.") && strings.Contains(a.Val, "strings.ToUpper(") {
					for g := range kwTables {
						if a.Subj == "haskey:@lex."+g.Name() {
							for _, e := range c.readTable(pkgLex, g.Name()).Entries {
								if s, ok := constStringVal(e.Key); ok {
									excluded[s] = true
								}
							}
						}
					}
				}
			}
			var missing []string
			for _, kw := range []string{"AND", "NOT", "OR", "TO"} {
				if !excluded[kw] {
					missing = append(missing, kw)
				}
			}
			key := fnName(f) + "|literal-excludes-keywords"
			if len(missing) == 0 {
				r.ok(rule, key, c.instrPos(in), "a plain term is produced only when the word is none of the keywords")
			} else {
				r.bad(rule, key, c.instrPos(in), fmt.Sprintf("%s can classify a word as a plain term without having excluded the keywords %v: the same spelling is an operator in one context and a term in another (e.g. depending on the next character or on whitespace)", fnName(f), missing))
			}
		}
	}
}

// PHRASE-LOOP (C08)
func rulePHRASELOOP(c *Ctx, r *Report) {
	const rule = "PHRASE-LOOP"
	r.doc(rule, "in the state that emits TQuoted: the loop's only exits are rune == opening quote → emit and eof → error; every cycle performs exactly one advance and no backup (no in-phrase processing can drop or re-read bytes); whether the token closes is decided by the rune just read alone — no other state (a nesting depth, a flag) takes part")
	delimLoop(c, r, rule, "lex.TQuoted", "phrase", 1)
}

// REGEXP-LOOP: the same for the /…/ state, where a cycle may take two advances (an escape and the rune it protects).
func ruleREGEXPLOOP(c *Ctx, r *Report) {
	const rule = "REGEXP-LOOP"
	r.doc(rule, "in the state that emits TRegexp: the loop's only exits are rune == opening delimiter → emit and eof → error; every cycle performs one advance (two for an escape and the rune it protects) and no backup; whether the token closes is decided by the rune just read alone — no other state (a character-class depth, a flag) takes part, so an unescaped delimiter always ends the token and nothing after it is swallowed")
	delimLoop(c, r, rule, "lex.TRegexp", "regexp", 2)
}

func delimLoop(c *Ctx, r *Report, rule, tokConst, what string, maxAdv int) {
	lr := c.lexPreamble(r, rule)
	if lr == nil {
		return
	}
	var ph *ssa.Function
	for _, s := range lr.States {
		if c.emitsConst(lr, s, tokConst) {
			ph = s
		}
	}
	if ph == nil {
		r.bad(rule, "state", "-", "no lexer state emits "+tokConst)
		return
	}
	cps, _ := c.cyclePathsOpt(ph, c.lexInl(lr, false))
	for i, cp := range cps {
		adv, bk := c.countCalls(cp.instrs, lr.Advance), c.countCalls(cp.instrs, lr.Backup)
		key := fmt.Sprintf("%s|cycle%d", fnName(ph), i)
		if adv >= 1 && adv <= maxAdv && bk == 0 {
			r.ok(rule, key, c.pos(ph.Pos()), fmt.Sprintf("%d advance(s), no backup", adv))
		} else {
			r.bad(rule, key, c.pos(ph.Pos()), fmt.Sprintf("a cycle of the %s loop performs %d advance(s) and %d backup(s): characters inside the delimiters are skipped or re-read (e.g. a backslash swallowing the closing delimiter)", what, adv, bk))
		}
	}
	r.floor(rule, what+" loop cycles", len(cps), 2)
	// exits: paths that leave the loop (reach a return) after at least two advances
	paths, _ := c.lexPaths(lr, ph, 5000)
	rk := fnName(lr.Advance) + "($0)"
	for _, p := range paths {
		if p.Ret == nil {
			continue
		}
		emitsQ, errs := false, false
		for _, pc := range p.Calls {
			sc := pc.Call.Call.StaticCallee()
			if sc == lr.Emit || sc == lr.ToTok {
				if len(pc.Args) >= 2 && pc.Args[1] == tokConst {
					emitsQ = true
				} else {
					r.bad(rule, fnName(ph)+"|exit|other-token", c.instrPos(pc.Call), "the "+what+" state emits a token other than "+tokConst)
				}
			}
			if sc == lr.Errorf {
				errs = true
			}
		}
		key := fnName(ph) + "|exit"
		switch {
		case emitsQ:
			// the last comparison must be rune == opener (the first rune read)
			okOpen := false
			for _, a := range p.Atoms {
				if a.Kind == "cmp" && a.Op == "==" && a.Subj == rk && a.Val == rk {
					okOpen = true
				}
			}
			// … and nothing but the rune just read takes part in the decision
			foreign := ""
			for _, a := range p.Atoms {
				if strings.Contains(a.Subj, rk) || strings.Contains(a.Val, rk) {
					continue
				}
				aboutRune := false
				for _, av := range a.Args {
					if c.key(av, p.Env) == rk {
						aboutRune = true
					}
				}
				if !aboutRune {
					foreign = a.String()
				}
			}
			switch {
			case !okOpen:
				r.bad(rule, key+"|close", c.instrPos(p.Ret), tokConst+" is emitted on a path that does not compare the rune with the opening delimiter")
			case foreign != "":
				r.bad(rule, key+"|close|state", c.instrPos(p.Ret), fmt.Sprintf("whether the %s closes depends on %s, not only on the rune just read: an unescaped delimiter can be read without ending the token, so the text after it (operators, other fields) is swallowed into the leaf", what, foreign))
			default:
				r.ok(rule, key+"|close", c.instrPos(p.Ret), "closes on the opening delimiter, decided by the rune alone")
			}
		case errs:
			eof := false
			for _, a := range p.Atoms {
				if a.Kind == "cmp" && a.Op == "==" && a.Subj == rk && a.Val == "-1" {
					eof = true
				}
			}
			if eof {
				r.ok(rule, key+"|eof", c.instrPos(p.Ret), "an unterminated "+what+" is an error")
			} else {
				r.bad(rule, key+"|error", c.instrPos(p.Ret), "the "+what+" state raises an error for something other than end of input: some text between the delimiters is rejected")
			}
		default:
			r.bad(rule, key+"|silent", c.instrPos(p.Ret), "the "+what+" state can return without emitting "+tokConst+" or an error")
		}
	}
}

// PARSE-ERR (C16): Parse cannot succeed on a lexical error.
func rulePARSEERR(c *Ctx, r *Report) {
	const rule = "PARSE-ERR"
	r.doc(rule, "a lexical error cannot be accepted: ACCEPT requires TEOF from Peek; the shift predicate never shifts TErr (table row S1); after an error the stream reports EOF with TErr pending, so the reduce path runs out of stack and fails — here: error tokens carry Typ TErr, which differs from TEOF, and the shift predicate's first tests reject TEOF/TErr")
	neverShiftEnd(c, r, rule, "the shift predicate shifts an error or end-of-input token for some operator on the stack: a lexical error could end up inside an accepted tree")
}

// SHIFT-END (C01): the same table fact read for termination — the lexer keeps answering TEOF (and, after an
// error, TEOF again) without consuming anything, so a parse loop that shifts the end-of-input token never stops.
func ruleSHIFTEND(c *Ctx, r *Report) {
	const rule = "SHIFT-END"
	r.doc(rule, "the shift predicate, extracted as a table over all TokType × TokType pairs, never shifts TEOF or TErr whatever operator is on top of the stack: reading the end of input consumes nothing (the lexer reports it again on every call), so shifting it would make the parse loop run forever while the stack grows")
	neverShiftEnd(c, r, rule, "the shift predicate shifts the end-of-input (or error) token for some operator on the stack: the lexer reports end of input again on the next call, so the parse loop shifts forever")
}

func neverShiftEnd(c *Ctx, r *Report, rule, msg string) {
	pr := c.parserPreamble(r, rule)
	if pr == nil {
		return
	}
	toks := c.tokTypeConsts()
	var domain []int64
	for _, v := range toks {
		domain = append(domain, v)
	}
	var argKeys []string
	for i := range pr.ShouldShift.Params {
		argKeys = append(argKeys, fmt.Sprintf("$%d", i))
	}
	leaves, table, why := c.decisionTable(pr.ShouldShift, argKeys, domain)
	if why != "" || len(leaves) != 2 {
		r.bad(rule, "shift-table", c.pos(pr.ShouldShift.Pos()), "shift predicate not extractable: "+why)
		return
	}
	nextIdx := 0
	if !strings.HasPrefix(leaves[0], fmt.Sprintf("$%d.", len(pr.ShouldShift.Params)-1)) {
		nextIdx = 1
	}
	bad := 0
	for _, cv := range domain {
		for _, name := range []string{"TErr", "TEOF"} {
			tuple := []int64{toks[name], cv}
			if nextIdx == 1 {
				tuple = []int64{cv, toks[name]}
			}
			if table[fmt.Sprint(tuple)] {
				bad++
			}
		}
	}
	if bad == 0 {
		r.ok(rule, "never-shift-err-eof", c.pos(pr.ShouldShift.Pos()), fmt.Sprintf("%d (curr, Err/EOF) pairs all reduce", 2*len(domain)))
	} else {
		r.bad(rule, "never-shift-err-eof", c.pos(pr.ShouldShift.Pos()), msg)
	}
}

// LEX-DISPATCH (C16/C06): the first-rune dispatch of the lexer as a table over all ASCII runes.
func ruleLEXDISPATCH(c *Ctx, r *Report) {
	const rule = "LEX-DISPATCH"
	r.doc(rule, "the dispatching state (the one that sets start = pos) folded at every ASCII rune and two non-ASCII probes: the set of feasible outcomes (token type emitted / next state / lexical error) is compared with the oracle — the 13 symbols give their token types, letters digits _ * ? \\ start a word, quotes a phrase, / a regexp, - a minus or a number, everything else is a lexical error")
	lr := c.lexPreamble(r, rule)
	if lr == nil {
		return
	}
	var disp *ssa.Function
	for _, fs := range c.lexStores(lr) {
		if fs.field == lr.StartF {
			for _, s := range lr.States {
				if s == fs.fn {
					disp = s
				}
			}
		}
	}
	if disp == nil {
		r.bad(rule, "dispatcher", "-", "no state function sets start = pos (token start)")
		return
	}
	rk := fnName(lr.Advance) + "($0)"
	paths, complete := c.lexPaths(lr, disp, 5000)
	if !complete {
		r.bad(rule, "paths", c.pos(disp.Pos()), "too many paths")
		return
	}
	symTok := map[rune]string{'(': "TLParen", ')': "TRParen", '[': "TLSquare", ']': "TRSquare", '{': "TLCurly", '}': "TRCurly", ':': "TColon", '+': "TPlus", '=': "TEqual", '>': "TGreater", '<': "TLess", '~': "TTilde", '^': "TCarrot"}
	// which states consume which kind of token
	kindOf := func(f *ssa.Function) string {
		switch {
		case c.emitsConst(lr, f, "lex.TQuoted"):
			return "phrase"
		case c.emitsConst(lr, f, "lex.TRegexp"):
			return "regexp"
		}
		return "word"
	}
	oracle := func(ch rune) []string {
		switch {
		case symTok[ch] != "":
			return []string{"tok:" + symTok[ch]}
		case ch == '_' || ch == '*' || ch == '?' || ch == '\\' || ch >= '0' && ch <= '9' || ch >= 'a' && ch <= 'z' || ch >= 'A' && ch <= 'Z' || ch == 0xE9:
			return []string{"state:word"}
		case ch == '"' || ch == '\'':
			return []string{"state:phrase"}
		case ch == '/':
			return []string{"state:regexp"}
		case ch == '-':
			return []string{"state:word", "tok:TMinus"}
		}
		return []string{"error"}
	}
	probes := []rune{}
	for ch := rune(0); ch < 128; ch++ {
		if ch == ' ' || ch == '\t' || ch == '\n' || ch == '\r' {
			continue // consumed by the skipping state before the dispatcher runs
		}
		probes = append(probes, ch)
	}
	probes = append(probes, 0xE9, 0x20AC)
	nOK, nBad := 0, 0
	for _, ch := range probes {
		got := map[string]bool{}
		undecided := ""
		for _, p := range paths {
			feasible := true
			for _, a := range p.Atoms {
				if a.Subj != rk && a.Val != rk {
					continue
				}
				f, known := c.atomFalseAt(a, rk, int64(ch))
				if known && f {
					feasible = false
				}
				if !known && a.Kind == "call" && a.Val == rk {
					// membership in a constant table (isSymbol) or an unmodelled predicate
					if b, ok := c.tablePredAt(a, int64(ch)); ok {
						if b != a.Pos {
							feasible = false
						}
					} else {
						undecided = a.String()
					}
				}
			}
			if !feasible {
				continue
			}
			out := ""
			for _, in := range p.Instrs {
				call, ok := in.(ssa.CallInstruction)
				if !ok {
					continue
				}
				sc := staticCallee(call)
				switch {
				case sc == lr.Errorf:
					out = "error"
				case sc == lr.Emit || (lr.ToTok != nil && sc == lr.ToTok):
					out = "tok:" + c.tokArgAt(call.Common().Args[1], rk, int64(ch))
				}
			}
			if p.Ret != nil && out == "" {
				if g, ok := c.resolve(p.Ret.Results[0], p.Env).(*ssa.Function); ok {
					out = "state:" + kindOf(g)
				} else {
					out = "none"
				}
			}
			if out != "" {
				got[out] = true
			}
		}
		want := oracle(ch)
		gs := setKeys(got)
		sort.Strings(want)
		key := fmt.Sprintf("rune|%q", ch)
		if undecided != "" {
			nBad++
			r.bad(rule, key, c.pos(disp.Pos()), fmt.Sprintf("cannot fold the dispatch condition %s at %q", undecided, ch))
			continue
		}
		if strings.Join(gs, ",") == strings.Join(want, ",") {
			nOK++
			continue
		}
		nBad++
		if nBad <= 10 {
			r.bad(rule, key, c.pos(disp.Pos()), fmt.Sprintf("a token starting with %q is dispatched to %v; the query language requires %v (a character that cannot start a token must be a lexical error; symbols must give their operator token)", ch, gs, want))
		}
	}
	if nBad == 0 {
		r.ok(rule, "table", c.pos(disp.Pos()), fmt.Sprintf("%d first runes folded through %s, all outcomes agree with the oracle", nOK, fnName(disp)))
	}
	r.extra["lex_dispatch_runes"] = len(probes)
}

// tablePredAt: a helper predicate that is a membership test in a constant rune-keyed table.
func (c *Ctx) tablePredAt(a Atom, rv int64) (bool, bool) {
	if a.Fn == nil || !inModule(a.Fn) {
		return false, false
	}
	b, why := c.runePredAt(a.Fn, rv)
	if why != "" {
		return false, false
	}
	return b, true
}

// tokArgAt: the token type passed to emit, evaluated at the dispatched rune (constant, or a lookup
// in a constant table keyed by the rune, or a helper call on the rune).
func (c *Ctx) tokArgAt(v ssa.Value, rk string, rv int64) string {
	v = c.resolve(v, nil)
	if k, ok := v.(*ssa.Const); ok {
		return strings.TrimPrefix(c.constName(k), "lex.")
	}
	toks := c.tokTypeConsts()
	name := func(n int64) string {
		for k, val := range toks {
			if val == n {
				return k
			}
		}
		return fmt.Sprint(n)
	}
	// element of a package-level array table indexed by the rune
	if ld, ok := v.(*ssa.UnOp); ok {
		if ia, ok := ld.X.(*ssa.IndexAddr); ok {
			if g, ok := ia.X.(*ssa.Global); ok && g.Pkg != nil {
				tb := c.readTable(g.Pkg.Pkg.Path(), g.Name())
				if tb.Err == "" && tb.Array {
					for _, e := range tb.Entries {
						if n, ok := constIntVal(e.Key); ok && n == rv {
							if kv, ok := e.Val.(*ssa.Const); ok {
								return strings.TrimPrefix(c.constName(kv), "lex.")
							}
						}
					}
					return "zero-value"
				}
			}
		}
	}
	if lk, ok := v.(*ssa.Lookup); ok {
		if ld, ok := lk.X.(*ssa.UnOp); ok {
			if g, ok := ld.X.(*ssa.Global); ok {
				tb := c.readTable(g.Pkg.Pkg.Path(), g.Name())
				for _, e := range tb.Entries {
					if n, ok := constIntVal(e.Key); ok && n == rv {
						if kv, ok := e.Val.(*ssa.Const); ok {
							return strings.TrimPrefix(c.constName(kv), "lex.")
						}
					}
				}
				return "zero-value"
			}
		}
	}
	exIdx := 0
	if ex, ok := v.(*ssa.Extract); ok {
		v = ex.Tuple
		exIdx = ex.Index
	}
	if call, ok := v.(*ssa.Call); ok && call.Call.StaticCallee() != nil && inModule(call.Call.StaticCallee()) && len(call.Call.Args) == 1 {
		ev := &enumEval{c: c, asg: map[string]int64{"$0": rv}}
		f := call.Call.StaticCallee()
		if res, ok := ev.callFn(f, []string{"$0"}); ok {
			if tuple, isT := res.([]any); isT && exIdx < len(tuple) {
				res = tuple[exIdx]
			}
			if n, isInt := res.(int64); isInt {
				return name(n)
			}
		}
	}
	return "?" + c.key(v, nil)
}

// LEX-MINUS (C05/C06/C09): whether '-' is a sign or the prohibit operator depends on the next rune only.
func ruleLEXMINUS(c *Ctx, r *Report) {
	const rule = "LEX-MINUS"
	r.doc(rule, "on the dispatcher's paths for the rune '-', every condition other than the tests on the dispatched rune itself is a digit test on the one-rune look-ahead (or the end-of-input guard of that look-ahead): the decision does not scan further ahead, so what follows the number — a closing parenthesis, a suffix operator, another bracket — cannot turn a negative number into a prohibited term")
	lr := c.lexPreamble(r, rule)
	if lr == nil {
		return
	}
	var disp *ssa.Function
	for _, fs := range c.lexStores(lr) {
		if fs.field == lr.StartF {
			for _, s := range lr.States {
				if s == fs.fn {
					disp = s
				}
			}
		}
	}
	if disp == nil {
		r.bad(rule, "dispatcher", "-", "no state function sets start = pos (token start)")
		return
	}
	rk := fnName(lr.Advance) + "($0)"
	recv := "$0"
	posK, inK := recv+"."+lr.PosF.Name(), recv+"."+lr.InputF.Name()
	lookahead := map[string]bool{"unicode/utf8.DecodeRuneInString(" + inK + "[" + posK + ":])#0": true}
	for _, f := range c.Funcs {
		if fnPkgPath(f) != pkgLex || f.Parent() != nil || f == lr.Advance {
			continue
		}
		rs := f.Signature.Results()
		if rs.Len() == 1 && len(opParams(f)) == 0 && c.calls(f, lr.Advance) && c.calls(f, lr.Backup) {
			if b, ok := rs.At(0).Type().Underlying().(*types.Basic); ok && b.Kind() == types.Int32 {
				lookahead[fnName(f)+"($0)"] = true
			}
		}
	}
	paths, complete := c.lexPaths(lr, disp, 5000)
	if !complete {
		r.bad(rule, "paths", c.pos(disp.Pos()), "too many paths")
		return
	}
	n, bad := 0, 0
	for _, p := range paths {
		feasible := true
		for _, a := range p.Atoms {
			if a.Subj != rk && a.Val != rk {
				continue
			}
			if f, known := c.atomFalseAt(a, rk, int64('-')); known && f {
				feasible = false
			}
			if a.Kind == "call" && a.Val == rk {
				if b, ok := c.tablePredAt(a, int64('-')); ok && b != a.Pos {
					feasible = false
				}
			}
		}
		if !feasible {
			continue
		}
		for _, a := range p.Atoms {
			if a.Subj == rk || a.Val == rk {
				continue
			}
			n++
			ok := false
			switch {
			case a.Kind == "call" && lookahead[a.Val] && (a.Subj == "unicode.IsDigit" || a.Fn != nil && inModule(a.Fn) && isBool(a.Fn.Signature.Results().At(0).Type()) && len(a.Fn.Params) == 1):
				ok = true // a rune-class test of the look-ahead rune
			case (a.Kind == "cmp" || a.Kind == "len") && (a.Subj == posK || a.Subj == inK) && (a.Val == "len("+inK+")" || a.Kind == "len"):
				ok = true // the end-of-input guard
			case a.Kind == "bool" && strings.HasSuffix(a.Subj, "."+lr.EOFF.Name()):
				ok = true
			}
			if !ok {
				bad++
				r.bad(rule, "minus|"+a.String(), c.instrPos(p.Instrs[len(p.Instrs)-1]), fmt.Sprintf("whether '-' starts a negative number or is the prohibit operator depends on %s, which looks beyond the next rune: text after the number (a closing parenthesis, a ^ or ~) changes how the minus is read", a.String()))
			}
		}
	}
	if bad == 0 {
		r.ok(rule, "minus", c.pos(disp.Pos()), fmt.Sprintf("%d conditions on the '-' paths, all on the dispatched rune or the one-rune look-ahead", n))
	}
	r.floor(rule, "look-ahead conditions on the '-' paths", n, 1)
}

// LEX-BACKUP (C16): a backup undoes the read it is paired with.
func ruleLEXBACKUP(c *Ctx, r *Report) {
	const rule = "LEX-BACKUP"
	r.doc(rule, "typestate of the rune cursor in every state function (helpers that take the lexer read in place): reads push, a backup pops the most recent read; every read made after the popped one and before the backup is known not to have hit end of input (a positive test on its rune that is false for eof). The end-of-input flag is sticky and turns every later backup into a no-op, so a look-ahead that may reach the end between a read and the backup meant to undo it leaves the cursor past a rune that was to be re-read — the state entered next then takes end of input for its opening delimiter")
	lr := c.lexPreamble(r, rule)
	if lr == nil {
		return
	}
	nB := 0
	type seq struct {
		instrs []ssa.Instruction
		atoms  []Atom
		what   string
	}
	// helpers that return a rune (a look-ahead such as peek = read + backup) are read in place as well
	opts := c.lexInl(lr, false)
	basePred := opts.Pred
	opts.Pred = func(g *ssa.Function) bool {
		if basePred(g) {
			return true
		}
		if opts.Keep[g] || g.Signature.Results().Len() != 1 || basicKind(g.Signature.Results().At(0).Type()) != types.Int32 {
			return false
		}
		for _, p := range g.Params {
			t := p.Type()
			if pt, ok := t.(*types.Pointer); ok {
				t = pt.Elem()
			}
			if types.Identical(t, lr.Lexer) {
				return true
			}
		}
		return false
	}
	for _, s := range lr.States {
		var seqs []seq
		paths, complete := c.enumPathsOpt(s, 5000, opts)
		if !complete {
			r.bad(rule, fnName(s)+"|paths", c.pos(s.Pos()), "too many paths")
			continue
		}
		for _, p := range paths {
			seqs = append(seqs, seq{p.Instrs, p.Atoms, "path from entry"})
		}
		cps, _ := c.cyclePathsOpt(s, opts)
		for _, cp := range cps {
			seqs = append(seqs, seq{cp.instrs, cp.atoms, "loop iteration"})
		}
		reported := map[string]bool{}
		for _, sq := range seqs {
			type read struct {
				call  *ssa.Call
				later []*ssa.Call
			}
			var stack []*read
			occurs := map[*ssa.Call]int{}
			for _, in := range sq.instrs {
				call, ok := in.(*ssa.Call)
				if !ok {
					continue
				}
				switch call.Call.StaticCallee() {
				case lr.Advance:
					occurs[call]++
					for _, x := range stack {
						x.later = append(x.later, call)
					}
					stack = append(stack, &read{call: call})
				case lr.Backup:
					nB++
					key := fmt.Sprintf("%s|backup@%s", fnName(s), c.siteOf(call))
					if len(stack) == 0 {
						if sq.what == "path from entry" && !reported[key+"|unpaired"] {
							reported[key+"|unpaired"] = true
							r.bad(rule, key+"|unpaired", c.instrPos(call), fnName(s)+" steps the cursor back before it has read anything: the rune it un-reads belongs to a token that was already emitted")
						}
						continue
					}
					x := stack[len(stack)-1]
					stack = stack[:len(stack)-1]
					bad := ""
					for _, y := range x.later {
						if !c.readNotEOF(lr, y, occurs[y], sq.atoms) {
							bad = c.instrPos(y)
						}
					}
					if bad == "" {
						if !reported[key] {
							r.ok(rule, key, c.instrPos(call), "pairs with the read at "+c.instrPos(x.call)+"; no read that may hit end of input in between")
							reported[key] = true
						}
					} else if !reported[key+"|eof"] {
						reported[key+"|eof"] = true
						r.bad(rule, key+"|eof-between", c.instrPos(call), fmt.Sprintf("in %s (%s) this backup is meant to undo the read at %s, but the read at %s in between may hit end of input (nothing on the path shows its rune is a real character): the sticky end-of-input flag then makes the backup a no-op, the cursor stays past the rune, and the next state reads end of input where it expects that rune", fnName(s), sq.what, c.instrPos(x.call), bad))
					}
				}
			}
		}
	}
	r.floor(rule, "backup calls on state-function paths", nB, 4)
}

// siteOf: file-independent identification of a call site: enclosing function and ordinal of the call among
// the calls of the same callee in it.
func (c *Ctx) siteOf(call *ssa.Call) string {
	fn := call.Parent()
	n := 0
	for _, b := range fn.Blocks {
		for _, in := range b.Instrs {
			if k, ok := in.(*ssa.Call); ok && k.Call.StaticCallee() == call.Call.StaticCallee() {
				n++
				if k == call {
					return fmt.Sprintf("%s#%d", fnName(fn), n)
				}
			}
		}
	}
	return fnName(fn)
}

// readNotEOF: some condition on the path that mentions exactly this read is false when the rune is eof.
func (c *Ctx) readNotEOF(lr *LexRoles, y *ssa.Call, occurrences int, atoms []Atom) bool {
	if occurrences != 1 {
		return false
	}
	for _, a := range atoms {
		calls := c.impureCallsIn(a.Src, a.Env, 0)
		if len(calls) != 1 || calls[0] != y {
			continue
		}
		for _, rk := range []string{c.key(y, a.Env), c.key(y, nil), fnName(lr.Advance) + "($0)"} {
			if f, known := c.atomFalseAt(a, rk, -1); known && f {
				return true
			}
		}
	}
	return false
}

// TOK-LAYOUT (C09/C16): tokens carry a type and a text; where a token stood (and therefore how much
// whitespace preceded it) is never consulted.
func ruleTOKLAYOUT(c *Ctx, r *Report) {
	const rule = "TOK-LAYOUT"
	r.doc(rule, "no function of the library reads a field of lex.Token other than its type and its text (the position a token was found at records the layout; a parser or lexer decision that reads it makes the amount of whitespace between two tokens change the meaning), and no function outside the lexer's rune primitives compares cursor positions of two tokens")
	tt := c.namedType(pkgLex, "Token")
	if tt == nil {
		r.bad(rule, "anchor", "-", "lex.Token not found")
		return
	}
	st, ok := tt.Underlying().(*types.Struct)
	if !ok {
		r.bad(rule, "anchor", "-", "lex.Token is not a struct")
		return
	}
	extra := map[int]string{}
	for i := 0; i < st.NumFields(); i++ {
		if n := st.Field(i).Name(); n != "Typ" && n != "Val" {
			extra[i] = n
		}
	}
	reads := 0
	for _, f := range c.Funcs {
		if !inLib(f) {
			continue
		}
		for _, b := range f.Blocks {
			for _, in := range b.Instrs {
				var base types.Type
				field := -1
				isRead := false
				switch x := in.(type) {
				case *ssa.Field:
					base, field, isRead = x.X.Type(), x.Field, true
				case *ssa.FieldAddr:
					base, field = x.X.Type(), x.Field
					if pt, ok := base.Underlying().(*types.Pointer); ok {
						base = pt.Elem()
					}
					if x.Referrers() != nil {
						for _, ref := range *x.Referrers() {
							if u, ok := ref.(*ssa.UnOp); ok && u.X == ssa.Value(x) {
								isRead = true
							}
						}
					}
				default:
					continue
				}
				if !isRead || !isNamed(base, pkgLex, "Token") {
					continue
				}
				name, isExtra := extra[field]
				if !isExtra {
					continue
				}
				reads++
				r.bad(rule, fnName(f)+"|read("+name+")", c.instrPos(in), fmt.Sprintf("%s reads Token.%s: a token's place in the input (what was skipped before it) enters a decision, so the same tokens with different whitespace between them can parse differently", fnName(f), name))
			}
		}
	}
	if reads == 0 {
		var names []string
		for _, n := range extra {
			names = append(names, n)
		}
		sort.Strings(names)
		r.ok(rule, "token-fields", c.pos(tt.Obj().Pos()), fmt.Sprintf("fields besides Typ and Val (%s) are never read", strings.Join(names, ", ")))
	}
}

// LEX-ERR-SITES (C08, C16, C06): where a lexical error may be raised at all.
func ruleLEXERRSITES(c *Ctx, r *Report) {
	const rule = "LEX-ERR-SITES"
	r.doc(rule, "a lexical error is raised only by the dispatching state (a rune that cannot start a token) and by the states that emit TQuoted / TRegexp (end of input before the closing delimiter, PHRASE-LOOP / REGEXP-LOOP): no other state — the word state in particular — has a path that calls the error function, so no text made of word characters, escapes and blanks is refused by the lexer")
	lr := c.lexPreamble(r, rule)
	if lr == nil {
		return
	}
	var disp *ssa.Function
	for _, fs := range c.lexStores(lr) {
		if fs.field == lr.StartF {
			for _, s := range lr.States {
				if s == fs.fn {
					disp = s
				}
			}
		}
	}
	n := 0
	for _, s := range lr.States {
		if s == disp || c.emitsConst(lr, s, "lex.TQuoted") || c.emitsConst(lr, s, "lex.TRegexp") {
			continue
		}
		n++
		bad := false
		// the state itself and the helpers it calls directly or through other helpers — not the states it hands
		// over to (their code runs for the next part of the input)
		own := map[*ssa.Function]bool{s: true}
		work := []*ssa.Function{s}
		for len(work) > 0 {
			g := work[len(work)-1]
			work = work[:len(work)-1]
			for _, b := range g.Blocks {
				for _, in := range b.Instrs {
					if call, ok := in.(ssa.CallInstruction); ok {
						if h := call.Common().StaticCallee(); h != nil && !own[h] && fnPkgPath(h) == pkgLex && !c.isLexState(lr, h) && h != lr.Errorf && len(h.Blocks) > 0 {
							own[h] = true
							work = append(work, h)
						}
					}
				}
			}
		}
		for _, g := range sortedFuncs(own) {
			for _, b := range g.Blocks {
				for _, in := range b.Instrs {
					if call, ok := in.(ssa.CallInstruction); ok && call.Common().StaticCallee() == lr.Errorf {
						bad = true
						r.bad(rule, fnName(s)+"|error", c.instrPos(in), fmt.Sprintf("the state %s can raise a lexical error (in %s): text that the dispatcher has accepted as the start of a token is refused later — a word, a number or blank space that used to lex no longer does", fnName(s), fnName(g)))
					}
				}
			}
		}
		if !bad {
			r.ok(rule, fnName(s), c.pos(s.Pos()), "no path to the error function")
		}
	}
	r.floor(rule, "states that must not raise errors", n, 2)
}

func (c *Ctx) isLexState(lr *LexRoles, g *ssa.Function) bool {
	for _, s := range lr.States {
		if s == g {
			return true
		}
	}
	return false
}
