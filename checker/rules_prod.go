package main

// Rules over the production table (A9): RED-BAL, PROD-TABLE, PROD-EXTRA, PROD-GUARD, DF-COVER, PAREN-ID.

import (
	"fmt"
	"go/token"
	"sort"
	"strings"

	"golang.org/x/tools/go/ssa"
)

type oracleProd struct {
	Name    string
	Pattern string   // as ProdRow.pattern(); "E" positions may be "?" in the code for PROD-TABLE purposes
	Ops     []string // acceptable operator(s) built; "" for identity
	Args    []int    // positional children in order
	Ident   int      // identity position when Ops is empty
	Scalar  string   // "", "const:1", "derived:2", "bool:true", "bool:false"
}

// The documented grammar (expression.go header comment + property C05/C06 statements).
var prodOracle = []oracleProd{
	{"E AND E", "E {TAnd} E", []string{"expr.And"}, []int{0, 2}, 0, ""},
	{"E OR E", "E {TOr} E", []string{"expr.Or"}, []int{0, 2}, 0, ""},
	{"E : E", "E {TColon} E", []string{"expr.Equals", "expr.In"}, []int{0, 2}, 0, ""},
	{"E = E", "E {TEqual} E", []string{"expr.Equals", "expr.In"}, []int{0, 2}, 0, ""},
	{"E :> E", "E {TColon} {TGreater} E", []string{"expr.Greater"}, []int{0, 3}, 0, ""},
	{"E :< E", "E {TColon} {TLess} E", []string{"expr.Less"}, []int{0, 3}, 0, ""},
	{"E :>= E", "E {TColon} {TGreater} {TEqual} E", []string{"expr.GreaterEq"}, []int{0, 4}, 0, ""},
	{"E :<= E", "E {TColon} {TLess} {TEqual} E", []string{"expr.LessEq"}, []int{0, 4}, 0, ""},
	{"NOT E", "… {TNot} E", []string{"expr.Not"}, []int{1}, 0, ""},
	{"( E )", "{TLParen} E {TRParen}", nil, nil, 1, ""},
	{"+ E", "{TPlus} E", []string{"expr.Must"}, []int{1}, 0, ""},
	{"- E", "{TMinus} E", []string{"expr.MustNot"}, []int{1}, 0, ""},
	{"E ~", "E {TTilde}", []string{"expr.Fuzzy"}, []int{0}, 0, "const:1"},
	{"E ~ n", "E {TTilde} E", []string{"expr.Fuzzy"}, []int{0}, 0, "derived:2"},
	{"E ^", "E {TCarrot}", []string{"expr.Boost"}, []int{0}, 0, "const:1"},
	{"E ^ n", "E {TCarrot} E", []string{"expr.Boost"}, []int{0}, 0, "derived:2"},
	{"E : [ E TO E ]", "E {TColon} {TLSquare} E {TTO} E {TRSquare}", []string{"expr.Range"}, []int{0, 3, 5}, 0, "bool:true"},
	{"E : { E TO E }", "E {TColon} {TLCurly} E {TTO} E {TRCurly}", []string{"expr.Range"}, []int{0, 3, 5}, 0, "bool:false"},
}

func patCompatible(code, oracle string) bool {
	a, b := strings.Fields(code), strings.Fields(oracle)
	if len(a) != len(b) {
		return false
	}
	for i := range a {
		if a[i] == b[i] {
			continue
		}
		if a[i] == "?" && b[i] == "E" {
			continue
		}
		return false
	}
	return true
}

// rowSignature: what the row builds, for comparison with the oracle.
func (c *Ctx) rowBuilds(r *ProdRow) (ops []string, children []int, ident int, scalar string) {
	if r.OutKind == "identity" {
		return nil, nil, r.Identity, ""
	}
	if r.Op != "" {
		ops = []string{r.Op}
	} else {
		ops = r.AltOps
	}
	for _, a := range r.Args {
		switch {
		case a.Pos >= 0:
			children = append(children, a.Pos)
		case a.Const != "":
			if a.Const == "true" || a.Const == "false" {
				scalar = "bool:" + a.Const
			} else {
				scalar = "const:" + strings.TrimSuffix(strings.TrimSuffix(a.Const, ".0"), ".")
			}
		case len(a.Derived) > 0:
			// nested constructor over a child (IN(term, LIST(literals))) counts as that child
			if isNestedCtor(a.Val) {
				children = append(children, a.Derived...)
			} else if b, ok := c.evalTokBool(a.Val, r); ok {
				scalar = fmt.Sprintf("bool:%v", b)
			} else {
				var ds []string
				for _, d := range a.Derived {
					ds = append(ds, fmt.Sprint(d))
				}
				scalar = "derived:" + strings.Join(ds, ",")
			}
		default:
			if b, ok := c.evalTokBool(a.Val, r); ok {
				scalar = fmt.Sprintf("bool:%v", b)
			} else {
				scalar = "unknown"
			}
		}
	}
	return
}

func isNestedCtor(v ssa.Value) bool {
	call, ok := v.(*ssa.Call)
	if !ok {
		return false
	}
	f := call.Call.StaticCallee()
	return f != nil && fnPkgPath(f) == pkgExpr
}

// evalTokBool evaluates a boolean built from Typ comparisons of window positions, using the
// (singleton) token sets the path has established. Abstract evaluation over the path's facts only.
func (c *Ctx) evalTokBool(v ssa.Value, r *ProdRow) (bool, bool) {
	e := r.Path.Env
	v = c.resolve(v, e)
	if b, ok := constBoolVal(v); ok {
		return b, true
	}
	bo, ok := v.(*ssa.BinOp)
	if !ok || (bo.Op != token.EQL && bo.Op != token.NEQ) {
		return false, false
	}
	l, rr := c.resolve(bo.X, e), c.resolve(bo.Y, e)
	k, isC := rr.(*ssa.Const)
	if !isC {
		if k2, ok := l.(*ssa.Const); ok {
			k, l = k2, rr
		} else {
			return false, false
		}
	}
	base, field := fieldLoad(c, l, e)
	if base == nil || field != "Typ" {
		return false, false
	}
	i, fe, _, ok := c.elemRef(base, e, r.Reducer.Params[0])
	if !ok {
		return false, false
	}
	pos := int(i)
	if fe {
		pos = int(r.MinLen - i)
	}
	pi := r.Pos[pos]
	if pi == nil || pi.Kind != "token" || len(pi.Toks) != 1 {
		return false, false
	}
	var only string
	for t := range pi.Toks {
		only = t
	}
	eq := only == c.constName(k)
	if bo.Op == token.NEQ {
		eq = !eq
	}
	return eq, true
}

func sameInts(a, b []int) bool {
	if len(a) != len(b) {
		return false
	}
	for i := range a {
		if a[i] != b[i] {
			return false
		}
	}
	return true
}

func contains(ss []string, s string) bool {
	for _, x := range ss {
		if x == s {
			return true
		}
	}
	return false
}

func (c *Ctx) prodPreamble(r *Report, rule string) *ProdTable {
	pt := c.prodTable()
	for _, e := range pt.Errs {
		r.bad(rule, "extract|"+e, "-", "production table could not be read: "+e)
	}
	for _, f := range pt.Reducers {
		r.unit("reducers", fnName(f))
	}
	return pt
}

// PROD-TABLE (C05): every documented production exists, builds the documented node with the
// operands in source order, and windows of different results are pairwise disjoint.
func rulePRODTABLE(c *Ctx, r *Report) {
	const rule = "PROD-TABLE"
	r.doc(rule, "reducers as a production table (path-sensitive extraction over every `return …, true`), compared with the documented grammar: window pattern, node built, operand order; pairwise disjoint windows")
	pt := c.prodPreamble(r, rule)
	r.floor(rule, "reducers", len(pt.Reducers), 12)
	matched := map[string]int{}
	for _, row := range pt.Rows {
		pat := row.pattern()
		ops, kids, ident, scalar := c.rowBuilds(row)
		for _, o := range prodOracle {
			if !patCompatible(pat, o.Pattern) {
				continue
			}
			key := "production:" + o.Name
			pos := c.instrPos(row.Path.Ret)
			if len(o.Ops) == 0 {
				if row.OutKind != "identity" || ident != o.Ident {
					r.bad(rule, key, pos, fmt.Sprintf("production %q must reduce to its operand at position %d unchanged; %s returns %s", o.Name, o.Ident, row.name(), row.OutKind))
				} else {
					matched[o.Name]++
				}
				continue
			}
			okOp := len(ops) == 1 && contains(o.Ops, ops[0])
			if !okOp {
				r.bad(rule, key, pos, fmt.Sprintf("production %q (%s) must build %v; %s builds %v", o.Name, pat, o.Ops, row.name(), ops))
				continue
			}
			if !sameInts(kids, o.Args) {
				r.bad(rule, key, pos, fmt.Sprintf("production %q must take operands from window positions %v in that order; %s uses %v", o.Name, o.Args, row.name(), kids))
				continue
			}
			if o.Scalar != "" && scalar != o.Scalar {
				r.bad(rule, key, pos, fmt.Sprintf("production %q: attribute operand expected %s, %s passes %s", o.Name, o.Scalar, row.name(), scalar))
				continue
			}
			matched[o.Name]++
		}
	}
	for _, o := range prodOracle {
		if matched[o.Name] > 0 {
			r.ok(rule, "production:"+o.Name, "-", fmt.Sprintf("%d success path(s) match %q", matched[o.Name], o.Pattern))
		} else {
			r.bad(rule, "production:"+o.Name, "-", fmt.Sprintf("documented production %q (%s → %v) is not implemented by any reducer success path", o.Name, o.Pattern, o.Ops))
		}
	}
	// pairwise disjointness between rows of different reducers (or same reducer, different result)
	n := 0
	for i, a := range pt.Rows {
		for _, b := range pt.Rows[i+1:] {
			if a.Reducer == b.Reducer {
				continue
			}
			n++
			if rowsOverlap(a, b) {
				ra, _, _, _ := c.rowBuilds(a)
				rb, _, _, _ := c.rowBuilds(b)
				if strings.Join(ra, ",") == strings.Join(rb, ",") && a.OutKind == b.OutKind {
					continue
				}
				names := []string{a.name(), b.name()}
				sort.Strings(names)
				r.bad(rule, "overlap|"+strings.Join(names, "~"), c.instrPos(b.Path.Ret),
					fmt.Sprintf("windows of %s (%s) and %s (%s) can match the same stack top: the result depends on the order of the reducer list", a.name(), a.pattern(), b.name(), b.pattern()))
			}
		}
	}
	r.ok(rule, "disjoint", "-", fmt.Sprintf("%d row pairs compared", n))
}

func rowsOverlap(a, b *ProdRow) bool {
	// align from the end
	la, lb := int(a.MinLen), int(b.MinLen)
	if !a.Exact {
		la = a.Suffix
	}
	if !b.Exact {
		lb = b.Suffix
	}
	if a.Exact && b.Exact && la != lb {
		return false
	}
	if a.Exact && !b.Exact && la < lb || b.Exact && !a.Exact && lb < la {
		return false
	}
	n := la
	if lb < n {
		n = lb
	}
	for k := 1; k <= n; k++ {
		pa, pb := a.Pos[la-k], b.Pos[lb-k]
		if pa == nil || pb == nil || pa.Kind == "unasserted" || pb.Kind == "unasserted" {
			continue
		}
		if pa.Kind != pb.Kind {
			return false
		}
		if pa.Kind == "token" {
			inter := false
			for t := range pa.Toks {
				if pb.Toks[t] {
					inter = true
				}
			}
			if !inter {
				return false
			}
		}
	}
	return true
}

// PROD-EXTRA (C06): no reducer accepts a window outside the documented grammar.
func rulePRODEXTRA(c *Ctx, r *Report) {
	const rule = "PROD-EXTRA"
	r.doc(rule, "every success path of every reducer corresponds to a documented production (nothing outside the grammar is accepted)")
	pt := c.prodPreamble(r, rule)
	for _, row := range pt.Rows {
		pat := row.pattern()
		found := false
		for _, o := range prodOracle {
			if patCompatible(pat, o.Pattern) {
				found = true
			}
		}
		key := "window:" + pat
		if found {
			r.ok(rule, key, c.instrPos(row.Path.Ret), "documented")
		} else {
			r.badW(rule, key, c.instrPos(row.Path.Ret),
				fmt.Sprintf("%s accepts the window [%s], which is not a production of the documented grammar", row.name(), pat), "")
		}
	}
}

// PROD-GUARD (C06): every window position is type-checked before the production fires.
func rulePRODGUARD(c *Ctx, r *Report) {
	const rule = "PROD-GUARD"
	r.doc(rule, "for every `return …, true` of every reducer: each window position is asserted lex.Token with a Typ test, or asserted *expr.Expression; an operand consumed as a scalar attribute must be proven a numeric Literal")
	pt := c.prodPreamble(r, rule)
	r.floor(rule, "success paths", len(pt.Rows), 20)
	for _, row := range pt.Rows {
		n := int(row.MinLen)
		if !row.Exact {
			n = row.Suffix
		}
		ops, _, _, _ := c.rowBuilds(row)
		tag := strings.Join(ops, "/")
		if row.OutKind == "identity" {
			tag = "group"
		}
		pos := c.instrPos(row.Path.Ret)
		if row.Err != "" {
			r.bad(rule, fmt.Sprintf("%s|shape", row.name()), pos, row.Err)
			continue
		}
		for i := 0; i < n; i++ {
			key := fmt.Sprintf("%s[%s]|pos%d", row.name(), tag, i)
			pi := row.Pos[i]
			switch {
			case pi == nil:
				r.bad(rule, key, pos, fmt.Sprintf("%s fires on window [%s] without examining position %d at all", row.name(), row.pattern(), i))
			case pi.Kind == "unasserted":
				r.bad(rule, key, pos, fmt.Sprintf("%s fires on window [%s] with position %d not asserted to be an expression or a token: any stack element (e.g. a bracket token) is accepted there", row.name(), row.pattern(), i))
			case pi.Kind == "token" && pi.TypTests == 0:
				r.bad(rule, key, pos, fmt.Sprintf("%s asserts position %d to be a token but never tests its type", row.name(), i))
			default:
				r.ok(rule, key, pos, pi.Kind)
			}
		}
		// every expression position of the window must reach the result (as a child, through a
		// nested constructor, or as a scalar attribute): otherwise query content is dropped
		used := map[int]bool{}
		if row.OutKind == "identity" {
			used[row.Identity] = true
		}
		for _, a := range row.Args {
			if a.Pos >= 0 {
				used[a.Pos] = true
			}
			for _, d := range a.Derived {
				used[d] = true
			}
		}
		for i := 0; i < n; i++ {
			if pi := row.Pos[i]; pi != nil && pi.Kind == "expr" && !used[i] {
				r.bad(rule, fmt.Sprintf("%s[%s]|dropped-pos%d", row.name(), tag, i), pos, fmt.Sprintf("%s fires on window [%s] but the expression at position %d does not reach the node it builds: that part of the query is silently dropped", row.name(), row.pattern(), i))
			}
		}
		// scalar-consumed operands
		for _, a := range row.Args {
			if a.Pos >= 0 || len(a.Derived) == 0 || isNestedCtor(a.Val) {
				continue
			}
			if _, ok := c.evalTokBool(a.Val, row); ok {
				continue
			}
			for _, d := range a.Derived {
				pi := row.Pos[d]
				if pi == nil || pi.Kind != "expr" {
					continue
				}
				key := fmt.Sprintf("production:%s|scalar-pos%d", tag, d)
				// is there a dominating fact that the operand is a Literal leaf?
				proven := false
				for _, o := range row.Other {
					if strings.Contains(o, fmt.Sprintf("$0[%d].(*expr.Expression).Op==expr.Literal", d)) {
						proven = true
					}
				}
				if !proven && row.Path != nil {
					// through a boolean helper (isNumber(x)): what its true answer implies on every alternative
					want := fmt.Sprintf("$0[%d].(*expr.Expression).Op", d)
					for _, a := range c.expand(row.Path.Atoms, row.Path.Env) {
						if a.Kind == "cmp" && a.Subj == want && a.Op == "==" && a.Val == "expr.Literal" {
							proven = true
						}
					}
				}
				if proven {
					r.ok(rule, key, pos, "operand proven Literal")
				} else {
					r.bad(rule, key, pos, fmt.Sprintf("%s consumes window position %d as a scalar attribute through its printed form; it is not required to be a numeric Literal, so any expression whose String() parses as a number is accepted (e.g. a quoted string or a parenthesised group)", row.name(), d))
				}
			}
		}
	}
}

// RED-BAL (C01, INV-NT): tokens consumed = drop count; output strictly shorter; no token invented.
func ruleREDBAL(c *Ctx, r *Report) {
	const rule = "RED-BAL"
	r.doc(rule, "INV-NT half 2: on every success path of every reducer the number of window positions asserted lex.Token equals the constant dropped from nonTerminals, no unasserted position is consumed, and the output (1 element) is strictly shorter than the window")
	pt := c.prodPreamble(r, rule)
	r.floor(rule, "success paths", len(pt.Rows), 20)
	for _, row := range pt.Rows {
		pos := c.instrPos(row.Path.Ret)
		key := fmt.Sprintf("%s|%s", row.name(), row.pattern())
		if row.Err != "" {
			r.bad(rule, key, pos, row.Err)
			continue
		}
		n := int(row.MinLen)
		if !row.Exact {
			n = row.Suffix
		}
		toks := 0
		bad := ""
		for i := 0; i < n; i++ {
			pi := row.Pos[i]
			switch {
			case pi == nil:
				bad = fmt.Sprintf("position %d is consumed without being examined (it may be a token that is never dropped from nonTerminals)", i)
			case pi.Kind == "token":
				toks++
			case pi.Kind == "unasserted":
				if !(row.OutKind == "identity" && row.Identity == i) {
					bad = fmt.Sprintf("position %d is consumed unasserted (a token there would leave nonTerminals out of step with the stack)", i)
				}
			}
		}
		switch {
		case bad != "":
			r.bad(rule, key, pos, row.name()+": "+bad)
		case !row.DropOK:
			r.bad(rule, key, pos, row.name()+": second result is not nonTerminals[:len-k] for a constant k")
		case int64(toks) != row.Drop:
			r.bad(rule, key, pos, fmt.Sprintf("%s: window [%s] removes %d token(s) from the stack but drops %d from nonTerminals — the two stacks go out of step and a later nonTerminals[len-1] / slice can go out of range", row.name(), row.pattern(), toks, row.Drop))
		case row.OutLen != 1 || n < 2:
			r.bad(rule, key, pos, fmt.Sprintf("%s: production does not shrink the stack (window %d → %d elements): the reduce loop has no progress", row.name(), n, row.OutLen))
		default:
			r.ok(rule, key, pos, fmt.Sprintf("%d tokens = drop %d; %d→1", toks, row.Drop, n))
		}
	}
}

// PAREN-ID (C09): the group production contributes no node.
func rulePARENID(c *Ctx, r *Report) {
	const rule = "PAREN-ID"
	r.doc(rule, "the ( E ) production returns its middle element itself, so a redundant group adds no node")
	pt := c.prodPreamble(r, rule)
	n := 0
	for _, row := range pt.Rows {
		if !patCompatible(row.pattern(), "{TLParen} E {TRParen}") {
			continue
		}
		n++
		if row.OutKind == "identity" && row.Identity == 1 {
			r.ok(rule, "group", c.instrPos(row.Path.Ret), "returns position 1 unchanged")
		} else {
			r.bad(rule, "group", c.instrPos(row.Path.Ret), fmt.Sprintf("%s: a parenthesised group must reduce to its content unchanged; it returns %s", row.name(), row.OutKind))
		}
	}
	r.floor(rule, "group production", n, 1)
}

// DF-COVER (C11): which productions wrap bare operands with the default field.
func ruleDFCOVER(c *Ctx, r *Report) {
	const rule = "DF-COVER"
	r.doc(rule, "production-table sibling coverage: operands of AND/OR/NOT/+/-/~/^ pass through the default-field wrapping helper; field and value positions of ':'/comparison/range productions never do; the helper treats all three leaf kinds alike")
	pt := c.prodPreamble(r, rule)
	if pt.Wrapper == nil {
		r.bad(rule, "wrapper", "-", "default-field wrapping helper (func(*expr.Expression, string) *expr.Expression in package reduce) not found")
		return
	}
	wrapOps := map[string]bool{"expr.And": true, "expr.Or": true, "expr.Not": true, "expr.Must": true, "expr.MustNot": true, "expr.Fuzzy": true, "expr.Boost": true}
	noWrapOps := map[string]bool{"expr.Equals": true, "expr.In": true, "expr.Greater": true, "expr.Less": true, "expr.GreaterEq": true, "expr.LessEq": true, "expr.Range": true, "expr.Like": true}
	seen := 0
	for _, row := range pt.Rows {
		if row.OutKind != "ctor" {
			continue
		}
		op := row.Op
		pos := c.instrPos(row.Path.Ret)
		for _, a := range row.Args {
			if a.Pos < 0 {
				continue
			}
			seen++
			key := fmt.Sprintf("production:%s|operand%d", op, a.Pos)
			switch {
			case wrapOps[op] && !a.Wrapped:
				r.bad(rule, key, pos, fmt.Sprintf("%s builds %s from window position %d without passing it through %s: a bare term there stays unscoped when a default field is set", row.name(), op, a.Pos, fnName(pt.Wrapper)))
			case noWrapOps[op] && a.Wrapped:
				r.bad(rule, key, pos, fmt.Sprintf("%s wraps position %d of a field-scoped production (%s) with the default field: explicitly fielded terms would be re-scoped", row.name(), a.Pos, op))
			default:
				r.ok(rule, key, pos, fmt.Sprintf("wrapped=%v", a.Wrapped))
			}
		}
	}
	r.floor(rule, "positional operands", seen, 20)
	// the wrapper itself: every path that returns its argument unchanged must have field == "" or
	// the node not being a leaf of any of the three kinds
	fldK, opK := fmt.Sprintf("$%d", pt.WFld), fmt.Sprintf("$%d", pt.WOp)
	_ = opK
	paths, _ := c.enumPaths(pt.Wrapper, 200)
	ops := c.operatorConsts()
	wrapsSomething, unscoped := false, false
	for _, p := range paths {
		if p.Ret == nil || len(p.Ret.Results) != 1 {
			continue
		}
		res := c.resolve(p.Ret.Results[0], p.Env)
		if res != pt.Wrapper.Params[pt.WOp] {
			if call, ok := res.(*ssa.Call); ok && call.Call.StaticCallee() != nil {
				wrapsSomething = true
				// the scoping is applied only when a field is configured
				fieldSet := false
				for _, a := range p.Atoms {
					if a.Kind == "cmp" && a.Subj == fldK && a.Op == "!=" && a.Val == `""` {
						fieldSet = true
					}
					if a.Kind == "len" && a.Subj == fldK && (a.Op == ">" && a.N >= 0 || a.Op == ">=" && a.N >= 1 || a.Op == "!=" && a.N == 0) {
						fieldSet = true
					}
				}
				if fieldSet {
					r.ok(rule, "wrapper|only-with-field", c.instrPos(p.Ret), "scoping applied under field != \"\"")
				} else {
					r.bad(rule, "wrapper|only-with-field", c.instrPos(p.Ret), fmt.Sprintf("%s scopes a term on a path that has not established that a default field is configured: without the option bare terms become `\"\":term`, so the tree differs from the option-free tree by more than the scoping", fnName(pt.Wrapper)))
				}
				// DF-COLUMN: built through the public Equals constructor with expr.Column(field)
				bops := c.ctorOperator(call.Call.StaticCallee())
				if !(len(bops) == 1 && bops[0] == "expr.Equals") {
					r.bad("DF-COLUMN", "wrapper|ctor", c.instrPos(p.Ret), "the default-field wrapper must build Equals(Column(field), term) through the public constructor; it calls "+fnName(call.Call.StaticCallee()))
				} else {
					k := c.key(call.Call.Args[0], p.Env)
					if strings.Contains(k, "expr.Column") && strings.Contains(k, fldK) {
						r.ok("DF-COLUMN", "wrapper|ctor", c.instrPos(p.Ret), "Equals(Column($1), $0)")
					} else if k == fldK {
						// a plain string on the left of Equals: the general constructor wraps it in a Column
						r.ok("DF-COLUMN", "wrapper|ctor", c.instrPos(p.Ret), "Equals($1, $0) — the general constructor wraps string fields of column operators in a Column")
					} else {
						r.bad("DF-COLUMN", "wrapper|ctor", c.instrPos(p.Ret), "the default field must be carried as an expr.Column so that it is quoted as an identifier; got "+k)
					}
				}
			}
			continue
		}
		// unchanged: compute possible operators of $0.Op under the path atoms
		fieldEmpty := false
		possible := map[string]bool{}
		for name := range ops {
			possible["expr."+name] = true
		}
		for _, a := range p.Atoms {
			if a.Kind == "cmp" && a.Subj == fldK && a.Op == "==" && a.Val == `""` {
				fieldEmpty = true
			}
			if a.Kind == "len" && a.Subj == fldK && (a.Op == "==" && a.N == 0 || a.Op == "<=" && a.N == 0 || a.Op == "<" && a.N == 1) {
				fieldEmpty = true
			}
			if a.Kind == "cmp" && a.Subj == opK+".Op" {
				for o := range possible {
					if a.Op == "==" && o != a.Val || a.Op == "!=" && o == a.Val {
						delete(possible, o)
					}
				}
			}
		}
		if fieldEmpty {
			continue
		}
		var left []string
		for _, leaf := range []string{"expr.Literal", "expr.Wild", "expr.Regexp"} {
			if possible[leaf] {
				left = append(left, leaf)
			}
		}
		for _, kind := range left {
			unscoped = true
			r.bad(rule, "wrapper|leaf-kind|"+kind, c.instrPos(p.Ret), fmt.Sprintf("%s returns a bare leaf of kind %s unscoped although a default field is set", fnName(pt.Wrapper), kind))
		}
	}
	// every value the wrapper can return (all returns, loop-independent) is its argument or
	// Equals(field, term) with the field name exactly as given
	var retVals []ssa.Value
	for _, b := range pt.Wrapper.Blocks {
		for _, in := range b.Instrs {
			if ret, ok := in.(*ssa.Return); ok && len(ret.Results) == 1 {
				var flat func(v ssa.Value, d int)
				flat = func(v ssa.Value, d int) {
					if ph, ok := v.(*ssa.Phi); ok && d < 5 {
						for _, e := range ph.Edges {
							if e != v {
								flat(e, d+1)
							}
						}
						return
					}
					retVals = append(retVals, v)
				}
				flat(ret.Results[0], 0)
			}
		}
	}
	for _, v := range retVals {
		if v == ssa.Value(pt.Wrapper.Params[pt.WOp]) {
			continue
		}
		okShape := false
		if call, ok := v.(*ssa.Call); ok && call.Call.StaticCallee() != nil {
			bops := c.ctorOperator(call.Call.StaticCallee())
			if len(bops) == 1 && bops[0] == "expr.Equals" && len(call.Call.Args) == 2 {
				k := c.key(call.Call.Args[0], nil)
				if (k == fldK || k == "conv:expr.Column("+fldK+")") && c.resolve(call.Call.Args[1], nil) == ssa.Value(pt.Wrapper.Params[pt.WOp]) {
					okShape = true
				}
			}
		}
		if !okShape {
			r.bad("DF-COLUMN", "wrapper|result|"+c.key(v, nil), c.pos(pt.Wrapper.Pos()), "the default-field wrapper can return "+c.key(v, nil)+", which is neither its argument nor Equals(field, term) with the field name exactly as configured: the scoping differs from the single-term case and from what erasing `f:` undoes")
		}
	}
	if !wrapsSomething {
		r.bad(rule, "wrapper|wraps", c.pos(pt.Wrapper.Pos()), "the default-field wrapper never wraps anything")
	} else if !unscoped {
		r.ok(rule, "wrapper|leaf-kinds", c.pos(pt.Wrapper.Pos()), "all leaf kinds wrapped when a field is set")
	}
}

// NT-OPAQUE (C09/C05/C06): a production looks at its window only.
func ruleNTOPAQUE(c *Ctx, r *Report) {
	const rule = "NT-OPAQUE"
	r.doc(rule, "in every reducer (and every helper it hands the operator stack to) the nonTerminals parameter is only measured, sliced from the top, handed on or returned — its elements are never read: what a production builds depends on its window and the default field only, not on the operators pending around it (otherwise redundant parentheses or a different context change the tree)")
	pt := c.prodTable()
	if len(pt.Reducers) == 0 {
		r.bad(rule, "anchor", "-", "no reducers")
		return
	}
	type fp struct {
		f *ssa.Function
		i int
	}
	seen := map[fp]bool{}
	var work []fp
	for _, red := range pt.Reducers {
		if len(red.Params) >= 2 {
			work = append(work, fp{red, 1})
		}
	}
	if reduceFn := c.pkgFunc(pkgReduce, "Reduce"); reduceFn != nil && len(reduceFn.Params) >= 2 {
		work = append(work, fp{reduceFn, 1})
	}
	n := 0
	for len(work) > 0 {
		cur := work[len(work)-1]
		work = work[:len(work)-1]
		if seen[cur] || len(cur.f.Blocks) == 0 {
			continue
		}
		seen[cur] = true
		n++
		param := cur.f.Params[cur.i]
		// values that are the parameter itself (through phis / local cells / type changes)
		isParam := func(v ssa.Value) bool {
			return c.resolve(v, nil) == ssa.Value(param)
		}
		okAll := true
		for _, b := range cur.f.Blocks {
			for _, in := range b.Instrs {
				switch x := in.(type) {
				case *ssa.IndexAddr:
					if isParam(x.X) {
						okAll = false
						r.bad(rule, fnName(cur.f)+"|reads|"+c.key(x, nil), c.instrPos(in), fnName(cur.f)+" reads an element of the pending-operator stack ("+c.key(x, nil)+"): what the production builds depends on the context around its window")
					}
				case *ssa.Index:
					if isParam(x.X) {
						okAll = false
						r.bad(rule, fnName(cur.f)+"|reads|"+c.key(x, nil), c.instrPos(in), fnName(cur.f)+" reads an element of the pending-operator stack")
					}
				case *ssa.Range:
					if isParam(x.X) {
						okAll = false
						r.bad(rule, fnName(cur.f)+"|ranges", c.instrPos(in), fnName(cur.f)+" iterates over the pending-operator stack")
					}
				case *ssa.Call:
					g := x.Call.StaticCallee()
					for j, a := range x.Call.Args {
						if !isParam(a) {
							continue
						}
						if bi, ok := x.Call.Value.(*ssa.Builtin); ok && (bi.Name() == "len" || bi.Name() == "cap") {
							continue
						}
						if g != nil && inModule(g) && len(g.Blocks) > 0 && j < len(g.Params) {
							work = append(work, fp{g, j})
							continue
						}
						if g != nil && isDropHelper(g) {
							continue
						}
						if g == nil && !x.Call.IsInvoke() {
							// a reducer called through the list: covered as a reducer itself
							continue
						}
						okAll = false
						r.bad(rule, fnName(cur.f)+"|escapes|"+c.key(x.Call.Value, nil), c.instrPos(in), fnName(cur.f)+" hands the pending-operator stack to "+c.key(x.Call.Value, nil))
					}
				}
			}
		}
		if okAll {
			r.ok(rule, fnName(cur.f)+fmt.Sprintf("|$%d", cur.i), c.pos(cur.f.Pos()), "only measured, sliced, handed on or returned")
		}
	}
	r.floor(rule, "functions receiving the operator stack", n, 12)
}

// WRAP-KEEP (C06/C15): the default-field wrapper never drops part of the operand it is given.
func ruleWRAPKEEP(c *Ctx, r *Report) {
	const rule = "WRAP-KEEP"
	r.doc(rule, "every value the default-field wrapper of the reducers can return is its operand argument itself, or a constructor call that has the operand argument itself (not a sub-term of it) among its arguments: wrapping adds a node around the operand and never removes a node from it (a modifier such as ~ or ^ looked through and dropped disappears from the tree, and with it the rendering error the drivers promise for it)")
	pt := c.prodTable()
	if pt.Wrapper == nil {
		r.ok(rule, "no-wrapper", "-", "no default-field wrapper function: the productions build their nodes from window positions directly (PROD-GUARD)")
		return
	}
	w := pt.Wrapper
	wop := pt.WOp
	n := 0
	for _, b := range w.Blocks {
		for _, in := range b.Instrs {
			ret, ok := in.(*ssa.Return)
			if !ok || len(ret.Results) != 1 {
				continue
			}
			var flat func(v ssa.Value, d int, out *[]ssa.Value)
			flat = func(v ssa.Value, d int, out *[]ssa.Value) {
				if ph, ok := v.(*ssa.Phi); ok && d < 5 {
					for _, e := range ph.Edges {
						if e != v {
							flat(e, d+1, out)
						}
					}
					return
				}
				*out = append(*out, v)
			}
			var vals []ssa.Value
			flat(ret.Results[0], 0, &vals)
			for _, v := range vals {
				n++
				key := "result|" + c.key(v, nil)
				if c.resolve(v, nil) == ssa.Value(w.Params[wop]) {
					r.ok(rule, key, c.instrPos(ret), "the operand itself")
					continue
				}
				kept := false
				if call, ok := c.resolve(v, nil).(*ssa.Call); ok && call.Call.StaticCallee() != nil && inLib(call.Call.StaticCallee()) {
					for _, a := range call.Call.Args {
						ra := c.resolve(a, nil)
						if mi, ok := ra.(*ssa.MakeInterface); ok {
							ra = c.resolve(mi.X, nil)
						}
						if ra == ssa.Value(w.Params[wop]) {
							kept = true
						}
					}
				}
				if kept {
					r.ok(rule, key, c.instrPos(ret), "a node built around the operand")
				} else {
					r.bad(rule, key, c.instrPos(ret), fmt.Sprintf("%s can return %s, which does not contain its operand whole: a node of the operand (a fuzzy or boost modifier, a NOT, …) is dropped from the tree when a default field is set", fnName(w), c.key(v, nil)))
				}
			}
		}
	}
	r.floor(rule, "wrapper results", n, 1)
	// the constructors the wrapper calls must store the operand they are given: an operand slot of a
	// (variadic) parameter overwritten before it is stored puts another node into the tree
	nC := 0
	for _, g := range sortedFuncs(c.reachFrom([]*ssa.Function{w})) {
		if g == w || fnPkgPath(g) != pkgExpr || len(g.Blocks) == 0 {
			continue
		}
		nC++
		for _, b := range g.Blocks {
			for _, in := range b.Instrs {
				st, ok := in.(*ssa.Store)
				if !ok {
					continue
				}
				ia, ok := st.Addr.(*ssa.IndexAddr)
				if !ok {
					continue
				}
				if prm, isParam := c.resolve(ia.X, nil).(*ssa.Parameter); isParam {
					if c.slotGuardExcludesExpr(st, ia) || c.storesIdentityOnExpr(st, ia) {
						r.ok(rule, fnName(g)+"|operand-slot|"+prm.Name(), c.instrPos(in), "only a raw payload (not an expression) in the slot is converted")
						continue
					}
					r.bad(rule, fnName(g)+"|operand-slot|"+prm.Name(), c.instrPos(in), fmt.Sprintf("%s overwrites an element of its operand list %s with %s before building the node: the term the wrapper hands over is replaced (e.g. re-typed by its text), so the scoped tree holds another leaf than the tree without the option", fnName(g), prm.Name(), c.key(st.Val, nil)))
				}
			}
		}
	}
	r.ok(rule, "constructors-examined", "-", fmt.Sprintf("%d functions of package expr reachable from the wrapper examined for operand-slot stores", nC))
}

// slotGuardExcludesExpr: the store into an operand slot is dominated by a positive test, on that same slot, of a
// module predicate that can only be true for dynamic types other than *expr.Expression (isLiteral: string, number,
// bool, Column) — expressions handed to the constructor are never replaced.
func (c *Ctx) slotGuardExcludesExpr(st *ssa.Store, slot *ssa.IndexAddr) bool {
	sk := c.key(slot, nil)
	sk = strings.TrimPrefix(sk, "&")
	for _, f := range c.domFacts(st.Block()) {
		cond, pol := f.Cond, f.Pol
		for {
			if u, ok := cond.(*ssa.UnOp); ok && u.Op == token.NOT {
				cond, pol = u.X, !pol
				continue
			}
			break
		}
		call, ok := cond.(*ssa.Call)
		if !ok || !pol || call.Call.StaticCallee() == nil || !inLib(call.Call.StaticCallee()) || len(call.Call.Args) != 1 {
			continue
		}
		if ak := c.key(call.Call.Args[0], nil); ak != sk {
			continue
		}
		if c.trueOnlyForNonExpr(call.Call.StaticCallee()) {
			return true
		}
	}
	return false
}

// trueOnlyForNonExpr: every path on which the one-argument predicate returns true has established a dynamic type
// of its argument other than *expr.Expression.
func (c *Ctx) trueOnlyForNonExpr(g *ssa.Function) bool {
	if len(g.Params) != 1 || g.Signature.Results().Len() != 1 || !isBool(g.Signature.Results().At(0).Type()) {
		return false
	}
	paths, complete := c.enumPathsOpt(g, 4000, c.inlBool())
	if !complete || len(paths) == 0 {
		return false
	}
	for _, p := range paths {
		if p.Ret == nil {
			return false
		}
		rv, re := c.resolveE(p.Ret.Results[0], p.Env)
		typed := false
		for _, a := range c.expand(p.Atoms, p.Env) {
			if a.Kind == "type" && a.Pos && a.Subj == "$0" && a.Val != "*expr.Expression" {
				typed = true
			}
		}
		if b, isConst := constBoolVal(rv); isConst {
			if b && !typed {
				return false
			}
			continue
		}
		// the result is the ok of a comma-ok assertion on the argument
		ex, isEx := rv.(*ssa.Extract)
		if !isEx || ex.Index != 1 {
			return false
		}
		ta, isTA := ex.Tuple.(*ssa.TypeAssert)
		if !isTA || !ta.CommaOk || c.key(ta.X, re) != "$0" || typeStr(ta.AssertedType) == "*expr.Expression" {
			if !typed {
				return false
			}
		}
	}
	return true
}

// storesIdentityOnExpr: the value stored into the operand slot is g(slot) for a module function g that hands an
// *expr.Expression argument back unchanged (every path either returns the argument itself, asserted to
// *Expression, or has found that the argument is not an *Expression).
func (c *Ctx) storesIdentityOnExpr(st *ssa.Store, slot *ssa.IndexAddr) bool {
	v := c.resolve(st.Val, nil)
	if mi, ok := v.(*ssa.MakeInterface); ok {
		v = c.resolve(mi.X, nil)
	}
	call, ok := v.(*ssa.Call)
	if !ok || call.Call.StaticCallee() == nil || !inLib(call.Call.StaticCallee()) || len(call.Call.Args) != 1 {
		return false
	}
	if c.key(call.Call.Args[0], nil) != strings.TrimPrefix(c.key(slot, nil), "&") {
		return false
	}
	g := call.Call.StaticCallee()
	paths, complete := c.enumPathsOpt(g, 4000, c.inlBool())
	if !complete || len(paths) == 0 {
		return false
	}
	for _, p := range paths {
		if p.Ret == nil || len(p.Ret.Results) != 1 {
			return false
		}
		notExpr := false
		for _, a := range c.expand(p.Atoms, p.Env) {
			if a.Kind == "type" && !a.Pos && a.Subj == "$0" && a.Val == "*expr.Expression" {
				notExpr = true
			}
			if a.Kind == "type" && a.Pos && a.Subj == "$0" && a.Val != "*expr.Expression" {
				notExpr = true
			}
		}
		if notExpr {
			continue
		}
		if k := c.key(p.Ret.Results[0], p.Env); k != "$0.(*expr.Expression)" && k != "$0" {
			return false
		}
	}
	return true
}
