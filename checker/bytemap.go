package main

// Byte-map summaries: a helper that copies a string byte by byte and replaces (or drops) some single
// bytes is the same function as a chain of strings.ReplaceAll with one-byte patterns. The rules that
// speak about such rewrites (quote removal, * → %, ? → _) read both spellings as one canonical
// rewrite[a→b,…] description.

import (
	"fmt"
	"go/token"
	"go/types"
	"strings"

	"golang.org/x/tools/go/ssa"
)

type byteMap struct {
	// pairs: from is a one-byte string or "$k" (the k-th parameter, a byte); to is the replacement text
	// ("" = dropped), in which "$k" may appear as a whole as well
	pairs [][2]string
}

// phiAlong: the value a phi takes when its block is entered from the block that precedes its last
// occurrence on the given block sequence.
func phiAlong(blocks []*ssa.BasicBlock, ph *ssa.Phi, entering int) (ssa.Value, bool) {
	// entering: index in blocks of the occurrence of ph.Block() to enter (-1 = the block after the end: the head)
	b := ph.Block()
	var pred *ssa.BasicBlock
	if entering < 0 {
		pred = blocks[len(blocks)-1]
	} else if entering > 0 {
		pred = blocks[entering-1]
	} else {
		return nil, false
	}
	for i, p := range b.Preds {
		if p == pred {
			return ph.Edges[i], true
		}
	}
	return nil, false
}

func (c *Ctx) byteMapSummary(g *ssa.Function) (*byteMap, bool) {
	memo := "bytemap"
	m, _ := c.roles[memo].(map[*ssa.Function]*byteMap)
	if m == nil {
		m = map[*ssa.Function]*byteMap{}
		c.roles[memo] = m
	}
	if v, ok := m[g]; ok {
		return v, v != nil
	}
	m[g] = nil
	bm := c.byteMapSummary0(g)
	m[g] = bm
	return bm, bm != nil
}

func (c *Ctx) byteMapSummary0(g *ssa.Function) *byteMap {
	if g == nil || !inModule(g) || len(g.Blocks) == 0 || len(g.Params) == 0 || !isStringType(g.Params[0].Type()) {
		return nil
	}
	if g.Signature.Results().Len() != 1 || !isStringType(g.Signature.Results().At(0).Type()) {
		return nil
	}
	for _, p := range g.Params[1:] {
		if basicKind(p.Type()) != types.Uint8 {
			return nil
		}
	}
	// exactly one loop, over every byte of the text
	var head *ssa.BasicBlock
	for _, b := range g.Blocks {
		for _, s := range b.Succs {
			if s == b || s.Dominates(b) {
				if head != nil && head != s {
					return nil
				}
				head = s
			}
		}
	}
	if head == nil || !c.fullCountingLoop(head, g.Params[0]) {
		return nil
	}
	counter := head.Instrs[len(head.Instrs)-1].(*ssa.If).Cond.(*ssa.BinOp).X.(*ssa.Phi)
	// the accumulator: a strings.Builder local or a []byte carried round the loop
	var rets []*ssa.Return
	for _, b := range g.Blocks {
		for _, in := range b.Instrs {
			if r, ok := in.(*ssa.Return); ok {
				rets = append(rets, r)
			}
		}
	}
	if len(rets) != 1 {
		return nil
	}
	var builder *ssa.Alloc
	var accPhi *ssa.Phi
	switch rv := rets[0].Results[0].(type) {
	case *ssa.Call:
		if calleeFullName(rv) != "(*strings.Builder).String" {
			return nil
		}
		builder, _ = rv.Call.Args[0].(*ssa.Alloc)
		if builder == nil {
			return nil
		}
	case *ssa.Convert:
		accPhi, _ = rv.X.(*ssa.Phi)
		if accPhi == nil || accPhi.Block() != head || !isByteSlice(accPhi.Type()) {
			return nil
		}
		// starts empty
		for i, p := range head.Preds {
			if p == head || head.Dominates(p) {
				continue
			}
			switch init := accPhi.Edges[i].(type) {
			case *ssa.MakeSlice:
				if n, ok := constIntVal(init.Len); !ok || n != 0 {
					return nil
				}
			case *ssa.Const:
				if !init.IsNil() {
					return nil
				}
			default:
				return nil
			}
		}
	default:
		return nil
	}
	isElem := func(v ssa.Value) bool {
		ix, ok := v.(*ssa.Index)
		return ok && ix.X == ssa.Value(g.Params[0]) && ix.Index == ssa.Value(counter)
	}
	// what a value written to the accumulator is: the current byte, a constant, or a byte parameter
	describe := func(v ssa.Value) (string, bool) {
		if isElem(v) {
			return "\x00elem", true
		}
		if k, ok := v.(*ssa.Const); ok {
			if s, isStr := constStringVal(k); isStr {
				return s, true
			}
			if n, isInt := constIntVal(k); isInt && n > 0 && n < 128 {
				return string(rune(n)), true
			}
			return "", false
		}
		for i, p := range g.Params {
			if v == ssa.Value(p) && i > 0 {
				return fmt.Sprintf("$%d", i), true
			}
		}
		return "", false
	}
	// every instruction with an effect must be one we understand
	writes := map[ssa.Instruction]bool{}
	for _, b := range g.Blocks {
		for _, in := range b.Instrs {
			switch x := in.(type) {
			case *ssa.Call:
				name := calleeFullName(x)
				if bi, ok := x.Call.Value.(*ssa.Builtin); ok {
					switch bi.Name() {
					case "len", "cap":
						continue
					case "append":
						if accPhi != nil {
							writes[in] = true
							continue
						}
					}
					return nil
				}
				switch name {
				case "(*strings.Builder).Grow", "(*strings.Builder).String", "(*strings.Builder).Len":
					continue
				case "(*strings.Builder).WriteByte", "(*strings.Builder).WriteString", "(*strings.Builder).WriteRune":
					if builder == nil || x.Call.Args[0] != ssa.Value(builder) {
						return nil
					}
					writes[in] = true
					continue
				}
				return nil
			case *ssa.Store:
				// stores into the varargs array of an append are fine; anything else is not
				if ia, ok := x.Addr.(*ssa.IndexAddr); ok {
					if _, isAlloc := ia.X.(*ssa.Alloc); isAlloc {
						continue
					}
				}
				return nil
			case *ssa.MapUpdate, *ssa.Send, *ssa.Go, *ssa.Defer, *ssa.Panic:
				return nil
			}
		}
	}
	cps, complete := c.cyclePathsOpt(g, &InlineOpts{None: true})
	if !complete || len(cps) == 0 {
		return nil
	}
	seenWrites := map[ssa.Instruction]bool{}
	bm := &byteMap{}
	from := map[string]bool{}
	defaultSeen := false
	for _, cp := range cps {
		if cp.head != head {
			return nil
		}
		eq := ""
		for _, a := range cp.atoms {
			bo, ok := a.Src.(*ssa.BinOp)
			if !ok {
				return nil
			}
			if bo.X == ssa.Value(counter) {
				continue // the loop test
			}
			var other ssa.Value
			switch {
			case isElem(bo.X):
				other = bo.Y
			case isElem(bo.Y):
				other = bo.X
			default:
				return nil
			}
			if bo.Op != token.EQL && bo.Op != token.NEQ {
				return nil
			}
			d, ok := describe(other)
			if !ok || d == "\x00elem" {
				return nil
			}
			if a.Op == "==" {
				if eq != "" && eq != d {
					return nil
				}
				eq = d
			}
		}
		// the writes on this iteration, in order
		out := ""
		var last ssa.Value
		for _, in := range cp.instrs {
			if !writes[in] {
				continue
			}
			seenWrites[in] = true
			call := in.(*ssa.Call)
			var v ssa.Value
			if accPhi != nil {
				// append(acc, elems...)
				first := call.Call.Args[0]
				for {
					ph, ok := first.(*ssa.Phi)
					if !ok || ph == accPhi {
						break
					}
					idx := -1
					for i, b := range cp.p.Blocks {
						if b == ph.Block() {
							idx = i
						}
					}
					nv, ok := phiAlong(cp.p.Blocks, ph, idx)
					if !ok {
						return nil
					}
					first = nv
				}
				if first != ssa.Value(accPhi) && first != last {
					return nil
				}
				lit, ok := c.sliceLiteral(call.Call.Args[1], nil)
				if !ok || len(lit) != 1 {
					return nil
				}
				v = lit[0]
				last = call
			} else {
				v = call.Call.Args[1]
			}
			d, ok := describe(v)
			if !ok {
				return nil
			}
			if d == "\x00elem" {
				if eq != "" {
					d = eq
				} else {
					d = "\x00"
				}
			}
			out += d
		}
		if accPhi != nil {
			// the value carried round is the last append of this iteration (or the accumulator unchanged)
			var back ssa.Value = accPhi
			nv, ok := phiAlong(cp.p.Blocks, accPhi, -1)
			if !ok {
				return nil
			}
			for {
				ph, isPhi := nv.(*ssa.Phi)
				if !isPhi || ph == accPhi {
					break
				}
				idx := -1
				for i, b := range cp.p.Blocks {
					if b == ph.Block() {
						idx = i
					}
				}
				nv2, ok := phiAlong(cp.p.Blocks, ph, idx)
				if !ok {
					return nil
				}
				nv = nv2
			}
			back = nv
			if last == nil {
				if back != ssa.Value(accPhi) {
					return nil
				}
			} else if back != last {
				return nil
			}
		}
		if eq == "" {
			// the default arm copies the byte
			if out != "\x00" {
				return nil
			}
			defaultSeen = true
			continue
		}
		if strings.Contains(out, "\x00") {
			return nil
		}
		if from[eq] {
			return nil
		}
		from[eq] = true
		if out != eq {
			bm.pairs = append(bm.pairs, [2]string{eq, out})
		}
	}
	if !defaultSeen || len(seenWrites) != len(writes) {
		return nil
	}
	return bm
}

// byteMapCall: call is a call of a byte-map helper with constant byte arguments; returns the text
// argument and the (pattern, replacement) pairs with the parameters substituted.
func (c *Ctx) byteMapCall(call *ssa.Call, e *env) (ssa.Value, [][2]string, bool) {
	g := call.Call.StaticCallee()
	bm, ok := c.byteMapSummary(g)
	if !ok {
		return nil, nil, false
	}
	subst := func(s string) (string, bool) {
		if !strings.HasPrefix(s, "$") {
			return s, true
		}
		var k int
		if _, err := fmt.Sscan(s[1:], &k); err != nil || k >= len(call.Call.Args) {
			return "", false
		}
		n, isC := constIntVal(c.resolve(call.Call.Args[k], e))
		if !isC || n <= 0 || n >= 128 {
			return "", false
		}
		return string(rune(n)), true
	}
	var pairs [][2]string
	for _, p := range bm.pairs {
		a, okA := subst(p[0])
		b, okB := subst(p[1])
		if !okA || !okB {
			return nil, nil, false
		}
		pairs = append(pairs, [2]string{a, b})
	}
	return call.Call.Args[0], pairs, true
}
