package main

// A8: decision-table extraction for pure predicates over enum-typed inputs. The predicate's SSA CFG
// (and the helpers it calls) is a finite decision diagram over comparisons between enum-typed leaf
// values and constants and membership in constant tables. Every element of the finite abstract
// domain (assignments of enum constants to the leaf keys) is propagated through the diagram by
// constant propagation. Nothing of the repository is compiled or executed; any instruction outside
// the comparison/boolean/constant-table fragment makes the extraction undecided.

import (
	"fmt"
	"go/constant"
	"go/token"
	"go/types"
	"strings"
	"unicode/utf8"

	"golang.org/x/tools/go/ssa"
)

type enumEval struct {
	c      *Ctx
	asg    map[string]int64 // leaf key -> value
	steps  int
	why    string // reason for undecided
	leaves map[string]bool
}

type frame struct {
	fn      *ssa.Function
	argKeys []string
	argVals []ssa.Value // caller-frame values (for closures / nested resolution) – unused for now
	pred    *ssa.BasicBlock
	cur     *ssa.BasicBlock
	phis    map[*ssa.Phi]any // values the phis took when their block was last entered (nil entry: not evaluable)
}

func (ev *enumEval) undecided(format string, a ...any) {
	if ev.why == "" {
		ev.why = fmt.Sprintf(format, a...)
	}
}

func (ev *enumEval) leafKey(fr *frame, v ssa.Value) string {
	return substParams(ev.c.key(v, nil), fr.argKeys)
}

// callBool evaluates fn(args) -> bool under the current assignment.
func (ev *enumEval) callFn(fn *ssa.Function, argKeys []string) (any, bool) {
	if fn == nil || fn.Blocks == nil {
		ev.undecided("call of a function without body")
		return nil, false
	}
	fr := &frame{fn: fn, argKeys: argKeys}
	b := fn.Blocks[0]
	for {
		ev.steps++
		if ev.steps > 20000 {
			ev.undecided("step bound exceeded in %s", fnName(fn))
			return nil, false
		}
		fr.cur = b
		if fr.pred != nil {
			// the phis of the block take their values on entry, all at once (a loop-carried value read later in
			// the body is the one of this iteration)
			if fr.phis == nil {
				fr.phis = map[*ssa.Phi]any{}
			}
			vals := map[*ssa.Phi]any{}
			for _, in := range b.Instrs {
				ph, ok := in.(*ssa.Phi)
				if !ok {
					break
				}
				for i, p := range b.Preds {
					if p == fr.pred {
						why := ev.why
						if v, ok := ev.eval(fr, ph.Edges[i]); ok {
							vals[ph] = v
						} else {
							vals[ph] = nil
							ev.why = why // only matters if the phi is actually read
						}
					}
				}
			}
			for ph, v := range vals {
				fr.phis[ph] = v
			}
		}
		term := b.Instrs[len(b.Instrs)-1]
		switch t := term.(type) {
		case *ssa.Return:
			if len(t.Results) == 0 {
				ev.undecided("%s returns no result", fnName(fn))
				return nil, false
			}
			if len(t.Results) > 1 {
				var tuple []any
				for _, rv := range t.Results {
					v, ok := ev.eval(fr, rv)
					if !ok {
						return nil, false
					}
					tuple = append(tuple, v)
				}
				return tuple, true
			}
			return ev.eval(fr, t.Results[0])
		case *ssa.Jump:
			fr.pred, b = b, b.Succs[0]
		case *ssa.If:
			v, ok := ev.eval(fr, t.Cond)
			if !ok {
				return nil, false
			}
			bv, isB := v.(bool)
			if !isB {
				ev.undecided("non-boolean condition")
				return nil, false
			}
			if bv {
				fr.pred, b = b, b.Succs[0]
			} else {
				fr.pred, b = b, b.Succs[1]
			}
		default:
			ev.undecided("terminator %T in %s", term, fnName(fn))
			return nil, false
		}
	}
}

func (ev *enumEval) eval(fr *frame, v ssa.Value) (any, bool) {
	switch x := v.(type) {
	case *ssa.Const:
		if x.Value == nil {
			ev.undecided("nil constant")
			return nil, false
		}
		switch x.Value.Kind() {
		case constant.Bool:
			return constant.BoolVal(x.Value), true
		case constant.Int:
			n, ok := constant.Int64Val(x.Value)
			return n, ok
		case constant.String:
			return constant.StringVal(x.Value), true
		}
		ev.undecided("constant kind")
		return nil, false
	case *ssa.Parameter:
		k := ev.leafKey(fr, x)
		if val, ok := ev.asg[k]; ok {
			return val, true
		}
		ev.undecided("parameter %s is not an input", k)
		return nil, false
	case *ssa.Convert:
		return ev.eval(fr, x.X)
	case *ssa.Function:
		return x, true
	case *ssa.MakeClosure:
		if fn, ok := x.Fn.(*ssa.Function); ok && len(x.Bindings) == 0 {
			return fn, true
		}
		ev.undecided("closure with bindings as a value")
		return nil, false
	case *ssa.ChangeType:
		return ev.eval(fr, x.X)
	case *ssa.Phi:
		if v, ok := fr.phis[x]; ok {
			if v == nil {
				ev.undecided("phi %s takes a value outside the fragment", ev.c.key(x, nil))
				return nil, false
			}
			return v, true
		}
		for i, p := range x.Block().Preds {
			if p == fr.pred {
				return ev.eval(fr, x.Edges[i])
			}
		}
		ev.undecided("phi without matching predecessor")
		return nil, false
	case *ssa.UnOp:
		if x.Op == token.NOT {
			v, ok := ev.eval(fr, x.X)
			if !ok {
				return nil, false
			}
			return !v.(bool), true
		}
		if x.Op == token.MUL {
			// element of a package-level array table
			if ia, ok := x.X.(*ssa.IndexAddr); ok {
				if g, ok := ia.X.(*ssa.Global); ok && g.Pkg != nil {
					tb := ev.c.readTable(g.Pkg.Pkg.Path(), g.Name())
					if tb.Err == "" && tb.Array {
						iv, ok := ev.eval(fr, ia.Index)
						if !ok {
							return nil, false
						}
						n, isInt := iv.(int64)
						if !isInt {
							ev.undecided("non-integer array index")
							return nil, false
						}
						at, _ := g.Type().Underlying().(*types.Pointer).Elem().Underlying().(*types.Array)
						if at == nil || n < 0 || n >= at.Len() {
							ev.undecided("array table %s indexed out of range (%d): the code would panic", g.Name(), n)
							return nil, false
						}
						for _, e := range tb.Entries {
							if kn, ok := constIntVal(e.Key); ok && kn == n {
								return ev.eval(fr, e.Val)
							}
						}
						// absent entry: the zero value of the element type
						switch et := at.Elem().Underlying().(type) {
						case *types.Basic:
							if et.Info()&types.IsBoolean != 0 {
								return false, true
							}
							if et.Info()&types.IsInteger != 0 {
								return int64(0), true
							}
						}
						ev.undecided("zero value of array element type %s", typeStr(at.Elem()))
						return nil, false
					}
				}
			}
			// field of an element of a package-level slice-of-struct literal: *(&table[i].f)
			if fa, ok := x.X.(*ssa.FieldAddr); ok {
				base := fa.X
				// a local copy of the element (`for _, rule := range table`): one store of *(&table[i]) into the
				// local, in a block that dominates the read
				if al, ok := base.(*ssa.Alloc); ok && al.Referrers() != nil {
					var st *ssa.Store
					n := 0
					for _, ref := range *al.Referrers() {
						if s2, ok := ref.(*ssa.Store); ok && s2.Addr == ssa.Value(al) {
							st = s2
							n++
						}
					}
					if n == 1 && (st.Block() == x.Block() || st.Block().Dominates(x.Block())) {
						if ld, ok := st.Val.(*ssa.UnOp); ok && ld.Op == token.MUL {
							base = ld.X
						}
					}
				}
				if ia, ok := base.(*ssa.IndexAddr); ok {
					if g := ev.c.globalBehind(ia.X, nil); g != nil && ev.c.globalSliceArray(g) != nil && ev.c.onlyInitWrites(g) {
						iv, ok := ev.eval(fr, ia.Index)
						if !ok {
							return nil, false
						}
						n, isInt := iv.(int64)
						if !isInt || n < 0 || n >= ev.c.globalSliceLen(g) {
							ev.undecided("table %s indexed out of range", g.Name())
							return nil, false
						}
						if fv := ev.c.globalSliceField(g, n, fa.Field); fv != nil {
							return ev.eval(fr, fv)
						}
						if b, ok := x.Type().Underlying().(*types.Basic); ok {
							if b.Info()&types.IsBoolean != 0 {
								return false, true
							}
							if b.Info()&types.IsInteger != 0 {
								return int64(0), true
							}
						}
						ev.undecided("element %d of %s has no value for field %d", n, g.Name(), fa.Field)
						return nil, false
					}
				}
			}
			// a leaf: load of an enum-typed field
			k := ev.leafKey(fr, x)
			if val, ok := ev.asg[k]; ok {
				return val, true
			}
			if ev.leaves != nil && isEnumType(x.Type()) {
				ev.leaves[k] = true
				return int64(0), true
			}
			ev.undecided("load of %s (%s) is not an input of the decision table", k, typeStr(x.Type()))
			return nil, false
		}
	case *ssa.Field:
		// field of an element of a package-level slice-of-struct literal written only by the initialiser
		if ld, ok := x.X.(*ssa.UnOp); ok && ld.Op == token.MUL {
			if ia, ok := ld.X.(*ssa.IndexAddr); ok {
				if g := ev.c.globalBehind(ia.X, nil); g != nil && ev.c.globalSliceArray(g) != nil && ev.c.onlyInitWrites(g) {
					iv, ok := ev.eval(fr, ia.Index)
					if !ok {
						return nil, false
					}
					n, isInt := iv.(int64)
					if !isInt || n < 0 || n >= ev.c.globalSliceLen(g) {
						ev.undecided("table %s indexed out of range", g.Name())
						return nil, false
					}
					fv := ev.c.globalSliceField(g, n, x.Field)
					if fv == nil {
						// a field the literal leaves out: the zero value
						if b, ok := x.Type().Underlying().(*types.Basic); ok {
							if b.Info()&types.IsBoolean != 0 {
								return false, true
							}
							if b.Info()&types.IsInteger != 0 {
								return int64(0), true
							}
						}
						ev.undecided("element %d of %s has no value for field %d", n, g.Name(), x.Field)
						return nil, false
					}
					return ev.eval(fr, fv)
				}
			}
		}
		k := ev.leafKey(fr, x)
		if val, ok := ev.asg[k]; ok {
			return val, true
		}
		if ev.leaves != nil && isEnumType(x.Type()) {
			ev.leaves[k] = true
			return int64(0), true
		}
		ev.undecided("field %s is not an input", k)
		return nil, false
	case *ssa.BinOp:
		l, ok1 := ev.eval(fr, x.X)
		if !ok1 {
			return nil, false
		}
		r, ok2 := ev.eval(fr, x.Y)
		if !ok2 {
			return nil, false
		}
		li, lok := l.(int64)
		ri, rok := r.(int64)
		if lok && rok {
			switch x.Op {
			case token.EQL:
				return li == ri, true
			case token.NEQ:
				return li != ri, true
			case token.LSS:
				return li < ri, true
			case token.LEQ:
				return li <= ri, true
			case token.GTR:
				return li > ri, true
			case token.GEQ:
				return li >= ri, true
			case token.ADD:
				return li + ri, true
			case token.SUB:
				return li - ri, true
			case token.AND:
				return li & ri, true
			case token.OR:
				return li | ri, true
			case token.XOR:
				return li ^ ri, true
			case token.AND_NOT:
				return li &^ ri, true
			case token.SHL:
				if ri >= 0 && ri < 63 {
					return li << uint(ri), true
				}
			case token.SHR:
				if ri >= 0 && ri < 63 {
					return li >> uint(ri), true
				}
			}
		}
		lb, lok2 := l.(bool)
		rb, rok2 := r.(bool)
		if lok2 && rok2 {
			switch x.Op {
			case token.EQL:
				return lb == rb, true
			case token.NEQ:
				return lb != rb, true
			case token.AND:
				return lb && rb, true
			case token.OR:
				return lb || rb, true
			}
		}
		ev.undecided("binary operator %s outside the comparison fragment", x.Op)
		return nil, false
	case *ssa.Extract:
		if lk, ok := x.Tuple.(*ssa.Lookup); ok && lk.CommaOk {
			found, val, ok := ev.lookup(fr, lk)
			if !ok {
				return nil, false
			}
			if x.Index == 1 {
				return found, true
			}
			return val, val != nil
		}
		if call, ok := x.Tuple.(*ssa.Call); ok {
			v, ok := ev.eval(fr, call)
			if !ok {
				return nil, false
			}
			if tuple, isT := v.([]any); isT && x.Index < len(tuple) {
				return tuple[x.Index], true
			}
			ev.undecided("result %d of %s", x.Index, ev.c.key(call, nil))
			return nil, false
		}
	case *ssa.Lookup:
		_, val, ok := ev.lookup(fr, x)
		return val, ok && val != nil
	case *ssa.Call:
		if bi, ok := x.Call.Value.(*ssa.Builtin); ok && bi.Name() == "len" && len(x.Call.Args) == 1 {
			if g := ev.c.globalBehind(x.Call.Args[0], nil); g != nil && ev.c.globalSliceArray(g) != nil && ev.c.onlyInitWrites(g) {
				return ev.c.globalSliceLen(g), true
			}
			ev.undecided("len of %s", ev.c.key(x.Call.Args[0], nil))
			return nil, false
		}
		f := x.Call.StaticCallee()
		if f == nil && !x.Call.IsInvoke() {
			// a call through a function value taken from a constant table
			if fv, ok := ev.eval(fr, x.Call.Value); ok {
				if fn, isFn := fv.(*ssa.Function); isFn {
					f = fn
				}
			} else {
				return nil, false
			}
		}
		if f != nil && !inModule(f) && len(x.Call.Args) == 1 {
			// trusted models of unicode rune classes at the few constants the rules ask about
			name := f.String()
			if name == "unicode.IsLetter" || name == "unicode.IsDigit" || name == "unicode.IsSpace" {
				av, ok := ev.eval(fr, x.Call.Args[0])
				if !ok {
					return nil, false
				}
				rv, isInt := av.(int64)
				if !isInt {
					ev.undecided("non-integer rune")
					return nil, false
				}
				if rv < 0 {
					return false, true
				}
				if rv > 127 {
					// Unicode White_Space beyond ASCII (documented in package unicode); letters and
					// digits beyond ASCII are not modelled
					if name == "unicode.IsSpace" {
						switch {
						case rv == 0x85, rv == 0xA0, rv == 0x1680, rv >= 0x2000 && rv <= 0x200a, rv == 0x2028, rv == 0x2029, rv == 0x202f, rv == 0x205f, rv == 0x3000:
							return true, true
						}
						return false, true
					}
					// two non-ASCII probes: U+00E9 (é, a letter) and U+20AC (€, a symbol)
					if rv == 0xE9 {
						return name == "unicode.IsLetter", true
					}
					if rv == 0x20AC {
						return false, true
					}
					ev.undecided("unicode class of non-ASCII rune %d not modelled", rv)
					return nil, false
				}
				ch := byte(rv)
				switch name {
				case "unicode.IsLetter":
					return ch >= 'a' && ch <= 'z' || ch >= 'A' && ch <= 'Z', true
				case "unicode.IsDigit":
					return ch >= '0' && ch <= '9', true
				default:
					return ch == ' ' || ch == '\t' || ch == '\n' || ch == '\r' || ch == '\v' || ch == '\f', true
				}
			}
		}
		if f != nil && !inModule(f) && len(x.Call.Args) == 2 && (f.String() == "strings.ContainsRune" || f.String() == "strings.IndexRune" || f.String() == "strings.IndexByte") {
			// membership of a rune in a constant string (strings.IndexRune documents −1 for an invalid rune)
			if set, isC := constStringVal(ev.c.resolve(x.Call.Args[0], nil)); isC && utf8.ValidString(set) {
				av, ok := ev.eval(fr, x.Call.Args[1])
				if !ok {
					return nil, false
				}
				rv, isInt := av.(int64)
				if !isInt {
					ev.undecided("non-integer rune")
					return nil, false
				}
				idx := int64(-1)
				if rv >= 0 && rv != utf8.RuneError && utf8.ValidRune(rune(rv)) {
					idx = int64(strings.IndexRune(set, rune(rv)))
				}
				if f.String() == "strings.ContainsRune" {
					return idx >= 0, true
				}
				return idx, true
			}
		}
		if f != nil && !inModule(f) && len(x.Call.Args) == 2 && (strings.HasPrefix(f.String(), "slices.Contains[") || strings.HasPrefix(f.String(), "slices.Index[")) {
			// membership in a package-level slice literal of enum constants
			if g := ev.c.globalBehind(x.Call.Args[0], nil); g != nil {
				if arr := ev.c.globalSliceArray(g); arr != nil && ev.c.onlyInitWrites(g) {
					if elems := localArrayElems(arr); elems != nil {
						want, ok := ev.eval(fr, x.Call.Args[1])
						if !ok {
							return nil, false
						}
						wn, isInt := want.(int64)
						idx := int64(-1)
						for i, el := range elems {
							n, isC := constIntVal(el)
							if !isC || !isInt {
								ev.undecided("non-constant element in %s", g.Name())
								return nil, false
							}
							if n == wn && idx < 0 {
								idx = int64(i)
							}
						}
						if strings.HasPrefix(f.String(), "slices.Contains[") {
							return idx >= 0, true
						}
						return idx, true
					}
				}
			}
		}
		if f == nil || !inModule(f) {
			ev.undecided("call of %s outside the module fragment", ev.c.key(x, nil))
			return nil, false
		}
		var keys []string
		for i, a := range x.Call.Args {
			k := ev.leafKey(fr, a)
			// scalar arguments are passed by value: evaluate and bind under a fresh key
			if b, ok := a.Type().Underlying().(*types.Basic); ok && b.Info()&types.IsInteger != 0 {
				if av, ok := ev.eval(fr, a); ok {
					if n, isInt := av.(int64); isInt {
						k = fmt.Sprintf("%s#arg%d@%d", fnName(f), i, ev.steps)
						ev.asg[k] = n
					}
				}
			}
			keys = append(keys, k)
		}
		return ev.callFn(f, keys)
	}
	ev.undecided("instruction %T (%s) outside the comparison/boolean/constant-table fragment", v, ev.c.key(v, nil))
	return nil, false
}

func (ev *enumEval) lookup(fr *frame, lk *ssa.Lookup) (found bool, val any, ok bool) {
	ld, isLoad := lk.X.(*ssa.UnOp)
	if !isLoad {
		ev.undecided("lookup in a non-global map")
		return false, nil, false
	}
	g, isG := ld.X.(*ssa.Global)
	if !isG {
		ev.undecided("lookup in a non-global map")
		return false, nil, false
	}
	tb := ev.c.readTable(g.Pkg.Pkg.Path(), g.Name())
	if tb.Err != "" {
		ev.undecided("table %s: %s", g.Name(), tb.Err)
		return false, nil, false
	}
	kv, ok := ev.eval(fr, lk.Index)
	if !ok {
		return false, nil, false
	}
	ki, isInt := kv.(int64)
	if !isInt {
		ev.undecided("non-integer table key")
		return false, nil, false
	}
	for _, e := range tb.Entries {
		if n, ok := constIntVal(e.Key); ok && n == ki {
			if k, ok := e.Val.(*ssa.Const); ok && k.Value != nil && k.Value.Kind() == constant.Int {
				n2, _ := constant.Int64Val(k.Value)
				return true, n2, true
			}
			return true, nil, true
		}
	}
	return false, int64(0), true
}

func isEnumType(t types.Type) bool {
	n, ok := t.(*types.Named)
	if !ok || n.Obj().Pkg() == nil {
		return false
	}
	b, ok := n.Underlying().(*types.Basic)
	return ok && b.Info()&types.IsInteger != 0 && (n.Obj().Name() == "TokType" || n.Obj().Name() == "Operator")
}

// discoverLeaves runs the predicate once in discovery mode along *every* branch to collect the
// enum-typed leaf keys it depends on.
func (c *Ctx) discoverLeaves(fn *ssa.Function, argKeys []string) ([]string, string) {
	leaves := map[string]bool{}
	seen := map[*ssa.Function]bool{}
	var scan func(f *ssa.Function, keys []string, depth int) string
	scan = func(f *ssa.Function, keys []string, depth int) string {
		if depth > 6 || f == nil || f.Blocks == nil {
			return ""
		}
		id := f
		if seen[id] && depth > 0 {
			// different argument keys may matter; allow re-scan but bound by depth
		}
		seen[id] = true
		for _, b := range f.Blocks {
			for _, in := range b.Instrs {
				switch x := in.(type) {
				case *ssa.UnOp:
					if x.Op == token.MUL && isEnumType(x.Type()) {
						if _, isFA := x.X.(*ssa.FieldAddr); isFA {
							leaves[substParams(c.key(x, nil), keys)] = true
						}
					}
				case *ssa.Field:
					if isEnumType(x.Type()) {
						leaves[substParams(c.key(x, nil), keys)] = true
					}
				case *ssa.Call:
					if g := x.Call.StaticCallee(); g != nil && inModule(g) {
						var ks []string
						for _, a := range x.Call.Args {
							ks = append(ks, substParams(c.key(a, nil), keys))
						}
						if msg := scan(g, ks, depth+1); msg != "" {
							return msg
						}
					}
				}
			}
		}
		return ""
	}
	msg := scan(fn, argKeys, 0)
	var out []string
	for k := range leaves {
		out = append(out, k)
	}
	sortStrings(out)
	return out, msg
}

// decisionTable evaluates fn over all assignments of `domain` values to the discovered leaves.
// Returns table[assignment-tuple-as-string] = bool, the ordered leaf keys, or an undecided reason.
func (c *Ctx) decisionTable(fn *ssa.Function, argKeys []string, domain []int64) (leaves []string, table map[string]bool, why string) {
	leaves, msg := c.discoverLeaves(fn, argKeys)
	if msg != "" {
		return leaves, nil, msg
	}
	if len(leaves) == 0 || len(leaves) > 2 {
		return leaves, nil, fmt.Sprintf("expected 1 or 2 enum-typed inputs, found %d: %v", len(leaves), leaves)
	}
	table = map[string]bool{}
	var rec func(i int, asg map[string]int64, tuple []int64) string
	rec = func(i int, asg map[string]int64, tuple []int64) string {
		if i == len(leaves) {
			ev := &enumEval{c: c, asg: asg}
			v, ok := ev.callFn(fn, argKeys)
			if !ok {
				return ev.why
			}
			b, isB := v.(bool)
			if !isB {
				return "predicate result is not boolean"
			}
			table[fmt.Sprint(tuple)] = b
			return ""
		}
		for _, d := range domain {
			asg[leaves[i]] = d
			if w := rec(i+1, asg, append(tuple, d)); w != "" {
				return w
			}
		}
		return ""
	}
	if w := rec(0, map[string]int64{}, nil); w != "" {
		return leaves, nil, w
	}
	return leaves, table, ""
}

// runePredAt evaluates a module predicate func(rune) bool at a constant rune (A8 constant folding).
func (c *Ctx) runePredAt(fn *ssa.Function, r int64) (bool, string) {
	ev := &enumEval{c: c, asg: map[string]int64{"$0": r}}
	v, ok := ev.callFn(fn, []string{"$0"})
	if !ok {
		return false, ev.why
	}
	b, isB := v.(bool)
	if !isB {
		return false, "not boolean"
	}
	return b, ""
}
