package main

// C15: FOLD, FOLD-MISS, TABLE-KEYS.

import (
	"fmt"
	"strings"

	"golang.org/x/tools/go/ssa"
)

func ruleFOLD(c *Ctx, r *Report) {
	const rule = "FOLD"
	r.doc(rule, "CFG path rule on Render: on every path to a success return the serialiser is called exactly once on e.Left and then exactly once on e.Right, each error is propagated, the function called is the result of the lookup b.RenderFNs[e.Op] on the receiver's own table with the found flag true, its arguments are the two serialisations in that order modified at most by the parenthesis wrap, its results are returned unchanged, and no operator is special-cased before the lookup")
	dr := c.driverRoles()
	if dr.Err != "" {
		r.bad(rule, "anchor", "-", dr.Err)
		return
	}
	fn := dr.Render
	r.unit("functions", fnName(fn))
	lk := c.renderLookup(fn)
	if lk == nil {
		r.bad(rule, "lookup", c.pos(fn.Pos()), "Render does not look its render function up in b.RenderFNs")
		return
	}
	if k := c.key(lk.Index, nil); !strings.HasSuffix(k, ".Op") {
		r.bad(rule, "lookup|key", c.instrPos(lk), "the render function is looked up by "+k+" instead of the node's operator")
	} else if rk := c.key(lk.X, nil); rk != "$0.RenderFNs" {
		r.bad(rule, "lookup|table", c.instrPos(lk), "the render function is looked up in "+rk+" instead of the receiver's own RenderFNs")
	} else {
		r.ok(rule, "lookup", c.instrPos(lk), "b.RenderFNs[e.Op]")
	}
	paths, complete := c.enumPathsInl(fn, 20000, c.serKeep()...)
	if !complete {
		r.bad(rule, "paths", c.pos(fn.Pos()), "too many paths")
		return
	}
	nSucc := 0
	leftK := c.key(nil, nil)
	_ = leftK
	for _, p := range paths {
		if p.Ret == nil {
			continue
		}
		errV := c.resolve(p.Ret.Results[1], p.Env)
		val := c.resolve(p.Ret.Results[0], p.Env)
		passed := false
		var serArgs []string
		for _, in := range p.Instrs {
			if in == ssa.Instruction(lk) {
				passed = true
			}
			if call, ok := in.(*ssa.Call); ok && call.Call.StaticCallee() == dr.Ser {
				serArgs = append(serArgs, c.key(call.Call.Args[1], p.Env))
			}
		}
		pos := c.instrPos(p.Ret)
		if hasAtom(p.Atoms, "$1==nil") {
			if s, ok := constStringVal(val); ok && s == "" && isNilConst(errV) {
				r.ok(rule, "nil-node", pos, "nil node renders as empty")
			} else {
				r.bad(rule, "nil-node", pos, "a nil node must render as the empty string")
			}
			continue
		}
		if !passed {
			// must be an error propagation from a child serialisation
			fwd := false
			if ex, ok := errV.(*ssa.Extract); ok {
				if call, ok := ex.Tuple.(*ssa.Call); ok && call.Call.StaticCallee() == dr.Ser {
					for _, a := range p.Atoms {
						if a.Kind == "nil" && !a.Pos && a.Subj == c.key(errV, p.Env) {
							fwd = true
						}
					}
				}
			}
			key := "pre-lookup-return|" + c.key(val, p.Env)
			if fwd {
				r.ok(rule, "child-error-propagated|"+strings.Join(serArgs, ","), pos, "child error returned")
			} else {
				var ops []string
				for _, a := range p.Atoms {
					if a.Kind == "cmp" && strings.HasSuffix(a.Subj, ".Op") {
						ops = append(ops, a.String())
					}
				}
				r.bad(rule, key, pos, fmt.Sprintf("Render returns before consulting the render-function table (conditions: %v): a custom function registered for that operator is bypassed", ops))
			}
			continue
		}
		found := -1
		for _, a := range p.Atoms {
			if a.Kind == "call" && strings.HasPrefix(a.Subj, "haskey:$0.RenderFNs") {
				found = b2i(a.Pos)
			}
		}
		if found == 0 {
			// FOLD-MISS
			if s, ok := constStringVal(val); ok && s == "" && !isNilConst(errV) {
				r.ok("FOLD-MISS", "Render|missing-entry", pos, "error and empty string")
			} else {
				r.bad("FOLD-MISS", "Render|missing-entry", pos, "when no function is registered for the node's operator Render must fail with an error and an empty string; it returns "+c.key(val, p.Env)+", "+c.key(errV, p.Env))
			}
			continue
		}
		// success / tail call path
		nSucc++
		if len(serArgs) != 2 || serArgs[0] != "$1.Left" || serArgs[1] != "$1.Right" {
			r.bad(rule, "children|"+strings.Join(serArgs, ","), pos, fmt.Sprintf("on a path to the render-function call the serialiser is applied to %v; it must be applied exactly once to e.Left and then once to e.Right", serArgs))
			continue
		}
		var call *ssa.Call
		if ex, ok := val.(*ssa.Extract); ok && ex.Index == 0 {
			call, _ = ex.Tuple.(*ssa.Call)
		}
		if call == nil {
			r.bad(rule, "result|"+c.key(val, p.Env), pos, "the value returned is not the render function's result: "+c.key(val, p.Env))
			continue
		}
		if ex2, ok := errV.(*ssa.Extract); !ok || ex2.Tuple != ssa.Value(call) {
			r.bad(rule, "result|error", pos, "the render function's error is not returned unchanged")
			continue
		}
		calleeKey := c.key(call.Call.Value, p.Env)
		if calleeKey != "$0.RenderFNs[$1.Op]#0" {
			r.bad(rule, "callee|"+calleeKey, pos, "the function called is "+calleeKey+", not the one registered for the node's operator in the receiver's table")
			continue
		}
		if len(call.Call.Args) != 2 {
			r.bad(rule, "args", pos, "render function called with wrong arity")
			continue
		}
		okArgs := true
		for i, a := range call.Call.Args {
			side := []string{"Left", "Right"}[i]
			base := fmt.Sprintf("%s($0,$1.%s)#0", fnName(dr.Ser), side)
			sk := skelString(c.skeleton(a, p.Env))
			if sk != "{"+base+"}" && sk != "({"+base+"})" {
				okArgs = false
				r.bad(rule, fmt.Sprintf("arg%d|%s", i, sk), pos, fmt.Sprintf("argument %d of the render function must be the serialisation of e.%s, wrapped in parentheses at most; it is %s", i, side, sk))
			}
		}
		if okArgs {
			r.ok(rule, "fold-path", pos, "fn(left, right) with fn = b.RenderFNs[e.Op]")
		}
	}
	r.floor(rule, "paths reaching the render-function call", nSucc, 1)
	// the serialiser dispatches *Expression → Render, []*Expression → Render per element, RangeBoundary → Min then Max
	c.foldSerialiser(r, dr.Ser, dr.Render, "inline")
	c.foldSerialiser(r, dr.SerParam, dr.RenderParam, "param")
}

func (c *Ctx) foldSerialiser(r *Report, ser, render *ssa.Function, mode string) {
	const rule = "FOLD"
	cases := map[string][]string{}
	// path-based with the serialiser's own helpers read in place: per dynamic type, the sequence of calls of
	// the renderer / the serialiser itself on the longest path; every other path of that type must be a
	// prefix of it (error returns stop early)
	_ = c.driverRoles()
	fo := &InlineOpts{Keep: map[*ssa.Function]bool{}, Loops: true}
	dr0 := c.driverRoles()
	keepFns := c.serKeep()
	if mode == "inline" {
		// inline mode has no declassified case: a wrapper with the serialiser's signature is read in place,
		// so that an answer it gives without calling back is seen
		keepFns = []*ssa.Function{dr0.Render, dr0.RenderParam, dr0.Ser, dr0.SerParam}
	}
	for _, k := range keepFns {
		if k != nil {
			fo.Keep[k] = true
		}
	}
	paths, _ := c.enumPathsOpt(ser, 20000, fo)
	// an absent operand (nil interface) serialises to the empty string: Render adds no text of its own for it
	{
		nilOK, nilBad, nilPos := false, "", ""
		for _, p := range paths {
			if p.Ret == nil || len(p.Ret.Results) < 2 {
				continue
			}
			if ek, ok := c.resolve(p.Ret.Results[len(p.Ret.Results)-1], p.Env).(*ssa.Const); !ok || !ek.IsNil() {
				continue
			}
			mayBeNil, isNil := true, false
			for _, a := range p.Atoms {
				if a.Subj != "$1" {
					continue
				}
				if a.Kind == "type" && a.Pos {
					mayBeNil = false
				}
				if a.Kind == "nil" {
					if a.Pos {
						isNil = true
					} else {
						mayBeNil = false
					}
				}
			}
			if !mayBeNil {
				continue
			}
			k, isConst := c.resolve(p.Ret.Results[0], p.Env).(*ssa.Const)
			if isConst && k.Value != nil && k.Value.ExactString() == `""` {
				if isNil {
					nilOK = true
				}
				continue
			}
			nilBad, nilPos = c.key(p.Ret.Results[0], p.Env), c.instrPos(p.Ret)
		}
		switch {
		case nilBad != "":
			r.bad(rule, mode+"|serialiser|nil-operand", nilPos, fmt.Sprintf("%s can return %s for an operand that is nil (no dynamic type was established on this path and the operand was not compared with nil): a node without a right child hands its render function text that Render invented instead of the empty string", fnName(ser), nilBad))
		case nilOK:
			r.ok(rule, mode+"|serialiser|nil-operand", c.pos(ser.Pos()), "a nil operand serialises to the empty string")
		default:
			r.bad(rule, mode+"|serialiser|nil-operand", c.pos(ser.Pos()), fnName(ser)+" has no path that answers a nil operand with the empty string")
		}
	}
	successSeqs := map[string][][]string{}
	inconsistent := map[string]bool{}
	allSeqs := map[string][][]string{}
	for _, p := range paths {
		typ := ""
		for _, a := range p.Atoms {
			if a.Kind == "type" && a.Pos && a.Subj == "$1" {
				typ = a.Val
			}
		}
		var seq []string
		for _, pc := range p.Calls {
			call := pc.Call
			sc := call.Call.StaticCallee()
			if len(pc.Args) < 2 {
				continue
			}
			if sc == render || sc == ser {
				seq = append(seq, fnName(sc)+"("+pc.Args[1]+")")
			} else if sc != nil && sc.Signature.Recv() != nil && fnPkgPath(sc) == pkgDriver && len(call.Call.Args) == 2 && c.calls(sc, ser) && !c.wasInlined(p, call) {
				// a helper method of the driver that wraps the serialiser (e.g. for an unbounded range end)
				seq = append(seq, fnName(sc)+"("+pc.Args[1]+")")
			}
		}
		allSeqs[typ] = append(allSeqs[typ], seq)
		if len(seq) > len(cases[typ]) {
			cases[typ] = seq
		}
		if p.Ret != nil && len(p.Ret.Results) > 0 && isNilConst(c.resolve(p.Ret.Results[len(p.Ret.Results)-1], p.Env)) {
			successSeqs[typ] = append(successSeqs[typ], seq)
		}
	}
	if mode == "inline" {
		// every successful serialisation of a range boundary has rendered both ends through the serialiser
		for _, seq := range successSeqs["*expr.RangeBoundary"] {
			if len(seq) != len(cases["*expr.RangeBoundary"]) {
				inconsistent["*expr.RangeBoundary"] = true
			}
		}
	}
	// order-preserving: every path's sequence must be a subsequence of the longest one of its type (an
	// error return stops early, a helper may answer for one operand without calling back)
	for typ, seqs := range allSeqs {
		long := cases[typ]
		for _, short := range seqs {
			k := 0
			for _, x := range long {
				if k < len(short) && short[k] == x {
					k++
				}
			}
			if k != len(short) {
				inconsistent[typ] = true
			}
		}
	}
	for typ := range inconsistent {
		cases[typ] = append(cases[typ], "(paths disagree)")
	}
	check := func(typ string, want func([]string) bool, desc string) {
		key := mode + "|serialiser|" + typ
		if want(cases[typ]) {
			r.ok(rule, key, c.pos(ser.Pos()), strings.Join(cases[typ], ", "))
		} else {
			r.bad(rule, key, c.pos(ser.Pos()), fmt.Sprintf("the %s serialiser must dispatch %s %s; it calls %v", mode, typ, desc, cases[typ]))
		}
	}
	check("*expr.Expression", func(cs []string) bool {
		return len(cs) == 1 && cs[0] == fnName(render)+"($1.(*expr.Expression))"
	}, "to the renderer exactly once")
	check("[]*expr.Expression", func(cs []string) bool {
		return len(cs) == 1 && strings.HasPrefix(cs[0], fnName(render)+"($1.([]*expr.Expression)[")
	}, "to the renderer once per element in order")
	check("*expr.RangeBoundary", func(cs []string) bool {
		if len(cs) != 2 {
			return false
		}
		return strings.Contains(cs[0], ".Min)") && strings.Contains(cs[1], ".Max)")
	}, "to itself on Min then Max")
	// list elements: on every cycle of the element loop that continues, the element's rendering is
	// appended to what is joined (no element is skipped)
	cps, _ := c.cyclePaths(ser)
	// the element loop may sit in a helper method of the serialiser
	for _, b := range ser.Blocks {
		for _, in := range b.Instrs {
			if call, ok := in.(*ssa.Call); ok {
				if h := call.Call.StaticCallee(); h != nil && h != ser && h != render && fnPkgPath(h) == pkgDriver && len(h.Blocks) > 0 && c.calls(h, render) {
					more, _ := c.cyclePaths(h)
					cps = append(cps, more...)
				}
			}
		}
	}
	// the accumulated list text is handed on as it is: trimming it with a cutset (strings.Trim / TrimRight /
	// TrimLeft) also removes characters that belong to the last (or first) member's own rendering
	for _, f := range append([]*ssa.Function{ser}, c.serHelpers(ser, render)...) {
		for _, b := range f.Blocks {
			for _, in := range b.Instrs {
				call, ok := in.(*ssa.Call)
				if !ok {
					continue
				}
				switch calleeFullName(call) {
				case "strings.Trim", "strings.TrimRight", "strings.TrimLeft":
				default:
					continue
				}
				src := c.key(call.Call.Args[0], nil)
				if strings.Contains(src, "(*strings.Builder).String") || strings.Contains(src, "strings.Join(") || strings.Contains(src, "(*bytes.Buffer).String") {
					r.bad(rule, fmt.Sprintf("%s|serialiser|list-trim|%s", mode, calleeFullName(call)), c.instrPos(call), fmt.Sprintf("the %s serialiser trims the accumulated list text with %s and the cutset %s: a cutset removes every trailing (leading) character of that set, also those that belong to a member's own rendering, so the list function no longer receives the exact fold of its members", mode, calleeFullName(call), c.key(call.Call.Args[1], nil)))
				}
			}
		}
	}
	n := 0
	for _, cp := range cps {
		rendered, appended := false, false
		var rkey string
		for _, in := range cp.instrs {
			call, ok := in.(*ssa.Call)
			if !ok {
				continue
			}
			if call.Call.StaticCallee() == render {
				rendered = true
				rkey = c.key(call, nil) + "#0"
			}
			if bi, ok := call.Call.Value.(*ssa.Builtin); ok && bi.Name() == "append" && rendered {
				if strings.Contains(c.key(call.Call.Args[1], nil), rkey) {
					appended = true
				}
			}
			// … or written into the builder that accumulates the list text
			if name := calleeFullName(call); rendered && (name == "(*strings.Builder).WriteString" || name == "(*bytes.Buffer).WriteString") && len(call.Call.Args) == 2 {
				if strings.Contains(c.key(call.Call.Args[1], nil), rkey) {
					appended = true
				}
			}
		}
		if !rendered {
			continue
		}
		n++
		key := fmt.Sprintf("%s|serialiser|list-cycle%d", mode, n)
		if appended {
			r.ok(rule, key, c.pos(ser.Pos()), "element rendering appended on this cycle")
		} else {
			r.bad(rule, key, c.pos(ser.Pos()), fmt.Sprintf("the %s serialiser has a cycle of its list loop that renders an element but does not add its text to the list (elements can be skipped): the list function no longer receives the fold of all its children", mode))
		}
	}
	if n == 0 {
		r.bad(rule, mode+"|serialiser|list-loop", c.pos(ser.Pos()), "the "+mode+" serialiser does not render list elements one by one through the renderer")
	}
}

func ruleFOLDMISS(c *Ctx, r *Report) {
	const rule = "FOLD-MISS"
	r.doc(rule, "the not-found edge of the lookup returns a non-nil error and the zero string in Render and RenderParam; the operators RenderParam handles before its lookup are read off the code and must not contain Fuzzy or Boost, and children's errors are propagated first")
	dr := c.driverRoles()
	if dr.Err != "" {
		r.bad(rule, "anchor", "-", dr.Err)
		return
	}
	fn := dr.RenderParam
	lk := c.renderLookup(fn)
	if lk == nil {
		r.bad(rule, "RenderParam|lookup", c.pos(fn.Pos()), "RenderParam does not look its render function up in b.RenderFNs")
		return
	}
	paths, _ := c.enumPaths(fn, 20000)
	miss := false
	for _, p := range paths {
		if p.Ret == nil {
			continue
		}
		for _, a := range p.Atoms {
			if a.Kind == "call" && strings.HasPrefix(a.Subj, "haskey:$0.RenderFNs") && !a.Pos {
				miss = true
				val, errV := c.resolve(p.Ret.Results[0], p.Env), c.resolve(p.Ret.Results[2], p.Env)
				if s, ok := constStringVal(val); ok && s == "" && !isNilConst(errV) {
					r.ok(rule, "RenderParam|missing-entry", c.instrPos(p.Ret), "error and empty SQL")
				} else {
					r.bad(rule, "RenderParam|missing-entry", c.instrPos(p.Ret), "when no function is registered for the node's operator RenderParam must fail with an error and empty SQL")
				}
			}
		}
	}
	if !miss {
		r.bad(rule, "RenderParam|missing-entry", c.pos(fn.Pos()), "RenderParam has no failing path for an operator without a registered function")
	}
	special := c.specialCasedOps(fn)
	for op, callee := range special {
		key := "RenderParam|special-cased|" + op
		if op == "expr.Fuzzy" || op == "expr.Boost" {
			r.bad(rule, key, c.pos(fn.Pos()), op+" is handled by "+callee+" before the table lookup: queries containing it no longer fail")
		} else {
			r.ok(rule, key, c.pos(fn.Pos()), "handled by "+callee+" (observation: a custom override of this operator is ignored in parameterized mode)")
		}
	}
	// the same for Render: nothing special-cased
	for op, callee := range c.specialCasedOps(dr.Render) {
		r.bad("FOLD", "Render|special-cased|"+op, c.pos(dr.Render.Pos()), "Render handles "+op+" through "+callee+" before the table lookup: the function registered for that operator is bypassed")
	}
}

func ruleTABLEKEYS(c *Ctx, r *Report) {
	const rule = "TABLE-KEYS"
	r.doc(rule, "keys of driver.Shared and of the postgres driver's table exclude Fuzzy and Boost; the driver's table is Shared overlaid by its own literal, built by copying into a fresh map")
	pt := c.pgPreamble(r, rule)
	if pt == nil {
		return
	}
	for _, op := range []string{"expr.Fuzzy", "expr.Boost"} {
		if e := pt.Shared.byKey()[op]; e != nil {
			r.bad(rule, "Shared|"+op, c.instrPos(e.Pos), "driver.Shared registers a render function for "+op+": ToPostgres no longer fails on fuzzy/boost queries, it silently drops the operator")
		} else {
			r.ok(rule, "Shared|"+op, pt.Shared.where(c), "absent")
		}
		if e := pt.Eff[op]; e != nil {
			r.bad(rule, "postgres|"+op, c.instrPos(e.Pos), "the postgres driver registers a render function for "+op)
		} else {
			r.ok(rule, "postgres|"+op, c.pos(pt.Ctor.Pos()), "absent")
		}
	}
	if pt.CopyLoop {
		r.ok(rule, "postgres|copy", c.pos(pt.Ctor.Pos()), "Shared copied into a fresh map, own entries take precedence")
	} else {
		r.bad(rule, "postgres|copy", c.pos(pt.Ctor.Pos()), "the postgres driver's table is not built by copying Shared into a fresh map")
	}
	r.floor(rule, "Shared entries", len(pt.Shared.Entries), 17)
	r.floor(rule, "postgres table entries", len(pt.Eff), 17)
}

// serHelpers: methods of the driver that the serialiser calls and that call the renderer (the element loop
// may sit in one of them).
func (c *Ctx) serHelpers(ser, render *ssa.Function) []*ssa.Function {
	var out []*ssa.Function
	for _, b := range ser.Blocks {
		for _, in := range b.Instrs {
			if call, ok := in.(*ssa.Call); ok {
				if h := call.Call.StaticCallee(); h != nil && h != ser && h != render && fnPkgPath(h) == pkgDriver && len(h.Blocks) > 0 && c.calls(h, render) {
					out = append(out, h)
				}
			}
		}
	}
	return out
}
