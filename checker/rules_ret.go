package main

// RET-PAIR (C10): all-or-nothing results; CTOR-NONNIL.

import (
	"fmt"
	"go/types"
	"strings"

	"golang.org/x/tools/go/ssa"
)

// errClass classifies the error result on a path: "nil", "nonnil", "forward:<callkey>", "unknown".
func (c *Ctx) errClass(p *Path, v ssa.Value) (string, ssa.Value) {
	rv := c.resolve(v, p.Env)
	if isNilConst(rv) {
		return "nil", nil
	}
	k := c.key(rv, p.Env)
	for _, a := range p.Atoms {
		if a.Kind == "nil" && a.Subj == k {
			if a.Pos {
				return "nil", nil
			}
			return "nonnil", nil
		}
	}
	switch x := rv.(type) {
	case *ssa.Call:
		name := calleeFullName(x)
		if name == "fmt.Errorf" || name == "errors.New" {
			return "nonnil", nil
		}
		return "forward", x
	case *ssa.Extract:
		if call, ok := x.Tuple.(*ssa.Call); ok {
			return "forward", call
		}
	case *ssa.MakeInterface:
		return "nonnil", nil
	}
	return "unknown", nil
}

func (c *Ctx) isZeroVal(p *Path, v ssa.Value) bool {
	rv := c.resolve(v, p.Env)
	if isNilConst(rv) {
		return true
	}
	if s, ok := constStringVal(rv); ok && s == "" {
		return true
	}
	return false
}

// freshPtrFn: every return of f is a fresh allocation (or a call to such a function).
func (c *Ctx) freshPtrFn(f *ssa.Function, depth int) bool {
	if f == nil || depth > 4 {
		return false
	}
	if f.Blocks == nil && f.Origin() != nil {
		f = f.Origin()
	}
	if f.Blocks == nil {
		return false
	}
	n := 0
	for _, b := range f.Blocks {
		for _, in := range b.Instrs {
			r, ok := in.(*ssa.Return)
			if !ok {
				continue
			}
			n++
			if len(r.Results) != 1 {
				return false
			}
			if !c.freshPtrVal(r.Results[0], depth) {
				return false
			}
		}
	}
	return n > 0
}

// returnsParamIdx: every return of the single-result module function g is its parameter #i (-1 if not).
func (c *Ctx) returnsParamIdx(g *ssa.Function) int {
	if g == nil || !inModule(g) || len(g.Blocks) == 0 || g.Signature.Results().Len() != 1 {
		return -1
	}
	idx := -1
	for _, b := range g.Blocks {
		for _, in := range b.Instrs {
			ret, ok := in.(*ssa.Return)
			if !ok {
				continue
			}
			p, ok := c.resolve(ret.Results[0], nil).(*ssa.Parameter)
			if !ok {
				return -1
			}
			pi := -1
			for i, q := range g.Params {
				if q == p {
					pi = i
				}
			}
			if pi < 0 || (idx >= 0 && idx != pi) {
				return -1
			}
			idx = pi
		}
	}
	return idx
}

func (c *Ctx) freshPtrVal(v ssa.Value, depth int) bool {
	v = c.resolve(v, nil)
	switch x := v.(type) {
	case *ssa.Alloc:
		return true
	case *ssa.Call:
		if g := x.Call.StaticCallee(); g != nil {
			if c.freshPtrFn(g, depth+1) {
				return true
			}
			// a helper that hands back one of its arguments on every path
			if i := c.returnsParamIdx(g); i >= 0 && i < len(x.Call.Args) && depth < 6 {
				return c.freshPtrVal(x.Call.Args[i], depth+1)
			}
			return false
		}
	case *ssa.Phi:
		for _, e := range x.Edges {
			if !c.freshPtrVal(e, depth+1) {
				return false
			}
		}
		return true
	}
	return false
}

func ruleCTORNONNIL(c *Ctx, r *Report) {
	const rule = "CTOR-NONNIL"
	r.doc(rule, "every *Expression that reaches the parser stack is non-nil: the general constructor returns a fresh allocation on every path, exported constructors and the token→literal function return constructor results, reducers push constructor results or existing elements")
	general := c.pkgFunc(pkgExpr, "Expr")
	if general == nil {
		r.bad(rule, "expr.Expr", "-", "general constructor expr.Expr not found")
		return
	}
	if c.freshPtrFn(general, 0) {
		r.ok(rule, "expr.Expr", c.pos(general.Pos()), "all returns are the fresh node")
	} else {
		r.bad(rule, "expr.Expr", c.pos(general.Pos()), "expr.Expr can return something other than its freshly allocated node (possibly nil)")
	}
	pt := c.prodTable()
	for _, row := range pt.Rows {
		if row.OutKind != "ctor" {
			continue
		}
		key := "production|" + fnName(row.Ctor)
		if c.freshPtrFn(row.Ctor, 0) {
			r.ok(rule, key, c.instrPos(row.Path.Ret), "constructor returns a fresh node")
		} else {
			r.bad(rule, key, c.instrPos(row.Path.Ret), fnName(row.Ctor)+" used by "+row.name()+" may return nil or an existing node")
		}
	}
	pr := c.parserRoles()
	if pr.TokToLit != nil {
		// path-based with helpers read in place: on every success return the value is a constructor result
		paths, _ := c.enumPathsInl(pr.TokToLit, 5000)
		for _, p := range paths {
			if p.Ret == nil || len(p.Ret.Results) != 2 {
				continue
			}
			v, ve := c.resolveE(p.Ret.Results[0], p.Env)
			if isNilConst(v) {
				continue // error path (checked by RET-PAIR)
			}
			if c.freshPtrVal(v, 0) {
				r.ok(rule, "token-literal|"+c.key(v, ve), c.instrPos(p.Ret), "constructor result")
			} else if !isNilConst(c.resolve(p.Ret.Results[1], p.Env)) {
				continue
			} else {
				r.bad(rule, "token-literal|"+c.key(v, ve), c.instrPos(p.Ret), "the token→literal function returns a value that is not a fresh expression")
			}
		}
	}
}

func ruleRETPAIR(c *Ctx, r *Report) {
	const rule = "RET-PAIR"
	r.doc(rule, "at every return of Parse, the parse loop, ToPostgres, ToParameterizedPostgres, Render, RenderParam, the serialisers and every registered render function: error possibly non-nil ⇒ value result is the zero value; for Parse, error nil ⇒ the expression is the validated parse-loop result")
	pr := c.parserRoles()
	dr := c.driverRoles()
	var fns []*ssa.Function
	add := func(f *ssa.Function) {
		if f == nil {
			return
		}
		for _, g := range fns {
			if g == f {
				return
			}
		}
		fns = append(fns, f)
	}
	add(pr.Parse)
	add(pr.ParseLoop)
	add(c.pkgFunc(pkgRoot, "ToPostgres"))
	add(c.pkgFunc(pkgRoot, "ToParameterizedPostgres"))
	add(dr.Render)
	add(dr.RenderParam)
	add(dr.Ser)
	add(dr.SerParam)
	add(dr.RangeParam)
	add(dr.LikeParam)
	nonEmptyFns := map[*ssa.Function]bool{}
	if pt := c.pgTable(); pt.Err == "" {
		for _, e := range pt.Eff {
			add(e.Fn)
			if e.Fn != nil {
				nonEmptyFns[e.Fn] = true
			}
		}
	} else {
		r.bad(rule, "pgtable", "-", pt.Err)
	}
	// helpers whose (value, error) pair is forwarded are put under the same rule (worklist)
	for i := 0; i < len(fns); i++ {
		for _, b := range fns[i].Blocks {
			for _, in := range b.Instrs {
				ret, ok := in.(*ssa.Return)
				if !ok || len(ret.Results) < 2 {
					continue
				}
				for _, rv := range ret.Results {
					var call *ssa.Call
					switch x := c.resolve(rv, nil).(type) {
					case *ssa.Extract:
						call, _ = x.Tuple.(*ssa.Call)
					case *ssa.Call:
						call = x
					}
					if call == nil {
						continue
					}
					if h := call.Call.StaticCallee(); h != nil && inLib(h) && h.Blocks != nil {
						hr := h.Signature.Results()
						if hr.Len() >= 2 && isErrorType(hr.At(hr.Len()-1).Type()) {
							add(h)
						}
					}
				}
			}
		}
	}
	checked := map[*ssa.Function]bool{}
	for _, f := range fns {
		checked[f] = true
	}
	nRet := 0
	for _, f := range fns {
		res := f.Signature.Results()
		if res.Len() < 2 || !isErrorType(res.At(res.Len()-1).Type()) {
			continue
		}
		r.unit("functions", fnName(f))
		paths, complete := c.enumPaths(f, 20000)
		if !complete {
			r.bad(rule, fnName(f)+"|paths", c.pos(f.Pos()), "too many paths to enumerate")
			continue
		}
		covered := map[*ssa.Return]bool{}
		for _, p := range paths {
			if p.Ret == nil {
				continue
			}
			covered[p.Ret] = true
			nRet++
			cls, fwd := c.errClass(p, p.Ret.Results[res.Len()-1])
			val := p.Ret.Results[0]
			// both results taken from the same call: a forwarded pair, whatever the path facts say
			if cls == "nonnil" || cls == "unknown" {
				if ev, ok := c.resolve(p.Ret.Results[res.Len()-1], p.Env).(*ssa.Extract); ok {
					if vv, ok := c.resolve(val, p.Env).(*ssa.Extract); ok && vv.Tuple == ev.Tuple && vv.Index == 0 {
						if call, ok := ev.Tuple.(*ssa.Call); ok {
							cls, fwd = "forward", call
						}
					}
				}
			}
			key := fmt.Sprintf("%s|return@%s", fnName(f), c.retOrdinal(f, p.Ret))
			pos := c.instrPos(p.Ret)
			switch cls {
			case "nil":
				if sv, isC := constStringVal(c.resolve(val, p.Env)); isC && sv == "" && nonEmptyFns[f] && !hasAtom(p.Atoms, "$1==nil") {
					r.bad(rule, key+"|empty-success", pos, fmt.Sprintf("%s can return the empty string with a nil error: ToPostgres would hand back an empty filter as a success", fnName(f)))
					continue
				}
				r.ok(rule, key+"|ok", pos, "error is nil on this path")
			case "nonnil", "unknown":
				if c.isZeroVal(p, val) {
					r.ok(rule, key+"|err", pos, "error path returns the zero value")
				} else {
					r.bad(rule, key+"|err", pos, fmt.Sprintf("%s can return a non-zero value (%s) together with a non-nil error: callers that look at the value first see partial output", fnName(f), c.key(val, p.Env)))
				}
			case "forward":
				// tail call: value must be result #0 of the same call, and the callee must obey the rule
				vv := c.resolve(val, p.Env)
				same := false
				if ex, ok := vv.(*ssa.Extract); ok && ex.Tuple == fwd && ex.Index == 0 {
					same = true
				}
				if call, ok := vv.(*ssa.Call); ok && call == fwd {
					same = true
				}
				call := fwd.(*ssa.Call)
				callee := call.Call.StaticCallee()
				okCallee := false
				if callee != nil {
					okCallee = checked[callee]
				} else {
					// dynamic: b.RenderFNs[e.Op] — every function in the postgres table is checked
					for _, t := range c.dynBySignature(call) {
						_ = t
					}
					okCallee = strings.Contains(c.key(call.Call.Value, p.Env), "RenderFNs")
				}
				switch {
				case c.isZeroVal(p, val):
					r.ok(rule, key+"|fwd", pos, "forwards a callee's error with the zero value")
				case same && okCallee:
					r.ok(rule, key+"|fwd", pos, "tail call of a function that obeys the rule")
				case same:
					r.bad(rule, key+"|fwd", pos, fmt.Sprintf("%s forwards both results of %s, which is not covered by the all-or-nothing rule", fnName(f), c.key(call, p.Env)))
				default:
					r.bad(rule, key+"|fwd", pos, fmt.Sprintf("%s returns the value %s together with the possibly non-nil error of %s", fnName(f), c.key(val, p.Env), c.key(call, p.Env)))
				}
			}
		}
		// returns not reached by a loop-free path (inside loops): dominator mode
		for _, b := range f.Blocks {
			for _, in := range b.Instrs {
				ret, ok := in.(*ssa.Return)
				if !ok || covered[ret] {
					continue
				}
				nRet++
				p := &Path{Fn: f, Env: nil, Atoms: c.domAtoms(b)}
				cls, _ := c.errClass(p, ret.Results[res.Len()-1])
				key := fmt.Sprintf("%s|return@%s", fnName(f), c.retOrdinal(f, ret))
				if cls == "nil" || c.isZeroVal(p, ret.Results[0]) {
					r.ok(rule, key+"|loop", c.instrPos(ret), "return inside a loop: "+cls)
				} else {
					r.bad(rule, key+"|loop", c.instrPos(ret), fmt.Sprintf("%s can return a non-zero value (%s) together with a possibly non-nil error (return inside a loop)", fnName(f), c.key(ret.Results[0], nil)))
				}
			}
		}
	}
	r.floor(rule, "return paths", nRet, 60)
}

// retOrdinal: a stable name for a return instruction: its ordinal among the function's returns in
// source order plus the returned value's shape — never a line number.
func (c *Ctx) retOrdinal(f *ssa.Function, ret *ssa.Return) string {
	type rp struct {
		r   *ssa.Return
		pos int
	}
	var all []rp
	for _, b := range f.Blocks {
		for _, in := range b.Instrs {
			if x, ok := in.(*ssa.Return); ok {
				all = append(all, rp{x, int(x.Pos())})
			}
		}
	}
	n := 0
	for _, x := range all {
		if x.pos < int(ret.Pos()) {
			n++
		}
	}
	return fmt.Sprintf("%d", n)
}

var _ = types.Typ
