package main

import (
	"encoding/json"
	"flag"
	"fmt"
	"os"
	"path/filepath"
	"runtime/debug"
	"sort"
	"strconv"
	"strings"
	"time"
)

type ruleFn func(c *Ctx, r *Report)

type propDef struct {
	explanation string
	rules       []ruleFn
}

var props = map[string]*propDef{}

func register(id, explanation string, rules ...ruleFn) {
	props[id] = &propDef{explanation: explanation, rules: rules}
}

var verbose *bool
var extraFile *string
var loadStart time.Time

func main() {
	repo := flag.String("repo", "/repo", "repository working tree to analyse")
	prop := flag.String("property", "", "property id (C01..C16) or 'all'")
	tier := flag.String("tier", "quick", "quick|thorough")
	evid := flag.String("evidence", "", "evidence file to write (default <verif>/evidence/<id>.json)")
	verif := flag.String("verif", "/verif", "verification directory (known_findings.json, replay/, evidence/)")
	dump := flag.String("dump", "", "debug: dump facts (tables|paths:<fn>|reach:<prop>)")
	verbose = flag.Bool("v", false, "print every obligation")
	extraFile = flag.String("extra", "", "JSON object merged into evidence.coverage (thorough tier: checker validation results)")
	noEvidence := flag.Bool("no-evidence", false, "do not write evidence/replay (used when analysing scratch variants)")
	flag.Parse()
	if t := os.Getenv("VERIF_TIER"); t != "" && *tier == "" {
		*tier = t
	}
	seed := int64(0)
	if s := os.Getenv("VERIF_SEED"); s != "" {
		seed, _ = strconv.ParseInt(s, 10, 64)
	}
	abs, err := filepath.Abs(*repo)
	if err == nil {
		*repo = abs
	}

	loadStart = time.Now()
	c, err := loadRepo(*repo)
	if err != nil {
		fmt.Printf("ERROR loading %s: %v\n", *repo, err)
		os.Exit(2)
	}
	if *dump != "" {
		debugDump(c, *dump)
		return
	}
	var ids []string
	if *prop == "all" {
		for id := range props {
			ids = append(ids, id)
		}
		sort.Strings(ids)
	} else {
		for _, id := range strings.Split(*prop, ",") {
			if props[id] == nil {
				fmt.Printf("ERROR unknown property %q\n", id)
				os.Exit(2)
			}
			ids = append(ids, id)
		}
	}
	exit := 0
	for _, id := range ids {
		code := runProp(c, id, *tier, seed, *verif, *evid, *noEvidence, len(ids) > 1)
		if code > exit {
			exit = code
		}
	}
	os.Exit(exit)
}

func runProp(c *Ctx, id, tier string, seed int64, verif, evid string, noEvidence, multi bool) (code int) {
	r := newReport(id, tier, seed, verif)
	r.start = loadStart // wall time includes loading and type-checking /repo
	if noEvidence {
		r.noReplay = true
	}
	defer func() {
		if e := recover(); e != nil {
			fmt.Printf("ERROR checker panic in %s: %v\n%s\n", id, e, debug.Stack())
			code = 2
		}
	}()
	pd := props[id]
	for _, rule := range pd.rules {
		rule(c, r)
	}
	if *verbose {
		r.dumpObs()
	}
	if *extraFile != "" {
		if data, err := os.ReadFile(*extraFile); err == nil {
			var m map[string]any
			if json.Unmarshal(data, &m) == nil {
				for k, v := range m {
					r.extra[k] = v
				}
			}
		}
	}
	path := evid
	if path == "" || multi {
		path = filepath.Join(verif, "evidence", id+".json")
	}
	if noEvidence {
		path = ""
	}
	return r.finish(path, pd.explanation)
}
