package main

// PANIC-IDX / PANIC-SLICE / PANIC-ASSERT / PANIC-EXPL (C01, C13): every instruction that can panic,
// in every function reachable from the property's entry points, is guarded on every path.

import (
	"fmt"
	"go/token"
	"go/types"
	"os"
	"sort"
	"strings"

	"golang.org/x/tools/go/ssa"
)

// dynBySignature: CHA for function values — every module function whose signature matches.
func (c *Ctx) dynBySignature(site ssa.CallInstruction) []*ssa.Function {
	cc := site.Common()
	if cc.IsInvoke() {
		// interface method call: all module methods with that name
		var out []*ssa.Function
		for _, f := range c.Funcs {
			if f.Signature.Recv() != nil && f.Name() == cc.Method.Name() {
				out = append(out, f)
			}
		}
		return out
	}
	sig, ok := cc.Value.Type().Underlying().(*types.Signature)
	if !ok {
		return nil
	}
	var out []*ssa.Function
	for _, f := range c.Funcs {
		if f.Signature.Recv() != nil {
			continue
		}
		if types.Identical(types.NewSignatureType(nil, nil, nil, f.Signature.Params(), f.Signature.Results(), f.Signature.Variadic()),
			types.NewSignatureType(nil, nil, nil, sig.Params(), sig.Results(), sig.Variadic())) {
			out = append(out, f)
		}
	}
	return out
}

// formatterMethods: methods fmt / encoding/json may call through reflection on module types.
func (c *Ctx) formatterMethods() []*ssa.Function {
	var out []*ssa.Function
	for _, f := range c.Funcs {
		if f.Signature.Recv() == nil || !inLib(f) {
			continue
		}
		switch f.Name() {
		case "String", "GoString", "Error", "MarshalJSON", "UnmarshalJSON", "Format":
			out = append(out, f)
		}
	}
	return out
}

func (c *Ctx) rootsC01() []*ssa.Function {
	roots := []*ssa.Function{
		c.pkgFunc(pkgRoot, "Parse"), c.pkgFunc(pkgRoot, "ToPostgres"), c.pkgFunc(pkgRoot, "ToParameterizedPostgres"),
		c.pkgFunc(pkgRoot, "WithDefaultField"),
		c.method(pkgExpr, "Expression", "String"), c.method(pkgExpr, "Expression", "GoString"), c.method(pkgExpr, "Expression", "MarshalJSON"),
	}
	for _, f := range c.formatterMethods() {
		if f.Name() != "UnmarshalJSON" {
			roots = append(roots, f)
		}
	}
	return roots
}

func (c *Ctx) rootsC13() []*ssa.Function {
	roots := []*ssa.Function{
		c.method(pkgExpr, "Expression", "UnmarshalJSON"), c.pkgFunc(pkgExpr, "Validate"),
		c.method(pkgExpr, "Expression", "String"), c.method(pkgExpr, "Expression", "GoString"), c.method(pkgExpr, "Expression", "MarshalJSON"),
		c.method(pkgDriver, "Base", "Render"), c.method(pkgDriver, "Base", "RenderParam"),
	}
	// the render functions of the postgres table (reached through b.RenderFNs[e.Op])
	if pt := c.pgTable(); pt.Err == "" {
		for _, e := range pt.Eff {
			if e.Fn != nil {
				roots = append(roots, e.Fn)
			}
		}
	}
	roots = append(roots, c.formatterMethods()...)
	return roots
}

func (c *Ctx) reachFrom(roots []*ssa.Function) map[*ssa.Function]bool {
	return c.reachable(roots, c.dynBySignature)
}

// panicSite is one potentially panicking instruction.
type panicSite struct {
	fn   *ssa.Function
	in   ssa.Instruction
	kind string // idx | slice | assert | expl
	key  string
}

// isLiteralArray: X is (a pointer to) a fresh fixed-size array and the index is a constant in range.
func isLiteralArrayAccess(x ssa.Value, idx ssa.Value) bool {
	t := x.Type().Underlying()
	if p, ok := t.(*types.Pointer); ok {
		t = p.Elem().Underlying()
	}
	arr, ok := t.(*types.Array)
	if !ok {
		return false
	}
	if idx == nil {
		return true
	}
	n, ok := constIntVal(idx)
	return ok && n >= 0 && n < arr.Len()
}

// rangeLoopIndex: idx = phi(-1, idx) + 1 and a dominating fact idx < len(X).
func (c *Ctx) rangeLoopIndex(idx ssa.Value, x ssa.Value, atoms []Atom) bool {
	bo, ok := idx.(*ssa.BinOp)
	if !ok || bo.Op != token.ADD {
		return false
	}
	if n, ok := constIntVal(bo.Y); !ok || n != 1 {
		return false
	}
	ph, ok := bo.X.(*ssa.Phi)
	if !ok {
		return false
	}
	okInit, okStep := false, false
	for _, e := range ph.Edges {
		if n, ok := constIntVal(e); ok && n == -1 {
			okInit = true
		} else if e == idx {
			okStep = true
		} else {
			return false
		}
	}
	if !okInit || !okStep {
		return false
	}
	want := "len(" + c.key(x, nil) + ")"
	if at := arrayOf(x.Type()); at != nil {
		want = fmt.Sprint(at.Len()) // len of an array is a constant
	}
	ik := c.key(idx, nil)
	for _, a := range atoms {
		if a.Kind == "cmp" && a.Subj == ik && a.Op == "<" && a.Val == want {
			return true
		}
	}
	// x = make([]T, n): the index is bounded by the very n the slice was made with
	if ms, ok := c.resolve(x, nil).(*ssa.MakeSlice); ok {
		lk := c.key(ms.Len, nil)
		for _, a := range atoms {
			if a.Kind == "cmp" && a.Subj == ik && a.Op == "<" && a.Val == lk {
				return true
			}
		}
	}
	return false
}

// containerLenKey: key used in len atoms for container x
func (c *Ctx) lenFactsFor(x ssa.Value, atoms []Atom) (lo, hi int64) {
	return lenRange(atoms, c.key(x, nil))
}

// stringMinLen: for string-typed x, a lower bound from `x == "const"` / `x != ""` atoms
func (c *Ctx) strNonEmpty(x ssa.Value, atoms []Atom) bool {
	k := c.key(x, nil)
	for _, a := range atoms {
		if a.Kind == "cmp" && a.Subj == k && a.Op == "!=" && a.Val == `""` {
			return true
		}
	}
	return false
}

// indexDischarge tries the local dischargers for container[idx].
func (c *Ctx) indexDischarge(fn *ssa.Function, at ssa.Instruction, x, idx ssa.Value, atoms []Atom) (string, bool) {
	if isLiteralArrayAccess(x, idx) {
		return "literal array, constant index", true
	}
	if s, _, ok := stringRangeIndex(idx); ok && c.key(s, nil) == c.key(x, nil) {
		return "x[i] with i the offset of a range-over-string loop on x", true
	}
	// a fixed-size array (or a pointer to one, e.g. a package-level table) indexed under explicit bounds:
	// 0 ≤ idx (by a fact or by construction) and idx < N / idx ≤ N-1 for the array length N
	if at := arrayOf(x.Type()); at != nil {
		ik := c.key(idx, nil)
		lower, upper := c.nonNegative(idx, atoms, map[ssa.Value]bool{}), false
		for _, a := range atoms {
			if a.Kind != "cmp" || a.Subj != ik {
				continue
			}
			n, ok := c.constKeyValue(a.Val)
			if !ok {
				continue
			}
			switch a.Op {
			case ">=":
				lower = lower || n >= 0
			case ">":
				lower = lower || n >= -1
			case "<":
				upper = upper || n <= at.Len()
			case "<=":
				upper = upper || n < at.Len()
			case "==":
				if n >= 0 && n < at.Len() {
					lower, upper = true, true
				}
			}
		}
		if lower && upper {
			return fmt.Sprintf("array of length %d indexed under dominating bounds 0 ≤ %s < %d", at.Len(), ik, at.Len()), true
		}
	}
	lo, _ := c.lenFactsFor(x, atoms)
	// in a lifted calling context the index may be a parameter of the helper: read the caller's argument
	for i := 0; i < 4; i++ {
		p, isParam := idx.(*ssa.Parameter)
		if !isParam || c.ctxEnv == nil || c.ctxEnv.par == nil {
			break
		}
		b, ok := c.ctxEnv.par[p]
		if !ok {
			break
		}
		idx = b
	}
	if n, ok := constIntVal(idx); ok {
		if n >= 0 && lo > n {
			return fmt.Sprintf("dominating fact len ≥ %d", lo), true
		}
		if n == 0 && c.strNonEmpty(x, atoms) {
			return "dominating fact x != \"\"", true
		}
		return "", false
	}
	if n, fe, ok := c.lenRelIndex(idx, nil, x); ok && fe {
		if n >= 1 && lo >= n {
			return fmt.Sprintf("index len-%d with dominating fact len ≥ %d", n, lo), true
		}
		return "", false
	}
	// len(x)-c where the len is taken of a different load of the same field (keys equal)
	if bo, ok := idx.(*ssa.BinOp); ok && bo.Op == token.SUB {
		if n, ok := constIntVal(bo.Y); ok {
			if call, ok := bo.X.(*ssa.Call); ok {
				if bi, ok := call.Call.Value.(*ssa.Builtin); ok && bi.Name() == "len" && c.key(call.Call.Args[0], nil) == c.key(x, nil) {
					if n >= 1 && lo >= n {
						return fmt.Sprintf("index len-%d with dominating fact len ≥ %d", n, lo), true
					}
				}
			}
		}
	}
	if c.rangeLoopIndex(idx, x, atoms) {
		return "range-loop counter tested < len in the loop header", true
	}
	if by, ok := c.linearBound(idx, x, atoms, at.Block(), 0); ok {
		return by, true
	}
	// the index expression itself (same key) was compared with the length: i+1 < len(x) … x[i+1]
	ik, lk := c.key(idx, nil), "len("+c.key(x, nil)+")"
	for _, a := range atoms {
		if a.Kind == "cmp" && a.Subj == ik && a.Op == "<" && a.Val == lk && c.nonNegative(idx, atoms, map[ssa.Value]bool{}) {
			return "dominating fact " + a.String() + " on the index expression, which is non-negative by construction", true
		}
	}
	return "", false
}

func arrayOf(t types.Type) *types.Array {
	u := t.Underlying()
	if p, ok := u.(*types.Pointer); ok {
		u = p.Elem().Underlying()
	}
	a, _ := u.(*types.Array)
	return a
}

// constKeyValue: the integer value of a key that is a constant (a literal, or a named constant of the
// module's enum types such as lex.TStart / expr.List).
func (c *Ctx) constKeyValue(k string) (int64, bool) {
	var n int64
	if _, err := fmt.Sscan(k, &n); err == nil && fmt.Sprint(n) == k {
		return n, true
	}
	if strings.HasPrefix(k, "lex.") {
		v, ok := c.tokTypeConsts()[strings.TrimPrefix(k, "lex.")]
		return v, ok
	}
	if strings.HasPrefix(k, "expr.") {
		v, ok := c.operatorConsts()[strings.TrimPrefix(k, "expr.")]
		return v, ok
	}
	return 0, false
}

// linear: v = base + off (constant offsets folded).
func (c *Ctx) linear(v ssa.Value) (ssa.Value, int64) {
	off := int64(0)
	for i := 0; i < 10; i++ {
		bo, ok := v.(*ssa.BinOp)
		if !ok {
			break
		}
		n, isC := constIntVal(bo.Y)
		if !isC {
			break
		}
		switch bo.Op {
		case token.ADD:
			off += n
			v = bo.X
			continue
		case token.SUB:
			off -= n
			v = bo.X
			continue
		}
		break
	}
	return v, off
}

// nonNegative: v ≥ 0 by construction (constants, lengths, counters that start ≥ 0 and only grow) or by a fact.
func (c *Ctx) nonNegative(v ssa.Value, atoms []Atom, seen map[ssa.Value]bool) bool {
	if seen[v] {
		return true
	}
	seen[v] = true
	if n, ok := constIntVal(v); ok {
		return n >= 0
	}
	k := c.key(v, nil)
	for _, a := range atoms {
		if a.Kind == "cmp" && a.Subj == k && (a.Op == ">=" && a.Val == "0" || a.Op == ">" && (a.Val == "0" || a.Val == "-1")) {
			return true
		}
		if a.Kind == "cmp" && a.Subj == k && (a.Op == ">=" || a.Op == ">" || a.Op == "==") {
			if n, ok := c.constKeyValue(a.Val); ok && (n >= 0 || a.Op == ">" && n >= -1) {
				return true
			}
		}
	}
	switch x := v.(type) {
	case *ssa.Phi:
		for _, e := range x.Edges {
			if !c.nonNegative(e, atoms, seen) {
				return false
			}
		}
		return true
	case *ssa.BinOp:
		if x.Op == token.ADD {
			return c.nonNegative(x.X, atoms, seen) && c.nonNegative(x.Y, atoms, seen)
		}
		if x.Op == token.SUB {
			// (one of several constants) − constant
			if n, ok := constIntVal(x.Y); ok {
				if lo, _, ok := constRange(x.X, 0); ok {
					return lo-n >= 0
				}
			}
		}
	case *ssa.Call:
		if bi, ok := x.Call.Value.(*ssa.Builtin); ok && (bi.Name() == "len" || bi.Name() == "cap" || bi.Name() == "copy") {
			return true
		}
	case *ssa.Extract:
		if _, ok := decodeWidth(x); ok {
			return true
		}
	}
	return false
}

// decodeWidth: v is the width result of one of the utf8 decoding functions; returns the buffer decoded.
// Contract (unicode/utf8): 0 ≤ width ≤ len(buffer), and width ≥ 1 when the buffer is not empty.
func decodeWidth(v ssa.Value) (ssa.Value, bool) {
	ex, ok := v.(*ssa.Extract)
	if !ok || ex.Index != 1 {
		return nil, false
	}
	call, ok := ex.Tuple.(*ssa.Call)
	if !ok || len(call.Call.Args) != 1 {
		return nil, false
	}
	switch calleeFullName(call) {
	case "unicode/utf8.DecodeRune", "unicode/utf8.DecodeRuneInString", "unicode/utf8.DecodeLastRune", "unicode/utf8.DecodeLastRuneInString":
		return call.Call.Args[0], true
	}
	return nil, false
}

// withinLen: 0 ≤ v ≤ len(x) by the facts in force (v < len(x), v <= len(x), v == len(x)) and construction.
func (c *Ctx) withinLen(v, x ssa.Value, atoms []Atom) bool {
	if !c.nonNegative(v, atoms, map[ssa.Value]bool{}) {
		return false
	}
	vk, lenK := c.key(v, nil), "len("+c.key(x, nil)+")"
	for _, a := range atoms {
		if a.Kind == "cmp" && a.Subj == vk && a.Val == lenK && (a.Op == "<" || a.Op == "<=" || a.Op == "==") {
			return true
		}
		if a.Kind == "cmp" && a.Subj == lenK && a.Val == vk && (a.Op == ">" || a.Op == ">=" || a.Op == "==") {
			return true
		}
	}
	return false
}

// linearBound: idx = base + off with a fact base < len(x) - d (or base <= len(x) - d - 1), off ≤ d, idx ≥ 0.
// For a phi index every incoming value must satisfy this with the facts of its own edge.
func (c *Ctx) linearBound(idx, x ssa.Value, atoms []Atom, blk *ssa.BasicBlock, depth int) (string, bool) {
	if depth > 4 {
		return "", false
	}
	lenK := "len(" + c.key(x, nil) + ")"
	base, off := c.linear(idx)
	bk := c.key(base, nil)
	best := int64(-1 << 40)
	found := false
	for _, a := range atoms {
		// base == len(x): base ≤ len − 0
		if a.Kind == "cmp" && a.Op == "==" && (a.Subj == lenK && a.Val == bk || a.Subj == bk && a.Val == lenK) {
			found = true
			if d := int64(-1); d > best {
				best = d
			}
			continue
		}
		if a.Kind != "cmp" || a.Subj != bk {
			continue
		}
		d, ok := int64(0), false
		switch {
		case a.Val == lenK:
			d, ok = 0, true
		case strings.HasPrefix(a.Val, "("+lenK+" - ") && strings.HasSuffix(a.Val, ")"):
			var n int64
			if _, err := fmt.Sscan(strings.TrimSuffix(strings.TrimPrefix(a.Val, "("+lenK+" - "), ")"), &n); err == nil {
				d, ok = n, true
			}
		}
		if !ok {
			continue
		}
		switch a.Op {
		case "<":
		case "<=":
			d--
		default:
			continue
		}
		found = true
		if d > best {
			best = d
		}
	}
	if found && off <= best && c.nonNegative(idx, atoms, map[ssa.Value]bool{}) {
		return fmt.Sprintf("explicit bound: %s < %s - %d and offset %d, index ≥ 0", bk, lenK, best, off), true
	}
	// phi: every incoming value is bounded on its own edge
	if ph, ok := idx.(*ssa.Phi); ok {
		for i, e := range ph.Edges {
			if e == idx {
				continue
			}
			pred := ph.Block().Preds[i]
			ea := c.edgeAtomsExpanded(pred, ph.Block())
			if _, ok := c.linearBound(e, x, ea, pred, depth+1); !ok {
				return "", false
			}
		}
		return "explicit bound on every incoming edge of the index", true
	}
	return "", false
}

// edgeAtomsExpanded: facts that hold when control goes from pred to succ.
func (c *Ctx) edgeAtomsExpanded(pred, succ *ssa.BasicBlock) []Atom {
	var out []Atom
	for _, f := range c.domFacts(pred) {
		out = append(out, c.expand(c.atoms(f.Cond, f.Pol, nil), nil)...)
	}
	if iff, ok := pred.Instrs[len(pred.Instrs)-1].(*ssa.If); ok && pred.Succs[0] != pred.Succs[1] {
		if pred.Succs[0] == succ {
			out = append(out, c.expand(c.atoms(iff.Cond, true, nil), nil)...)
		} else if pred.Succs[1] == succ {
			out = append(out, c.expand(c.atoms(iff.Cond, false, nil), nil)...)
		}
	}
	return out
}

func (c *Ctx) sliceDischarge(x ssa.Value, low, high ssa.Value, atoms []Atom) (string, bool) {
	if isLiteralArrayAccess(x, nil) && low == nil && high == nil {
		return "whole literal array", true
	}
	lo, _ := c.lenFactsFor(x, atoms)
	lowC, highRel := int64(0), int64(-1)
	// x[:i] / x[i:] with i the byte offset of `for i := range x` over the same string: 0 ≤ i < len(x)
	if high != nil && low == nil {
		if s, _, ok := stringRangeIndex(high); ok && c.key(s, nil) == c.key(x, nil) {
			return "x[:i] with i the offset of a range-over-string loop on x", true
		}
	}
	if low != nil && high == nil {
		if s, _, ok := stringRangeIndex(low); ok && c.key(s, nil) == c.key(x, nil) {
			return "x[i:] with i the offset of a range-over-string loop on x", true
		}
	}
	if low != nil {
		if _, isC := constIntVal(low); !isC {
			// x[i:] and x[i:i+w] with 0 ≤ i ≤ len(x) by the facts in force, w the width of decoding x[i:]
			if !c.withinLen(low, x, atoms) {
				return "", false
			}
			if high == nil {
				return "x[i:] with 0 ≤ i ≤ len(x) by a dominating bound", true
			}
			if bo, ok := high.(*ssa.BinOp); ok && bo.Op == token.ADD {
				for _, pair := range [][2]ssa.Value{{bo.X, bo.Y}, {bo.Y, bo.X}} {
					if c.key(pair[0], nil) != c.key(low, nil) {
						continue
					}
					if buf, ok := decodeWidth(pair[1]); ok {
						if ct, ok := buf.(*ssa.ChangeType); ok {
							buf = ct.X
						}
						if sl, ok := buf.(*ssa.Slice); ok && sl.High == nil && sl.Low != nil && c.key(sl.X, nil) == c.key(x, nil) && c.key(sl.Low, nil) == c.key(low, nil) {
							return "x[i:i+w] where w is the width utf8 decoded from x[i:] (0 ≤ w ≤ len(x)-i)", true
						}
					}
				}
			}
			return "", false
		}
		n, ok := constIntVal(low)
		if !ok || n < 0 {
			return "", false
		}
		lowC = n
	}
	if high == nil {
		// x[lo:] needs lo ≤ len
		if lowC <= lo {
			return fmt.Sprintf("x[%d:] with len ≥ %d", lowC, lo), true
		}
		return "", false
	}
	if n, ok := constIntVal(high); ok {
		if n >= lowC && lo >= n {
			return fmt.Sprintf("x[%d:%d] with len ≥ %d", lowC, n, lo), true
		}
		if n == 0 && lowC == 0 {
			return "x[:0]", true
		}
		return "", false
	}
	if base, off := c.linear(high); off <= 0 {
		// len(x) - n, possibly written in steps ((len(x) - 2) + 1)
		if call, ok := base.(*ssa.Call); ok {
			if bi, ok := call.Call.Value.(*ssa.Builtin); ok && bi.Name() == "len" && c.key(call.Call.Args[0], nil) == c.key(x, nil) {
				highRel = -off
			}
		}
	}
	if highRel >= 0 {
		// x[lowC : len-highRel] needs lowC ≤ len-highRel  ⇐  len ≥ lowC+highRel
		if lo >= lowC+highRel {
			return fmt.Sprintf("x[%d:len-%d] with len ≥ %d", lowC, highRel, lo), true
		}
	}
	return "", false
}

// assertDischarge: a dominating fact proves the dynamic type.
func (c *Ctx) assertDischarge(ta *ssa.TypeAssert, atoms []Atom) (string, bool) {
	k := c.key(ta.X, nil)
	want := typeStr(ta.AssertedType)
	if _, isIface := ta.AssertedType.Underlying().(*types.Interface); isIface {
		return "", false
	}
	for _, a := range atoms {
		if a.Kind == "type" && a.Pos && a.Subj == k && a.Val == want {
			return "dominating type fact " + a.String(), true
		}
	}
	return "", false
}

// atomsAt: dominating atoms at an instruction, expanded through helper summaries, with atoms whose
// subject may have been modified between the guard and the use removed.
func (c *Ctx) atomsAt(in ssa.Instruction) []Atom {
	b := in.Block()
	var out []Atom
	for _, f := range c.domFacts(b) {
		as := c.expand(c.atoms(f.Cond, f.Pol, nil), nil)
		for _, a := range as {
			if c.killedBetween(f.At, in, a) {
				continue
			}
			out = append(out, a)
		}
	}
	return out
}

// killedBetween: may a store (or a call that stores) to a struct field named in the atom's subject
// execute between the guard and the use?
func (c *Ctx) killedBetween(guard *ssa.If, use ssa.Instruction, a Atom) bool {
	fields := c.fieldsInKey(use.Parent(), a.Subj)
	if len(fields) == 0 {
		return false
	}
	writers := c.fieldWriters(fields...)
	gb, ub := guard.Block(), use.Block()
	// blocks on some path guard-successors → use
	fwd := map[*ssa.BasicBlock]bool{}
	var dfs func(b *ssa.BasicBlock)
	dfs = func(b *ssa.BasicBlock) {
		if fwd[b] {
			return
		}
		fwd[b] = true
		if b == ub {
			return
		}
		for _, s := range b.Succs {
			dfs(s)
		}
	}
	for _, s := range gb.Succs {
		if s == ub || s.Dominates(ub) || true {
			dfs(s)
		}
	}
	bwd := map[*ssa.BasicBlock]bool{}
	var rdfs func(b *ssa.BasicBlock)
	rdfs = func(b *ssa.BasicBlock) {
		if bwd[b] {
			return
		}
		bwd[b] = true
		if b == gb {
			return
		}
		for _, p := range b.Preds {
			rdfs(p)
		}
	}
	rdfs(ub)
	for b := range fwd {
		if !bwd[b] || b == gb {
			continue
		}
		for _, in := range b.Instrs {
			if b == ub && in == use {
				break
			}
			switch x := in.(type) {
			case *ssa.Store:
				if fa, ok := x.Addr.(*ssa.FieldAddr); ok {
					fv := fieldVar(fa.X.Type(), fa.Field)
					for _, f := range fields {
						if f == fv {
							return true
						}
					}
				}
			case ssa.CallInstruction:
				if sc := staticCallee(x); sc != nil {
					if writers[sc] {
						return true
					}
				} else if _, isB := x.Common().Value.(*ssa.Builtin); !isB {
					// dynamic call: may reach any writer
					if len(writers) > 0 {
						for _, t := range c.dynBySignature(x) {
							if writers[t] {
								return true
							}
						}
					}
				}
			}
		}
	}
	return false
}

// fieldsInKey: struct fields (by name) of pointer-reached structs mentioned in a key like "$0.stack[…]".
func (c *Ctx) fieldsInKey(fn *ssa.Function, key string) []*types.Var {
	memo := "mutfields"
	var all map[string][]*types.Var
	if m, ok := c.roles[memo]; ok {
		all = m.(map[string][]*types.Var)
	} else {
		all = map[string][]*types.Var{}
		// fields that are stored to anywhere in the module through a FieldAddr
		for _, f := range c.Funcs {
			for _, b := range f.Blocks {
				for _, in := range b.Instrs {
					if st, ok := in.(*ssa.Store); ok {
						if fa, ok := st.Addr.(*ssa.FieldAddr); ok {
							if _, isAlloc := fa.X.(*ssa.Alloc); isAlloc && !fa.X.(*ssa.Alloc).Heap {
								continue // local struct literal initialisation
							}
							fv := fieldVar(fa.X.Type(), fa.Field)
							if fv != nil {
								dup := false
								for _, e := range all[fv.Name()] {
									if e == fv {
										dup = true
									}
								}
								if !dup {
									all[fv.Name()] = append(all[fv.Name()], fv)
								}
							}
						}
					}
				}
			}
		}
		c.roles[memo] = all
	}
	var out []*types.Var
	for name, vars := range all {
		if strings.Contains(key, "."+name) {
			out = append(out, vars...)
		}
	}
	return out
}

type panicDischarger func(c *Ctx, r *Report, s *panicSite, atoms []Atom) (by string, ok bool)

// runPanicRules enumerates the sites in the reachable set and applies the dischargers.
func runPanicRules(c *Ctx, r *Report, reach map[*ssa.Function]bool, extra []panicDischarger) {
	r.doc("PANIC-IDX", "every Index/IndexAddr/string-index instruction in the reachable set needs 0 ≤ i < len on every path: dominating len facts (incl. helper summaries), range-loop counters, or a named invariant checked on this run")
	r.doc("PANIC-SLICE", "every Slice instruction needs 0 ≤ lo ≤ hi ≤ len on every path")
	r.doc("PANIC-ASSERT", "every non-comma-ok type assertion needs a dominating type fact on the same value (comma-ok, helper summary), a validator guarantee (VAL-AGREE) or an entry-rooted type-flow fact")
	r.doc("PANIC-EXPL", "no reachable call to panic/log.Fatal/os.Exit, no integer division by a non-constant, no nil-map update")
	funcs := sortedFuncs(reach)
	nIdx, nSlice, nAssert, nCmp, nInv := 0, 0, 0, 0, 0
	r.doc("PANIC-CMP", "every == / != between two interface values has an operand that is nil or whose dynamic type is known to be comparable (a constant, a conversion from a basic/pointer type, a dominating type fact): comparing two interface values that hold the same uncomparable dynamic type panics")
	r.doc("PANIC-NILCALL", "every method call through an interface value (invoke) is made on a value known to be non-nil: a dominating != nil test, a successful type test, or a value made non-nil by construction; results of library calls that document a nil result (reflect.TypeOf(nil)) are not")
	for _, fn := range funcs {
		if !inLib(fn) {
			continue
		}
		r.unit("functions", fnName(fn))
		for _, b := range fn.Blocks {
			for _, in := range b.Instrs {
				var site *panicSite
				switch x := in.(type) {
				case *ssa.IndexAddr:
					if isLiteralArrayAccess(x.X, x.Index) {
						continue
					}
					site = &panicSite{fn, in, "idx", c.key(x.X, nil) + "[" + c.key(x.Index, nil) + "]"}
				case *ssa.Index:
					if isLiteralArrayAccess(x.X, x.Index) {
						continue
					}
					site = &panicSite{fn, in, "idx", c.key(x.X, nil) + "[" + c.key(x.Index, nil) + "]"}
				case *ssa.Lookup:
					if !isStringType(x.X.Type()) {
						continue
					}
					site = &panicSite{fn, in, "idx", c.key(x.X, nil) + "[" + c.key(x.Index, nil) + "]"}
				case *ssa.Slice:
					if isLiteralArrayAccess(x.X, nil) && x.Low == nil && x.High == nil {
						continue
					}
					site = &panicSite{fn, in, "slice", c.key(x, nil)}
				case *ssa.TypeAssert:
					if x.CommaOk {
						continue
					}
					site = &panicSite{fn, in, "assert", c.key(x, nil)}
				case *ssa.Panic:
					site = &panicSite{fn, in, "expl", "panic"}
				case *ssa.BinOp:
					if (x.Op == token.QUO || x.Op == token.REM) && isIntegerType(x.Type()) {
						if _, isC := x.Y.(*ssa.Const); !isC {
							site = &panicSite{fn, in, "expl", "div:" + c.key(x, nil)}
						}
					}
					if (x.Op == token.EQL || x.Op == token.NEQ) && isInterfaceType(x.X.Type()) && isInterfaceType(x.Y.Type()) {
						nCmp++
						key := fnName(fn) + "|" + c.key(x.X, nil) + x.Op.String() + c.key(x.Y, nil)
						if by, ok := c.ifaceCmpDischarge(in, x.X, x.Y); ok {
							r.ok("PANIC-CMP", key, c.instrPos(in), by)
						} else {
							r.bad("PANIC-CMP", key, c.instrPos(in), fmt.Sprintf("%s compares two interface values whose dynamic types are not known to be comparable: when both hold the same uncomparable type (a slice, a map, a struct containing one) the comparison panics at run time (facts at this point: %s)", fnName(fn), atomsText(c.atomsAt(in))))
						}
						continue
					}
				case ssa.CallInstruction:
					name := calleeFullName(x)
					if name == "os.Exit" || strings.HasPrefix(name, "log.Fatal") || strings.HasPrefix(name, "log.Panic") || name == "runtime.Goexit" {
						site = &panicSite{fn, in, "expl", name}
					}
					if x.Common().IsInvoke() {
						nInv++
						recv := x.Common().Value
						key := fnName(fn) + "|" + c.key(recv, nil) + "." + x.Common().Method.Name()
						if by, ok := c.nonNilDischarge(in, recv); ok {
							r.ok("PANIC-NILCALL", key, c.instrPos(in), by)
						} else {
							r.bad("PANIC-NILCALL", key, c.instrPos(in), fmt.Sprintf("%s calls method %s on the interface value %s, which is not known to be non-nil here: a method call on a nil interface is a nil-pointer panic (facts at this point: %s)", fnName(fn), x.Common().Method.Name(), c.key(recv, nil), atomsText(c.atomsAt(in))))
						}
					}
				}
				if site == nil {
					continue
				}
				rule := map[string]string{"idx": "PANIC-IDX", "slice": "PANIC-SLICE", "assert": "PANIC-ASSERT", "expl": "PANIC-EXPL"}[site.kind]
				key := fnName(fn) + "|" + site.key
				pos := c.instrPos(in)
				if site.kind == "expl" {
					r.bad(rule, key, pos, "explicitly panicking / process-terminating construct reachable from the entry points: "+site.key)
					continue
				}
				atoms := c.atomsAt(in)
				by, ok := c.tryDischarge(r, site, atoms, extra)
				switch in.(type) {
				case *ssa.IndexAddr, *ssa.Index, *ssa.Lookup:
					nIdx++
				case *ssa.Slice:
					nSlice++
				case *ssa.TypeAssert:
					nAssert++
				}
				if !ok {
					by, ok = c.liftDischarge(r, site, extra, 0)
				}
				if !ok {
					by, ok = c.mergeDischarge(r, site, extra)
				}
				if ok {
					if strings.HasPrefix(by, "ASSUMED:") {
						r.assume(rule, key, pos, strings.TrimPrefix(by, "ASSUMED:"))
					} else {
						r.ok(rule, key, pos, by)
					}
				} else {
					what := map[string]string{"idx": "index expression can be out of range", "slice": "slice bounds can be out of range", "assert": "type assertion can fail"}[site.kind]
					var facts []string
					for _, a := range atoms {
						facts = append(facts, a.String())
					}
					sort.Strings(facts)
					if len(facts) > 8 {
						facts = facts[:8]
					}
					r.bad(rule, key, pos, fmt.Sprintf("%s in %s: %s — no dominating guard, helper summary or checked invariant establishes it (facts at this point: %s)", what, fnName(fn), site.key, strings.Join(facts, " ∧ ")))
				}
			}
		}
	}
	r.extra["panic_sites"] = map[string]int{"index": nIdx, "slice": nSlice, "assert": nAssert, "interface-compare": nCmp, "invoke": nInv}
}

// tryDischarge applies the local dischargers and then the named ones to a site under the given facts.
func (c *Ctx) tryDischarge(r *Report, site *panicSite, atoms []Atom, extra []panicDischarger) (by string, ok bool) {
	switch x := site.in.(type) {
	case *ssa.IndexAddr:
		by, ok = c.indexDischarge(site.fn, site.in, x.X, x.Index, atoms)
	case *ssa.Index:
		by, ok = c.indexDischarge(site.fn, site.in, x.X, x.Index, atoms)
	case *ssa.Lookup:
		by, ok = c.indexDischarge(site.fn, site.in, x.X, x.Index, atoms)
	case *ssa.Slice:
		by, ok = c.sliceDischarge(x.X, x.Low, x.High, atoms)
	case *ssa.TypeAssert:
		by, ok = c.assertDischarge(x, atoms)
	}
	if !ok {
		for _, d := range extra {
			if by, ok = d(c, r, site, atoms); ok {
				break
			}
		}
	}
	return by, ok
}

// siteKey renders the construct of a site under the calling context in force.
func (c *Ctx) siteKey(in ssa.Instruction) string {
	switch x := in.(type) {
	case *ssa.IndexAddr:
		return c.key(x.X, nil) + "[" + c.key(x.Index, nil) + "]"
	case *ssa.Index:
		return c.key(x.X, nil) + "[" + c.key(x.Index, nil) + "]"
	case *ssa.Lookup:
		return c.key(x.X, nil) + "[" + c.key(x.Index, nil) + "]"
	case *ssa.Slice:
		return c.key(x, nil)
	case *ssa.TypeAssert:
		return c.key(x, nil)
	}
	return ""
}

// privateHelper: an unexported top-level module function that is never used as a value — every caller
// is a static call site in the module, so facts that hold at all of them hold on entry.
func (c *Ctx) privateHelper(h *ssa.Function) ([]*ssa.Call, bool) {
	if h == nil || !inLib(h) || h.Parent() != nil || h.Object() == nil || h.Object().Exported() {
		return nil, false
	}
	if h.Signature.Recv() != nil {
		// a method may be reached through an interface or a method value
		if named := recvNamed(h); named == nil || implementsAnyInterfaceMethod(c, named, h.Name()) {
			return nil, false
		}
	}
	var sites []*ssa.Call
	for _, f := range c.Funcs {
		for _, b := range f.Blocks {
			for _, in := range b.Instrs {
				if call, ok := in.(*ssa.Call); ok && call.Call.StaticCallee() == h {
					if !inLib(f) {
						continue
					}
					sites = append(sites, call)
					for _, a := range call.Call.Args {
						if a == ssa.Value(h) {
							return nil, false
						}
					}
					continue
				}
				for _, op := range in.Operands(nil) {
					if *op == ssa.Value(h) {
						return nil, false // used as a value (stored, passed, deferred, go'ed)
					}
					if mc, ok := (*op).(*ssa.MakeClosure); ok && mc.Fn == ssa.Value(h) {
						return nil, false
					}
				}
			}
		}
	}
	return sites, len(sites) > 0
}

func recvNamed(f *ssa.Function) *types.Named {
	t := f.Signature.Recv().Type()
	if p, ok := t.(*types.Pointer); ok {
		t = p.Elem()
	}
	n, _ := t.(*types.Named)
	return n
}

// implementsAnyInterfaceMethod: could a call through some interface in the program dispatch to
// method name of the named type? (conservative: any interface type in the module or fmt/json/sort
// well-known method names)
func implementsAnyInterfaceMethod(c *Ctx, named *types.Named, name string) bool {
	switch name {
	case "String", "Error", "MarshalJSON", "UnmarshalJSON", "Format", "GoString", "Len", "Less", "Swap", "Write", "Read":
		return true
	}
	for _, p := range c.Pkgs {
		sc := p.Types.Scope()
		for _, n := range sc.Names() {
			tn, ok := sc.Lookup(n).(*types.TypeName)
			if !ok {
				continue
			}
			if it, ok := tn.Type().Underlying().(*types.Interface); ok {
				for i := 0; i < it.NumMethods(); i++ {
					if it.Method(i).Name() == name {
						return true
					}
				}
			}
		}
	}
	return false
}

// liftDischarge: a site in a private helper that its own facts do not discharge is examined in each
// calling context — the helper's parameters are bound to the call's arguments, the site and the helper's
// own facts are re-read in the caller's terms, and the caller's facts at the call are added. The site
// is discharged when every context discharges it (recursively, two levels).
func (c *Ctx) liftDischarge(r *Report, site *panicSite, extra []panicDischarger, depth int) (string, bool) {
	if depth >= 2 {
		return "", false
	}
	sites, ok := c.privateHelper(site.fn)
	if !ok {
		if os.Getenv("LUCDBG") != "" {
			fmt.Fprintln(os.Stderr, "liftDischarge: not a private helper:", fnName(site.fn))
		}
		return "", false
	}
	h := site.fn
	var bys []string
	for _, cs := range sites {
		if len(cs.Call.Args) != len(h.Params) {
			return "", false
		}
		old := c.ctxEnv
		ce := &env{mem: map[*ssa.Alloc]ssa.Value{}, phi: map[*ssa.Phi]ssa.Value{}, par: map[*ssa.Parameter]ssa.Value{}, dom: true}
		if old != nil {
			for k, v := range old.par {
				ce.par[k] = v
			}
		}
		for j, a := range cs.Call.Args {
			ce.par[h.Params[j]] = a
		}
		c.ctxEnv = ce
		s2 := &panicSite{cs.Parent(), site.in, site.kind, c.siteKey(site.in)}
		atoms := c.atomsAt(site.in)
		for _, a := range c.atomsAt(cs) {
			if c.helperMayKill(h, cs.Parent(), a) {
				continue
			}
			atoms = append(atoms, a)
		}
		by, ok := c.tryDischarge(r, s2, atoms, extra)
		if !ok {
			by, ok = c.liftDischargeFrom(r, s2, cs, atoms, extra, depth+1)
		}
		if !ok && os.Getenv("LUCDBG") != "" {
			fmt.Fprintln(os.Stderr, "liftDischarge: context", fnName(cs.Parent()), c.instrPos(cs), "key", s2.key, "atoms", atomsText(atoms))
		}
		c.ctxEnv = old
		if !ok {
			return "", false
		}
		bys = append(bys, by)
	}
	sort.Strings(bys)
	return fmt.Sprintf("in each of the %d calling contexts of %s: %s", len(sites), fnName(h), strings.Join(uniq(bys), "; ")), true
}

// liftDischargeFrom: one more level — the caller of the helper is itself a private helper.
func (c *Ctx) liftDischargeFrom(r *Report, s2 *panicSite, via *ssa.Call, have []Atom, extra []panicDischarger, depth int) (string, bool) {
	if depth >= 2 {
		return "", false
	}
	g := s2.fn
	sites, ok := c.privateHelper(g)
	if !ok {
		return "", false
	}
	var bys []string
	for _, cs := range sites {
		if len(cs.Call.Args) != len(g.Params) {
			return "", false
		}
		old := c.ctxEnv
		ce := old.clone()
		ce.dom = true
		if ce.par == nil {
			ce.par = map[*ssa.Parameter]ssa.Value{}
		}
		for j, a := range cs.Call.Args {
			ce.par[g.Params[j]] = a
		}
		c.ctxEnv = ce
		s3 := &panicSite{cs.Parent(), s2.in, s2.kind, c.siteKey(s2.in)}
		atoms := append(c.atomsAt(s2.in), c.atomsAt(via)...)
		for _, a := range c.atomsAt(cs) {
			if c.helperMayKill(g, cs.Parent(), a) {
				continue
			}
			atoms = append(atoms, a)
		}
		by, ok := c.tryDischarge(r, s3, atoms, extra)
		c.ctxEnv = old
		if !ok {
			return "", false
		}
		bys = append(bys, by)
	}
	sort.Strings(bys)
	return strings.Join(uniq(bys), "; "), true
}

// withContexts runs f once for every calling context in which h is reached from root through private
// helpers (h == root: once, with no context). While f runs, keys and atoms read with a nil environment
// are in root's terms; callerAtoms are the facts that hold at the call sites on the way down. It
// returns false when h is not reached from root that way (f may then not have been called at all).
func (c *Ctx) withContexts(h, root *ssa.Function, depth int, f func(callerAtoms []Atom)) bool {
	if h == root {
		f(nil)
		return true
	}
	if depth >= 3 {
		return false
	}
	sites, ok := c.privateHelper(h)
	if !ok {
		return false
	}
	// all callers must themselves be reached from root
	for _, cs := range sites {
		if !c.reachedOnlyFrom(cs.Parent(), root, depth+1) {
			return false
		}
	}
	for _, cs := range sites {
		cs := cs
		if len(cs.Call.Args) != len(h.Params) {
			return false
		}
		c.withContexts(cs.Parent(), root, depth+1, func(outer []Atom) {
			old := c.ctxEnv
			ce := &env{mem: map[*ssa.Alloc]ssa.Value{}, phi: map[*ssa.Phi]ssa.Value{}, par: map[*ssa.Parameter]ssa.Value{}, dom: true}
			if old != nil {
				for k, v := range old.par {
					ce.par[k] = v
				}
			}
			atoms := append(append([]Atom(nil), outer...), c.atomsAt(cs)...)
			for j, a := range cs.Call.Args {
				ce.par[h.Params[j]] = a
			}
			c.ctxEnv = ce
			f(atoms)
			c.ctxEnv = old
		})
	}
	return true
}

func (c *Ctx) reachedOnlyFrom(g, root *ssa.Function, depth int) bool {
	if g == root {
		return true
	}
	if depth >= 3 {
		return false
	}
	sites, ok := c.privateHelper(g)
	if !ok {
		return false
	}
	for _, cs := range sites {
		if !c.reachedOnlyFrom(cs.Parent(), root, depth+1) {
			return false
		}
	}
	return true
}

// helperMayKill: may the helper (or anything it calls) store to a struct field the caller's fact speaks of?
func (c *Ctx) helperMayKill(h, caller *ssa.Function, a Atom) bool {
	fields := c.fieldsInKey(caller, a.Subj)
	if len(fields) == 0 {
		return false
	}
	writers := c.fieldWriters(fields...)
	return writers[h]
}

func isIntegerType(t types.Type) bool {
	b, ok := t.Underlying().(*types.Basic)
	return ok && b.Info()&types.IsInteger != 0
}

func rulePANIC_C01(c *Ctx, r *Report) {
	reach := c.reachFrom(c.rootsC01())
	runPanicRules(c, r, reach, c.panicDischargers(r, reach))
	r.floor("PANIC-IDX", "reachable library functions", len(r.Units["functions"]), 100)
}

func rulePANIC_C13(c *Ctx, r *Report) {
	reach := c.reachFrom(c.rootsC13())
	runPanicRules(c, r, reach, c.panicDischargers(r, reach))
	r.floor("PANIC-IDX", "reachable library functions", len(r.Units["functions"]), 60)
}

func rulePANIC_C12(c *Ctx, r *Report) {
	roots := []*ssa.Function{c.method(pkgExpr, "Expression", "UnmarshalJSON"), c.method(pkgExpr, "Expression", "MarshalJSON")}
	reach := c.reachFrom(roots)
	runPanicRules(c, r, reach, c.panicDischargers(r, reach))
	r.floor("PANIC-IDX", "reachable library functions", len(r.Units["functions"]), 15)
}

func isInterfaceType(t types.Type) bool {
	_, ok := t.Underlying().(*types.Interface)
	return ok
}

func atomsText(atoms []Atom) string {
	var facts []string
	for _, a := range atoms {
		facts = append(facts, a.String())
	}
	sort.Strings(facts)
	if len(facts) > 8 {
		facts = facts[:8]
	}
	return strings.Join(facts, " ∧ ")
}

// strictlyComparable: values of t can be compared without a run-time panic (no interface-typed parts).
func strictlyComparable(t types.Type) bool {
	switch u := t.Underlying().(type) {
	case *types.Basic, *types.Pointer, *types.Chan:
		return true
	case *types.Struct:
		for i := 0; i < u.NumFields(); i++ {
			if !strictlyComparable(u.Field(i).Type()) {
				return false
			}
		}
		return true
	case *types.Array:
		return strictlyComparable(u.Elem())
	}
	return false
}

// comparableOperand: the interface value v is nil or holds a value of a strictly comparable type.
func (c *Ctx) comparableOperand(at ssa.Instruction, v ssa.Value, depth int) (string, bool) {
	if depth > 3 {
		return "", false
	}
	rv, _ := c.resolveX(v, nil, false)
	switch x := rv.(type) {
	case *ssa.Const:
		if x.Value == nil {
			return "compared with nil", true
		}
	case *ssa.MakeInterface:
		if strictlyComparable(x.X.Type()) {
			return "one operand holds a " + typeStr(x.X.Type()), true
		}
		return "", false
	case *ssa.Call:
		switch calleeFullName(x) {
		case "fmt.Errorf", "errors.New":
			return "one operand is a freshly made error (a pointer)", true
		}
	case *ssa.UnOp:
		// a package-level sentinel whose only stores are comparable values
		if g, ok := x.X.(*ssa.Global); ok && x.Op == token.MUL {
			n, okAll := 0, true
			for _, f := range c.Funcs {
				for _, b := range f.Blocks {
					for _, in := range b.Instrs {
						if st, ok := in.(*ssa.Store); ok && st.Addr == ssa.Value(g) {
							n++
							if _, ok := c.comparableOperand(st, st.Val, depth+1); !ok {
								okAll = false
							}
						}
					}
				}
			}
			if n > 0 && okAll {
				return "one operand is the package-level value " + g.Name() + ", which only ever holds comparable values", true
			}
		}
	case *ssa.Phi:
		for _, e := range x.Edges {
			if e == ssa.Value(x) {
				continue
			}
			if _, ok := c.comparableOperand(at, e, depth+1); !ok {
				return "", false
			}
		}
		return "every alternative of one operand is nil or comparable", true
	}
	k := c.key(v, nil)
	for _, a := range c.atomsAt(at) {
		if a.Kind == "type" && a.Pos && a.Subj == k {
			return "dominating type fact " + a.String(), true
		}
		if a.Kind == "nil" && a.Pos && a.Subj == k {
			return "dominating fact " + a.String(), true
		}
	}
	return "", false
}

func (c *Ctx) ifaceCmpDischarge(at ssa.Instruction, x, y ssa.Value) (string, bool) {
	if by, ok := c.comparableOperand(at, x, 0); ok {
		return by, true
	}
	return c.comparableOperand(at, y, 0)
}

// nonNilDischarge: the interface value recv is non-nil at instruction at.
func (c *Ctx) nonNilDischarge(at ssa.Instruction, recv ssa.Value) (string, bool) {
	rv, _ := c.resolveX(recv, nil, false)
	if neverNil(rv) {
		return "non-nil by construction", true
	}
	if ci, ok := rv.(*ssa.ChangeInterface); ok {
		return c.nonNilDischarge(at, ci.X)
	}
	if ta, ok := rv.(*ssa.TypeAssert); ok && !ta.CommaOk {
		return "result of a type assertion that succeeded", true
	}
	if call, ok := rv.(*ssa.Call); ok && calleeFullName(call) == "reflect.TypeOf" && len(call.Call.Args) == 1 {
		// reflect.TypeOf(x) is nil exactly when x is a nil interface
		if by, ok := c.nonNilDischarge(at, call.Call.Args[0]); ok {
			return "reflect.TypeOf of a non-nil value (" + by + ")", true
		}
		return "", false
	}
	k := c.key(recv, nil)
	for _, a := range c.atomsAt(at) {
		if a.Kind == "nil" && !a.Pos && a.Subj == k {
			return "dominating fact " + a.String(), true
		}
		if a.Kind == "type" && a.Pos && a.Subj == k {
			return "dominating type fact " + a.String(), true
		}
	}
	// a method of an interface-typed receiver parameter of a formatter (fmt passes a non-nil State)
	if p, ok := rv.(*ssa.Parameter); ok {
		if n, ok := p.Type().(*types.Named); ok && n.Obj().Pkg() != nil && n.Obj().Pkg().Path() == "fmt" {
			return "fmt hands its formatting methods a non-nil " + n.Obj().Name(), true
		}
	}
	return "", false
}

// mergeDischarge: the site lies after a merge of several branches (a switch whose cases only select, an
// if/else that both fall through): no single branch dominates it, but the site is safe if it is safe
// under the facts of every incoming edge of the nearest merge block. Only facts about values that cannot
// change in between (no struct fields) are used.
func (c *Ctx) mergeDischarge(r *Report, site *panicSite, extra []panicDischarger) (string, bool) {
	b := site.in.Block()
	var m *ssa.BasicBlock
	for d := b; d != nil; d = d.Idom() {
		if len(d.Preds) >= 2 {
			// not a loop header: no predecessor is dominated by d
			loop := false
			for _, p := range d.Preds {
				if p == d || d.Dominates(p) {
					loop = true
				}
			}
			if !loop {
				m = d
				break
			}
			return "", false
		}
	}
	if m == nil || len(m.Preds) > 8 {
		return "", false
	}
	stable := func(atoms []Atom) []Atom {
		var out []Atom
		for _, a := range atoms {
			if len(c.fieldsInKey(site.fn, a.Subj)) == 0 && !strings.Contains(a.Subj, "local:") && !strings.Contains(a.Val, "local:") {
				out = append(out, a)
			}
		}
		return out
	}
	// facts established between the merge block and the site
	var after []Atom
	for _, f := range c.domFacts(b) {
		if f.At.Block() == m || m.Dominates(f.At.Block()) {
			after = append(after, c.expand(c.atoms(f.Cond, f.Pol, nil), nil)...)
		}
	}
	for _, p := range m.Preds {
		atoms := append(stable(c.edgeAtomsExpanded(p, m)), stable(after)...)
		if _, ok := c.tryDischarge(r, site, atoms, extra); !ok {
			return "", false
		}
	}
	return fmt.Sprintf("holds on each of the %d branches that merge before this point", len(m.Preds)), true
}
