package main

// Path-sensitive walk of a function's SSA CFG (loop-free paths; phis and local allocs are resolved
// along the path; constant branch conditions prune infeasible branches). Used to read decision
// tables off small functions (reducers, validators, range renderers, return-pair rules).

import (
	"go/constant"
	"go/token"
	"go/types"
	"strings"

	"golang.org/x/tools/go/ssa"
)

type Path struct {
	Fn      *ssa.Function
	Blocks  []*ssa.BasicBlock
	Atoms   []Atom
	Last    []Atom            // atoms contributed by the last branch taken on the path
	Instrs  []ssa.Instruction // every instruction on the path in order
	Ret     *ssa.Return       // nil if the path ends in panic or was cut
	Cut     bool              // a back edge was skipped
	CutTo   *ssa.BasicBlock   // target of the skipped back edge
	Env     *env
	Stack   []*ssa.Function // inlined callees being walked (innermost last)
	StackC  []*ssa.Call     // the calls being inlined (parallel to Stack)
	Inlined []*ssa.Call     // calls that were replaced by the callee's paths
	Calls   []pathCall      // every call on the path with its argument keys as they were at that point
	Updates []pathUpdate    // every map update on the path with key and value as they were at that point
}

// pathUpdate: m[k] = v met on the path, with k and v resolved under the environment in force then (a loop
// that was unrolled executes the same instruction with different values).
type pathUpdate struct {
	Instr   *ssa.MapUpdate
	Key     ssa.Value
	Val     ssa.Value
	ValArgs []ssa.Value // if Val is a call: its arguments, resolved
}

// pathCall: a call instruction met on the path; Args are the keys of its arguments under the
// environment in force when it was met (a helper inlined twice binds its parameters anew each time, so
// reading the arguments at the end of the path would see the last binding only).
type pathCall struct {
	Idx  int // index in Instrs
	Call *ssa.Call
	Args []string
}

type pathWalker struct {
	cutCall  map[*ssa.Call]bool // inlined calls inside which a path was cut at a loop
	noInline map[*ssa.Call]bool // calls that are not inlined again after that
	c        *Ctx
	fn       *ssa.Function
	max      int
	paths    []*Path
	over     bool
	inline   *InlineOpts
}

// InlineOpts switches on inlining of helper calls during path enumeration: a call of a module function
// in the same package as the root, with at least one result, that is not a boolean predicate (those
// are summarised, summaries.go), not part of a call-graph cycle, and not listed in Keep, is replaced
// by the helper's own paths. The helper's branch conditions become atoms of the caller's path with
// the helper's parameters substituted by the caller's arguments, and the call's results stand for
// the values the helper returned. A rule extracted this way reads the same table whether a case is
// written in place or behind a helper.
type InlineOpts struct {
	Keep  map[*ssa.Function]bool
	Depth int                        // maximal nesting (default 3)
	Bool  bool                       // also inline boolean predicates
	Havoc bool                       // loop-carried values are unknown inside loops (cycle analyses: an arbitrary iteration, not the first)
	None  bool                       // no inlining at all (only the other switches apply)
	Loops bool                       // keep a helper inlined even when one of its loops is cut (cycle analyses)
	Pred  func(g *ssa.Function) bool // if set, decides which callees are inlined (replaces the result-based default)
	Cyc   bool                       // with Pred: a callee on a call-graph cycle may be read in place too (Pred bounds the expansion; a function is never inlined inside itself)
}

// enumPaths enumerates loop-free entry→exit paths. complete=false if more than max paths exist.
func (c *Ctx) enumPaths(fn *ssa.Function, max int) (paths []*Path, complete bool) {
	return c.enumPathsOpt(fn, max, nil)
}

func (c *Ctx) enumPathsInl(fn *ssa.Function, max int, keep ...*ssa.Function) (paths []*Path, complete bool) {
	o := &InlineOpts{Keep: map[*ssa.Function]bool{}}
	for _, k := range keep {
		if k != nil {
			o.Keep[k] = true
		}
	}
	return c.enumPathsOpt(fn, max, o)
}

func (c *Ctx) enumPathsOpt(fn *ssa.Function, max int, o *InlineOpts) (paths []*Path, complete bool) {
	if fn == nil || len(fn.Blocks) == 0 {
		return nil, true
	}
	w := &pathWalker{c: c, fn: fn, max: max, inline: o, cutCall: map[*ssa.Call]bool{}, noInline: map[*ssa.Call]bool{}}
	p := &Path{Fn: fn, Env: newEnv()}
	w.enter(fn.Blocks[0], nil, p, map[*ssa.BasicBlock]int{}, func(p *Path, ret *ssa.Return) {
		p.Ret = ret
		w.emit(p)
	})
	return w.paths, !w.over
}

func (p *Path) fork() *Path {
	n := &Path{Fn: p.Fn, Env: p.Env.clone(), Cut: p.Cut, Last: p.Last}
	n.Blocks = append([]*ssa.BasicBlock(nil), p.Blocks...)
	n.Atoms = append([]Atom(nil), p.Atoms...)
	n.Instrs = append([]ssa.Instruction(nil), p.Instrs...)
	n.Stack = append([]*ssa.Function(nil), p.Stack...)
	n.StackC = append([]*ssa.Call(nil), p.StackC...)
	n.Inlined = append([]*ssa.Call(nil), p.Inlined...)
	n.Calls = append([]pathCall(nil), p.Calls...)
	n.Updates = append([]pathUpdate(nil), p.Updates...)
	return n
}

// wasInlined: the call was replaced by its callee's paths on this path.
func (c *Ctx) wasInlined(p *Path, call *ssa.Call) bool {
	for _, x := range p.Inlined {
		if x == call {
			return true
		}
	}
	return false
}

// isLoopHeader: some predecessor of b is dominated by b (a back edge enters here).
func isLoopHeader(b *ssa.BasicBlock) bool {
	for _, p := range b.Preds {
		if p == b || b.Dominates(p) {
			return true
		}
	}
	return false
}

// frameK: what happens when the frame being walked returns.
type frameK func(p *Path, ret *ssa.Return)

func copyOn(on map[*ssa.BasicBlock]int) map[*ssa.BasicBlock]int {
	n := make(map[*ssa.BasicBlock]int, len(on))
	for k, v := range on {
		n[k] = v
	}
	return n
}

func (w *pathWalker) enter(b, pred *ssa.BasicBlock, p *Path, on map[*ssa.BasicBlock]int, k frameK) {
	if w.over {
		return
	}
	on[b]++
	defer func() { on[b]-- }()
	p.Blocks = append(p.Blocks, b)
	// resolve phis for the incoming edge (all at once, using the environment before the block)
	if pred != nil {
		idx := -1
		for i, pp := range b.Preds {
			if pp == pred {
				idx = i
			}
		}
		newPhi := map[*ssa.Phi]ssa.Value{}
		havoc := w.inline != nil && w.inline.Havoc && isLoopHeader(b)
		if !havoc && isLoopHeader(b) && on[b] == 1 && !(pred == b || b.Dominates(pred)) {
			// first arrival at a loop from outside. If the loop's continuation test is decided by the entry
			// values (a constant trip count) the loop is unrolled; otherwise the walk covers "zero iterations"
			// on the exit edge and "some iteration" in the body, and the values carried round the loop are
			// unknown on both (they are NOT the entry values once the body has run)
			if !w.headerFolds(pred, b, p) {
				havoc = true
			}
		}
		for _, in := range b.Instrs {
			ph, ok := in.(*ssa.Phi)
			if !ok {
				break
			}
			if havoc {
				// a value carried round the loop: on an arbitrary iteration it is not the entry value
				delete(p.Env.phi, ph)
				continue
			}
			if idx >= 0 {
				v, e2 := w.c.resolveE(ph.Edges[idx], p.Env)
				if e2 != p.Env {
					// the value lives in an inlined callee's frame: keep the indirection
					v = ph.Edges[idx]
					if pv, ok := v.(*ssa.Phi); ok {
						if r, ok := p.Env.phi[pv]; ok {
							v = r
						}
					}
				}
				if mentions(v, ph, 0) {
					// the new value is an expression over the old one, which is not known: unknown
					delete(p.Env.phi, ph)
					continue
				}
				newPhi[ph] = v
			}
		}
		for k, v := range newPhi {
			p.Env.phi[k] = v
		}
	}
	w.run(b, 0, p, on, k)
}

func (w *pathWalker) run(b *ssa.BasicBlock, start int, p *Path, on map[*ssa.BasicBlock]int, k frameK) {
	for i := start; i < len(b.Instrs); i++ {
		in := b.Instrs[i]
		p.Instrs = append(p.Instrs, in)
		switch x := in.(type) {
		case *ssa.MapUpdate:
			pu := pathUpdate{Instr: x, Key: w.c.resolve(x.Key, p.Env), Val: w.c.resolve(x.Value, p.Env)}
			if call, ok := pu.Val.(*ssa.Call); ok {
				for _, a := range call.Call.Args {
					pu.ValArgs = append(pu.ValArgs, w.c.resolve(a, p.Env))
				}
			}
			p.Updates = append(p.Updates, pu)
		case *ssa.Store:
			if a, ok := x.Addr.(*ssa.Alloc); ok {
				v, e2 := w.c.resolveE(x.Val, p.Env)
				if e2 != p.Env {
					v = x.Val
				}
				p.Env.mem[a] = v
			}
		case *ssa.Call:
			{
				pc := pathCall{Idx: len(p.Instrs) - 1, Call: x}
				for _, a := range x.Call.Args {
					pc.Args = append(pc.Args, w.c.key(a, p.Env))
				}
				p.Calls = append(p.Calls, pc)
			}
			if g := w.inlineTarget(x, p); g != nil && !w.noInline[x] {
				// default mode: a helper whose loop cannot be unrolled loses its looping paths when read in
				// place, so such a call is rolled back and stays a call
				rollback := w.inline.Pred == nil && !w.inline.Loops
				var saved *Path
				mark, overBefore := len(w.paths), w.over
				if rollback {
					saved = p.fork()
					delete(w.cutCall, x)
				}
				if p.Env.par == nil {
					p.Env.par = map[*ssa.Parameter]ssa.Value{}
				}
				args := x.Call.Args
				if len(args) == len(g.Params) {
					for j, a := range args {
						p.Env.par[g.Params[j]] = a
					}
				}
				p.Stack = append(p.Stack, g)
				p.StackC = append(p.StackC, x)
				p.Inlined = append(p.Inlined, x)
				depth := len(p.Stack)
				onCaller := copyOn(on)
				next := i + 1
				w.enter(g.Blocks[0], nil, p, map[*ssa.BasicBlock]int{}, func(p2 *Path, ret *ssa.Return) {
					snap := p2.Env.clone()
					if p2.Env.res == nil {
						p2.Env.res = map[ssa.Value]binding{}
					}
					if len(ret.Results) == 1 {
						p2.Env.res[x] = binding{ret.Results[0], snap}
					} else if refs := x.Referrers(); refs != nil {
						for _, ref := range *refs {
							if ex, ok := ref.(*ssa.Extract); ok && ex.Index < len(ret.Results) {
								p2.Env.res[ex] = binding{ret.Results[ex.Index], snap}
							}
						}
					}
					p2.Stack = p2.Stack[:depth-1]
					p2.StackC = p2.StackC[:depth-1]
					w.run(b, next, p2, copyOn(onCaller), k)
				})
				if rollback && w.cutCall[x] {
					w.paths = w.paths[:mark]
					w.over = overBefore
					w.noInline[x] = true
					p = saved
					continue
				}
				return
			}
		case *ssa.Return:
			k(p, x)
			return
		case *ssa.Panic:
			w.emit(p)
			return
		case *ssa.Jump:
			w.next(b, b.Succs[0], p, on, k)
			return
		case *ssa.If:
			cond := w.c.resolve(x.Cond, p.Env)
			if kc, ok := cond.(*ssa.Const); ok && kc.Value != nil && kc.Value.Kind() == constant.Bool {
				if constant.BoolVal(kc.Value) {
					w.next(b, b.Succs[0], p, on, k)
				} else {
					w.next(b, b.Succs[1], p, on, k)
				}
				return
			}
			if v, ok := w.c.foldCmp(x.Cond, p.Env); ok {
				if v {
					w.next(b, b.Succs[0], p, on, k)
				} else {
					w.next(b, b.Succs[1], p, on, k)
				}
				return
			}
			// each side in disjunctive form: one continuation per alternative (a membership test in a list
			// of constants is one alternative per member, everything else a single conjunction)
			for si, pol := range []bool{true, false} {
				alts, binds := w.c.atomAltsB(x.Cond, pol, p.Env)
				for ai, alt := range alts {
					for i := range alt {
						alt[i].Env = p.Env // p is dead after the forks below, so this environment is frozen
					}
					if !w.contradicts(p.Atoms, alt) {
						q := p.fork()
						q.Atoms = append(q.Atoms, alt...)
						q.Last = alt
						if len(binds[ai]) > 0 {
							if q.Env.res == nil {
								q.Env.res = map[ssa.Value]binding{}
							}
							for kv, vv := range binds[ai] {
								q.Env.res[kv] = binding{vv, nil}
							}
						}
						w.next(b, b.Succs[si], q, on, k)
					}
				}
			}
			return
		}
	}
	// block without terminator (should not happen)
	w.emit(p)
}

func (w *pathWalker) next(from, to *ssa.BasicBlock, p *Path, on map[*ssa.BasicBlock]int, k frameK) {
	if on[to] > 0 {
		// a back edge. When helpers are read in place, a loop whose continuation test folds to a constant
		// under the values of this path (a range over a literal argument list) is unrolled, at most 8 times.
		if (w.inline == nil || !w.inline.Havoc) && on[to] < 8 && w.headerFolds(from, to, p) {
			// the next iteration may pass through the loop's blocks again: they are no longer "on the path"
			on2 := make(map[*ssa.BasicBlock]int, len(on))
			for b, n := range on {
				if b != to && to.Dominates(b) {
					continue
				}
				on2[b] = n
			}
			w.enter(to, from, p, on2, k)
			return
		}
		p.Cut = true
		p.CutTo = to
		for _, cx := range p.StackC {
			w.cutCall[cx] = true
		}
		w.emit(p)
		return
	}
	w.enter(to, from, p, on, k)
}

// headerFolds: entering `to` from `from` with the phi values of that edge, does the block end in a
// branch whose condition is a constant?
func (w *pathWalker) headerFolds(from, to *ssa.BasicBlock, p *Path) bool {
	iff, ok := to.Instrs[len(to.Instrs)-1].(*ssa.If)
	if !ok {
		return false
	}
	idx := -1
	for i, pp := range to.Preds {
		if pp == from {
			idx = i
		}
	}
	if idx < 0 {
		return false
	}
	tmp := p.Env.clone()
	for _, in := range to.Instrs {
		ph, ok := in.(*ssa.Phi)
		if !ok {
			break
		}
		nv := w.c.resolve(ph.Edges[idx], p.Env)
		if mentions(nv, ph, 0) {
			delete(tmp.phi, ph)
			continue
		}
		tmp.phi[ph] = nv
	}
	if kc, ok := w.c.resolve(iff.Cond, tmp).(*ssa.Const); ok && kc.Value != nil && kc.Value.Kind() == constant.Bool {
		return true
	}
	_, ok = w.c.foldCmp(iff.Cond, tmp)
	return ok
}

func (w *pathWalker) emit(p *Path) {
	if len(w.paths) >= w.max {
		w.over = true
		return
	}
	w.paths = append(w.paths, p)
}

// inlineTarget decides whether the call is replaced by the callee's paths.
func (w *pathWalker) inlineTarget(call *ssa.Call, p *Path) *ssa.Function {
	o := w.inline
	if o == nil || o.None {
		return nil
	}
	g := w.c.calleeE(call, p.Env)
	if g == nil || g == w.fn || len(g.Blocks) == 0 || !inModule(g) || o.Keep[g] || w.c.semanticUnit(g) {
		return nil
	}
	if fnPkgPath(g) != fnPkgPath(w.fn) {
		return nil
	}
	depth := o.Depth
	if depth == 0 {
		depth = 3
	}
	if len(p.Stack) >= depth {
		return nil
	}
	for _, s := range p.Stack {
		if s == g {
			return nil
		}
	}
	rs := g.Signature.Results()
	if o.Pred != nil {
		if !o.Pred(g) {
			return nil
		}
	} else {
		if rs.Len() == 0 {
			return nil
		}
		if rs.Len() == 1 && isBool(rs.At(0).Type()) && !o.Bool {
			return nil
		}
	}
	if len(call.Call.Args) != len(g.Params) || g.Signature.Variadic() && false {
		return nil
	}
	if !(o.Cyc && o.Pred != nil) && w.c.inCycleAvoiding(g, w.fn, o.Keep) {
		return nil
	}
	n := 0
	for _, b := range g.Blocks {
		n += len(b.Instrs)
	}
	if n > 400 {
		return nil
	}
	return g
}

// semanticUnit: helpers the rules reason about as a whole and therefore never inline — the numeric
// bound parsers of the range render functions (role: driver function returning (N, N, error) for a
// numeric N; the range rules classify a path by which of them succeeded).
func (c *Ctx) semanticUnit(g *ssa.Function) bool {
	if fnPkgPath(g) != pkgDriver {
		return false
	}
	rs := g.Signature.Results()
	if rs.Len() != 3 || !isErrorType(rs.At(2).Type()) || !types.Identical(rs.At(0).Type(), rs.At(1).Type()) {
		return false
	}
	b, ok := rs.At(0).Type().Underlying().(*types.Basic)
	return ok && b.Info()&types.IsNumeric != 0
}

// calleeE: the function a call invokes — statically, or through a parameter bound to a function value
// by an inlined call.
func (c *Ctx) calleeE(call *ssa.Call, e *env) *ssa.Function {
	if f := call.Call.StaticCallee(); f != nil {
		return f
	}
	if call.Call.IsInvoke() {
		return nil
	}
	switch x := c.resolve(call.Call.Value, e).(type) {
	case *ssa.Function:
		return x
	case *ssa.MakeClosure:
		if f, ok := x.Fn.(*ssa.Function); ok && len(x.Bindings) == 0 {
			return f
		}
	}
	return nil
}

// inCycleAvoiding: f can reach itself through static calls without passing through a kept function
// (those are never inlined, so recursion through them does not unfold). Recursion through the root itself
// does count: constructors that call each other stay calls.
func (c *Ctx) inCycleAvoiding(f, root *ssa.Function, keep map[*ssa.Function]bool) bool {
	if !c.inCycle(f) {
		return false
	}
	seen := map[*ssa.Function]bool{}
	var visit func(g *ssa.Function) bool
	visit = func(g *ssa.Function) bool {
		for _, b := range g.Blocks {
			for _, in := range b.Instrs {
				call, ok := in.(ssa.CallInstruction)
				if !ok {
					continue
				}
				sc := staticCallee(call)
				if sc == nil || !inModule(sc) || keep[sc] {
					continue
				}
				if sc == f {
					return true
				}
				if !seen[sc] {
					seen[sc] = true
					if visit(sc) {
						return true
					}
				}
			}
		}
		return false
	}
	return visit(f)
}

// inCycle: f can reach itself through static calls (module functions only).
func (c *Ctx) inCycle(f *ssa.Function) bool {
	if c.cycleMemo == nil {
		c.cycleMemo = map[*ssa.Function]bool{}
	}
	if v, ok := c.cycleMemo[f]; ok {
		return v
	}
	seen := map[*ssa.Function]bool{}
	var visit func(g *ssa.Function) bool
	visit = func(g *ssa.Function) bool {
		for _, b := range g.Blocks {
			for _, in := range b.Instrs {
				call, ok := in.(ssa.CallInstruction)
				if !ok {
					continue
				}
				sc := staticCallee(call)
				if sc == nil || !inModule(sc) {
					continue
				}
				if sc == f {
					return true
				}
				if !seen[sc] {
					seen[sc] = true
					if visit(sc) {
						return true
					}
				}
			}
		}
		return false
	}
	r := visit(f)
	c.cycleMemo[f] = r
	return r
}

// contradicts (walker): as contradicts, but facts about the result of a call that has effects (the lexer's
// rune read, …) are not used for pruning — two such calls have the same key and need not return the same
// value, so "contradictory" facts about them can both hold.
func (w *pathWalker) contradicts(have, add []Atom) bool {
	for _, a := range add {
		for _, h := range have {
			if !atomsContradict(h, a) {
				continue
			}
			if !w.c.mentionsImpure(a) && !w.c.mentionsImpure(h) {
				return true
			}
			// both speak of the result of a call with effects: the contradiction stands only if it is the very
			// same call instruction(s) in both (one execution, one value)
			ca, ch := w.c.impureCallsIn(a.Src, a.Env, 0), w.c.impureCallsIn(h.Src, h.Env, 0)
			if len(ca) > 0 && sameCalls(ca, ch) {
				return true
			}
		}
	}
	return false
}

func sameCalls(a, b []*ssa.Call) bool {
	if len(a) != len(b) {
		return false
	}
	for _, x := range a {
		found := false
		for _, y := range b {
			if x == y {
				found = true
			}
		}
		if !found {
			return false
		}
	}
	return true
}

// impureCallsIn: the calls of functions with effects that value v is computed from (through the path
// environment), as instruction identities.
func (c *Ctx) impureCallsIn(v ssa.Value, e *env, depth int) []*ssa.Call {
	if v == nil || depth > 8 {
		return nil
	}
	v, e = c.resolveE(v, e)
	var out []*ssa.Call
	add := func(xs []*ssa.Call) {
		for _, x := range xs {
			dup := false
			for _, y := range out {
				if x == y {
					dup = true
				}
			}
			if !dup {
				out = append(out, x)
			}
		}
	}
	if call, ok := v.(*ssa.Call); ok {
		if f := call.Call.StaticCallee(); f != nil && c.impureFns()[f] {
			out = append(out, call)
		}
	}
	if in, ok := v.(ssa.Instruction); ok {
		if _, isPhi := v.(*ssa.Phi); !isPhi {
			for _, op := range in.Operands(nil) {
				if *op != nil {
					add(c.impureCallsIn(*op, e, depth+1))
				}
			}
		}
	}
	return out
}

// impureFns: module functions that (transitively) write memory other than their own locals.
func (c *Ctx) impureFns() map[*ssa.Function]bool {
	if v, ok := c.roles["impure"]; ok {
		return v.(map[*ssa.Function]bool)
	}
	out := map[*ssa.Function]bool{}
	for _, f := range c.Funcs {
		if !inModule(f) {
			continue
		}
		for _, b := range f.Blocks {
			for _, in := range b.Instrs {
				switch x := in.(type) {
				case *ssa.Store:
					base := x.Addr
					for {
						switch y := base.(type) {
						case *ssa.FieldAddr:
							base = y.X
							continue
						case *ssa.IndexAddr:
							base = y.X
							continue
						}
						break
					}
					if al, ok := base.(*ssa.Alloc); !ok || al.Heap {
						if _, isAl := base.(*ssa.Alloc); !isAl {
							out[f] = true
						}
					}
				case *ssa.MapUpdate:
					if _, ok := x.Map.(*ssa.MakeMap); !ok {
						out[f] = true
					}
				}
			}
		}
	}
	for changed := true; changed; {
		changed = false
		for _, f := range c.Funcs {
			if out[f] || !inModule(f) {
				continue
			}
			for _, b := range f.Blocks {
				for _, in := range b.Instrs {
					if call, ok := in.(ssa.CallInstruction); ok {
						if sc := staticCallee(call); sc != nil && out[sc] {
							out[f] = true
							changed = true
						}
					}
				}
			}
		}
	}
	c.roles["impure"] = out
	var names []string
	for f := range out {
		names = append(names, fnName(f)+"(")
	}
	c.roles["impureNames"] = names
	return out
}

func (c *Ctx) mentionsImpure(a Atom) bool {
	c.impureFns()
	for _, n := range c.roles["impureNames"].([]string) {
		if strings.Contains(a.Subj, n) || strings.Contains(a.Val, n) {
			return true
		}
	}
	return false
}

// contradicts: would adding `add` to `have` be unsatisfiable by the simple syntactic rules?
func contradicts(have, add []Atom) bool {
	for _, a := range add {
		for _, h := range have {
			if atomsContradict(h, a) {
				return true
			}
		}
	}
	return false
}

func atomsContradict(a, b Atom) bool {
	if a.Kind != b.Kind || a.Subj != b.Subj {
		return false
	}
	switch a.Kind {
	case "type", "call":
		return a.Val == b.Val && a.Pos != b.Pos
	case "nil", "bool":
		return a.Pos != b.Pos
	case "cmp":
		if a.Val == b.Val {
			return negOp[a.Op] == b.Op || (a.Op == "<" && b.Op == ">") || (a.Op == ">" && b.Op == "<") ||
				(a.Op == "==" && (b.Op == "<" || b.Op == ">")) || (b.Op == "==" && (a.Op == "<" || a.Op == ">"))
		}
		// x == c1 and x == c2 with different constants
		return a.Op == "==" && b.Op == "==" && isConstKey(a.Val) && isConstKey(b.Val)
	case "len":
		lo1, hi1 := lenRange([]Atom{a}, a.Subj)
		lo2, hi2 := lenRange([]Atom{b}, a.Subj)
		lo, hi := max64(lo1, lo2), min64(hi1, hi2)
		if lo > hi {
			return true
		}
		if a.Op == "!=" && b.Op == "==" && a.N == b.N || b.Op == "!=" && a.Op == "==" && a.N == b.N {
			return true
		}
	}
	return false
}

func isConstKey(k string) bool {
	if k == "" {
		return false
	}
	ch := k[0]
	return ch == '"' || ch == '-' || (ch >= '0' && ch <= '9') || k == "nil" || k == "true" || k == "false" ||
		(len(k) > 4 && (k[:4] == "lex." || k[:5] == "expr."))
}

const bigLen = int64(1) << 40

// lenRange: the interval for len(subj) implied by the atoms.
func lenRange(atoms []Atom, subj string) (lo, hi int64) {
	lo, hi = 0, bigLen
	var ne []int64
	for _, a := range atoms {
		if a.Kind != "len" || a.Subj != subj {
			continue
		}
		switch a.Op {
		case "==":
			lo, hi = max64(lo, a.N), min64(hi, a.N)
		case "!=":
			ne = append(ne, a.N)
		case "<":
			hi = min64(hi, a.N-1)
		case "<=":
			hi = min64(hi, a.N)
		case ">":
			lo = max64(lo, a.N+1)
		case ">=":
			lo = max64(lo, a.N)
		}
	}
	for changed := true; changed; {
		changed = false
		for _, n := range ne {
			if lo == n {
				lo++
				changed = true
			}
			if hi == n {
				hi--
				changed = true
			}
		}
	}
	return
}

func max64(a, b int64) int64 {
	if a > b {
		return a
	}
	return b
}
func min64(a, b int64) int64 {
	if a < b {
		return a
	}
	return b
}

// hasAtom reports whether the conjunction contains an atom equal to the given rendering.
func hasAtom(atoms []Atom, s string) bool {
	for _, a := range atoms {
		if a.String() == s {
			return true
		}
	}
	return false
}

func atomStrings(atoms []Atom) []string {
	var out []string
	for _, a := range atoms {
		out = append(out, a.String())
	}
	return out
}

// isNilConst / constBool helpers on resolved values
func isNilConst(v ssa.Value) bool {
	k, ok := v.(*ssa.Const)
	return ok && k.Value == nil
}

func constBoolVal(v ssa.Value) (val, ok bool) {
	k, isK := v.(*ssa.Const)
	if !isK || k.Value == nil || k.Value.Kind() != constant.Bool {
		return false, false
	}
	return constant.BoolVal(k.Value), true
}

func constStringVal(v ssa.Value) (string, bool) {
	k, isK := v.(*ssa.Const)
	if !isK || k.Value == nil || k.Value.Kind() != constant.String {
		return "", false
	}
	return constant.StringVal(k.Value), true
}

var _ = token.ADD

// enumPathsTail: like enumPaths, but a path that ends in `return g(a, b, …)` — forwarding all
// results of a call of a module function whose arguments are the caller's own parameters in the same
// positions (e.g. a method extracted from the function, called on the same receiver) — is replaced by
// its continuations through g. Keys are position-based ($0, $1, …), so they stay valid.
func (c *Ctx) enumPathsTail(fn *ssa.Function, max int) ([]*Path, bool) {
	paths, complete := c.enumPaths(fn, max)
	var out []*Path
	for _, p := range paths {
		g := c.identityTailCallee(fn, p)
		if g == nil {
			out = append(out, p)
			continue
		}
		sub, ok := c.enumPathsTail(g, max)
		if !ok {
			complete = false
		}
		for _, q := range sub {
			n := &Path{Fn: fn, Ret: q.Ret, Cut: q.Cut, CutTo: q.CutTo, Env: q.Env}
			n.Blocks = append(append([]*ssa.BasicBlock(nil), p.Blocks...), q.Blocks...)
			n.Atoms = append(append([]Atom(nil), p.Atoms...), q.Atoms...)
			n.Instrs = append(append([]ssa.Instruction(nil), p.Instrs...), q.Instrs...)
			out = append(out, n)
		}
	}
	return out, complete
}

func (c *Ctx) identityTailCallee(fn *ssa.Function, p *Path) *ssa.Function {
	if p.Ret == nil || len(p.Ret.Results) == 0 {
		return nil
	}
	var call *ssa.Call
	for i, rv := range p.Ret.Results {
		v := c.resolve(rv, p.Env)
		var cl *ssa.Call
		switch x := v.(type) {
		case *ssa.Extract:
			if x.Index != i {
				return nil
			}
			cl, _ = x.Tuple.(*ssa.Call)
		case *ssa.Call:
			if len(p.Ret.Results) != 1 {
				return nil
			}
			cl = x
		}
		if cl == nil || (call != nil && cl != call) {
			return nil
		}
		call = cl
	}
	g := call.Call.StaticCallee()
	if g == nil || g == fn || !inModule(g) || g.Blocks == nil || fnPkgPath(g) != fnPkgPath(fn) {
		return nil
	}
	if len(call.Call.Args) > len(fn.Params) {
		return nil
	}
	for i, a := range call.Call.Args {
		if c.resolve(a, p.Env) != ssa.Value(fn.Params[i]) {
			return nil
		}
	}
	return g
}
