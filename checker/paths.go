package main

// Path-sensitive walk of a function's SSA CFG (loop-free paths; phis and local allocs are resolved
// along the path; constant branch conditions prune infeasible branches). Used to read decision
// tables off small functions (reducers, validators, range renderers, return-pair rules).

import (
	"go/constant"
	"go/token"

	"golang.org/x/tools/go/ssa"
)

type Path struct {
	Fn     *ssa.Function
	Blocks []*ssa.BasicBlock
	Atoms  []Atom
	Last   []Atom            // atoms contributed by the last branch taken on the path
	Instrs []ssa.Instruction // every instruction on the path in order
	Ret    *ssa.Return       // nil if the path ends in panic or was cut
	Cut    bool              // a back edge was skipped
	CutTo  *ssa.BasicBlock   // target of the skipped back edge
	Env    *env
}

type pathWalker struct {
	c     *Ctx
	fn    *ssa.Function
	max   int
	paths []*Path
	over  bool
}

// enumPaths enumerates loop-free entry→exit paths. complete=false if more than max paths exist.
func (c *Ctx) enumPaths(fn *ssa.Function, max int) (paths []*Path, complete bool) {
	if fn == nil || len(fn.Blocks) == 0 {
		return nil, true
	}
	w := &pathWalker{c: c, fn: fn, max: max}
	p := &Path{Fn: fn, Env: newEnv()}
	w.walk(fn.Blocks[0], nil, p, map[*ssa.BasicBlock]bool{})
	return w.paths, !w.over
}

func (p *Path) fork() *Path {
	n := &Path{Fn: p.Fn, Env: p.Env.clone(), Cut: p.Cut, Last: p.Last}
	n.Blocks = append([]*ssa.BasicBlock(nil), p.Blocks...)
	n.Atoms = append([]Atom(nil), p.Atoms...)
	n.Instrs = append([]ssa.Instruction(nil), p.Instrs...)
	return n
}

func (w *pathWalker) walk(b, pred *ssa.BasicBlock, p *Path, on map[*ssa.BasicBlock]bool) {
	if w.over {
		return
	}
	on[b] = true
	defer delete(on, b)
	p.Blocks = append(p.Blocks, b)
	// resolve phis for the incoming edge (all at once, using the environment before the block)
	if pred != nil {
		idx := -1
		for i, pp := range b.Preds {
			if pp == pred {
				idx = i
			}
		}
		newPhi := map[*ssa.Phi]ssa.Value{}
		for _, in := range b.Instrs {
			ph, ok := in.(*ssa.Phi)
			if !ok {
				break
			}
			if idx >= 0 {
				newPhi[ph] = w.c.resolve(ph.Edges[idx], p.Env)
			}
		}
		for k, v := range newPhi {
			p.Env.phi[k] = v
		}
	}
	for _, in := range b.Instrs {
		p.Instrs = append(p.Instrs, in)
		switch x := in.(type) {
		case *ssa.Store:
			if a, ok := x.Addr.(*ssa.Alloc); ok {
				p.Env.mem[a] = w.c.resolve(x.Val, p.Env)
			}
		case *ssa.Return:
			p.Ret = x
			w.emit(p)
			return
		case *ssa.Panic:
			w.emit(p)
			return
		case *ssa.Jump:
			w.next(b, b.Succs[0], p, on)
			return
		case *ssa.If:
			cond := w.c.resolve(x.Cond, p.Env)
			if k, ok := cond.(*ssa.Const); ok && k.Value != nil && k.Value.Kind() == constant.Bool {
				if constant.BoolVal(k.Value) {
					w.next(b, b.Succs[0], p, on)
				} else {
					w.next(b, b.Succs[1], p, on)
				}
				return
			}
			tAtoms := w.c.atoms(x.Cond, true, p.Env)
			fAtoms := w.c.atoms(x.Cond, false, p.Env)
			if !contradicts(p.Atoms, tAtoms) {
				q := p.fork()
				q.Atoms = append(q.Atoms, tAtoms...)
				q.Last = tAtoms
				w.next(b, b.Succs[0], q, on)
			}
			if !contradicts(p.Atoms, fAtoms) {
				q := p.fork()
				q.Atoms = append(q.Atoms, fAtoms...)
				q.Last = fAtoms
				w.next(b, b.Succs[1], q, on)
			}
			return
		}
	}
	// block without terminator (should not happen)
	w.emit(p)
}

func (w *pathWalker) next(from, to *ssa.BasicBlock, p *Path, on map[*ssa.BasicBlock]bool) {
	if on[to] {
		p.Cut = true
		p.CutTo = to
		w.emit(p)
		return
	}
	w.walk(to, from, p, on)
}

func (w *pathWalker) emit(p *Path) {
	if len(w.paths) >= w.max {
		w.over = true
		return
	}
	w.paths = append(w.paths, p)
}

// contradicts: would adding `add` to `have` be unsatisfiable by the simple syntactic rules?
func contradicts(have, add []Atom) bool {
	for _, a := range add {
		for _, h := range have {
			if atomsContradict(h, a) {
				return true
			}
		}
	}
	return false
}

func atomsContradict(a, b Atom) bool {
	if a.Kind != b.Kind || a.Subj != b.Subj {
		return false
	}
	switch a.Kind {
	case "type", "call":
		return a.Val == b.Val && a.Pos != b.Pos
	case "nil", "bool":
		return a.Pos != b.Pos
	case "cmp":
		if a.Val == b.Val {
			return negOp[a.Op] == b.Op || (a.Op == "<" && b.Op == ">") || (a.Op == ">" && b.Op == "<") ||
				(a.Op == "==" && (b.Op == "<" || b.Op == ">")) || (b.Op == "==" && (a.Op == "<" || a.Op == ">"))
		}
		// x == c1 and x == c2 with different constants
		return a.Op == "==" && b.Op == "==" && isConstKey(a.Val) && isConstKey(b.Val)
	case "len":
		lo1, hi1 := lenRange([]Atom{a}, a.Subj)
		lo2, hi2 := lenRange([]Atom{b}, a.Subj)
		lo, hi := max64(lo1, lo2), min64(hi1, hi2)
		if lo > hi {
			return true
		}
		if a.Op == "!=" && b.Op == "==" && a.N == b.N || b.Op == "!=" && a.Op == "==" && a.N == b.N {
			return true
		}
	}
	return false
}

func isConstKey(k string) bool {
	if k == "" {
		return false
	}
	ch := k[0]
	return ch == '"' || ch == '-' || (ch >= '0' && ch <= '9') || k == "nil" || k == "true" || k == "false" ||
		(len(k) > 4 && (k[:4] == "lex." || k[:5] == "expr."))
}

const bigLen = int64(1) << 40

// lenRange: the interval for len(subj) implied by the atoms.
func lenRange(atoms []Atom, subj string) (lo, hi int64) {
	lo, hi = 0, bigLen
	var ne []int64
	for _, a := range atoms {
		if a.Kind != "len" || a.Subj != subj {
			continue
		}
		switch a.Op {
		case "==":
			lo, hi = max64(lo, a.N), min64(hi, a.N)
		case "!=":
			ne = append(ne, a.N)
		case "<":
			hi = min64(hi, a.N-1)
		case "<=":
			hi = min64(hi, a.N)
		case ">":
			lo = max64(lo, a.N+1)
		case ">=":
			lo = max64(lo, a.N)
		}
	}
	for changed := true; changed; {
		changed = false
		for _, n := range ne {
			if lo == n {
				lo++
				changed = true
			}
			if hi == n {
				hi--
				changed = true
			}
		}
	}
	return
}

func max64(a, b int64) int64 {
	if a > b {
		return a
	}
	return b
}
func min64(a, b int64) int64 {
	if a < b {
		return a
	}
	return b
}

// hasAtom reports whether the conjunction contains an atom equal to the given rendering.
func hasAtom(atoms []Atom, s string) bool {
	for _, a := range atoms {
		if a.String() == s {
			return true
		}
	}
	return false
}

func atomStrings(atoms []Atom) []string {
	var out []string
	for _, a := range atoms {
		out = append(out, a.String())
	}
	return out
}

// isNilConst / constBool helpers on resolved values
func isNilConst(v ssa.Value) bool {
	k, ok := v.(*ssa.Const)
	return ok && k.Value == nil
}

func constBoolVal(v ssa.Value) (val, ok bool) {
	k, isK := v.(*ssa.Const)
	if !isK || k.Value == nil || k.Value.Kind() != constant.Bool {
		return false, false
	}
	return constant.BoolVal(k.Value), true
}

func constStringVal(v ssa.Value) (string, bool) {
	k, isK := v.(*ssa.Const)
	if !isK || k.Value == nil || k.Value.Kind() != constant.String {
		return "", false
	}
	return constant.StringVal(k.Value), true
}

var _ = token.ADD

// enumPathsTail: like enumPaths, but a path that ends in `return g(a, b, …)` — forwarding all
// results of a call of a module function whose arguments are the caller's own parameters in the same
// positions (e.g. a method extracted from the function, called on the same receiver) — is replaced by
// its continuations through g. Keys are position-based ($0, $1, …), so they stay valid.
func (c *Ctx) enumPathsTail(fn *ssa.Function, max int) ([]*Path, bool) {
	paths, complete := c.enumPaths(fn, max)
	var out []*Path
	for _, p := range paths {
		g := c.identityTailCallee(fn, p)
		if g == nil {
			out = append(out, p)
			continue
		}
		sub, ok := c.enumPathsTail(g, max)
		if !ok {
			complete = false
		}
		for _, q := range sub {
			n := &Path{Fn: fn, Ret: q.Ret, Cut: q.Cut, CutTo: q.CutTo, Env: q.Env}
			n.Blocks = append(append([]*ssa.BasicBlock(nil), p.Blocks...), q.Blocks...)
			n.Atoms = append(append([]Atom(nil), p.Atoms...), q.Atoms...)
			n.Instrs = append(append([]ssa.Instruction(nil), p.Instrs...), q.Instrs...)
			out = append(out, n)
		}
	}
	return out, complete
}

func (c *Ctx) identityTailCallee(fn *ssa.Function, p *Path) *ssa.Function {
	if p.Ret == nil || len(p.Ret.Results) == 0 {
		return nil
	}
	var call *ssa.Call
	for i, rv := range p.Ret.Results {
		v := c.resolve(rv, p.Env)
		var cl *ssa.Call
		switch x := v.(type) {
		case *ssa.Extract:
			if x.Index != i {
				return nil
			}
			cl, _ = x.Tuple.(*ssa.Call)
		case *ssa.Call:
			if len(p.Ret.Results) != 1 {
				return nil
			}
			cl = x
		}
		if cl == nil || (call != nil && cl != call) {
			return nil
		}
		call = cl
	}
	g := call.Call.StaticCallee()
	if g == nil || g == fn || !inModule(g) || g.Blocks == nil || fnPkgPath(g) != fnPkgPath(fn) {
		return nil
	}
	if len(call.Call.Args) > len(fn.Params) {
		return nil
	}
	for i, a := range call.Call.Args {
		if c.resolve(a, p.Env) != ssa.Value(fn.Params[i]) {
			return nil
		}
	}
	return g
}
