package main

// Obligations, known findings, evidence, exit-code discipline (DESIGN 2.3).

import (
	"crypto/sha1"
	"encoding/json"
	"fmt"
	"os"
	"path/filepath"
	"sort"
	"strings"
	"time"
)

type Status string

const (
	Discharged Status = "discharged"
	Assumed    Status = "assumed"
	Violated   Status = "violated"
	Known      Status = "known-finding"
)

// Ob is one obligation produced by a rule.
type Ob struct {
	Rule    string `json:"rule"`
	Key     string `json:"key"` // rule|function|construct — never a line number
	Pos     string `json:"pos,omitempty"`
	Status  Status `json:"status"`
	By      string `json:"by,omitempty"`     // discharger
	Detail  string `json:"detail,omitempty"` // why violated
	Witness string `json:"witness,omitempty"`
}

type KnownFinding struct {
	Property string `json:"property"`
	Key      string `json:"key"`
	What     string `json:"what"`
	Witness  string `json:"witness,omitempty"`
}

type FixedFinding struct {
	Property string `json:"property"`
	Commit   string `json:"commit"`
	What     string `json:"what"`
}

type KnownFile struct {
	Findings []KnownFinding `json:"findings"`
	Fixed    []FixedFinding `json:"fixed"`
}

type Report struct {
	Property    string
	Tier        string
	Seed        int64
	VerifDir    string
	Obs         []Ob
	Notes       []string
	Assumptions []string
	Units       map[string][]string // what was analysed: kind -> names
	RuleDoc     map[string]string   // rule -> one-line description of what it quantified over
	known       map[string]KnownFinding
	seenKeys    map[string]bool
	start       time.Time
	extra       map[string]any
	noReplay    bool
}

func newReport(prop, tier string, seed int64, verif string) *Report {
	r := &Report{Property: prop, Tier: tier, Seed: seed, VerifDir: verif,
		Units: map[string][]string{}, RuleDoc: map[string]string{}, known: map[string]KnownFinding{},
		seenKeys: map[string]bool{}, start: time.Now(), extra: map[string]any{}}
	data, err := os.ReadFile(filepath.Join(verif, "known_findings.json"))
	if err == nil {
		var kf KnownFile
		if json.Unmarshal(data, &kf) == nil {
			for _, f := range kf.Findings {
				if f.Property == prop {
					r.known[f.Key] = f
				}
			}
		}
	}
	return r
}

func (r *Report) doc(rule, text string) { r.RuleDoc[rule] = text }

func (r *Report) unit(kind, name string) {
	for _, n := range r.Units[kind] {
		if n == name {
			return
		}
	}
	r.Units[kind] = append(r.Units[kind], name)
}

func (r *Report) add(o Ob) {
	id := string(o.Status) + "\x00" + o.Key
	if r.seenKeys[id] {
		return
	}
	r.seenKeys[id] = true
	r.Obs = append(r.Obs, o)
}

func (r *Report) ok(rule, key, pos, by string) {
	r.add(Ob{Rule: rule, Key: rule + "|" + key, Pos: pos, Status: Discharged, By: by})
}

func (r *Report) assume(rule, key, pos, reason string) {
	r.add(Ob{Rule: rule, Key: rule + "|" + key, Pos: pos, Status: Assumed, By: reason})
}

func (r *Report) bad(rule, key, pos, detail string) {
	r.badW(rule, key, pos, detail, "")
}

func (r *Report) badW(rule, key, pos, detail, witness string) {
	k := rule + "|" + key
	st := Violated
	if kf, ok := r.known[k]; ok {
		st = Known
		if witness == "" {
			witness = kf.Witness
		}
	}
	r.add(Ob{Rule: rule, Key: k, Pos: pos, Status: st, Detail: detail, Witness: witness})
}

// floor: a rule that matches fewer instances than were confirmed by hand cannot pass vacuously.
func (r *Report) floor(rule, what string, got, want int) {
	if got < want {
		r.bad(rule, "FLOOR|"+what, "-", fmt.Sprintf("instance floor: matched %d %s, expected at least %d — the mechanism this rule checks is missing or no longer recognisable", got, what, want))
	} else {
		r.ok(rule, "FLOOR|"+what, "-", fmt.Sprintf("matched %d (floor %d)", got, want))
	}
}

func (r *Report) note(format string, a ...any) { r.Notes = append(r.Notes, fmt.Sprintf(format, a...)) }

func keyHash(k string) string {
	h := sha1.Sum([]byte(k))
	return fmt.Sprintf("%x", h[:6])
}

// finish prints the verdict, writes replay files and the evidence file, returns the exit code.
func (r *Report) finish(evidencePath string, explanation string) int {
	sort.SliceStable(r.Obs, func(i, j int) bool { return r.Obs[i].Key < r.Obs[j].Key })
	nV, nK, nD, nA := 0, 0, 0, 0
	replayDir := filepath.Join(r.VerifDir, "replay")
	if !r.noReplay {
		os.MkdirAll(replayDir, 0o755)
	}
	// remove stale replay files of this property
	if old, _ := filepath.Glob(filepath.Join(replayDir, r.Property+"-*.json")); old != nil && !r.noReplay {
		for _, f := range old {
			os.Remove(f)
		}
	}
	// every listed known finding that the rules did not report any more is stale: say so (not an error)
	reported := map[string]bool{}
	for _, o := range r.Obs {
		switch o.Status {
		case Discharged:
			nD++
		case Assumed:
			nA++
		case Known:
			nK++
			reported[o.Key] = true
			p := r.writeReplay(replayDir, o)
			fmt.Printf("KNOWN-FINDING: property=%s %s — %s [%s] replay=%s\n", r.Property, printable(o.Key), printable(o.Detail), o.Pos, p)
		case Violated:
			nV++
			p := r.writeReplay(replayDir, o)
			fmt.Printf("VIOLATION property=%s replay=%s\n", r.Property, p)
			fmt.Printf("  rule=%s construct=%s at %s\n  %s\n", o.Rule, printable(o.Key), o.Pos, printable(o.Detail))
			if o.Witness != "" {
				fmt.Printf("  witness: %s\n", o.Witness)
			}
		}
	}
	for k := range r.known {
		if !reported[k] {
			fmt.Printf("NOTE: listed known finding no longer reported (fixed or moved?): property=%s %s\n", r.Property, k)
		}
	}
	// evidence
	perRule := map[string]map[string]int{}
	for _, o := range r.Obs {
		m := perRule[o.Rule]
		if m == nil {
			m = map[string]int{}
			perRule[o.Rule] = m
		}
		m["obligations"]++
		m[string(o.Status)]++
	}
	var samples []any
	seenRule := map[string]int{}
	for _, o := range r.Obs {
		if seenRule[o.Rule] < 3 {
			seenRule[o.Rule]++
			samples = append(samples, o)
		}
	}
	distinct := map[string]bool{}
	for _, o := range r.Obs {
		if !strings.Contains(o.Key, "|FLOOR|") {
			distinct[o.Key] = true
		}
	}
	var rules []string
	for k := range perRule {
		rules = append(rules, k)
	}
	sort.Strings(rules)
	ruleDocs := map[string]string{}
	for _, k := range rules {
		ruleDocs[k] = r.RuleDoc[k]
	}
	unitCounts := map[string]int{}
	for k, v := range r.Units {
		sort.Strings(v)
		unitCounts[k] = len(v)
	}
	cov := map[string]any{
		"explanation":         explanation + " Rules applied on this run: " + strings.Join(rules, ", ") + ".",
		"evaluations":         len(r.Obs),
		"distinct_nontrivial": len(distinct),
		"rule":                "one obligation per (rule, function, construct) instance found in /repo's current source; distinct = distinct construct keys, instance-floor bookkeeping excluded",
		"obligations":         len(r.Obs),
		"discharged":          nD,
		"assumed":             nA,
		"known_findings":      nK,
		"violated":            nV,
		"per_rule":            perRule,
		"rules":               ruleDocs,
		"analysed":            r.Units,
		"analysed_counts":     unitCounts,
		"samples":             samples,
		"notes":               r.Notes,
		"checker_cmd":         strings.Join(os.Args, " "),
		"exhaustive":          true,
	}
	for k, v := range r.extra {
		cov[k] = v
	}
	ev := map[string]any{
		"property_id": r.Property,
		"tier":        r.Tier,
		"seed":        r.Seed,
		"level":       "other",
		"coverage":    cov,
		"assumptions": append([]string{
			"go/ssa (x/tools v0.29.0) models the source faithfully; standard library behaves as documented",
			"scope: functions reachable from the property's entry points; foreign callers of exported helpers are outside the quantifier",
		}, r.Assumptions...),
		"wall_s":     time.Since(r.start).Seconds(),
		"violations": nV,
	}
	if evidencePath != "" {
		os.MkdirAll(filepath.Dir(evidencePath), 0o755)
		b, _ := json.MarshalIndent(ev, "", " ")
		if err := os.WriteFile(evidencePath, append(b, '\n'), 0o644); err != nil {
			fmt.Printf("ERROR writing evidence: %v\n", err)
			return 2
		}
	}
	fmt.Printf("%s %s: %d obligations: %d discharged, %d assumed, %d known findings, %d violations (%.1fs)\n",
		r.Property, r.Tier, len(r.Obs), nD, nA, nK, nV, time.Since(r.start).Seconds())
	if nV > 0 {
		return 1
	}
	return 0
}

func (r *Report) writeReplay(dir string, o Ob) string {
	p := filepath.Join(dir, fmt.Sprintf("%s-%s.json", r.Property, keyHash(o.Key)))
	if r.noReplay {
		return "(not written)"
	}
	b, _ := json.MarshalIndent(map[string]any{
		"property": r.Property, "rule": o.Rule, "construct": o.Key, "position": o.Pos,
		"detail": o.Detail, "witness": o.Witness, "rule_doc": r.RuleDoc[o.Rule],
		"how_to_reproduce": "re-run: /verif/bin/lucheck -repo /repo -property " + r.Property + " -tier quick ; the construct is located by rule and key, the position is where it is in the current tree",
	}, "", " ")
	os.WriteFile(p, append(b, '\n'), 0o644)
	return p
}

// printable: control characters (a NUL inside a quoted Go constant of the analysed code, say) are written as
// escapes, so that the report stays a text file for grep and terminals.
func printable(s string) string {
	clean := true
	for i := 0; i < len(s); i++ {
		if s[i] < 0x20 && s[i] != '\t' || s[i] == 0x7f {
			clean = false
			break
		}
	}
	if clean {
		return s
	}
	var b strings.Builder
	for _, r := range s {
		if r < 0x20 && r != '\t' || r == 0x7f {
			fmt.Fprintf(&b, "\\x%02x", r)
		} else {
			b.WriteRune(r)
		}
	}
	return b.String()
}
