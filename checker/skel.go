package main

// A5 (string-shape domain, skeleton part): a string value as a sequence of constant segments and
// holes, through constants, +, fmt.Sprintf with a constant format, and path-resolved phis.

import (
	"fmt"
	"go/token"
	"go/types"
	"sort"
	"strings"

	"golang.org/x/tools/go/ssa"
)

type Seg struct {
	Lit  string
	Hole string // key of the value in the hole ("" for literal segments)
	Verb string // formatting verb applied to the hole ("" = spliced string)
	Val  ssa.Value
}

func (s Seg) isLit() bool { return s.Hole == "" }

func (c *Ctx) skeleton(v ssa.Value, e *env) []Seg {
	return mergeLits(c.skelD(v, e, 0))
}

func (c *Ctx) skelD(v ssa.Value, e *env, depth int) []Seg {
	if depth > 20 {
		return []Seg{{Hole: "…"}}
	}
	rv, e := c.resolveE(v, e)
	if s, ok := constStringVal(rv); ok {
		return []Seg{{Lit: s}}
	}
	switch x := rv.(type) {
	case *ssa.Convert:
		// string(op) of a string-kinded constant (a named string type holding SQL text)
		if isStringType(x.Type()) {
			if b, ok := x.X.Type().Underlying().(*types.Basic); ok && b.Info()&types.IsString != 0 {
				return c.skelD(x.X, e, depth+1)
			}
		}
	case *ssa.ChangeType:
		if isStringType(x.Type()) {
			if b, ok := x.X.Type().Underlying().(*types.Basic); ok && b.Info()&types.IsString != 0 {
				return c.skelD(x.X, e, depth+1)
			}
		}
	case *ssa.UnOp:
		// the same through a local copy of the entry: ops := table[k]; … ops.f
		if fa, ok := x.X.(*ssa.FieldAddr); ok && x.Op == token.MUL {
			if al, ok := fa.X.(*ssa.Alloc); ok && al.Referrers() != nil {
				var st *ssa.Store
				n := 0
				for _, ref := range *al.Referrers() {
					if s2, ok := ref.(*ssa.Store); ok && s2.Addr == ssa.Value(al) {
						st, n = s2, n+1
					}
				}
				if n == 1 {
					if lk, ok := c.resolve(st.Val, e).(*ssa.Lookup); ok && !lk.CommaOk {
						if segs, ok := c.tableFieldSkel(lk, fieldName(fa.X.Type(), fa.Field), e, depth); ok {
							return segs
						}
					}
				}
			}
		}
	case *ssa.Field:
		// a string field of an entry of a package-level map of structs, looked up with a key that is constant on
		// this path (operator words kept in a small read-only table)
		if lk, ok := c.resolve(x.X, e).(*ssa.Lookup); ok && !lk.CommaOk {
			if segs, ok := c.tableFieldSkel(lk, fieldName(x.X.Type(), x.Field), e, depth); ok {
				return segs
			}
		}
		if lk, ok := c.resolve(x.X, e).(*ssa.Lookup); ok && !lk.CommaOk && false {
			if g := c.globalBehind(lk.X, e); g != nil {
				if k, ok := c.resolve(lk.Index, e).(*ssa.Const); ok {
					tb := c.readTable(g.Pkg.Pkg.Path(), g.Name())
					if tb.Err == "" && c.onlyInitWrites(g) {
						if te := tb.byKey()[c.key(k, nil)]; te != nil {
							if fv, ok := structLiteralFields(te.Val)[fieldName(x.X.Type(), x.Field)]; ok {
								return c.skelD(fv, nil, depth+1)
							}
						}
					}
				}
			}
		}
	case *ssa.BinOp:
		if x.Op == token.ADD && isStringType(x.Type()) {
			return append(c.skelD(x.X, e, depth+1), c.skelD(x.Y, e, depth+1)...)
		}
	case *ssa.Call:
		if calleeFullName(x) == "fmt.Sprintf" && len(x.Call.Args) == 2 {
			if fs, ok := constStringVal(c.resolve(x.Call.Args[0], e)); ok {
				sp := parseFormat(fs)
				var ops []ssa.Value
				if !isNilConst(c.resolve(x.Call.Args[1], e)) {
					ops, _ = c.sliceLiteral(x.Call.Args[1], e)
				}
				if sp.Bad == "" && len(ops) == len(sp.Verbs) {
					var out []Seg
					for i, vb := range sp.Verbs {
						out = append(out, Seg{Lit: sp.Literal[i]})
						op := ops[i]
						inner := op
						if mi, ok := op.(*ssa.MakeInterface); ok {
							inner = mi.X
						}
						verb := "%" + vb.Flags + string(vb.Verb)
						if b, ok := inner.Type().Underlying().(*types.Basic); ok && b.Kind() == types.String && verb == "%s" && types.Identical(inner.Type(), types.Typ[types.String]) {
							out = append(out, c.skelD(inner, e, depth+1)...)
						} else {
							out = append(out, Seg{Hole: c.key(inner, e), Verb: verb, Val: inner})
						}
					}
					out = append(out, Seg{Lit: sp.Literal[len(sp.Verbs)]})
					return out
				}
			}
		}
	}
	if call, ok := rv.(*ssa.Call); ok {
		// x.String() of a fmt.Stringer is what %s prints for x
		if g := call.Call.StaticCallee(); g != nil && g.Name() == "String" && g.Signature.Recv() != nil && len(call.Call.Args) == 1 &&
			g.Signature.Params().Len() == 0 && g.Signature.Results().Len() == 1 && isStringType(g.Signature.Results().At(0).Type()) && inModule(g) {
			return []Seg{{Hole: c.key(call.Call.Args[0], e), Verb: "%s", Val: call.Call.Args[0]}}
		}
		// the strconv spellings of the fmt verbs
		switch calleeFullName(call) {
		case "fmt.Sprint":
			// one operand: what %v prints
			if ops, ok := c.sliceLiteral(call.Call.Args[0], e); ok && len(ops) == 1 {
				inner := ops[0]
				if mi, ok := inner.(*ssa.MakeInterface); ok {
					inner = mi.X
				}
				return []Seg{{Hole: c.key(inner, e), Verb: "%v", Val: inner}}
			}
		case "strconv.Itoa":
			return []Seg{{Hole: c.key(call.Call.Args[0], e), Verb: "%d", Val: call.Call.Args[0]}}
		case "strconv.FormatInt":
			if base, ok := constIntVal(c.resolve(call.Call.Args[1], e)); ok && base == 10 {
				x := c.resolve(call.Call.Args[0], e)
				if cv, ok := x.(*ssa.Convert); ok {
					x = cv.X
				}
				return []Seg{{Hole: c.key(x, e), Verb: "%d", Val: x}}
			}
		case "strconv.FormatFloat":
			f, okF := constIntVal(c.resolve(call.Call.Args[1], e))
			prec, okP := constIntVal(c.resolve(call.Call.Args[2], e))
			bits, okB := constIntVal(c.resolve(call.Call.Args[3], e))
			if okF && okP && okB && bits == 64 {
				x := call.Call.Args[0]
				switch {
				case prec < 0 && (f == 'g' || f == 'f' || f == 'e'):
					return []Seg{{Hole: c.key(x, e), Verb: "%v", Val: x}}
				case f == 'f' && prec >= 0:
					return []Seg{{Hole: c.key(x, e), Verb: fmt.Sprintf("%%.%df", prec), Val: x}}
				}
			}
		}
		if calleeFullName(call) == "(*strings.Builder).String" && len(call.Call.Args) == 1 {
			if segs, ok := c.builderSkeleton(call, e, depth); ok {
				return segs
			}
		}
	}
	if inner, ie, desc, ok := c.rewriteOfE(rv, e); ok {
		return []Seg{{Hole: desc + "(" + c.key(inner, ie) + ")", Val: rv}}
	}
	return []Seg{{Hole: c.key(rv, e), Val: rv}}
}

// builderSkeleton: the text of sb.String() for a strings.Builder that is a local of the function, written
// only by WriteString / WriteByte / WriteRune calls that all dominate the String call and sit outside loops:
// the concatenation of what was written, in order.
func (c *Ctx) builderSkeleton(str *ssa.Call, e *env, depth int) ([]Seg, bool) {
	a, ok := str.Call.Args[0].(*ssa.Alloc)
	if !ok || a.Referrers() == nil {
		return nil, false
	}
	type wr struct {
		call *ssa.Call
		name string
	}
	var writes []wr
	for _, ref := range *a.Referrers() {
		switch u := ref.(type) {
		case *ssa.DebugRef:
		case *ssa.Call:
			name := calleeFullName(u)
			if !strings.HasPrefix(name, "(*strings.Builder).") || len(u.Call.Args) == 0 || u.Call.Args[0] != ssa.Value(a) {
				return nil, false
			}
			switch strings.TrimPrefix(name, "(*strings.Builder).") {
			case "String", "Len", "Cap", "Grow":
			case "WriteString", "WriteByte", "WriteRune", "Reset":
				if u != str && !(u.Block() == str.Block() || u.Block().Dominates(str.Block())) {
					return nil, false
				}
				if inCycleBlock(u.Block()) {
					return nil, false
				}
				writes = append(writes, wr{u, strings.TrimPrefix(name, "(*strings.Builder).")})
			default:
				return nil, false
			}
		default:
			return nil, false
		}
	}
	idx := func(in ssa.Instruction) int {
		for i, x := range in.Block().Instrs {
			if x == in {
				return i
			}
		}
		return -1
	}
	before := func(x, y ssa.Instruction) bool {
		if x.Block() == y.Block() {
			return idx(x) < idx(y)
		}
		return x.Block().Dominates(y.Block())
	}
	sort.SliceStable(writes, func(i, j int) bool { return before(writes[i].call, writes[j].call) })
	var out []Seg
	for _, w := range writes {
		if !before(w.call, str) {
			return nil, false
		}
		switch w.name {
		case "Reset":
			out = nil
		case "WriteString":
			out = append(out, c.skelD(w.call.Call.Args[1], e, depth+1)...)
		case "WriteByte", "WriteRune":
			if k, ok := c.resolve(w.call.Call.Args[1], e).(*ssa.Const); ok && k.Value != nil {
				if n, ok := constIntVal(k); ok {
					out = append(out, Seg{Lit: string(rune(n))})
					continue
				}
			}
			out = append(out, Seg{Hole: c.key(w.call.Call.Args[1], e), Verb: "%c", Val: w.call.Call.Args[1]})
		}
	}
	return out, true
}

// inCycleBlock: the block can reach itself (it is inside a loop).
func inCycleBlock(b *ssa.BasicBlock) bool {
	seen := map[*ssa.BasicBlock]bool{}
	var walk func(x *ssa.BasicBlock) bool
	walk = func(x *ssa.BasicBlock) bool {
		for _, s := range x.Succs {
			if s == b {
				return true
			}
			if !seen[s] {
				seen[s] = true
				if walk(s) {
					return true
				}
			}
		}
		return false
	}
	return walk(b)
}

// rewriteOf recognises a character-for-character rewrite of a string: a chain of
// strings.ReplaceAll(x, "a", "b") calls or (*strings.Replacer).Replace on a package-level replacer built
// with constant pairs. When every pattern and replacement is a single byte and no replacement is also a
// pattern, sequential and simultaneous replacement coincide and the rewrite is described canonically as
// rewrite[a→b,c→d] — so both spellings compare equal.
func (c *Ctx) rewriteOf(v ssa.Value, e *env) (inner ssa.Value, desc string, ok bool) {
	inner, _, desc, ok = c.rewriteOfE(v, e)
	return
}

func (c *Ctx) rewriteOfE(v ssa.Value, e *env) (inner ssa.Value, ie *env, desc string, ok bool) {
	var pairs [][2]string
	cur, ce := c.resolveE(v, e)
	for {
		call, isCall := cur.(*ssa.Call)
		if !isCall {
			break
		}
		name := calleeFullName(call)
		if name == "strings.Replace" && len(call.Call.Args) == 4 {
			// strings.Replace(s, old, new, n) with n < 0 is ReplaceAll
			if n, ok := constIntVal(c.resolve(call.Call.Args[3], ce)); ok && n < 0 {
				a, okA := constStringVal(c.resolve(call.Call.Args[1], ce))
				b, okB := constStringVal(c.resolve(call.Call.Args[2], ce))
				if !okA || !okB {
					return nil, nil, "", false
				}
				pairs = append([][2]string{{a, b}}, pairs...)
				cur, ce = c.resolveE(call.Call.Args[0], ce)
				continue
			}
		}
		if name == "strings.ReplaceAll" && len(call.Call.Args) == 3 {
			a, okA := constStringVal(c.resolve(call.Call.Args[1], ce))
			b, okB := constStringVal(c.resolve(call.Call.Args[2], ce))
			if !okA || !okB {
				return nil, nil, "", false
			}
			pairs = append([][2]string{{a, b}}, pairs...)
			cur, ce = c.resolveE(call.Call.Args[0], ce)
			continue
		}
		if g := call.Call.StaticCallee(); g != nil && inModule(g) {
			if text, bp, ok := c.byteMapCall(call, ce); ok {
				pairs = append(append([][2]string(nil), bp...), pairs...)
				cur, ce = c.resolveE(text, ce)
				continue
			}
		}
		if name == "(*strings.Replacer).Replace" && len(call.Call.Args) == 2 {
			rp := c.replacerPairs(c.resolve(call.Call.Args[0], ce))
			if rp == nil {
				return nil, nil, "", false
			}
			pairs = append(append([][2]string(nil), rp...), pairs...)
			cur, ce = c.resolveE(call.Call.Args[1], ce)
			continue
		}
		break
	}
	if len(pairs) == 0 {
		return nil, nil, "", false
	}
	from := map[string]bool{}
	if len(pairs) == 1 && len(pairs[0][0]) == 1 {
		// one character replaced by one text in a single pass: ReplaceAll, a one-pair Replacer and a byte-wise
		// copy all give the same result, whatever the text is ('→'')
		from[pairs[0][0]] = true
	} else {
		for _, p := range pairs {
			if len(p[0]) != 1 || len(p[1]) > 1 || from[p[0]] {
				return nil, nil, "", false
			}
			from[p[0]] = true
		}
		for _, p := range pairs {
			if from[p[1]] {
				return nil, nil, "", false
			}
		}
	}
	var parts []string
	for _, p := range pairs {
		parts = append(parts, p[0]+"→"+p[1])
	}
	sortStrings(parts)
	return cur, ce, "rewrite[" + strings.Join(parts, ",") + "]", true
}

// replacerPairs: v is a load of a package-level *strings.Replacer initialised once in init with
// strings.NewReplacer(constant pairs…).
func (c *Ctx) replacerPairs(v ssa.Value) [][2]string {
	if call, ok := v.(*ssa.Call); ok && calleeFullName(call) == "strings.NewReplacer" {
		return c.replacerLiteral(call)
	}
	ld, ok := v.(*ssa.UnOp)
	if !ok {
		return nil
	}
	g, ok := ld.X.(*ssa.Global)
	if !ok || g.Pkg == nil {
		return nil
	}
	init := g.Pkg.Func("init")
	var call *ssa.Call
	n := 0
	for _, f := range c.Funcs {
		if f == init {
			continue
		}
		for _, b := range f.Blocks {
			for _, in := range b.Instrs {
				if st, ok := in.(*ssa.Store); ok && st.Addr == ssa.Value(g) {
					n++
				}
			}
		}
	}
	for _, b := range init.Blocks {
		for _, in := range b.Instrs {
			if st, ok := in.(*ssa.Store); ok && st.Addr == ssa.Value(g) {
				n++
				call, _ = st.Val.(*ssa.Call)
			}
		}
	}
	if n != 1 || call == nil || calleeFullName(call) != "strings.NewReplacer" {
		return nil
	}
	return c.replacerLiteral(call)
}

// replacerLiteral: the (old, new) pairs of a strings.NewReplacer call with constant arguments, in order.
func (c *Ctx) replacerLiteral(call *ssa.Call) [][2]string {
	lit, ok := c.sliceLiteral(call.Call.Args[0], nil)
	if !ok || len(lit)%2 != 0 {
		return nil
	}
	var out [][2]string
	for i := 0; i < len(lit); i += 2 {
		a, okA := constStringVal(lit[i])
		b, okB := constStringVal(lit[i+1])
		if !okA || !okB {
			return nil
		}
		out = append(out, [2]string{a, b})
	}
	return out
}

func mergeLits(in []Seg) []Seg {
	var out []Seg
	for _, s := range in {
		if s.isLit() {
			if s.Lit == "" {
				continue
			}
			if n := len(out); n > 0 && out[n-1].isLit() {
				out[n-1].Lit += s.Lit
				continue
			}
		}
		out = append(out, s)
	}
	return out
}

func skelString(segs []Seg) string {
	var b strings.Builder
	for _, s := range segs {
		if s.isLit() {
			b.WriteString(s.Lit)
		} else {
			b.WriteString("{" + s.Hole)
			if s.Verb != "" {
				b.WriteString(":" + s.Verb)
			}
			b.WriteString("}")
		}
	}
	return b.String()
}

func skelLits(segs []Seg) []string {
	var out []string
	for _, s := range segs {
		if s.isLit() {
			out = append(out, s.Lit)
		}
	}
	return out
}

func skelMinLen(segs []Seg) int {
	n := 0
	for _, s := range segs {
		if s.isLit() {
			n += len(s.Lit)
		}
	}
	return n
}

// holeCount: how many times a hole with the given key occurs.
func holeCount(segs []Seg, key string) int {
	n := 0
	for _, s := range segs {
		if !s.isLit() && s.Hole == key {
			n++
		}
	}
	return n
}

// tableFieldSkel: field f of table[k] for a package-level map of structs written only by the initialiser and a
// key that is a constant under e.
func (c *Ctx) tableFieldSkel(lk *ssa.Lookup, f string, e *env, depth int) ([]Seg, bool) {
	g := c.globalBehind(lk.X, e)
	if g == nil {
		return nil, false
	}
	k, ok := c.resolve(lk.Index, e).(*ssa.Const)
	if !ok {
		return nil, false
	}
	tb := c.readTable(g.Pkg.Pkg.Path(), g.Name())
	if tb.Err != "" || !c.onlyInitWrites(g) {
		return nil, false
	}
	te := tb.byKey()[c.key(k, nil)]
	if te == nil {
		return nil, false
	}
	fv, ok := structLiteralFields(te.Val)[f]
	if !ok {
		return nil, false
	}
	return c.skelD(fv, nil, depth+1), true
}
