package main

// A5 (string-shape domain, skeleton part): a string value as a sequence of constant segments and
// holes, through constants, +, fmt.Sprintf with a constant format, and path-resolved phis.

import (
	"go/token"
	"go/types"
	"strings"

	"golang.org/x/tools/go/ssa"
)

type Seg struct {
	Lit  string
	Hole string // key of the value in the hole ("" for literal segments)
	Verb string // formatting verb applied to the hole ("" = spliced string)
	Val  ssa.Value
}

func (s Seg) isLit() bool { return s.Hole == "" }

func (c *Ctx) skeleton(v ssa.Value, e *env) []Seg {
	return mergeLits(c.skelD(v, e, 0))
}

func (c *Ctx) skelD(v ssa.Value, e *env, depth int) []Seg {
	if depth > 20 {
		return []Seg{{Hole: "…"}}
	}
	rv := c.resolve(v, e)
	if s, ok := constStringVal(rv); ok {
		return []Seg{{Lit: s}}
	}
	switch x := rv.(type) {
	case *ssa.BinOp:
		if x.Op == token.ADD && isStringType(x.Type()) {
			return append(c.skelD(x.X, e, depth+1), c.skelD(x.Y, e, depth+1)...)
		}
	case *ssa.Call:
		if calleeFullName(x) == "fmt.Sprintf" && len(x.Call.Args) == 2 {
			if fs, ok := constStringVal(c.resolve(x.Call.Args[0], e)); ok {
				sp := parseFormat(fs)
				var ops []ssa.Value
				if !isNilConst(c.resolve(x.Call.Args[1], e)) {
					ops, _ = c.sliceLiteral(x.Call.Args[1], e)
				}
				if sp.Bad == "" && len(ops) == len(sp.Verbs) {
					var out []Seg
					for i, vb := range sp.Verbs {
						out = append(out, Seg{Lit: sp.Literal[i]})
						op := ops[i]
						inner := op
						if mi, ok := op.(*ssa.MakeInterface); ok {
							inner = mi.X
						}
						verb := "%" + vb.Flags + string(vb.Verb)
						if b, ok := inner.Type().Underlying().(*types.Basic); ok && b.Kind() == types.String && verb == "%s" && types.Identical(inner.Type(), types.Typ[types.String]) {
							out = append(out, c.skelD(inner, e, depth+1)...)
						} else {
							out = append(out, Seg{Hole: c.key(inner, e), Verb: verb, Val: inner})
						}
					}
					out = append(out, Seg{Lit: sp.Literal[len(sp.Verbs)]})
					return out
				}
			}
		}
	}
	return []Seg{{Hole: c.key(rv, e), Val: rv}}
}

func mergeLits(in []Seg) []Seg {
	var out []Seg
	for _, s := range in {
		if s.isLit() {
			if s.Lit == "" {
				continue
			}
			if n := len(out); n > 0 && out[n-1].isLit() {
				out[n-1].Lit += s.Lit
				continue
			}
		}
		out = append(out, s)
	}
	return out
}

func skelString(segs []Seg) string {
	var b strings.Builder
	for _, s := range segs {
		if s.isLit() {
			b.WriteString(s.Lit)
		} else {
			b.WriteString("{" + s.Hole)
			if s.Verb != "" {
				b.WriteString(":" + s.Verb)
			}
			b.WriteString("}")
		}
	}
	return b.String()
}

func skelLits(segs []Seg) []string {
	var out []string
	for _, s := range segs {
		if s.isLit() {
			out = append(out, s.Lit)
		}
	}
	return out
}

func skelMinLen(segs []Seg) int {
	n := 0
	for _, s := range segs {
		if s.isLit() {
			n += len(s.Lit)
		}
	}
	return n
}

// holeCount: how many times a hole with the given key occurs.
func holeCount(segs []Seg, key string) int {
	n := 0
	for _, s := range segs {
		if !s.isLit() && s.Hole == key {
			n++
		}
	}
	return n
}
