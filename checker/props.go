package main

func init() {
	register("C05", "PROD-TABLE etc.", rulePRECTABLE, rulePRODTABLE, ruleBRACKETS)
	register("C06", "", rulePRODGUARD, rulePRODEXTRA, ruleACCEPT, ruleVALIDATEDOM)
	register("C07", "", rulePUSHSTATE)
	register("C09", "", ruleWSSET, ruleKWCASE, rulePARENID)
	register("C11", "", ruleDFCOVER, ruleDFACCEPT)
	register("C01", "", ruleREDBAL, rulePARPUSH, rulePANIC_C01, ruleFMT)
	register("C13", "", rulePANIC_C13)
	register("C10", "", ruleRETPAIR, ruleCTORNONNIL, ruleVALTOTAL, ruleVALSHAPE, ruleVALIDATEDOM)
}

func init() {
	register("C16", "", ruleLEXPEEK, ruleLEXTOK, ruleLEXWRITE, ruleLEXDEPTH, ruleLEXFIRST, ruleLEXLOOP, ruleWSSET, rulePARSEERR)
	register("C08", "", rulePHRASELOOP)
}

func init() {
	register("C02", "", ruleSQLTAINT, ruleSQLVOCAB, ruleSQLLEAF, ruleSQLIDLEN)
	register("C03", "", ruleSQLOPMAP, ruleSQLPAREN, ruleSQLRANGE, ruleSQLNUM, ruleMARKER)
}

func init() {
	register("C04", "", ruleSIBRENDER, ruleSIBSER, ruleSIBRANGE, ruleSIBLIKE, rulePHLINEAR, ruleNONINT)
}

func init() {
	register("C15", "", ruleFOLD, ruleFOLDMISS, ruleTABLEKEYS)
}
