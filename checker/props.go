package main

func init() {
	register("C05", "PROD-TABLE etc.", rulePRECTABLE, rulePRODTABLE, ruleBRACKETS)
	register("C06", "", rulePRODGUARD, rulePRODEXTRA, ruleACCEPT, ruleVALIDATEDOM)
	register("C07", "", rulePUSHSTATE)
	register("C09", "", rulePARENID)
	register("C11", "", ruleDFCOVER, ruleDFACCEPT)
	register("C01", "", ruleREDBAL, rulePARPUSH, rulePANIC_C01)
	register("C13", "", rulePANIC_C13)
	register("C10", "", ruleRETPAIR, ruleCTORNONNIL, ruleVALTOTAL, ruleVALSHAPE, ruleVALIDATEDOM)
}
