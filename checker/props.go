package main

func init() {
	register("C05", "PROD-TABLE etc.", rulePRODTABLE)
	register("C06", "", rulePRODGUARD, rulePRODEXTRA, ruleACCEPT, ruleVALIDATEDOM)
	register("C07", "", rulePUSHSTATE)
	register("C09", "", rulePARENID)
	register("C11", "", ruleDFCOVER, ruleDFACCEPT)
	register("C01", "", ruleREDBAL, rulePARPUSH)
}
