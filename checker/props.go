package main

func init() {
	register("C01", "", ruleREDBAL, rulePARPUSH, rulePANIC_C01, ruleFMT, ruleLOOP, ruleLEXLOOP, ruleREC)
	register("C02", "", ruleSQLTAINT, ruleNUMFINITE, ruleSQLVOCAB, ruleSQLLEAF, ruleSQLIDLEN)
	register("C03", "", ruleSQLOPMAP, ruleSQLPAREN, ruleSQLRANGE, ruleSQLNUM, ruleMARKER)
	register("C04", "", ruleSIBRENDER, ruleSIBSER, ruleSIBRANGE, ruleSIBLIKE, rulePHLINEAR, ruleNONINT)
	register("C05", "", rulePRECTABLE, rulePRODTABLE, ruleBRACKETS)
	register("C06", "", rulePRODGUARD, rulePRODEXTRA, ruleACCEPT, ruleVALIDATEDOM, ruleLITTYPE, ruleNODESOURCES, ruleVALSHAPE)
	register("C07", "", rulePUSHSTATE)
	register("C08", "", rulePHRASELOOP, ruleLITTYPE, ruleSQLTAINT)
	register("C09", "", ruleWSSET, ruleKWCASE, rulePARENID)
	register("C10", "", ruleRETPAIR, ruleCTORNONNIL, ruleVALTOTAL, ruleVALSHAPE, ruleVALIDATEDOM)
	register("C11", "", ruleDFCOVER, ruleDFACCEPT, ruleDFFLOW)
	register("C12", "", ruleOPBIJ, ruleJSONDEFAULTS, ruleJSONTAGS, ruleJSONLEAF, ruleNUMFINITE, rulePANIC_C12)
	register("C13", "", rulePANIC_C13)
	register("C14", "", rulePURG, rulePURARG, ruleDET)
	register("C15", "", ruleFOLD, ruleFOLDMISS, ruleTABLEKEYS)
	register("C16", "", ruleLEXPEEK, ruleLEXTOK, ruleLEXWRITE, ruleLEXDEPTH, ruleLEXFIRST, ruleLEXLOOP, ruleWSSET, rulePARSEERR)
}
