package main

// Canonical keys for SSA values (structural normal form), used to identify "the same
// expression" across instructions (go/ssa performs no CSE), and the conversion of branch
// conditions into atoms (A3).

import (
	"fmt"
	"go/constant"
	"go/token"
	"go/types"
	"sort"
	"strings"

	"golang.org/x/tools/go/ssa"
)

// env is the path-sensitive part of a key: phi choices and the last store to local allocs.
type env struct {
	mem map[*ssa.Alloc]ssa.Value
	phi map[*ssa.Phi]ssa.Value
}

func newEnv() *env { return &env{mem: map[*ssa.Alloc]ssa.Value{}, phi: map[*ssa.Phi]ssa.Value{}} }

func (e *env) clone() *env {
	n := newEnv()
	for k, v := range e.mem {
		n.mem[k] = v
	}
	for k, v := range e.phi {
		n.phi[k] = v
	}
	return n
}

func shortPkg(p *types.Package) string {
	if p == nil {
		return ""
	}
	if p.Path() == pkgRoot {
		return "lucene"
	}
	return p.Name()
}

func typeStr(t types.Type) string {
	return types.TypeString(t, shortPkg)
}

// singleStore returns the only value ever stored to a local alloc (dominator mode), or nil.
func singleStore(a *ssa.Alloc) ssa.Value {
	var val ssa.Value
	n := 0
	for _, ref := range *a.Referrers() {
		switch r := ref.(type) {
		case *ssa.Store:
			if r.Addr == a {
				n++
				val = r.Val
			} else {
				return nil // address escapes as a stored value
			}
		case *ssa.UnOp, *ssa.FieldAddr, *ssa.DebugRef:
			if fa, ok := r.(*ssa.FieldAddr); ok {
				// a store through a field address makes the whole-value store non-unique
				for _, fr := range *fa.Referrers() {
					if st, ok := fr.(*ssa.Store); ok && st.Addr == fa {
						return nil
					}
				}
			}
		default:
			return nil
		}
	}
	if n == 1 {
		return val
	}
	return nil
}

// resolve strips path-resolved phis, loads of local allocs, and transparent conversions.
func (c *Ctx) resolve(v ssa.Value, e *env) ssa.Value {
	for i := 0; i < 50; i++ {
		switch x := v.(type) {
		case *ssa.Phi:
			if e != nil {
				if r, ok := e.phi[x]; ok {
					v = r
					continue
				}
			}
			// a phi whose edges are all the same value
			var only ssa.Value
			same := true
			for _, ed := range x.Edges {
				if ed == x {
					continue
				}
				if only == nil {
					only = ed
				} else if only != ed {
					same = false
				}
			}
			if same && only != nil {
				v = only
				continue
			}
			return v
		case *ssa.UnOp:
			if x.Op == token.MUL {
				if a, ok := x.X.(*ssa.Alloc); ok {
					if e != nil {
						if r, ok := e.mem[a]; ok {
							v = r
							continue
						}
					} else if r := singleStore(a); r != nil {
						v = r
						continue
					}
				}
			}
			return v
		case *ssa.MakeInterface:
			v = x.X
			continue
		case *ssa.ChangeType:
			if _, basic := x.Type().Underlying().(*types.Basic); basic {
				return v // e.g. string -> expr.Column: the named type matters
			}
			v = x.X
			continue
		case *ssa.ChangeInterface:
			v = x.X
			continue
		default:
			return v
		}
	}
	return v
}

func (c *Ctx) constName(k *ssa.Const) string {
	if k.Value == nil {
		return "nil"
	}
	if n, ok := k.Type().(*types.Named); ok && n.Obj().Pkg() != nil && strings.HasPrefix(n.Obj().Pkg().Path(), modPath) {
		if k.Value.Kind() == constant.Int {
			sc := n.Obj().Pkg().Scope()
			for _, name := range sc.Names() {
				if kc, ok := sc.Lookup(name).(*types.Const); ok && types.Identical(kc.Type(), n) &&
					constant.Compare(kc.Val(), token.EQL, k.Value) {
					return shortPkg(n.Obj().Pkg()) + "." + name
				}
			}
		}
	}
	if k.Value.Kind() == constant.String {
		return fmt.Sprintf("%q", constant.StringVal(k.Value))
	}
	return k.Value.ExactString()
}

func (c *Ctx) key(v ssa.Value, e *env) string {
	return c.keyD(v, e, 0, map[ssa.Value]bool{})
}

func (c *Ctx) keyD(v ssa.Value, e *env, depth int, seen map[ssa.Value]bool) string {
	if v == nil {
		return "<nil>"
	}
	if depth > 40 {
		return "…"
	}
	v = c.resolve(v, e)
	k := func(x ssa.Value) string { return c.keyD(x, e, depth+1, seen) }
	switch x := v.(type) {
	case *ssa.Parameter:
		for i, p := range x.Parent().Params {
			if p == x {
				return fmt.Sprintf("$%d", i)
			}
		}
		return "$" + x.Name()
	case *ssa.FreeVar:
		return "^" + x.Name()
	case *ssa.Const:
		return c.constName(x)
	case *ssa.Global:
		return "@" + shortPkg(x.Pkg.Pkg) + "." + x.Name()
	case *ssa.Function:
		return "fn:" + fnName(x)
	case *ssa.Builtin:
		return "builtin:" + x.Name()
	case *ssa.Alloc:
		if e != nil {
			if r, ok := e.mem[x]; ok {
				return k(r)
			}
		} else if r := singleStore(x); r != nil {
			return k(r)
		}
		return "&local:" + x.Comment
	case *ssa.FieldAddr:
		return k(x.X) + "." + fieldName(x.X.Type(), x.Field)
	case *ssa.Field:
		return k(x.X) + "." + fieldName(x.X.Type(), x.Field)
	case *ssa.IndexAddr:
		return k(x.X) + "[" + k(x.Index) + "]"
	case *ssa.Index:
		return k(x.X) + "[" + k(x.Index) + "]"
	case *ssa.Lookup:
		return k(x.X) + "[" + k(x.Index) + "]"
	case *ssa.UnOp:
		switch x.Op {
		case token.MUL:
			return k(x.X)
		case token.NOT:
			return "!" + k(x.X)
		default:
			return x.Op.String() + k(x.X)
		}
	case *ssa.BinOp:
		return "(" + k(x.X) + " " + x.Op.String() + " " + k(x.Y) + ")"
	case *ssa.Call:
		return c.callKey(x.Common(), k)
	case *ssa.Extract:
		if ta, ok := x.Tuple.(*ssa.TypeAssert); ok {
			if x.Index == 0 {
				return k(ta.X) + ".(" + typeStr(ta.AssertedType) + ")"
			}
			return "ok:" + k(ta.X) + ".(" + typeStr(ta.AssertedType) + ")"
		}
		return k(x.Tuple) + fmt.Sprintf("#%d", x.Index)
	case *ssa.TypeAssert:
		return k(x.X) + ".(" + typeStr(x.AssertedType) + ")"
	case *ssa.Convert:
		return "conv:" + typeStr(x.Type()) + "(" + k(x.X) + ")"
	case *ssa.ChangeType:
		return "conv:" + typeStr(x.Type()) + "(" + k(x.X) + ")"
	case *ssa.Slice:
		if lit, ok := c.sliceLiteral(x, e); ok {
			var parts []string
			for _, el := range lit {
				parts = append(parts, k(el))
			}
			return "[" + strings.Join(parts, ",") + "]"
		}
		lo, hi := "", ""
		if x.Low != nil {
			lo = k(x.Low)
		}
		if x.High != nil {
			hi = k(x.High)
		}
		return k(x.X) + "[" + lo + ":" + hi + "]"
	case *ssa.Phi:
		if seen[x] {
			return "phi#"
		}
		seen[x] = true
		var parts []string
		for _, ed := range x.Edges {
			parts = append(parts, k(ed))
		}
		delete(seen, x)
		sort.Strings(parts)
		return "phi{" + strings.Join(uniq(parts), "|") + "}"
	case *ssa.MakeClosure:
		var bs []string
		for _, b := range x.Bindings {
			bs = append(bs, k(b))
		}
		return "closure:" + fnName(x.Fn.(*ssa.Function)) + "[" + strings.Join(bs, ",") + "]"
	case *ssa.MakeSlice:
		return "makeslice:" + x.Name()
	case *ssa.MakeMap:
		return "makemap:" + x.Name()
	case *ssa.Next:
		return "next:" + x.Name()
	case *ssa.Range:
		return "range(" + k(x.X) + ")"
	}
	return fmt.Sprintf("%T:%s", v, v.Name())
}

func uniq(s []string) []string {
	var out []string
	for i, x := range s {
		if i == 0 || x != s[i-1] {
			out = append(out, x)
		}
	}
	return out
}

// pureAccessor: a single-block module function without calls (except len/cap) or stores whose only
// result is an expression over its parameters — e.g. func (l *Lexer) currWord() string
// { return l.input[l.start:l.pos] }. Calls of such functions are keyed by the expression itself.
func (c *Ctx) pureAccessor(f *ssa.Function) ssa.Value {
	if f == nil || !inModule(f) || len(f.Blocks) != 1 || f.Signature.Results().Len() != 1 {
		return nil
	}
	var ret *ssa.Return
	for _, in := range f.Blocks[0].Instrs {
		switch x := in.(type) {
		case *ssa.FieldAddr, *ssa.Field, *ssa.IndexAddr, *ssa.Index, *ssa.Slice, *ssa.UnOp, *ssa.DebugRef:
		case *ssa.Call:
			if b, ok := x.Call.Value.(*ssa.Builtin); !ok || (b.Name() != "len" && b.Name() != "cap") {
				return nil
			}
		case *ssa.Return:
			ret = x
		default:
			return nil
		}
	}
	if ret == nil || len(ret.Results) != 1 {
		return nil
	}
	// only slicing / field selection results (strings, slices): predicates and arithmetic stay calls
	switch ret.Results[0].(type) {
	case *ssa.Slice, *ssa.UnOp, *ssa.Field:
		return ret.Results[0]
	}
	return nil
}

func (c *Ctx) callKey(cc *ssa.CallCommon, k func(ssa.Value) string) string {
	var args []string
	for _, a := range cc.Args {
		args = append(args, k(a))
	}
	if f := cc.StaticCallee(); f != nil {
		if rv := c.pureAccessor(f); rv != nil {
			return substParams(c.key(rv, nil), args)
		}
	}
	if b, ok := cc.Value.(*ssa.Builtin); ok {
		return b.Name() + "(" + strings.Join(args, ",") + ")"
	}
	if f := cc.StaticCallee(); f != nil {
		if inModule(f) {
			return fnName(f) + "(" + strings.Join(args, ",") + ")"
		}
		return f.String() + "(" + strings.Join(args, ",") + ")"
	}
	if cc.IsInvoke() {
		return "invoke:" + k(cc.Value) + "." + cc.Method.Name() + "(" + strings.Join(args, ",") + ")"
	}
	return "call:" + k(cc.Value) + "(" + strings.Join(args, ",") + ")"
}

func fieldName(t types.Type, i int) string {
	if p, ok := t.Underlying().(*types.Pointer); ok {
		t = p.Elem()
	}
	if s, ok := t.Underlying().(*types.Struct); ok && i < s.NumFields() {
		return s.Field(i).Name()
	}
	return fmt.Sprintf("f%d", i)
}

func fieldVar(t types.Type, i int) *types.Var {
	if p, ok := t.Underlying().(*types.Pointer); ok {
		t = p.Elem()
	}
	if s, ok := t.Underlying().(*types.Struct); ok && i < s.NumFields() {
		return s.Field(i)
	}
	return nil
}

// ---------------------------------------------------------------------------------------------
// Atoms

// Atom is one normalised conjunct of a branch condition.
type Atom struct {
	Kind string // len | type | cmp | nil | bool | call | other
	Subj string // key of the subject (for len: key of the container; for call: callee name)
	Op   string // comparison operator for len/cmp; "" otherwise
	Val  string // constant / type / call argument keys
	Pos  bool   // polarity for type/nil/bool/call (true = holds)
	N    int64  // numeric constant for len
	Src  ssa.Value
	Args []ssa.Value // for call atoms: argument values
	Fn   *ssa.Function
}

func (a Atom) String() string {
	switch a.Kind {
	case "len":
		return fmt.Sprintf("len(%s)%s%d", a.Subj, a.Op, a.N)
	case "cmp":
		return a.Subj + a.Op + a.Val
	case "type":
		if a.Pos {
			return a.Subj + " is " + a.Val
		}
		return a.Subj + " is-not " + a.Val
	case "nil":
		if a.Pos {
			return a.Subj + "==nil"
		}
		return a.Subj + "!=nil"
	case "bool":
		if a.Pos {
			return a.Subj
		}
		return "!" + a.Subj
	case "call":
		if a.Pos {
			return a.Subj + "(" + a.Val + ")"
		}
		return "!" + a.Subj + "(" + a.Val + ")"
	}
	if a.Pos {
		return "other:" + a.Subj
	}
	return "!other:" + a.Subj
}

var negOp = map[string]string{"==": "!=", "!=": "==", "<": ">=", ">=": "<", ">": "<=", "<=": ">"}
var flipOp = map[string]string{"==": "==", "!=": "!=", "<": ">", ">": "<", "<=": ">=", ">=": "<="}

func isCmp(op token.Token) bool {
	switch op {
	case token.EQL, token.NEQ, token.LSS, token.LEQ, token.GTR, token.GEQ:
		return true
	}
	return false
}

func constIntVal(v ssa.Value) (int64, bool) {
	k, ok := v.(*ssa.Const)
	if !ok || k.Value == nil || k.Value.Kind() != constant.Int {
		return 0, false
	}
	n, ok := constant.Int64Val(k.Value)
	return n, ok
}

// atoms converts "cond has truth value pol" into a conjunction of atoms (possibly one "other").
func (c *Ctx) atoms(cond ssa.Value, pol bool, e *env) []Atom {
	cond = c.resolve(cond, e)
	switch x := cond.(type) {
	case *ssa.UnOp:
		if x.Op == token.NOT {
			return c.atoms(x.X, !pol, e)
		}
	case *ssa.Const:
		return nil
	case *ssa.BinOp:
		if isCmp(x.Op) {
			op := x.Op.String()
			l, r := c.resolve(x.X, e), c.resolve(x.Y, e)
			if _, lc := l.(*ssa.Const); lc {
				if _, rc := r.(*ssa.Const); !rc {
					l, r = r, l
					op = flipOp[op]
				}
			}
			if !pol {
				op = negOp[op]
			}
			// len(x) ⋈ n
			if call, ok := l.(*ssa.Call); ok {
				if b, ok := call.Call.Value.(*ssa.Builtin); ok && b.Name() == "len" {
					if n, ok := constIntVal(r); ok {
						return []Atom{{Kind: "len", Subj: c.key(call.Call.Args[0], e), Op: op, N: n, Src: cond}}
					}
				}
			}
			if rk, ok := r.(*ssa.Const); ok && rk.Value == nil && (op == "==" || op == "!=") {
				return []Atom{{Kind: "nil", Subj: c.key(l, e), Pos: op == "==", Src: cond}}
			}
			return []Atom{{Kind: "cmp", Subj: c.key(l, e), Op: op, Val: c.key(r, e), Src: cond}}
		}
	case *ssa.Extract:
		if ta, ok := x.Tuple.(*ssa.TypeAssert); ok && x.Index == 1 {
			return []Atom{{Kind: "type", Subj: c.key(ta.X, e), Val: typeStr(ta.AssertedType), Pos: pol, Src: cond, Args: []ssa.Value{ta.X}}}
		}
		if lk, ok := x.Tuple.(*ssa.Lookup); ok && x.Index == 1 {
			return []Atom{{Kind: "call", Subj: "haskey:" + c.key(lk.X, e), Val: c.key(lk.Index, e), Pos: pol, Src: cond, Args: []ssa.Value{lk.Index}}}
		}
	case *ssa.Call:
		if f := x.Call.StaticCallee(); f != nil {
			var ks []string
			for _, a := range x.Call.Args {
				ks = append(ks, c.key(a, e))
			}
			name := f.String()
			if inModule(f) {
				name = fnName(f)
			}
			return []Atom{{Kind: "call", Subj: name, Val: strings.Join(ks, ","), Pos: pol, Src: cond, Args: x.Call.Args, Fn: f}}
		}
	case *ssa.Phi:
		// a && b  /  a || b used as a value: phi of constants and sub-conditions.
		// pol=true on (a && b) ⇒ both; pol=false on (a || b) ⇒ neither. Recognise the two shapes.
		if at := c.phiBoolAtoms(x, pol, e); at != nil {
			return at
		}
	}
	return []Atom{{Kind: "bool", Subj: c.key(cond, e), Pos: pol, Src: cond}}
}

// phiBoolAtoms handles short-circuit values: phi [false, ..., false, last] is a conjunction whose
// earlier conjuncts are the branch conditions that lead to the final edge.
func (c *Ctx) phiBoolAtoms(p *ssa.Phi, pol bool, e *env) []Atom {
	blk := p.Block()
	var lastIdx = -1
	short := !pol // value contributed by short-circuit edges: false for &&, true for ||
	for i, ed := range p.Edges {
		if k, ok := ed.(*ssa.Const); ok && k.Value != nil && k.Value.Kind() == constant.Bool && constant.BoolVal(k.Value) == short {
			continue
		}
		if lastIdx >= 0 {
			return nil
		}
		lastIdx = i
	}
	if lastIdx < 0 {
		return nil
	}
	// phi == pol ⇒ came through the non-short edge ⇒ the edge's value has truth pol, and every
	// condition dominating that predecessor holds as a dominating fact of the predecessor.
	pred := blk.Preds[lastIdx]
	var out []Atom
	for _, f := range c.domFacts(pred) {
		// only facts established after the phi's own dominator (inside the short-circuit chain)
		if blk.Idom() != nil && f.At.Block() != blk.Idom() && !blk.Idom().Dominates(f.At.Block()) {
			continue
		}
		out = append(out, c.atoms(f.Cond, f.Pol, e)...)
	}
	out = append(out, c.atoms(p.Edges[lastIdx], pol, e)...)
	return out
}

// ---------------------------------------------------------------------------------------------
// Dominating-edge facts

type Fact struct {
	Cond ssa.Value
	Pol  bool
	At   *ssa.If
}

func edgeDominates(d, s, b *ssa.BasicBlock) bool {
	if !(s == b || s.Dominates(b)) {
		return false
	}
	for _, p := range s.Preds {
		if p == d {
			continue
		}
		if !(p == s || s.Dominates(p)) {
			return false
		}
	}
	return true
}

// domFacts returns the branch conditions whose outcome is fixed on every path to block b.
func (c *Ctx) domFacts(b *ssa.BasicBlock) []Fact {
	var out []Fact
	for d := b.Idom(); d != nil; d = d.Idom() {
		if len(d.Instrs) == 0 {
			continue
		}
		iff, ok := d.Instrs[len(d.Instrs)-1].(*ssa.If)
		if !ok || d.Succs[0] == d.Succs[1] {
			continue
		}
		if edgeDominates(d, d.Succs[0], b) {
			out = append(out, Fact{iff.Cond, true, iff})
		} else if edgeDominates(d, d.Succs[1], b) {
			out = append(out, Fact{iff.Cond, false, iff})
		}
	}
	return out
}

// domAtoms: all atoms that hold at the start of block b (dominator mode, e == nil).
func (c *Ctx) domAtoms(b *ssa.BasicBlock) []Atom {
	var out []Atom
	for _, f := range c.domFacts(b) {
		out = append(out, c.atoms(f.Cond, f.Pol, nil)...)
	}
	return out
}
