package main

// Canonical keys for SSA values (structural normal form), used to identify "the same
// expression" across instructions (go/ssa performs no CSE), and the conversion of branch
// conditions into atoms (A3).

import (
	"fmt"
	"go/constant"
	"go/token"
	"go/types"
	"sort"
	"strings"

	"golang.org/x/tools/go/ssa"
)

// env is the path-sensitive part of a key: phi choices and the last store to local allocs.
//
// When the path walker inlines a call of a small helper (paths.go), the environment also carries the
// binding of the helper's parameters to the caller's argument values (par) and of the call's results
// to the values the helper returned on this path (res). A result is closed over a snapshot of the
// environment at the helper's return, so inlining the same helper again later does not disturb it.
type env struct {
	mem map[*ssa.Alloc]ssa.Value
	phi map[*ssa.Phi]ssa.Value
	par map[*ssa.Parameter]ssa.Value
	res map[ssa.Value]binding
	dom bool // dominator mode with parameter bindings only (calling-context lifting): allocs by single store
}

type binding struct {
	val ssa.Value
	env *env
}

func newEnv() *env { return &env{mem: map[*ssa.Alloc]ssa.Value{}, phi: map[*ssa.Phi]ssa.Value{}} }

func (e *env) clone() *env {
	n := newEnv()
	n.dom = e.dom
	for k, v := range e.mem {
		n.mem[k] = v
	}
	for k, v := range e.phi {
		n.phi[k] = v
	}
	if e.par != nil {
		n.par = make(map[*ssa.Parameter]ssa.Value, len(e.par))
		for k, v := range e.par {
			n.par[k] = v
		}
	}
	if e.res != nil {
		n.res = make(map[ssa.Value]binding, len(e.res))
		for k, v := range e.res {
			n.res[k] = v
		}
	}
	return n
}

func shortPkg(p *types.Package) string {
	if p == nil {
		return ""
	}
	if p.Path() == pkgRoot {
		return "lucene"
	}
	return p.Name()
}

func typeStr(t types.Type) string {
	return types.TypeString(t, shortPkg)
}

// singleStore returns the only value ever stored to a local alloc (dominator mode), or nil.
func singleStore(a *ssa.Alloc) ssa.Value {
	var val ssa.Value
	n := 0
	for _, ref := range *a.Referrers() {
		switch r := ref.(type) {
		case *ssa.Store:
			if r.Addr == a {
				n++
				val = r.Val
			} else {
				return nil // address escapes as a stored value
			}
		case *ssa.UnOp, *ssa.FieldAddr, *ssa.DebugRef:
			if fa, ok := r.(*ssa.FieldAddr); ok {
				// a store through a field address makes the whole-value store non-unique
				for _, fr := range *fa.Referrers() {
					if st, ok := fr.(*ssa.Store); ok && st.Addr == fa {
						return nil
					}
				}
			}
		default:
			return nil
		}
	}
	if n == 1 {
		return val
	}
	return nil
}

// resolve strips path-resolved phis, loads of local allocs, and transparent conversions.
func (c *Ctx) resolve(v ssa.Value, e *env) ssa.Value {
	v, _ = c.resolveE(v, e)
	return v
}

// resolveE also follows the bindings made by inlined calls; the returned environment is the one the
// returned value's operands must be read in.
func (c *Ctx) resolveE(v ssa.Value, e *env) (ssa.Value, *env) {
	return c.resolveX(v, e, true)
}

// resolveX: strip=false keeps MakeInterface/ChangeInterface (needed to tell a nil interface from an
// interface holding a nil pointer).
func (c *Ctx) resolveX(v ssa.Value, e *env, strip bool) (ssa.Value, *env) {
	if e == nil {
		e = c.ctxEnv
	}
	// the folding cases below recurse into operands; a cyclic binding must not run away
	c.resolveDepth++
	defer func() { c.resolveDepth-- }()
	if c.resolveDepth > 60 {
		return v, e
	}
	for i := 0; i < 80; i++ {
		if e != nil {
			if p, ok := v.(*ssa.Parameter); ok && e.par != nil {
				if b, ok := e.par[p]; ok {
					v = b
					continue
				}
			}
			if e.res != nil {
				if b, ok := e.res[v]; ok {
					v, e = b.val, b.env
					continue
				}
			}
		}
		switch x := v.(type) {
		case *ssa.Function:
			// a method expression T.m is a synthetic thunk around m: the function meant is m
			if u := unwrapThunk(x); u != x {
				v = u
				continue
			}
			return v, e
		case *ssa.Phi:
			if e != nil {
				if r, ok := e.phi[x]; ok {
					v = r
					continue
				}
			}
			// a phi whose edges are all the same value
			var only ssa.Value
			same := true
			for _, ed := range x.Edges {
				if ed == x {
					continue
				}
				if only == nil {
					only = ed
				} else if only != ed {
					same = false
				}
			}
			if same && only != nil {
				v = only
				continue
			}
			return v, e
		case *ssa.UnOp:
			if x.Op == token.MUL {
				if a, ok := x.X.(*ssa.Alloc); ok {
					if e != nil && !e.dom {
						if r, ok := e.mem[a]; ok {
							v = r
							continue
						}
					} else if r := singleStore(a); r != nil {
						v = r
						continue
					}
				}
				// field f of element k of a package-level slice-of-struct literal, read through a copy of the
				// element in a local (for _, c := range checks { c.failed(…) }) or in place (&checks[i].failed)
				if fa, ok := x.X.(*ssa.FieldAddr); ok && e != nil && !e.dom {
					var ia *ssa.IndexAddr
					switch base := fa.X.(type) {
					case *ssa.IndexAddr:
						ia = base
					case *ssa.Alloc:
						if stored, ok := e.mem[base]; ok {
							if ld, ok := stored.(*ssa.UnOp); ok && ld.Op == token.MUL {
								ia, _ = ld.X.(*ssa.IndexAddr)
							}
							// a local copy of a table entry bound on this path (cmp, found := table[k]; … cmp.f)
							if sv, _ := c.resolveX(stored, e, strip); sv != nil {
								if ld, ok := sv.(*ssa.UnOp); ok && ld.Op == token.MUL {
									if al, ok := ld.X.(*ssa.Alloc); ok && al.Parent() != nil && al.Parent().Name() == "init" {
										if fv, ok := structLiteralFields(sv)[fieldName(fa.X.Type(), fa.Field)]; ok {
											v, e = fv, c.ctxEnv
											if e == nil {
												e = newEnv()
											}
											continue
										}
									}
								}
							}
						}
					}
					if ia != nil {
						if n, isC := constIntVal(c.resolve(ia.Index, e)); isC {
							if g := c.globalBehind(ia.X, e); g != nil {
								if fv := c.globalSliceField(g, n, fa.Field); fv != nil {
									v = fv
									continue
								}
							}
						}
					}
				}
				// element k of a local array literal ([2]any{a, b} ranged over)
				if ia, ok := x.X.(*ssa.IndexAddr); ok && e != nil && !e.dom {
					if al, isAl := ia.X.(*ssa.Alloc); isAl && arrayOf(al.Type()) != nil {
						if n, isC := constIntVal(c.resolve(ia.Index, e)); isC {
							if elems := localArrayElems(al); elems != nil && n >= 0 && int(n) < len(elems) && elems[n] != nil {
								v = elems[n]
								continue
							}
						}
					}
				}
				// element k of a literal slice (an inlined helper ranging over its variadic arguments)
				if ia, ok := x.X.(*ssa.IndexAddr); ok && e != nil && !e.dom {
					if _, isSl := ia.X.Type().Underlying().(*types.Slice); isSl {
						if n, isC := constIntVal(c.resolve(ia.Index, e)); isC {
							if lit, le, ok := c.sliceLiteralE(ia.X, e); ok && n >= 0 && int(n) < len(lit) && lit[n] != nil {
								v, e = lit[n], le
								continue
							}
						}
					}
				}
			}
			return v, e
		case *ssa.MakeInterface:
			if !strip {
				return v, e
			}
			v = x.X
			continue
		case *ssa.ChangeType:
			if _, basic := x.Type().Underlying().(*types.Basic); basic {
				return v, e // e.g. string -> expr.Column: the named type matters
			}
			v = x.X
			continue
		case *ssa.ChangeInterface:
			v = x.X
			continue
		case *ssa.Field:
			// field f of element k of a package-level slice-of-struct literal (a table of checks / attempts
			// interpreted by a generic loop): the value stored there by the package initialiser
			if e == nil || e.dom {
				return v, e
			}
			if ld, ok := x.X.(*ssa.UnOp); ok && ld.Op == token.MUL {
				if ia, ok := ld.X.(*ssa.IndexAddr); ok {
					if n, isC := constIntVal(c.resolve(ia.Index, e)); isC {
						if g := c.globalBehind(ia.X, e); g != nil {
							if fv := c.globalSliceField(g, n, x.Field); fv != nil {
								v = fv
								continue
							}
						}
					}
				}
			}
			// field of a table entry bound on this path (a found lookup in a package-level map of structs): the
			// value the initialiser stored into that field of the entry's literal
			if base, be := c.resolveX(x.X, e, strip); base != x.X {
				if ld, ok := base.(*ssa.UnOp); ok && ld.Op == token.MUL {
					if al, ok := ld.X.(*ssa.Alloc); ok && al.Parent() != nil && al.Parent().Name() == "init" {
						if fv, ok := structLiteralFields(base)[fieldName(x.X.Type(), x.Field)]; ok {
							_ = be
							v, e = fv, nil
							if c.ctxEnv != nil {
								e = c.ctxEnv
							}
							continue
						}
					}
				}
			}
			return v, e
		case *ssa.Index:
			// element k of a local array literal that was loaded whole ([2]any{a, b} ranged over by value)
			if e == nil || e.dom {
				return v, e
			}
			if ld, ok := x.X.(*ssa.UnOp); ok && ld.Op == token.MUL {
				if al, isAl := ld.X.(*ssa.Alloc); isAl && arrayOf(al.Type()) != nil {
					if n, isC := constIntVal(c.resolve(x.Index, e)); isC {
						if elems := localArrayElems(al); elems != nil && n >= 0 && int(n) < len(elems) && elems[n] != nil {
							v = elems[n]
							continue
						}
					}
				}
			}
			return v, e
		case *ssa.BinOp:
			// integer arithmetic on path constants (loop counters over a literal argument list)
			if e == nil || e.dom || (x.Op != token.ADD && x.Op != token.SUB) {
				return v, e
			}
			l, r := c.resolve(x.X, e), c.resolve(x.Y, e)
			ln, lok := constIntVal(l)
			rn, rok := constIntVal(r)
			if !lok || !rok {
				return v, e
			}
			n := ln + rn
			if x.Op == token.SUB {
				n = ln - rn
			}
			return ssa.NewConst(constant.MakeInt64(n), x.Type()), e
		case *ssa.Call:
			if e == nil || e.dom {
				return v, e
			}
			if bi, ok := x.Call.Value.(*ssa.Builtin); ok && bi.Name() == "len" && len(x.Call.Args) == 1 {
				if _, isSl := x.Call.Args[0].Type().Underlying().(*types.Slice); isSl {
					if lit, _, ok := c.sliceLiteralE(x.Call.Args[0], e); ok {
						return ssa.NewConst(constant.MakeInt64(int64(len(lit))), x.Type()), e
					}
					if g := c.globalBehind(x.Call.Args[0], e); g != nil {
						if n := c.globalSliceLen(g); n >= 0 {
							return ssa.NewConst(constant.MakeInt64(n), x.Type()), e
						}
					}
				}
			}
			return v, e
		default:
			return v, e
		}
	}
	return v, e
}

func (c *Ctx) constName(k *ssa.Const) string {
	if k.Value == nil {
		return "nil"
	}
	if n, ok := k.Type().(*types.Named); ok && n.Obj().Pkg() != nil && strings.HasPrefix(n.Obj().Pkg().Path(), modPath) {
		if k.Value.Kind() == constant.Int {
			sc := n.Obj().Pkg().Scope()
			for _, name := range sc.Names() {
				if kc, ok := sc.Lookup(name).(*types.Const); ok && types.Identical(kc.Type(), n) &&
					constant.Compare(kc.Val(), token.EQL, k.Value) {
					return shortPkg(n.Obj().Pkg()) + "." + name
				}
			}
		}
	}
	if k.Value.Kind() == constant.String {
		return fmt.Sprintf("%q", constant.StringVal(k.Value))
	}
	return k.Value.ExactString()
}

func (c *Ctx) key(v ssa.Value, e *env) string {
	return c.keyD(v, e, 0, map[ssa.Value]bool{})
}

func (c *Ctx) keyD(v ssa.Value, e *env, depth int, seen map[ssa.Value]bool) string {
	if v == nil {
		return "<nil>"
	}
	if depth > 40 {
		return "…"
	}
	v, e = c.resolveE(v, e)
	k := func(x ssa.Value) string { return c.keyD(x, e, depth+1, seen) }
	switch x := v.(type) {
	case *ssa.Parameter:
		for i, p := range x.Parent().Params {
			if p == x {
				return fmt.Sprintf("$%d", i)
			}
		}
		return "$" + x.Name()
	case *ssa.FreeVar:
		return "^" + x.Name()
	case *ssa.Const:
		return c.constName(x)
	case *ssa.Global:
		return "@" + shortPkg(x.Pkg.Pkg) + "." + x.Name()
	case *ssa.Function:
		return "fn:" + fnName(x)
	case *ssa.Builtin:
		return "builtin:" + x.Name()
	case *ssa.Alloc:
		if e != nil && !e.dom {
			if r, ok := e.mem[x]; ok {
				return k(r)
			}
		} else if r := singleStore(x); r != nil {
			return k(r)
		}
		return "&local:" + x.Comment
	case *ssa.FieldAddr:
		return k(x.X) + "." + fieldName(x.X.Type(), x.Field)
	case *ssa.Field:
		return k(x.X) + "." + fieldName(x.X.Type(), x.Field)
	case *ssa.IndexAddr:
		if s, ok := c.viewIndexKey(x.X, x.Index, e); ok {
			return s
		}
		return k(x.X) + "[" + k(x.Index) + "]"
	case *ssa.Index:
		if s, ok := c.viewIndexKey(x.X, x.Index, e); ok {
			return s
		}
		if ld, ok := x.X.(*ssa.UnOp); ok && ld.Op == token.MUL {
			if al, ok := ld.X.(*ssa.Alloc); ok && arrayOf(al.Type()) != nil {
				if _, isC := c.resolve(x.Index, e).(*ssa.Const); !isC {
					if elems := localArrayElems(al); elems != nil {
						var parts []string
						for _, el := range elems {
							if el == nil {
								parts = append(parts, "zero")
							} else {
								parts = append(parts, k(el))
							}
						}
						return "elem{" + strings.Join(parts, "|") + "}"
					}
				}
			}
		}
		return k(x.X) + "[" + k(x.Index) + "]"
	case *ssa.Lookup:
		if s, ok := c.viewIndexKey(x.X, x.Index, e); ok {
			return s
		}
		return k(x.X) + "[" + k(x.Index) + "]"
	case *ssa.UnOp:
		switch x.Op {
		case token.MUL:
			if ia, ok := x.X.(*ssa.IndexAddr); ok {
				if al, ok := ia.X.(*ssa.Alloc); ok && arrayOf(al.Type()) != nil {
					if _, isC := c.resolve(ia.Index, e).(*ssa.Const); !isC {
						if elems := localArrayElems(al); elems != nil {
							var parts []string
							for _, el := range elems {
								if el == nil {
									parts = append(parts, "zero")
								} else {
									parts = append(parts, k(el))
								}
							}
							return "elem{" + strings.Join(parts, "|") + "}"
						}
					}
				}
			}
			return k(x.X)
		case token.NOT:
			return "!" + k(x.X)
		default:
			return x.Op.String() + k(x.X)
		}
	case *ssa.BinOp:
		return "(" + k(x.X) + " " + x.Op.String() + " " + k(x.Y) + ")"
	case *ssa.Call:
		return c.callKey(x.Common(), k)
	case *ssa.Extract:
		if ta, ok := x.Tuple.(*ssa.TypeAssert); ok {
			if x.Index == 0 {
				return k(ta.X) + ".(" + typeStr(ta.AssertedType) + ")"
			}
			return "ok:" + k(ta.X) + ".(" + typeStr(ta.AssertedType) + ")"
		}
		return k(x.Tuple) + fmt.Sprintf("#%d", x.Index)
	case *ssa.TypeAssert:
		return k(x.X) + ".(" + typeStr(x.AssertedType) + ")"
	case *ssa.Convert:
		if widensInt(x.X.Type(), x.Type()) {
			return k(x.X) // int(op) for an integer-typed enum: the same number
		}
		if rv, re := c.resolveE(x.X, e); rv != nil {
			if in, ok := textRoundTrip(rv, x.Type()); ok {
				return c.keyD(in, re, depth+1, seen)
			}
		}
		return "conv:" + typeStr(x.Type()) + "(" + k(x.X) + ")"
	case *ssa.ChangeType:
		if widensInt(x.X.Type(), x.Type()) {
			return k(x.X)
		}
		if rv, re := c.resolveE(x.X, e); rv != nil {
			if in, ok := textRoundTrip(rv, x.Type()); ok {
				return c.keyD(in, re, depth+1, seen)
			}
		}
		return "conv:" + typeStr(x.Type()) + "(" + k(x.X) + ")"
	case *ssa.Slice:
		if lit, ok := c.sliceLiteral(x, e); ok {
			var parts []string
			for _, el := range lit {
				parts = append(parts, k(el))
			}
			return "[" + strings.Join(parts, ",") + "]"
		}
		lo, hi := "", ""
		if x.Low != nil {
			lo = k(x.Low)
		}
		if x.High != nil {
			hi = k(x.High)
		}
		return k(x.X) + "[" + lo + ":" + hi + "]"
	case *ssa.Phi:
		if seen[x] {
			return "phi#"
		}
		seen[x] = true
		var parts []string
		for _, ed := range x.Edges {
			parts = append(parts, k(ed))
		}
		delete(seen, x)
		sort.Strings(parts)
		if u := uniq(parts); len(u) == 1 && u[0] != "phi#" {
			return u[0] // every incoming value is the same expression (e.g. the rune read before and in a loop)
		}
		return "phi{" + strings.Join(uniq(parts), "|") + "}"
	case *ssa.MakeClosure:
		var bs []string
		for _, b := range x.Bindings {
			bs = append(bs, k(b))
		}
		return "closure:" + fnName(x.Fn.(*ssa.Function)) + "[" + strings.Join(bs, ",") + "]"
	case *ssa.MakeSlice:
		return "makeslice:" + x.Name()
	case *ssa.MakeMap:
		return "makemap:" + x.Name()
	case *ssa.Next:
		return "next:" + x.Name()
	case *ssa.Range:
		return "range(" + k(x.X) + ")"
	}
	return fmt.Sprintf("%T:%s", v, v.Name())
}

func uniq(s []string) []string {
	var out []string
	for i, x := range s {
		if i == 0 || x != s[i-1] {
			out = append(out, x)
		}
	}
	return out
}

// sliceView: v is base[a:len(base)-b] with constant a, b (either may be absent) — a window into base.
func (c *Ctx) sliceView(v ssa.Value, e *env) (base ssa.Value, be *env, a, b int64, ok bool) {
	rv, re := c.resolveE(v, e)
	sl, isS := rv.(*ssa.Slice)
	if !isS || sl.Max != nil {
		return nil, nil, 0, 0, false
	}
	if _, isArr := sl.X.Type().Underlying().(*types.Pointer); isArr {
		return nil, nil, 0, 0, false
	}
	if sl.Low != nil {
		n, isC := constIntVal(c.resolve(sl.Low, re))
		if !isC || n < 0 {
			return nil, nil, 0, 0, false
		}
		a = n
	}
	if sl.High != nil {
		hv, he := c.resolveE(sl.High, re)
		bo, isB := hv.(*ssa.BinOp)
		if !isB || bo.Op != token.SUB {
			return nil, nil, 0, 0, false
		}
		n, isC := constIntVal(c.resolve(bo.Y, he))
		lv, le := c.resolveE(bo.X, he)
		call, isCall := lv.(*ssa.Call)
		if !isC || n < 0 || !isCall {
			return nil, nil, 0, 0, false
		}
		if bi, isBi := call.Call.Value.(*ssa.Builtin); !isBi || bi.Name() != "len" || c.key(call.Call.Args[0], le) != c.key(sl.X, re) {
			return nil, nil, 0, 0, false
		}
		b = n
	}
	if a == 0 && b == 0 {
		return nil, nil, 0, 0, false
	}
	return sl.X, re, a, b, true
}

// viewIndexKey: an index into a window base[a:len-b] is keyed as the index into base, so the same
// element has the same key whether it is read through the window or directly.
func (c *Ctx) viewIndexKey(x, idx ssa.Value, e *env) (string, bool) {
	base, be, a, b, ok := c.sliceView(x, e)
	if !ok {
		return "", false
	}
	bk := c.key(base, be)
	iv, ie := c.resolveE(idx, e)
	if n, isC := constIntVal(iv); isC {
		return fmt.Sprintf("%s[%d]", bk, a+n), true
	}
	if bo, isB := iv.(*ssa.BinOp); isB && bo.Op == token.SUB {
		if n, isC := constIntVal(c.resolve(bo.Y, ie)); isC {
			lv, le := c.resolveE(bo.X, ie)
			if call, isCall := lv.(*ssa.Call); isCall {
				if bi, isBi := call.Call.Value.(*ssa.Builtin); isBi && bi.Name() == "len" {
					// len of the window itself
					if vb, vbe, va, vbb, ok2 := c.sliceView(call.Call.Args[0], le); ok2 && va == a && vbb == b && c.key(vb, vbe) == bk {
						return fmt.Sprintf("%s[(len(%s) - %d)]", bk, bk, b+n), true
					}
				}
			}
		}
	}
	return "", false
}

// pureAccessor: a single-block module function without calls (except len/cap) or stores whose only
// result is an expression over its parameters — e.g. func (l *Lexer) currWord() string
// { return l.input[l.start:l.pos] }. Calls of such functions are keyed by the expression itself.
func (c *Ctx) pureAccessor(f *ssa.Function) ssa.Value {
	if f == nil || !inModule(f) || len(f.Blocks) != 1 || f.Signature.Results().Len() != 1 {
		return nil
	}
	var ret *ssa.Return
	for _, in := range f.Blocks[0].Instrs {
		switch x := in.(type) {
		case *ssa.FieldAddr, *ssa.Field, *ssa.IndexAddr, *ssa.Index, *ssa.Slice, *ssa.UnOp, *ssa.DebugRef:
		case *ssa.Call:
			if b, ok := x.Call.Value.(*ssa.Builtin); !ok || (b.Name() != "len" && b.Name() != "cap") {
				return nil
			}
		case *ssa.Return:
			ret = x
		default:
			return nil
		}
	}
	if ret == nil || len(ret.Results) != 1 {
		return nil
	}
	// only slicing / field selection results (strings, slices): predicates and arithmetic stay calls
	switch ret.Results[0].(type) {
	case *ssa.Slice, *ssa.UnOp, *ssa.Field:
		return ret.Results[0]
	}
	return nil
}

func (c *Ctx) callKey(cc *ssa.CallCommon, k func(ssa.Value) string) string {
	var args []string
	for _, a := range cc.Args {
		args = append(args, k(a))
	}
	if f := cc.StaticCallee(); f != nil {
		if rv := c.pureAccessor(f); rv != nil {
			return substParams(c.key(rv, nil), args)
		}
	}
	if b, ok := cc.Value.(*ssa.Builtin); ok {
		return b.Name() + "(" + strings.Join(args, ",") + ")"
	}
	if f := cc.StaticCallee(); f != nil {
		if inModule(f) {
			return fnName(f) + "(" + strings.Join(args, ",") + ")"
		}
		return f.String() + "(" + strings.Join(args, ",") + ")"
	}
	if cc.IsInvoke() {
		return "invoke:" + k(cc.Value) + "." + cc.Method.Name() + "(" + strings.Join(args, ",") + ")"
	}
	return "call:" + k(cc.Value) + "(" + strings.Join(args, ",") + ")"
}

func fieldName(t types.Type, i int) string {
	if p, ok := t.Underlying().(*types.Pointer); ok {
		t = p.Elem()
	}
	if s, ok := t.Underlying().(*types.Struct); ok && i < s.NumFields() {
		return s.Field(i).Name()
	}
	return fmt.Sprintf("f%d", i)
}

func fieldVar(t types.Type, i int) *types.Var {
	if p, ok := t.Underlying().(*types.Pointer); ok {
		t = p.Elem()
	}
	if s, ok := t.Underlying().(*types.Struct); ok && i < s.NumFields() {
		return s.Field(i)
	}
	return nil
}

// constRange: v is an integer constant or a phi of integer constants; its smallest and largest value.
func constRange(v ssa.Value, depth int) (lo, hi int64, ok bool) {
	if n, isC := constIntVal(v); isC {
		return n, n, true
	}
	ph, isPhi := v.(*ssa.Phi)
	if !isPhi || depth > 3 {
		return 0, 0, false
	}
	first := true
	for _, e := range ph.Edges {
		if e == ssa.Value(ph) {
			continue
		}
		l, h, ok := constRange(e, depth+1)
		if !ok {
			return 0, 0, false
		}
		if first || l < lo {
			lo = l
		}
		if first || h > hi {
			hi = h
		}
		first = false
	}
	return lo, hi, !first
}

// mentions: does value v (through a few levels of operands) refer to target?
func mentions(v, target ssa.Value, depth int) bool {
	if v == target {
		return true
	}
	if depth > 5 {
		return false
	}
	in, ok := v.(ssa.Instruction)
	if !ok {
		return false
	}
	if _, isPhi := v.(*ssa.Phi); isPhi {
		return false
	}
	for _, op := range in.Operands(nil) {
		if *op != nil && mentions(*op, target, depth+1) {
			return true
		}
	}
	return false
}

// widensInt: a conversion between integer types that cannot change the value.
func widensInt(from, to types.Type) bool {
	fb, ok1 := from.Underlying().(*types.Basic)
	tb, ok2 := to.Underlying().(*types.Basic)
	if !ok1 || !ok2 || fb.Info()&types.IsInteger == 0 || tb.Info()&types.IsInteger == 0 {
		return false
	}
	size := func(b *types.Basic) int {
		switch b.Kind() {
		case types.Int8, types.Uint8:
			return 8
		case types.Int16, types.Uint16:
			return 16
		case types.Int32, types.Uint32:
			return 32
		}
		return 64
	}
	fu, tu := fb.Info()&types.IsUnsigned != 0, tb.Info()&types.IsUnsigned != 0
	switch {
	case fu == tu:
		return size(tb) >= size(fb)
	case fu && !tu:
		return size(tb) > size(fb)
	}
	return false
}

// globalBehind: v is (through parameter bindings) a load of a package-level variable of the module.
func (c *Ctx) globalBehind(v ssa.Value, e *env) *ssa.Global {
	rv, _ := c.resolveE(v, e)
	ld, ok := rv.(*ssa.UnOp)
	if !ok || ld.Op != token.MUL {
		return nil
	}
	g, ok := ld.X.(*ssa.Global)
	if !ok || g.Pkg == nil || !strings.HasPrefix(g.Pkg.Pkg.Path(), modPath) {
		return nil
	}
	return g
}

// globalSliceArray: the literal array behind a package-level slice that is assigned exactly once, in the
// package initialiser, from a composite literal (nil otherwise).
func (c *Ctx) globalSliceArray(g *ssa.Global) *ssa.Alloc {
	memo := "gslice:" + g.Pkg.Pkg.Path() + "." + g.Name()
	if v, ok := c.roles[memo]; ok {
		a, _ := v.(*ssa.Alloc)
		return a
	}
	c.roles[memo] = (*ssa.Alloc)(nil)
	init := g.Pkg.Func("init")
	var arr *ssa.Alloc
	n := 0
	for _, f := range c.Funcs {
		for _, b := range f.Blocks {
			for _, in := range b.Instrs {
				st, ok := in.(*ssa.Store)
				if !ok || st.Addr != ssa.Value(g) {
					continue
				}
				n++
				if f != init {
					return nil
				}
				if sl, ok := st.Val.(*ssa.Slice); ok && sl.Low == nil && sl.High == nil {
					arr, _ = sl.X.(*ssa.Alloc)
				}
			}
		}
	}
	if n != 1 || arr == nil || arrayOf(arr.Type()) == nil {
		return nil
	}
	c.roles[memo] = arr
	return arr
}

func (c *Ctx) globalSliceLen(g *ssa.Global) int64 {
	arr := c.globalSliceArray(g)
	if arr == nil {
		return -1
	}
	return arrayOf(arr.Type()).Len()
}

// globalSliceField: the value stored in field f of element k of the literal behind the slice.
func (c *Ctx) globalSliceField(g *ssa.Global, k int64, field int) ssa.Value {
	arr := c.globalSliceArray(g)
	if arr == nil {
		return nil
	}
	var out ssa.Value
	for _, ref := range *arr.Referrers() {
		ia, ok := ref.(*ssa.IndexAddr)
		if !ok {
			continue
		}
		if n, isC := constIntVal(ia.Index); !isC || n != k {
			continue
		}
		for _, r2 := range *ia.Referrers() {
			fa, ok := r2.(*ssa.FieldAddr)
			if !ok || fa.Field != field {
				continue
			}
			for _, r3 := range *fa.Referrers() {
				if st, ok := r3.(*ssa.Store); ok && st.Addr == ssa.Value(fa) {
					if out != nil {
						return nil
					}
					out = st.Val
				}
			}
		}
	}
	return out
}

// localArrayElems: the values stored by constant index into a local array that is only ever written that
// way and read by index (a composite literal); nil if the array is used in any other way.
func localArrayElems(al *ssa.Alloc) []ssa.Value {
	at := arrayOf(al.Type())
	if at == nil || at.Len() > 64 {
		return nil
	}
	out := make([]ssa.Value, at.Len())
	for _, ref := range *al.Referrers() {
		switch r := ref.(type) {
		case *ssa.IndexAddr:
			n, isC := constIntVal(r.Index)
			nStores := 0
			for _, r2 := range *r.Referrers() {
				switch x := r2.(type) {
				case *ssa.Store:
					if x.Addr != ssa.Value(r) {
						return nil
					}
					nStores++
					if !isC || n < 0 || n >= at.Len() || out[n] != nil {
						return nil
					}
					out[n] = x.Val
				case *ssa.UnOp, *ssa.DebugRef:
				default:
					return nil
				}
			}
			_ = nStores
		case *ssa.Slice, *ssa.UnOp, *ssa.DebugRef:
		default:
			return nil
		}
	}
	return out
}

// foldCmp decides an ==/!= comparison whose operands are known along the path: two constants, or nil
// against a value that cannot be nil (a fresh error from fmt.Errorf/errors.New, a boxed value, an
// allocation, a function).
func (c *Ctx) foldCmp(cond ssa.Value, e *env) (val, ok bool) {
	cond, e = c.resolveE(cond, e)
	neg := false
	for {
		u, isU := cond.(*ssa.UnOp)
		if !isU || u.Op != token.NOT {
			break
		}
		neg = !neg
		cond, e = c.resolveE(u.X, e)
	}
	bo, isB := cond.(*ssa.BinOp)
	if isB && (bo.Op == token.LSS || bo.Op == token.LEQ || bo.Op == token.GTR || bo.Op == token.GEQ) {
		ln, lok := constIntVal(c.resolve(bo.X, e))
		rn, rok := constIntVal(c.resolve(bo.Y, e))
		if !lok || !rok {
			return false, false
		}
		var res bool
		switch bo.Op {
		case token.LSS:
			res = ln < rn
		case token.LEQ:
			res = ln <= rn
		case token.GTR:
			res = ln > rn
		default:
			res = ln >= rn
		}
		if neg {
			res = !res
		}
		return res, true
	}
	if !isB || (bo.Op != token.EQL && bo.Op != token.NEQ) {
		return false, false
	}
	l, _ := c.resolveX(bo.X, e, false)
	r, _ := c.resolveX(bo.Y, e, false)
	eq, known := false, false
	lk, lc := l.(*ssa.Const)
	rk, rc := r.(*ssa.Const)
	switch {
	case lc && rc:
		if lk.Value == nil || rk.Value == nil {
			eq, known = lk.Value == nil && rk.Value == nil, true
		} else if lk.Value.Kind() == rk.Value.Kind() {
			eq, known = constant.Compare(lk.Value, token.EQL, rk.Value), true
		}
	case lc && lk.Value == nil && neverNil(r), rc && rk.Value == nil && neverNil(l):
		eq, known = false, true
	}
	if !known {
		return false, false
	}
	res := eq
	if bo.Op == token.NEQ {
		res = !eq
	}
	if neg {
		res = !res
	}
	return res, true
}

func neverNil(v ssa.Value) bool {
	switch x := v.(type) {
	case *ssa.MakeInterface, *ssa.Alloc, *ssa.Function, *ssa.MakeClosure, *ssa.MakeMap, *ssa.MakeSlice, *ssa.MakeChan:
		return true
	case *ssa.Call:
		switch calleeFullName(x) {
		case "fmt.Errorf", "errors.New":
			return true
		}
	}
	return false
}

// ---------------------------------------------------------------------------------------------
// Atoms

// Atom is one normalised conjunct of a branch condition.
type Atom struct {
	Kind string // len | type | cmp | nil | bool | call | other
	Subj string // key of the subject (for len: key of the container; for call: callee name)
	Op   string // comparison operator for len/cmp; "" otherwise
	Val  string // constant / type / call argument keys
	Pos  bool   // polarity for type/nil/bool/call (true = holds)
	N    int64  // numeric constant for len
	Src  ssa.Value
	Args []ssa.Value // for call atoms: argument values
	Fn   *ssa.Function
	Env  *env // environment the atom's Src/Args are read in (set by the path walker)
	Neg  bool // cmp: the atom is the negation of the comparison in the source (for floats not(x>0) is weaker than x<=0: NaN)
}

func (a Atom) String() string {
	switch a.Kind {
	case "len":
		return fmt.Sprintf("len(%s)%s%d", a.Subj, a.Op, a.N)
	case "cmp":
		return a.Subj + a.Op + a.Val
	case "type":
		if a.Pos {
			return a.Subj + " is " + a.Val
		}
		return a.Subj + " is-not " + a.Val
	case "nil":
		if a.Pos {
			return a.Subj + "==nil"
		}
		return a.Subj + "!=nil"
	case "bool":
		if a.Pos {
			return a.Subj
		}
		return "!" + a.Subj
	case "call":
		if a.Pos {
			return a.Subj + "(" + a.Val + ")"
		}
		return "!" + a.Subj + "(" + a.Val + ")"
	}
	if a.Pos {
		return "other:" + a.Subj
	}
	return "!other:" + a.Subj
}

var negOp = map[string]string{"==": "!=", "!=": "==", "<": ">=", ">=": "<", ">": "<=", "<=": ">"}
var flipOp = map[string]string{"==": "==", "!=": "!=", "<": ">", ">": "<", "<=": ">=", ">=": "<="}

func isCmp(op token.Token) bool {
	switch op {
	case token.EQL, token.NEQ, token.LSS, token.LEQ, token.GTR, token.GEQ:
		return true
	}
	return false
}

func constIntVal(v ssa.Value) (int64, bool) {
	k, ok := v.(*ssa.Const)
	if !ok || k.Value == nil || k.Value.Kind() != constant.Int {
		return 0, false
	}
	n, ok := constant.Int64Val(k.Value)
	return n, ok
}

// atoms converts "cond has truth value pol" into a conjunction of atoms (possibly one "other").
func (c *Ctx) atoms(cond ssa.Value, pol bool, e *env) []Atom {
	cond, e = c.resolveE(cond, e)
	switch x := cond.(type) {
	case *ssa.UnOp:
		if x.Op == token.NOT {
			return c.atoms(x.X, !pol, e)
		}
	case *ssa.Const:
		return nil
	case *ssa.BinOp:
		if isCmp(x.Op) {
			op := x.Op.String()
			l, le := c.resolveE(x.X, e)
			r, re := c.resolveE(x.Y, e)
			if _, lc := l.(*ssa.Const); lc {
				if _, rc := r.(*ssa.Const); !rc {
					l, r = r, l
					le, re = re, le
					op = flipOp[op]
				}
			}
			if !pol {
				op = negOp[op]
			}
			// len(x) ⋈ n
			if call, ok := l.(*ssa.Call); ok {
				if b, ok := call.Call.Value.(*ssa.Builtin); ok && b.Name() == "len" {
					if n, ok := constIntVal(r); ok {
						if base, be, a, b, isView := c.sliceView(call.Call.Args[0], le); isView {
							// len(base[a:len-b]) ⋈ n  ⇔  len(base) ⋈ n+a+b (given the slice expression did not panic)
							return []Atom{{Kind: "len", Subj: c.key(base, be), Op: op, N: n + a + b, Src: cond}}
						}
						return []Atom{{Kind: "len", Subj: c.key(call.Call.Args[0], le), Op: op, N: n, Src: cond}}
					}
				}
			}
			// len(x) == one of several constants (a phi of constants): bounds on len
			if call, ok := l.(*ssa.Call); ok && op == "==" {
				if bi, ok := call.Call.Value.(*ssa.Builtin); ok && bi.Name() == "len" {
					if lo, hi, ok := constRange(r, 0); ok {
						k := c.key(call.Call.Args[0], le)
						return []Atom{
							{Kind: "cmp", Subj: c.key(l, le), Op: op, Val: c.key(r, re), Src: cond},
							{Kind: "len", Subj: k, Op: ">=", N: lo, Src: cond},
							{Kind: "len", Subj: k, Op: "<=", N: hi, Src: cond},
						}
					}
				}
			}
			if rk, ok := r.(*ssa.Const); ok && rk.Value == nil && (op == "==" || op == "!=") {
				return []Atom{{Kind: "nil", Subj: c.key(l, le), Pos: op == "==", Src: cond}}
			}
			// x == <constant boxed into an interface>, x an interface value: true exactly when x's dynamic type is
			// the constant's type and the values are equal — the same facts as `v, ok := x.(T); ok && v == c`
			if op == "==" {
				if _, isIface := l.Type().Underlying().(*types.Interface); isIface {
					var k *ssa.Const
					if mi, ok := r.(*ssa.MakeInterface); ok {
						k, _ = mi.X.(*ssa.Const)
					} else if rc, ok := r.(*ssa.Const); ok {
						if _, rIface := rc.Type().Underlying().(*types.Interface); !rIface {
							k = rc
						}
					}
					if k != nil {
						if k.Value != nil {
							lk, ts := c.key(l, le), typeStr(k.Type())
							return []Atom{
								{Kind: "cmp", Subj: lk, Op: op, Val: c.key(r, re), Src: cond, Neg: !pol},
								{Kind: "type", Subj: lk, Val: ts, Pos: true, Src: cond, Args: []ssa.Value{l}},
								{Kind: "cmp", Subj: lk + ".(" + ts + ")", Op: "==", Val: c.key(k, nil), Src: cond},
							}
						}
					}
				}
			}
			return []Atom{{Kind: "cmp", Subj: c.key(l, le), Op: op, Val: c.key(r, re), Src: cond, Neg: !pol}}
		}
	case *ssa.Extract:
		if ta, ok := x.Tuple.(*ssa.TypeAssert); ok && x.Index == 1 {
			return []Atom{{Kind: "type", Subj: c.key(ta.X, e), Val: typeStr(ta.AssertedType), Pos: pol, Src: cond, Args: []ssa.Value{c.resolve(ta.X, e)}}}
		}
		if lk, ok := x.Tuple.(*ssa.Lookup); ok && x.Index == 1 {
			return []Atom{{Kind: "call", Subj: "haskey:" + c.key(lk.X, e), Val: c.key(lk.Index, e), Pos: pol, Src: cond, Args: []ssa.Value{c.resolve(lk.Index, e)}}}
		}
	case *ssa.Call:
		// membership in a package-level list of constants: not-in is the conjunction of the inequalities
		// (the positive direction is a disjunction: atomAlts)
		if elems, subj, se, ok := c.membershipCall(x, e); ok && !pol {
			var out []Atom
			for _, el := range elems {
				out = append(out, Atom{Kind: "cmp", Subj: c.key(subj, se), Op: "!=", Val: c.key(el, nil), Src: cond, Neg: true})
			}
			return out
		}
		if f := c.calleeE(x, e); f != nil {
			var ks []string
			var rargs []ssa.Value
			for _, a := range x.Call.Args {
				ks = append(ks, c.key(a, e))
				rargs = append(rargs, c.resolve(a, e))
			}
			name := f.String()
			if inModule(f) {
				name = fnName(f)
			}
			return []Atom{{Kind: "call", Subj: name, Val: strings.Join(ks, ","), Pos: pol, Src: cond, Args: rargs, Fn: f}}
		}
	case *ssa.Phi:
		// a && b  /  a || b used as a value: phi of constants and sub-conditions.
		// pol=true on (a && b) ⇒ both; pol=false on (a || b) ⇒ neither. Recognise the two shapes.
		if at := c.phiBoolAtoms(x, pol, e); at != nil {
			return at
		}
	}
	return []Atom{{Kind: "bool", Subj: c.key(cond, e), Pos: pol, Src: cond}}
}

// phiBoolAtoms handles short-circuit values: phi [false, ..., false, last] is a conjunction whose
// earlier conjuncts are the branch conditions that lead to the final edge.
func (c *Ctx) phiBoolAtoms(p *ssa.Phi, pol bool, e *env) []Atom {
	// a boolean carried round a loop refers to itself through its own edges: read it once
	if c.phiBusy == nil {
		c.phiBusy = map[*ssa.Phi]bool{}
	}
	if c.phiBusy[p] {
		return nil
	}
	c.phiBusy[p] = true
	defer delete(c.phiBusy, p)
	blk := p.Block()
	var lastIdx = -1
	short := !pol // value contributed by short-circuit edges: false for &&, true for ||
	for i, ed := range p.Edges {
		if k, ok := ed.(*ssa.Const); ok && k.Value != nil && k.Value.Kind() == constant.Bool && constant.BoolVal(k.Value) == short {
			continue
		}
		if lastIdx >= 0 {
			return nil
		}
		lastIdx = i
	}
	if lastIdx < 0 {
		return nil
	}
	// phi == pol ⇒ came through the non-short edge ⇒ the edge's value has truth pol, and every
	// condition dominating that predecessor holds as a dominating fact of the predecessor.
	pred := blk.Preds[lastIdx]
	var out []Atom
	for _, f := range c.domFacts(pred) {
		// only facts established after the phi's own dominator (inside the short-circuit chain)
		if blk.Idom() != nil && f.At.Block() != blk.Idom() && !blk.Idom().Dominates(f.At.Block()) {
			continue
		}
		out = append(out, c.atoms(f.Cond, f.Pol, e)...)
	}
	out = append(out, c.atoms(p.Edges[lastIdx], pol, e)...)
	return out
}

// ---------------------------------------------------------------------------------------------
// Dominating-edge facts

type Fact struct {
	Cond ssa.Value
	Pol  bool
	At   *ssa.If
}

func edgeDominates(d, s, b *ssa.BasicBlock) bool {
	if !(s == b || s.Dominates(b)) {
		return false
	}
	for _, p := range s.Preds {
		if p == d {
			continue
		}
		if !(p == s || s.Dominates(p)) {
			return false
		}
	}
	return true
}

// domFacts returns the branch conditions whose outcome is fixed on every path to block b.
func (c *Ctx) domFacts(b *ssa.BasicBlock) []Fact {
	var out []Fact
	for d := b.Idom(); d != nil; d = d.Idom() {
		if len(d.Instrs) == 0 {
			continue
		}
		iff, ok := d.Instrs[len(d.Instrs)-1].(*ssa.If)
		if !ok || d.Succs[0] == d.Succs[1] {
			continue
		}
		if edgeDominates(d, d.Succs[0], b) {
			out = append(out, Fact{iff.Cond, true, iff})
		} else if edgeDominates(d, d.Succs[1], b) {
			out = append(out, Fact{iff.Cond, false, iff})
		}
	}
	return out
}

// domAtoms: all atoms that hold at the start of block b (dominator mode, e == nil).
func (c *Ctx) domAtoms(b *ssa.BasicBlock) []Atom {
	var out []Atom
	for _, f := range c.domFacts(b) {
		out = append(out, c.atoms(f.Cond, f.Pol, nil)...)
	}
	return out
}

// membershipCall: call is slices.Contains(G, x) (or slices.Index(G, x) compared by the caller) for a
// package-level slice G that is a literal of constants written only by the initialiser.
func (c *Ctx) membershipCall(call *ssa.Call, e *env) (elems []ssa.Value, subj ssa.Value, se *env, ok bool) {
	f := call.Call.StaticCallee()
	if f == nil || len(call.Call.Args) != 2 || !strings.HasPrefix(f.String(), "slices.Contains[") {
		return nil, nil, nil, false
	}
	if lit, _, isLit := c.sliceLiteralE(call.Call.Args[0], e); isLit {
		// a list written in place
		elems = lit
	} else {
		g := c.globalBehind(call.Call.Args[0], e)
		if g == nil || !c.onlyInitWrites(g) {
			return nil, nil, nil, false
		}
		arr := c.globalSliceArray(g)
		if arr == nil {
			return nil, nil, nil, false
		}
		elems = localArrayElems(arr)
	}
	if len(elems) == 0 {
		return nil, nil, nil, false
	}
	for _, el := range elems {
		if _, isC := el.(*ssa.Const); !isC {
			return nil, nil, nil, false
		}
	}
	subj, se = c.resolveE(call.Call.Args[1], e)
	return elems, subj, se, true
}

// atomAlts: the condition in disjunctive form — a list of alternative conjunctions. Everything is a
// single conjunction except a positive membership test, which is one alternative per member.
func (c *Ctx) atomAlts(cond ssa.Value, pol bool, e *env) [][]Atom {
	alts, _ := c.atomAltsB(cond, pol, e)
	return alts
}

// atomAltsB also returns, per alternative, values that are known on it: a successful comma-ok lookup in a
// small package-level table of constants is one alternative per entry, on which the value looked up is
// the entry's value.
func (c *Ctx) atomAltsB(cond ssa.Value, pol bool, e *env) ([][]Atom, []map[ssa.Value]ssa.Value) {
	cv := c.resolve(cond, e)
	if ex, ok := cv.(*ssa.Extract); ok && ex.Index == 1 {
		if lk, ok := ex.Tuple.(*ssa.Lookup); ok && lk.CommaOk {
			if g := c.globalBehind(lk.X, e); g != nil && c.onlyInitWrites(g) {
				tb := c.readTable(g.Pkg.Pkg.Path(), g.Name())
				small := tb.Err == "" && len(tb.Entries) > 0 && len(tb.Entries) <= 4
				for _, en := range tb.Entries {
					if _, isC := en.Key.(*ssa.Const); !isC {
						small = false
					}
				}
				if small {
					base := c.atoms(cond, pol, e)
					subj, se := c.resolveE(lk.Index, e)
					sk := c.key(subj, se)
					var val0 ssa.Value
					if refs := lk.Referrers(); refs != nil {
						for _, ref := range *refs {
							if e0, ok := ref.(*ssa.Extract); ok && e0.Index == 0 {
								val0 = e0
							}
						}
					}
					if !pol {
						out := append([]Atom(nil), base...)
						for _, en := range tb.Entries {
							out = append(out, Atom{Kind: "cmp", Subj: sk, Op: "!=", Val: c.key(en.Key, nil), Src: cond, Neg: true})
						}
						return [][]Atom{out}, []map[ssa.Value]ssa.Value{nil}
					}
					var alts [][]Atom
					var binds []map[ssa.Value]ssa.Value
					for _, en := range tb.Entries {
						alt := append(append([]Atom(nil), base...), Atom{Kind: "cmp", Subj: sk, Op: "==", Val: c.key(en.Key, nil), Src: cond})
						alts = append(alts, alt)
						if val0 != nil {
							binds = append(binds, map[ssa.Value]ssa.Value{val0: en.Val})
						} else {
							binds = append(binds, nil)
						}
					}
					return alts, binds
				}
			}
		}
	}
	alts := c.atomAlts0(cond, pol, e)
	return alts, make([]map[ssa.Value]ssa.Value, len(alts))
}

func (c *Ctx) atomAlts0(cond ssa.Value, pol bool, e *env) [][]Atom {
	cv := c.resolve(cond, e)
	neg := false
	for {
		u, ok := cv.(*ssa.UnOp)
		if !ok || u.Op != token.NOT {
			break
		}
		neg = !neg
		cv = c.resolve(u.X, e)
	}
	if call, ok := cv.(*ssa.Call); ok && pol != neg {
		if elems, subj, se, ok := c.membershipCall(call, e); ok {
			var alts [][]Atom
			sk := c.key(subj, se)
			for i, el := range elems {
				alt := []Atom{{Kind: "cmp", Subj: sk, Op: "==", Val: c.key(el, nil), Src: cond}}
				for _, prev := range elems[:i] {
					if c.key(prev, nil) != c.key(el, nil) {
						alt = append(alt, Atom{Kind: "cmp", Subj: sk, Op: "!=", Val: c.key(prev, nil), Src: cond, Neg: true})
					}
				}
				alts = append(alts, alt)
			}
			return alts
		}
	}
	return [][]Atom{c.atoms(cond, pol, e)}
}

// textRoundTrip: inner is itself a conversion between string-kinded types from a value of type outer — T(U(x))
// with x of type T is x (string(word(s)) for a named string type word).
func textRoundTrip(inner ssa.Value, outer types.Type) (ssa.Value, bool) {
	var src ssa.Value
	switch y := inner.(type) {
	case *ssa.Convert:
		src = y.X
	case *ssa.ChangeType:
		src = y.X
	default:
		return nil, false
	}
	if !isStringKind(outer) || !isStringKind(inner.Type()) || !types.Identical(src.Type(), outer) {
		return nil, false
	}
	return src, true
}
