package main

// A7 + FMT (C01): constant format strings, verb/operand agreement, and the interface-operand rule
// for text that the property speaks of (no "%!" markers).

import (
	"fmt"
	"go/types"
	"os"
	"strings"

	"golang.org/x/tools/go/ssa"
)

type fmtVerb struct {
	Verb  rune
	Flags string
}

type fmtSpec struct {
	Literal []string // literal segments; len = len(Verbs)+1
	Verbs   []fmtVerb
	Bad     string
}

func parseFormat(f string) fmtSpec {
	var sp fmtSpec
	var lit strings.Builder
	rs := []rune(f)
	for i := 0; i < len(rs); i++ {
		if rs[i] != '%' {
			lit.WriteRune(rs[i])
			continue
		}
		i++
		if i >= len(rs) {
			sp.Bad = "format ends with a lone %"
			break
		}
		if rs[i] == '%' {
			lit.WriteRune('%')
			continue
		}
		var flags strings.Builder
		for i < len(rs) && strings.ContainsRune("+-# 0123456789.", rs[i]) {
			flags.WriteRune(rs[i])
			i++
		}
		if i >= len(rs) {
			sp.Bad = "format ends inside a verb"
			break
		}
		if rs[i] == '*' || rs[i] == '[' {
			sp.Bad = "argument-indexed or star width formats are not supported by the checker"
			break
		}
		sp.Literal = append(sp.Literal, lit.String())
		lit.Reset()
		sp.Verbs = append(sp.Verbs, fmtVerb{rs[i], flags.String()})
	}
	sp.Literal = append(sp.Literal, lit.String())
	return sp
}

func (sp fmtSpec) literalLen() int {
	n := 0
	for _, l := range sp.Literal {
		n += len(l)
	}
	return n
}

// fmtCall: if in is a call of a fmt formatting function, returns its name, the format value and the operands.
func (c *Ctx) fmtCall(in ssa.Instruction) (name string, format ssa.Value, operands []ssa.Value, ok bool) {
	call, isCall := in.(ssa.CallInstruction)
	if !isCall {
		return
	}
	full := calleeFullName(call)
	args := call.Common().Args
	switch full {
	case "fmt.Sprintf", "fmt.Errorf", "fmt.Printf":
		if len(args) != 2 {
			return
		}
		format = args[0]
		if isNilConst(c.resolve(args[1], nil)) {
			return full, format, nil, true
		}
		ops, isLit := c.sliceLiteral(args[1], nil)
		if !isLit {
			return full, format, nil, false
		}
		return full, format, ops, true
	case "fmt.Fprintf":
		if len(args) != 3 {
			return
		}
		format = args[1]
		ops, isLit := c.sliceLiteral(args[2], nil)
		if !isLit && !isNilConst(c.resolve(args[2], nil)) {
			return full, format, nil, false
		}
		return full, format, ops, true
	}
	return
}

func hasMethod(t types.Type, name string) bool {
	for _, T := range []types.Type{t, types.NewPointer(t)} {
		ms := types.NewMethodSet(T)
		for i := 0; i < ms.Len(); i++ {
			if ms.At(i).Obj().Name() == name {
				if _, isPtr := t.(*types.Pointer); !isPtr && T != t {
					// method only on *T: a T value in an interface does not have it
					continue
				}
				return true
			}
		}
	}
	return false
}

// verbAccepts: does the verb accept a value of concrete (non-interface) type t?
func verbAccepts(v fmtVerb, t types.Type) bool {
	switch v.Verb {
	case 'v', 'T':
		return true
	}
	if hasMethod(t, "Format") {
		return true
	}
	isStr := hasMethod(t, "String") || hasMethod(t, "Error")
	u := t.Underlying()
	if p, ok := u.(*types.Pointer); ok {
		if v.Verb == 'p' {
			return true
		}
		if isStr && strings.ContainsRune("sqxX", v.Verb) {
			return true
		}
		u = p.Elem().Underlying()
		if _, ok := u.(*types.Struct); ok {
			return false
		}
		return false
	}
	switch b := u.(type) {
	case *types.Basic:
		info := b.Info()
		switch {
		case info&types.IsString != 0:
			return strings.ContainsRune("sqxX", v.Verb)
		case info&types.IsInteger != 0:
			return strings.ContainsRune("bcdoOqxXU", v.Verb) || (isStr && strings.ContainsRune("sq", v.Verb))
		case info&types.IsFloat != 0:
			return strings.ContainsRune("beEfFgGxX", v.Verb) || (isStr && strings.ContainsRune("sq", v.Verb))
		case info&types.IsBoolean != 0:
			return v.Verb == 't' || (isStr && strings.ContainsRune("sq", v.Verb))
		}
	case *types.Slice:
		if eb, ok := b.Elem().Underlying().(*types.Basic); ok && eb.Kind() == types.Byte {
			return strings.ContainsRune("sqxX", v.Verb)
		}
		return isStr && strings.ContainsRune("sq", v.Verb)
	}
	return isStr && strings.ContainsRune("sqxX", v.Verb)
}

// operand classification for interface-typed operands in expression renderers
type operandClass int

const (
	opUnknown operandClass = iota
	opChild                // *Expression (Stringer and GoStringer) — %s/%v/%#v all fine
	opPayload              // raw payload string|int|float64|bool|Column — only %v / %#v
)

func (c *Ctx) rendererOps() map[*ssa.Function][]string {
	out := map[*ssa.Function][]string{}
	tb := c.readTable(pkgExpr, "renderers")
	for _, e := range tb.Entries {
		if e.Fn != nil {
			out[e.Fn] = append(out[e.Fn], e.KeyName)
		}
	}
	return out
}

func allLeaf(ops []string) bool {
	for _, o := range ops {
		if !contains(leafOps, o) {
			return false
		}
	}
	return len(ops) > 0
}

func noneLeaf(ops []string) bool {
	for _, o := range ops {
		if contains(leafOps, o) {
			return false
		}
	}
	return len(ops) > 0
}

func (c *Ctx) classifyOperand(fn *ssa.Function, v ssa.Value, rops map[*ssa.Function][]string) (operandClass, string) {
	ops, isRenderer := rops[fn]
	if !isRenderer {
		return opUnknown, ""
	}
	k := c.key(v, nil)
	switch {
	case k == "$0.Left" || k == "$0.Right":
		if noneLeaf(ops) {
			// a List node's Left is a slice, not a child
			if k == "$0.Left" && contains(ops, "expr.List") {
				return opUnknown, "Left of a List node is a slice"
			}
			return opChild, "child of a non-leaf node (INV-EXPR: the constructor wraps raw literals)"
		}
		if allLeaf(ops) && k == "$0.Left" {
			return opPayload, "payload of a leaf node"
		}
		return opUnknown, "renderer registered for both leaf and non-leaf operators"
	case strings.HasPrefix(k, "$0.Left.([]*expr.Expression)[") && strings.HasSuffix(k, "].Left"):
		if len(ops) == 1 && ops[0] == "expr.List" {
			return opPayload, "payload of a list element (validateList proves the elements are leaves)"
		}
	case strings.HasPrefix(k, "$0.Right.(*expr.RangeBoundary).") && (strings.HasSuffix(k, ".Min") || strings.HasSuffix(k, ".Max")):
		return opChild, "range bound (every writer of RangeBoundary.Min/Max stores a *Expression)"
	}
	return opUnknown, ""
}

func ruleFMT(c *Ctx, r *Report) {
	const rule = "FMT"
	r.doc(rule, "every fmt.Sprintf/Errorf/Fprintf in the reachable set has a constant format, matching arity and verbs that accept the operand's static type; in the expression renderers an interface operand that is a raw leaf payload admits only %v/%#v, a child expression admits %s/%v/%#v")
	reach := c.reachFrom(append(c.rootsC01(), c.rootsC13()...))
	rops := c.rendererOps()
	n := 0
	for _, fn := range sortedFuncs(reach) {
		if !inLib(fn) {
			continue
		}
		for _, b := range fn.Blocks {
			for _, in := range b.Instrs {
				name, format, operands, ok := c.fmtCall(in)
				if name == "" {
					continue
				}
				okOps := ok
				n++
				pos := c.instrPos(in)
				fs, isConst := constStringVal(c.resolve(format, nil))
				if !isConst {
					// a format chosen among constants (phi of constant strings): every alternative is checked
					if alts, ok := c.constStringSet(format, 0); ok && len(alts) > 0 {
						for _, alt := range alts {
							key := fmt.Sprintf("%s|%q", fnName(fn), alt)
							if !okOps {
								r.bad(rule, key+"|operands", pos, "operands are not a literal argument list")
								continue
							}
							c.checkFormat(r, rule, fn, key, pos, alt, operands, rops, name != "fmt.Errorf")
						}
						continue
					}
					// a forwarding wrapper (errorf(format, args...)) is checked at its call sites
					if p, isParam := c.resolve(format, nil).(*ssa.Parameter); isParam && fn.Signature.Variadic() {
						_ = p
						c.fmtWrapperSites(r, fn, reach)
						continue
					}
					r.bad(rule, fnName(fn)+"|non-constant-format", pos, "format string is not a constant")
					continue
				}
				key := fmt.Sprintf("%s|%q", fnName(fn), fs)
				if !ok {
					r.bad(rule, key+"|operands", pos, "operands are not a literal argument list")
					continue
				}
				c.checkFormat(r, rule, fn, key, pos, fs, operands, rops, name != "fmt.Errorf")
			}
		}
	}
	r.floor(rule, "format call sites", n, 60)
}

// constStringSet: the string constants v can be (a constant, or a phi of such), nil,false otherwise.
func (c *Ctx) constStringSet(v ssa.Value, depth int) ([]string, bool) {
	if depth > 4 {
		return nil, false
	}
	v = c.resolve(v, nil)
	if s, ok := constStringVal(v); ok {
		return []string{s}, true
	}
	ph, ok := v.(*ssa.Phi)
	if !ok {
		return nil, false
	}
	set := map[string]bool{}
	for _, e := range ph.Edges {
		if e == ssa.Value(ph) {
			continue
		}
		alts, ok := c.constStringSet(e, depth+1)
		if !ok {
			return nil, false
		}
		for _, a := range alts {
			set[a] = true
		}
	}
	out := setKeys(set)
	return out, true
}

func (c *Ctx) fmtWrapperSites(r *Report, wrapper *ssa.Function, reach map[*ssa.Function]bool) {
	for _, fn := range sortedFuncs(reach) {
		for _, b := range fn.Blocks {
			for _, in := range b.Instrs {
				call, ok := in.(ssa.CallInstruction)
				if !ok || staticCallee(call) != wrapper {
					continue
				}
				args := call.Common().Args
				// receiver, format, variadic slice
				if len(args) < 2 {
					continue
				}
				fs, isConst := constStringVal(c.resolve(args[len(args)-2], nil))
				key := fmt.Sprintf("%s|via %s|%q", fnName(fn), fnName(wrapper), fs)
				if !isConst {
					r.bad("FMT", key, c.instrPos(in), "format string passed to "+fnName(wrapper)+" is not a constant")
					continue
				}
				var operands []ssa.Value
				if !isNilConst(c.resolve(args[len(args)-1], nil)) {
					ops, isLit := c.sliceLiteral(args[len(args)-1], nil)
					if !isLit {
						r.bad("FMT", key, c.instrPos(in), "operands are not a literal argument list")
						continue
					}
					operands = ops
				}
				c.checkFormat(r, "FMT", fn, key, c.instrPos(in), fs, operands, nil, false)
			}
		}
	}
}

func (c *Ctx) checkFormat(r *Report, rule string, fn *ssa.Function, key, pos, fs string, operands []ssa.Value, rops map[*ssa.Function][]string, text bool) {
	sp := parseFormat(fs)
	if sp.Bad != "" {
		r.bad(rule, key+"|syntax", pos, sp.Bad)
		return
	}
	if len(sp.Verbs) != len(operands) {
		r.bad(rule, key+"|arity", pos, fmt.Sprintf("format %q has %d verb(s) but %d operand(s): the output contains %%!(EXTRA …) or %%!v(MISSING)", fs, len(sp.Verbs), len(operands)))
		return
	}
	okAll := true
	for i, v := range sp.Verbs {
		op := operands[i]
		// a formatting method that formats its own receiver with a verb that calls the same method again
		// recurses without end (fatal stack overflow)
		if fn.Signature.Recv() != nil && len(fn.Params) > 0 {
			self := false
			switch x := c.resolve(op, nil).(type) {
			case *ssa.Parameter:
				self = x == fn.Params[0]
			case *ssa.UnOp:
				if p, ok := c.resolve(x.X, nil).(*ssa.Parameter); ok && p == fn.Params[0] {
					self = true
				}
			}
			calls := ""
			switch fn.Name() {
			case "String", "Error":
				if strings.ContainsRune("vsqxX", v.Verb) && !strings.Contains(v.Flags, "#") || strings.ContainsRune("sqxX", v.Verb) {
					calls = fn.Name()
				}
			case "GoString":
				if v.Verb == 'v' && strings.Contains(v.Flags, "#") {
					calls = "GoString"
				}
			}
			if self && calls != "" {
				var ot types.Type = op.Type()
				if mi, ok := op.(*ssa.MakeInterface); ok {
					ot = mi.X.Type()
				}
				if _, isIface := ot.Underlying().(*types.Interface); !isIface && !hasMethod(ot, calls) {
					self = false // e.g. *recv formatted where the method is declared on the pointer only
				}
			}
			if self && calls != "" {
				okAll = false
				r.bad(rule, fmt.Sprintf("%s|self-format%d", key, i), pos, fmt.Sprintf("%s formats its own receiver with %%%s%c, which calls %s again: printing such a value recurses until the stack overflows (a fatal error, not even a panic)", fnName(fn), v.Flags, v.Verb, calls))
				continue
			}
		}
		var st types.Type
		if mi, ok := op.(*ssa.MakeInterface); ok {
			st = mi.X.Type()
		} else {
			st = op.Type()
		}
		vs := "%" + v.Flags + string(v.Verb)
		if _, isIface := st.Underlying().(*types.Interface); !isIface {
			if !verbAccepts(v, st) {
				okAll = false
				r.bad(rule, fmt.Sprintf("%s|verb%d", key, i), pos, fmt.Sprintf("verb %s does not accept an operand of type %s: the output contains a %%!%c(…) marker", vs, typeStr(st), v.Verb))
			}
			continue
		}
		// an interface operand whose possible dynamic types are known (a parameter of a private helper
		// that receives concrete values at every call site, or a choice among such): the verb must accept
		// each of them
		if dts, known := c.dynTypes(op, 0); known && len(dts) > 0 {
			for _, dt := range dts {
				if !verbAccepts(v, dt) {
					okAll = false
					r.bad(rule, fmt.Sprintf("%s|verb%d←%s", key, i, typeStr(dt)), pos, fmt.Sprintf("verb %s is applied to an interface operand that holds a %s at one of the call sites of %s: the output contains a %%!%c(%s=…) marker", vs, typeStr(dt), fnName(fn), v.Verb, typeStr(dt)))
				}
			}
			continue
		}
		if !text || rops == nil {
			continue
		}
		cls, why := c.classifyOperand(fn, op, rops)
		ok := true
		switch cls {
		case opPayload:
			ok = v.Verb == 'v'
		case opChild:
			ok = strings.ContainsRune("svq", v.Verb)
		default:
			// unknown interface operand in a text-producing format: only %v is safe
			if _, isRenderer := rops[fn]; isRenderer {
				ok = v.Verb == 'v'
				why = "interface operand of unknown dynamic type in an expression renderer"
			}
		}
		if !ok {
			okAll = false
			r.bad(rule, fmt.Sprintf("%s|verb%d←%s", key, i, c.key(op, nil)), pos,
				fmt.Sprintf("verb %s is applied to %s (%s): for an int/float/bool payload the text contains %%!%c(int=…)", vs, c.key(op, nil), why, v.Verb))
		}
	}
	if okAll {
		r.ok(rule, key, pos, fmt.Sprintf("%d verb(s) agree with operands", len(sp.Verbs)))
	}
}

// dynTypes: the concrete types an interface-typed value can hold, when every source is visible: a
// MakeInterface, a phi of such, or a parameter of a private helper (all call sites are static calls in
// the module) whose arguments are such. known=false when any source is opaque.
func (c *Ctx) dynTypes(v ssa.Value, depth int) ([]types.Type, bool) {
	if depth > 4 {
		return nil, false
	}
	v, _ = c.resolveX(v, nil, false)
	switch x := v.(type) {
	case *ssa.MakeInterface:
		if _, isIface := x.X.Type().Underlying().(*types.Interface); isIface {
			return nil, false
		}
		return []types.Type{x.X.Type()}, true
	case *ssa.ChangeInterface:
		return c.dynTypes(x.X, depth+1)
	case *ssa.Phi:
		var out []types.Type
		for _, e := range x.Edges {
			if e == ssa.Value(x) {
				continue
			}
			ts, ok := c.dynTypes(e, depth+1)
			if !ok {
				return nil, false
			}
			out = append(out, ts...)
		}
		return out, true
	case *ssa.Parameter:
		fn := x.Parent()
		sites, private := c.privateHelper(fn)
		if !private {
			return nil, false
		}
		idx := -1
		for i, p := range fn.Params {
			if p == x {
				idx = i
			}
		}
		if idx < 0 {
			return nil, false
		}
		var out []types.Type
		for _, s := range sites {
			if idx >= len(s.Call.Args) {
				return nil, false
			}
			ts, ok := c.dynTypes(s.Call.Args[idx], depth+1)
			if !ok {
				return nil, false
			}
			out = append(out, ts...)
		}
		return out, true
	}
	return nil, false
}

// FMT-ADDR (C14): formatted text never contains a memory address. fmt prints an address for a pointer, channel,
// function or unsafe.Pointer it cannot look into: at the top level for pointers to non-composites, below the
// top level for every pointer; and it never calls String/Error/Format on a value it reached through an
// unexported struct field, so below such a field even a pointer with a String method prints as an address.
// Addresses differ between calls and runs: a result (or error text) built from one is not a function of the
// arguments.
func ruleFMTADDR(c *Ctx, r *Report) {
	const rule = "FMT-ADDR"
	r.doc(rule, "no operand of a fmt formatting call in the reachable library code prints as a memory address: not a pointer/chan/func/unsafe.Pointer that fmt cannot render through a String/Error/Format method (pointers to structs, arrays, slices and maps are looked into at the top level only), and no such value — nor an interface that may hold one — below an unexported struct field, where fmt does not call methods; %p never")
	roots := append(c.rootsC01(), c.rootsC13()...)
	reach := c.reachFrom(roots)
	n := 0
	for _, fn := range sortedFuncs(reach) {
		if !inLib(fn) {
			continue
		}
		for _, b := range fn.Blocks {
			for _, in := range b.Instrs {
				call, ok := in.(ssa.CallInstruction)
				if !ok {
					continue
				}
				callee := call.Common().StaticCallee()
				if callee == nil || !strings.HasPrefix(calleeFullName(call), "fmt.") || !callee.Signature.Variadic() {
					continue
				}
				args := call.Common().Args
				ops, isLit := c.sliceLiteral(args[len(args)-1], nil)
				if os.Getenv("LUCDBG") != "" {
					fmt.Fprintln(os.Stderr, "FMT-ADDR call", fnName(fn), calleeFullName(call), len(args), isLit, len(ops))
				}
				if !isLit {
					continue
				}
				var verbs []fmtVerb
				if strings.HasSuffix(callee.Name(), "f") && len(args) >= 2 {
					if k, isConst := c.resolve(args[len(args)-2], nil).(*ssa.Const); isConst {
						if fs, isStr := constStringVal(k); isStr {
							verbs = parseFormat(fs).Verbs
						}
					}
				}
				for i, op := range ops {
					var t types.Type
					if mi, isBox := op.(*ssa.MakeInterface); isBox {
						t = mi.X.Type()
					} else if rv := c.resolve(op, nil); rv != nil && !types.IsInterface(rv.Type()) {
						t = rv.Type()
					} else {
						continue
					}
					n++
					key := fmt.Sprintf("%s|%s|operand%d", fnName(fn), callee.Name(), i)
					if i < len(verbs) && verbs[i].Verb == 'p' {
						r.bad(rule, key, c.instrPos(in), fmt.Sprintf("%s formats operand %d (%s) with %%p: the text contains an address, which differs from call to call", fnName(fn), i, typeStr(t)))
						continue
					}
					if i < len(verbs) && verbs[i].Verb == 'T' {
						r.ok(rule, key, c.instrPos(in), "%T prints the type only")
						continue
					}
					if why := fmtPrintsAddress(t, 0, true, map[types.Type]bool{}); why != "" {
						r.bad(rule, key, c.instrPos(in), fmt.Sprintf("%s formats operand %d of type %s: %s — the text contains an address, which differs from call to call", fnName(fn), i, typeStr(t), why))
					} else {
						r.ok(rule, key, c.instrPos(in), "operand of type "+typeStr(t)+" prints through values and methods only")
					}
				}
			}
		}
	}
	r.floor(rule, "boxed operands of fmt calls", n, 20)
}

// fmtPrintsAddress: why a value of static type t, at the given depth below the operand and reached through
// exported fields only (methods) or not, may print as an address; "" if it cannot.
func fmtPrintsAddress(t types.Type, depth int, methods bool, seen map[types.Type]bool) string {
	if seen[t] {
		return ""
	}
	seen[t] = true
	defer delete(seen, t)
	if methods && (hasMethod(t, "Format") || hasMethod(t, "String") || hasMethod(t, "Error")) {
		return ""
	}
	switch u := t.Underlying().(type) {
	case *types.Basic:
		if u.Kind() == types.UnsafePointer {
			return "an unsafe.Pointer prints as an address"
		}
		return ""
	case *types.Pointer:
		if depth == 0 {
			switch u.Elem().Underlying().(type) {
			case *types.Struct, *types.Array, *types.Slice, *types.Map:
				return fmtPrintsAddress(u.Elem(), 1, methods, seen)
			}
		}
		if !methods {
			return "a " + typeStr(t) + " below an unexported field prints as an address (fmt calls no methods there)"
		}
		return "a " + typeStr(t) + " without a String/Error/Format method prints as an address"
	case *types.Chan, *types.Signature:
		return "a " + typeStr(t) + " prints as an address"
	case *types.Struct:
		for i := 0; i < u.NumFields(); i++ {
			f := u.Field(i)
			if why := fmtPrintsAddress(f.Type(), depth+1, methods && f.Exported(), seen); why != "" {
				return "field " + f.Name() + ": " + why
			}
		}
	case *types.Array:
		return fmtPrintsAddress(u.Elem(), depth+1, methods, seen)
	case *types.Slice:
		return fmtPrintsAddress(u.Elem(), depth+1, methods, seen)
	case *types.Map:
		if why := fmtPrintsAddress(u.Key(), depth+1, methods, seen); why != "" {
			return why
		}
		return fmtPrintsAddress(u.Elem(), depth+1, methods, seen)
	case *types.Interface:
		if !methods {
			return "an interface value below an unexported field is printed without its methods: a pointer held in it prints as an address"
		}
	}
	return ""
}
