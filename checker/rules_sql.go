package main

// SQL rules for C02/C03: SQL-OPMAP, SQL-VOCAB, SQL-LEAF, SQL-TAINT, SQL-IDLEN, SQL-PAREN,
// SQL-RANGE, SQL-NUM, MARKER-AGREE.

import (
	"fmt"
	"go/token"
	"go/types"
	"regexp"
	"sort"
	"strconv"
	"strings"

	"golang.org/x/tools/go/ssa"
)

// successSkeletons: skeleton of result #0 on every path of fn whose error result is nil.
type skelRow struct {
	P     *Path // the path in the function itself (its return gives the position)
	Atoms []Atom
	Skel  []Seg
	Str   string
}

func (c *Ctx) successSkeletons(fn *ssa.Function) ([]skelRow, string) {
	paths, complete := c.enumPathsInl(fn, 20000, c.serKeep()...)
	if !complete {
		return nil, "too many paths in " + fnName(fn)
	}
	var out []skelRow
	n := fn.Signature.Results().Len()
	for _, p := range paths {
		if p.Ret == nil || len(p.Ret.Results) != n {
			continue
		}
		// a forwarded (value, error) pair of a helper call: splice the helper's success paths in
		if call, args := c.forwardedHelper(fn, p); call != nil {
			sub, err := c.successSkeletons(call.Call.StaticCallee())
			if err != "" {
				return nil, err
			}
			for _, q := range sub {
				row := skelRow{P: p}
				row.Atoms = append(row.Atoms, p.Atoms...)
				for _, a := range q.Atoms {
					b := a
					b.Subj, b.Val = substParams(a.Subj, args), substParams(a.Val, args)
					row.Atoms = append(row.Atoms, b)
				}
				for _, sg := range q.Skel {
					if !sg.isLit() {
						sg.Hole = substParams(sg.Hole, args)
					}
					row.Skel = append(row.Skel, sg)
				}
				row.Str = skelString(row.Skel)
				out = append(out, row)
			}
			continue
		}
		if !isNilConst(c.resolve(p.Ret.Results[n-1], p.Env)) {
			continue
		}
		sk := c.skeleton(p.Ret.Results[0], p.Env)
		out = append(out, skelRow{P: p, Atoms: p.Atoms, Skel: sk, Str: skelString(sk)})
	}
	return out, ""
}

// forwardedHelper: the path returns result #0 and the error of one call of a non-recursive module
// helper (return h(x) / s, err = h(x); return s, …, err). Returns the call and its argument keys.
func (c *Ctx) forwardedHelper(fn *ssa.Function, p *Path) (*ssa.Call, []string) {
	n := len(p.Ret.Results)
	var call *ssa.Call
	switch v := c.resolve(p.Ret.Results[0], p.Env).(type) {
	case *ssa.Extract:
		if v.Index == 0 {
			call, _ = v.Tuple.(*ssa.Call)
		}
	}
	if call == nil {
		return nil, nil
	}
	ev, ok := c.resolve(p.Ret.Results[n-1], p.Env).(*ssa.Extract)
	if !ok || ev.Tuple != ssa.Value(call) {
		return nil, nil
	}
	h := call.Call.StaticCallee()
	if h == nil || !inModule(h) || h.Blocks == nil || h == fn || h.Signature.Recv() != nil {
		return nil, nil // methods of the driver are the recursive renderers/serialisers themselves
	}
	hr := h.Signature.Results()
	if hr.Len() < 2 || !isErrorType(hr.At(hr.Len()-1).Type()) || ev.Index != hr.Len()-1 || !isStringType(hr.At(0).Type()) {
		return nil, nil
	}
	var args []string
	for _, a := range call.Call.Args {
		args = append(args, c.key(a, p.Env))
	}
	return call, args
}

// substitute closure bindings: {^op:%s} with the bound operator's name from toString
func (c *Ctx) bindSkeleton(s string, e *TableEntry) string {
	if e != nil && e.Fn != nil && e.Recv != nil {
		return c.bindReceiver(s, e)
	}
	if e == nil || e.Fn == nil || len(e.Bound) == 0 {
		return s
	}
	ts := c.readTable(pkgExpr, "toString").byKey()
	for i, fv := range e.Fn.FreeVars {
		if i >= len(e.Bound) {
			break
		}
		bk := c.key(e.Bound[i], nil)
		name := bk
		if te := ts[bk]; te != nil {
			if sv, ok := constStringVal(te.Val); ok {
				name = sv
			}
		}
		if sv, ok := constStringVal(c.resolve(e.Bound[i], nil)); ok {
			name = sv // a constant string bound into the closure is spliced as it is
		}
		s = strings.ReplaceAll(s, "{^"+fv.Name()+":%s}", name)
		s = strings.ReplaceAll(s, "{^"+fv.Name()+":%v}", name)
		s = strings.ReplaceAll(s, "{^"+fv.Name()+"}", name)
	}
	return s
}

var paramRe = regexp.MustCompile(`\$(\d+)`)

// bindReceiver: the render function is a bound method value (compound{op: expr.And}.render): fields of the
// receiver literal are substituted like closure bindings, and the remaining parameters are renumbered so
// that the first operand is $0 again.
func (c *Ctx) bindReceiver(s string, e *TableEntry) string {
	ts := c.readTable(pkgExpr, "toString").byKey()
	for f, v := range structLiteralFields(e.Recv) {
		if p := paramBehind(v); p != nil && e.RecvArg != nil {
			if a, ok := e.RecvArg[p]; ok {
				v = a
			}
		}
		bk := c.key(v, nil)
		name := bk
		if te := ts[bk]; te != nil {
			if sv, ok := constStringVal(te.Val); ok {
				name = sv
			}
		}
		if sv, ok := constStringVal(c.resolve(v, nil)); ok {
			name = sv
		}
		for _, verb := range []string{":%s", ":%v", ""} {
			s = strings.ReplaceAll(s, "{$0."+f+verb+"}", name)
		}
	}
	return paramRe.ReplaceAllStringFunc(s, func(m string) string {
		n := atoi(m[1:])
		if n == 0 {
			return m
		}
		return fmt.Sprintf("$%d", n-1)
	})
}

func (c *Ctx) pgPreamble(r *Report, rule string) *PGTable {
	pt := c.pgTable()
	if pt.Err != "" {
		r.bad(rule, "pgtable", "-", "postgres render table could not be read: "+pt.Err)
		return nil
	}
	for k, e := range pt.Eff {
		if e.Fn != nil {
			r.unit("render functions", k+"→"+fnName(e.Fn))
		}
	}
	return pt
}

var opmapOracle = map[string][]string{
	"expr.Equals":    {"{$0} = {$1}"},
	"expr.Greater":   {"{$0} > {$1}"},
	"expr.GreaterEq": {"{$0} >= {$1}"},
	"expr.Less":      {"{$0} < {$1}"},
	"expr.LessEq":    {"{$0} <= {$1}"},
	"expr.And":       {"{$0} AND {$1}"},
	"expr.Or":        {"{$0} OR {$1}"},
	"expr.Not":       {"NOT({$0})"},
	"expr.MustNot":   {"NOT({$0})"},
	"expr.Must":      {"{$0}"},
	"expr.In":        {"{$0} IN {$1}"},
	"expr.List":      {"({$0})"},
	"expr.Literal":   {"{$0}"},
	"expr.Wild":      {"{$0}"},
	"expr.Regexp":    {"{$0}"},
	"expr.Like": {"{$0} ~ {$1}",
		`{$0} SIMILAR TO {rewrite[*→%,?→_]($1)}`},
}

// stripTextConvs removes conversions between string and the driver's own named string types from a key: the
// text is the same (string(likePattern(x)) is x).
func stripTextConvs(s string) string {
	for {
		i := strings.Index(s, "conv:")
		for i >= 0 {
			rest := s[i+len("conv:"):]
			j := strings.Index(rest, "(")
			if j > 0 && (rest[:j] == "string" || strings.HasPrefix(rest[:j], "driver.")) {
				break
			}
			n := strings.Index(s[i+1:], "conv:")
			if n < 0 {
				i = -1
			} else {
				i = i + 1 + n
			}
		}
		if i < 0 {
			return s
		}
		open := i + strings.Index(s[i:], "(")
		depth, end := 0, -1
		for k := open; k < len(s); k++ {
			if s[k] == '(' {
				depth++
			} else if s[k] == ')' {
				depth--
				if depth == 0 {
					end = k
					break
				}
			}
		}
		if end < 0 {
			return s
		}
		s = s[:i] + s[open+1:end] + s[end+1:]
	}
}

// SQL-OPMAP (C03): operator → SQL mapping table agreement.
func ruleSQLOPMAP(c *Ctx, r *Report) {
	const rule = "SQL-OPMAP"
	r.doc(rule, "for each operator the function registered in the postgres table: its result skeleton on every success path (constants + holes, closure bindings resolved through toString) equals the oracle mapping written from the property text, holes being the left/right parameters in order")
	pt := c.pgPreamble(r, rule)
	if pt == nil {
		return
	}
	var ops []string
	for op := range opmapOracle {
		ops = append(ops, op)
	}
	sort.Strings(ops)
	for _, op := range ops {
		e := pt.Eff[op]
		if e == nil || e.Fn == nil {
			r.bad(rule, op+"|registered", "-", "no render function is registered for "+op+" in the postgres driver")
			continue
		}
		rows, err := c.successSkeletons(e.Fn)
		if err != "" {
			r.bad(rule, op+"|paths", c.pos(e.Fn.Pos()), err)
			continue
		}
		got := map[string]bool{}
		for _, row := range rows {
			got[stripTextConvs(c.bindSkeleton(row.Str, e))] = true
		}
		want := opmapOracle[op]
		var gs []string
		for g := range got {
			gs = append(gs, g)
		}
		sort.Strings(gs)
		ok := len(gs) == len(want)
		for _, w := range want {
			if !got[w] {
				ok = false
			}
		}
		if ok {
			r.ok(rule, op, c.pos(e.Fn.Pos()), strings.Join(gs, " | "))
		} else {
			r.bad(rule, op, c.pos(e.Fn.Pos()), fmt.Sprintf("%s must render as %q; %s renders %q", op, want, fnName(e.Fn), gs))
		}
	}
	// Like: the regexp-vs-wildcard branch is taken on a /…/ pattern
	if e := pt.Eff["expr.Like"]; e != nil && e.Fn != nil {
		for _, t := range c.regexpTests(e.Fn) {
			if t.ok {
				r.ok(rule, "expr.Like|regexp-test", t.pos, "~ chosen when the pattern is /…/")
			} else {
				r.bad(rule, "expr.Like|regexp-test", t.pos, "the regular-expression operator ~ is chosen without testing that the pattern is delimited by slashes")
			}
		}
	}
}

var sqlVocab = map[string]bool{"AND": true, "OR": true, "NOT": true, "=": true, "<": true, "<=": true, ">": true, ">=": true,
	"BETWEEN": true, "IN": true, "SIMILAR": true, "TO": true, "~": true, "(": true, ")": true, ",": true, "?": true, "'": true, "\"": true,
	"[": true, "]": true, "'*'": true, "%": true, "_": true, "*": true}

var tokRe = regexp.MustCompile(`'\*'|[A-Za-z_]+|<=|>=|--|/\*|\*/|::|\S`)

func isStringSlice(t types.Type) bool {
	sl, ok := t.Underlying().(*types.Slice)
	return ok && isStringType(sl.Elem())
}

func vocabCheck(lit string) []string {
	var bad []string
	for _, t := range tokRe.FindAllString(lit, -1) {
		if !sqlVocab[t] {
			bad = append(bad, t)
		}
	}
	return bad
}

// SQL-VOCAB (C02): every constant fragment that reaches the SQL text is on the vocabulary.
func ruleSQLVOCAB(c *Ctx, r *Report) {
	const rule = "SQL-VOCAB"
	r.doc(rule, "all string constants that reach result #0 of the functions in the postgres table, the serialisers, Render/RenderParam and the parameterized range/like functions (format literals, concatenation operands, ReplaceAll replacements, operator names bound into closures) are tokenised; every token is in {AND OR NOT = < <= > >= BETWEEN IN SIMILAR TO ~ ( ) , ? ' \" [ ] '*' % _ *}")
	pt := c.pgPreamble(r, rule)
	if pt == nil {
		return
	}
	dr := c.driverRoles()
	type target struct {
		fn *ssa.Function
		e  *TableEntry
	}
	var targets []target
	seen := map[*ssa.Function]bool{}
	for _, e := range pt.Eff {
		if e.Fn != nil && !seen[e.Fn] {
			seen[e.Fn] = true
			targets = append(targets, target{e.Fn, e})
		}
	}
	for _, f := range []*ssa.Function{dr.Render, dr.RenderParam, dr.Ser, dr.SerParam, dr.RangeParam, dr.LikeParam} {
		if f != nil && !seen[f] {
			seen[f] = true
			targets = append(targets, target{f, nil})
		}
	}
	sort.Slice(targets, func(i, j int) bool { return fnName(targets[i].fn) < fnName(targets[j].fn) })
	nLits := 0
	for _, t := range targets {
		// every string constant used in a string-producing instruction of the function (not in
		// error construction): format strings of Sprintf, operands of +, ReplaceAll/Join arguments,
		// returned constants
		lits := map[string]string{}
		for _, b := range t.fn.Blocks {
			for _, in := range b.Instrs {
				switch x := in.(type) {
				case *ssa.Call:
					name := calleeFullName(x)
					switch name {
					case "fmt.Sprintf":
						if onlyErrorText(x, 0) {
							break
						}
						if fs, ok := constStringVal(x.Call.Args[0]); ok {
							sp := parseFormat(fs)
							for _, l := range sp.Literal {
								lits[l] = c.instrPos(in)
							}
						}
					case "strings.ReplaceAll", "strings.Replace":
						if s, ok := constStringVal(x.Call.Args[2]); ok {
							lits[s] = c.instrPos(in)
						}
					case "strings.Join":
						if s, ok := constStringVal(x.Call.Args[1]); ok {
							lits[s] = c.instrPos(in)
						}
					case "(*strings.Replacer).Replace":
						if rp := c.replacerPairs(x.Call.Args[0]); rp != nil {
							for _, pr := range rp {
								lits[pr[1]] = c.instrPos(in)
							}
						} else {
							lits["<replacer with non-constant pairs>"] = c.instrPos(in)
						}
					}
				case *ssa.BinOp:
					if isStringType(x.Type()) && !onlyErrorText(x, 0) {
						for _, op := range []ssa.Value{x.X, x.Y} {
							if s, ok := constStringVal(op); ok {
								lits[s] = c.instrPos(in)
							}
						}
					}
				case *ssa.Return:
					if len(x.Results) > 0 {
						if s, ok := constStringVal(x.Results[0]); ok {
							lits[s] = c.instrPos(in)
						}
					}
				}
			}
		}
		// closure bindings (operator names)
		if t.e != nil && len(t.e.Bound) > 0 {
			ts := c.readTable(pkgExpr, "toString").byKey()
			for _, bnd := range t.e.Bound {
				bk := c.key(bnd, nil)
				if te := ts[bk]; te != nil {
					if sv, ok := constStringVal(te.Val); ok {
						lits[sv] = c.instrPos(t.e.Pos)
					}
				}
			}
		}
		var keys []string
		for l := range lits {
			keys = append(keys, l)
		}
		sort.Strings(keys)
		for _, l := range keys {
			nLits++
			key := fmt.Sprintf("%s|%q", fnName(t.fn), l)
			if bad := vocabCheck(l); len(bad) > 0 {
				r.bad(rule, key, lits[l], fmt.Sprintf("%s contributes the constant %q to the SQL text; %q is outside the allowed vocabulary (comparisons, AND/OR/NOT, BETWEEN, IN, SIMILAR TO, ~, brackets, quotes, placeholders)", fnName(t.fn), l, bad))
			} else {
				r.ok(rule, key, lits[l], "in vocabulary")
			}
		}
	}
	// all closures in the table: the bound operator must be And / Or / Not
	for op, e := range pt.Eff {
		for _, bnd := range e.Bound {
			bk := c.key(bnd, nil)
			key := "binding|" + op
			if sv, ok := constStringVal(c.resolve(bnd, nil)); ok {
				if bad := vocabCheck(sv); len(bad) > 0 {
					r.bad(rule, key, c.instrPos(e.Pos), fmt.Sprintf("the render closure for %s is bound to the constant %q, which is spliced into the SQL text; %q is outside the allowed vocabulary", op, sv, bad))
				} else {
					r.ok(rule, key, c.instrPos(e.Pos), fmt.Sprintf("constant %q in vocabulary", sv))
				}
				continue
			}
			if bk == "expr.And" || bk == "expr.Or" || bk == "expr.Not" {
				r.ok(rule, key, c.instrPos(e.Pos), bk)
			} else {
				r.bad(rule, key, c.instrPos(e.Pos), "the render closure for "+op+" is bound to "+bk+", whose name would be spliced into the SQL text")
			}
		}
	}
	r.floor(rule, "constant fragments", nLits, 30)
}

// SQL-LEAF (C02): the leaf render function rejects NUL and invalid UTF-8 on every success path.
func ruleSQLLEAF(c *Ctx, r *Report) {
	const rule = "SQL-LEAF"
	r.doc(rule, "for each of Literal, Wild, Regexp the function registered in the postgres table: every path to a success return passes the failing edge of an invalid-UTF-8 test and of a NUL test on the rendered text (must-pass-through)")
	pt := c.pgPreamble(r, rule)
	if pt == nil {
		return
	}
	for _, op := range leafOps {
		e := pt.Eff[op]
		if e == nil || e.Fn == nil {
			r.bad(rule, op+"|registered", "-", "no render function registered for "+op)
			continue
		}
		rows, err := c.successSkeletons(e.Fn)
		if err != "" || len(rows) == 0 {
			r.bad(rule, op+"|paths", c.pos(e.Fn.Pos()), "no success path / "+err)
			continue
		}
		okU, okN := true, true
		for _, row := range rows {
			u, n := false, false
			for _, a := range row.Atoms {
				if a.Kind == "call" && a.Subj == "unicode/utf8.ValidString" && a.Val == "$0" && a.Pos {
					u = true
				}
				if a.Kind == "call" && a.Val == "$0,0" && !a.Pos && (a.Subj == "strings.ContainsRune" || a.Subj == "strings.IndexByte" || a.Subj == "strings.IndexRune") {
					n = true
				}
				if a.Kind == "call" && a.Val == `$0,"\x00"` && !a.Pos && a.Subj == "strings.Contains" {
					n = true
				}
				if a.Kind == "cmp" && strings.HasPrefix(a.Subj, "strings.Index") && strings.Contains(a.Subj, "$0,0") && (a.Op == "<" && a.Val == "0" || a.Op == "==" && a.Val == "-1") {
					n = true
				}
			}
			if !u {
				okU = false
			}
			if !n {
				okN = false
			}
			if row.Str != "{$0}" {
				r.bad(rule, op+"|identity", c.instrPos(row.P.Ret), "the leaf render function must return the serialised leaf unchanged; it returns "+row.Str)
			}
		}
		if okU {
			r.ok(rule, op+"|utf8", c.pos(e.Fn.Pos()), "utf8.ValidString on every success path")
		} else {
			r.bad(rule, op+"|utf8", c.pos(e.Fn.Pos()), fnName(e.Fn)+" (registered for "+op+") can succeed on text that is not valid UTF-8: PostgreSQL rejects or mis-decodes the statement")
		}
		if okN {
			r.ok(rule, op+"|nul", c.pos(e.Fn.Pos()), "NUL rejected on every success path")
		} else {
			r.bad(rule, op+"|nul", c.pos(e.Fn.Pos()), fnName(e.Fn)+" (registered for "+op+") can succeed on text containing a NUL byte, which truncates the statement in PostgreSQL's lexer")
		}
	}
}

// SQL-TAINT (C02): every flow of a leaf payload into the SQL text passes a sanitiser shape.
func ruleSQLTAINT(c *Ctx, r *Report) {
	const rule = "SQL-TAINT"
	r.doc(rule, "in the inline and parameterized serialisers, per dynamic-type case of the payload: string → '…' with every ' doubled; Column → \"…\" with empty names and names containing \" rejected; parameterized values → constant ? with the value appended to the parameter list; other kinds → %v/%d of a number whose producers are closed to finite values")
	dr := c.driverRoles()
	if dr.Err != "" {
		r.bad(rule, "anchor", "-", dr.Err)
		return
	}
	// every format string in the driver is a constant (or one of several constants): an operand — a column
	// name, a serialised value — is never interpreted as a format
	nFmt := 0
	for _, f := range c.Funcs {
		if fnPkgPath(f) != pkgDriver {
			continue
		}
		for _, b := range f.Blocks {
			for _, in := range b.Instrs {
				name, format, _, _ := c.fmtCall(in)
				if name == "" {
					continue
				}
				nFmt++
				if _, ok := c.constStringSet(format, 0); !ok {
					r.bad(rule, "format|"+fnName(f)+"|"+c.key(format, nil), c.instrPos(in), fmt.Sprintf("%s builds SQL with a format string that is not a constant (%s): text taken from the query (a column name, a value) is interpreted as a format, so a %% in it garbles the SQL", fnName(f), c.key(format, nil)))
				}
			}
		}
	}
	r.ok(rule, "format|constants", "-", fmt.Sprintf("%d format strings in the driver package are constants", nFmt))
	// accumulated text: whatever the serialisers append to a []string (joined later) or write into a
	// strings.Builder is constant text or the rendering of a sub-term — never a raw payload
	{
		allowedCall := func(k string) bool {
			for _, f := range c.serKeep() {
				if f != nil && strings.HasPrefix(k, fnName(f)+"(") {
					return true
				}
			}
			return false
		}
		nAcc := 0
		for _, f := range []*ssa.Function{dr.Ser, dr.SerParam} {
			for g := range c.reachFrom([]*ssa.Function{f}) {
				if fnPkgPath(g) != pkgDriver || g == dr.Render || g == dr.RenderParam {
					continue
				}
				isSerLike := g == dr.Ser || g == dr.SerParam
				for _, k := range c.serKeep() {
					if k == g {
						isSerLike = true
					}
				}
				if !isSerLike && !c.reachedOnlyFrom(g, f, 0) {
					continue
				}
				for _, b := range g.Blocks {
					for _, in := range b.Instrs {
						call, ok := in.(*ssa.Call)
						if !ok {
							continue
						}
						var written ssa.Value
						name := calleeFullName(call)
						switch {
						case name == "(*strings.Builder).WriteString" && len(call.Call.Args) == 2:
							written = call.Call.Args[1]
						case name == "builtin.append" && len(call.Call.Args) == 2 && isStringSlice(call.Call.Args[0].Type()):
							if lit, ok := c.sliceLiteral(call.Call.Args[1], nil); ok && len(lit) == 1 {
								written = lit[0]
							}
						}
						if written == nil {
							continue
						}
						nAcc++
						okAll := true
						for _, sg := range c.skeleton(written, nil) {
							if sg.isLit() {
								continue
							}
							if !allowedCall(sg.Hole) {
								okAll = false
							}
						}
						key := "accumulate|" + fnName(g) + "|" + skelString(c.skeleton(written, nil))
						if okAll {
							r.ok(rule, key, c.instrPos(in), "constant text or the rendering of a sub-term")
						} else {
							r.bad(rule, key, c.instrPos(in), fmt.Sprintf("%s adds %s to the SQL text it is assembling: that is not the rendering of a sub-term (which quotes and checks values) but raw text taken from the tree — a value containing a quote breaks out of its literal", fnName(g), skelString(c.skeleton(written, nil))))
						}
					}
				}
			}
		}
		r.floor(rule, "accumulated fragments in the serialisers", nAcc, 2)
	}
	for _, mode := range []struct {
		name string
		fn   *ssa.Function
	}{{"inline", dr.Ser}, {"param", dr.SerParam}} {
		r.unit("functions", fnName(mode.fn))
		rows, err := c.successSkeletons(mode.fn)
		if err != "" {
			r.bad(rule, mode.name+"|paths", c.pos(mode.fn.Pos()), err)
			continue
		}
		seenCase := map[string]bool{}
		for _, row := range rows {
			// which dynamic type case is this path in
			typ := ""
			for _, a := range row.Atoms {
				if a.Kind == "type" && a.Pos && a.Subj == "$1" {
					typ = a.Val
				}
			}
			if typ == "" {
				if hasAtom(row.Atoms, "$1==nil") {
					continue
				}
				typ = "default"
			}
			pos := c.instrPos(row.P.Ret)
			switch typ {
			case "*expr.Expression", "[]*expr.Expression", "*expr.RangeBoundary":
				continue // recursion: results of the serialiser/renderers themselves
			case "string":
				seenCase["string"] = true
				key := mode.name + "|string"
				v := "$1.(string)"
				if mode.name == "inline" {
					want := `'{strings.ReplaceAll(` + v + `,"'","''")}'`
					// the same doubling through a Replacer or a byte-wise copy: ' + rewrite['→''](v) + '
					same := false
					if len(row.Skel) == 3 && row.Skel[0].isLit() && row.Skel[0].Lit == "'" && row.Skel[2].isLit() && row.Skel[2].Lit == "'" && row.Skel[1].Val != nil {
						if inner, ie, desc, ok := c.rewriteOfE(row.Skel[1].Val, row.P.Env); ok && desc == "rewrite['→'']" && c.key(inner, ie) == v {
							same = true
						}
					}
					if row.Str == want || same {
						r.ok(rule, key, pos, want)
					} else {
						r.bad(rule, key, pos, "a string value must be rendered as a single-quoted constant with every ' doubled; the inline serialiser renders "+row.Str+" — a value containing a quote terminates the constant and the rest becomes SQL")
					}
				} else {
					c.checkParamCase(r, rule, key, row, v)
				}
			case "expr.Column":
				seenCase["column"] = true
				key := mode.name + "|column"
				v := "$1.(expr.Column)"
				want := `"{conv:string(` + v + `)}"`
				want2 := `"{` + v + `}"`
				if row.Str != want && row.Str != want2 {
					r.bad(rule, key+"|quoted", pos, "a column name must be rendered as a double-quoted identifier; got "+row.Str)
					continue
				}
				empty, quote := false, false
				for _, a := range row.Atoms {
					if a.Kind == "len" && a.Subj == v && (a.Op == "!=" && a.N == 0 || a.Op == ">" && a.N == 0 || a.Op == ">=" && a.N == 1) {
						empty = true
					}
					if a.Kind == "cmp" && (a.Subj == v || a.Subj == "conv:string("+v+")") && a.Op == "!=" && a.Val == `""` {
						empty = true
					}
					if a.Kind == "call" && !a.Pos && strings.HasPrefix(a.Subj, "strings.Contains") && strings.Contains(a.Val, v) && (strings.HasSuffix(a.Val, ",34") || strings.HasSuffix(a.Val, `,"\""`)) {
						quote = true
					}
					if a.Kind == "cmp" && strings.HasPrefix(a.Subj, "strings.Index") && strings.Contains(a.Subj, v) && (a.Op == "<" && a.Val == "0" || a.Op == "==" && a.Val == "-1") {
						quote = true
					}
				}
				if empty {
					r.ok(rule, key+"|nonempty", pos, "empty names rejected")
				} else {
					r.bad(rule, key+"|nonempty", pos, "an empty column name is rendered as \"\" (a zero-length delimited identifier is a PostgreSQL syntax error / different identifier)")
				}
				if quote {
					r.ok(rule, key+"|noquote", pos, "names containing \" rejected")
				} else {
					r.bad(rule, key+"|noquote", pos, "a column name containing a double quote is spliced between double quotes: the identifier ends early and the rest of the name becomes SQL")
				}
			default:
				seenCase["default"] = true
				key := mode.name + "|default"
				if mode.name == "inline" {
					okV := len(row.Skel) == 1 && !row.Skel[0].isLit() && (row.Skel[0].Verb == "%v" || row.Skel[0].Verb == "%d" || row.Skel[0].Verb == "%g")
					if okV {
						r.ok(rule, key, pos, row.Str+" (numbers; finiteness by NUM-FINITE)")
					} else {
						r.bad(rule, key, pos, "values of other kinds must be rendered with %v/%d/%g only; got "+row.Str)
					}
				} else {
					c.checkParamCase(r, rule, key, row, "$1")
				}
			}
		}
		for _, want := range []string{"string", "column", "default"} {
			if !seenCase[want] {
				r.bad(rule, mode.name+"|case-missing|"+want, c.pos(mode.fn.Pos()), "the "+mode.name+" serialiser has no success path for payload kind "+want)
			}
		}
	}
}

func ruleNUMFINITE(c *Ctx, r *Report) { c.numFinite(r) }

// checkParamCase: SQL is the constant "?" and the parameter list is exactly [value].
func (c *Ctx) checkParamCase(r *Report, rule, key string, row skelRow, v string) {
	pos := c.instrPos(row.P.Ret)
	params := c.key(row.P.Ret.Results[1], row.P.Env)
	switch {
	case row.Str == "?" && params == "["+v+"]":
		r.ok(rule, key, pos, "? with the value as the single parameter")
	case row.Str == "?":
		r.bad(rule, key, pos, "a placeholder is emitted but the parameter list is "+params+" instead of exactly the value")
	default:
		r.bad(rule, key, pos, fmt.Sprintf("in parameterized mode a value must travel as a parameter (SQL text `?`); this path renders %s with parameters %s — the SQL text depends on the value", row.Str, params))
	}
}

// numFinite: producers of float64 payloads reachable from Parse are dominated by a finiteness test,
// or the default case of the inline serialiser tests IsNaN/IsInf.
func (c *Ctx) numFinite(r *Report) {
	const rule = "NUM-FINITE"
	r.doc(rule, "every producer of a float64 leaf payload reachable from Parse (strconv.ParseFloat results flowing into a leaf constructor) is dominated by a finiteness test, or the serialiser's number case rejects NaN/Inf: a non-finite number printed with %v is a bare identifier (NaN, +Inf) in SQL")
	pr := c.parserRoles()
	if pr.TokToLit == nil {
		r.bad(rule, "anchor", "-", "token→literal function not found")
		return
	}
	n := 0
	// path-based over the token→literal function with its helpers, predicates and table-driven attempts read
	// in place: wherever a leaf constructor receives the result of strconv.ParseFloat, the path has
	// established that this very value is neither NaN nor infinite
	paths, complete := c.enumPathsOpt(pr.TokToLit, 20000, c.inlBool())
	if !complete {
		r.bad(rule, "paths", c.pos(pr.TokToLit.Pos()), "too many paths")
		return
	}
	seen := map[string]bool{}
	for _, p := range paths {
		for _, pc := range p.Calls {
			callee := pc.Call.Call.StaticCallee()
			if callee == nil || fnPkgPath(callee) != pkgExpr || len(pc.Args) == 0 {
				continue
			}
			fk := ""
			for _, a := range pc.Args {
				if strings.HasPrefix(a, "strconv.ParseFloat(") && strings.HasSuffix(a, "#0") {
					fk = a
				}
			}
			if fk == "" {
				continue
			}
			nan, inf := false, false
			for _, a := range withFiniteFacts(p.Atoms) {
				if a.Kind == "call" && !a.Pos && a.Subj == "math.IsNaN" && a.Val == fk {
					nan = true
				}
				if a.Kind == "call" && !a.Pos && a.Subj == "math.IsInf" && strings.HasPrefix(a.Val, fk+",") {
					inf = true
				}
			}
			key := fnName(pr.TokToLit) + "|ParseFloat→" + fnName(callee)
			if !nan || !inf {
				key += "|unguarded"
			}
			if seen[key] {
				continue
			}
			seen[key] = true
			n++
			if nan && inf {
				r.ok(rule, key, c.instrPos(pc.Call), "on this path the parsed value is neither NaN nor infinite")
			} else if c.serialiserRejectsNonFinite() {
				r.ok(rule, key, c.instrPos(pc.Call), "the serialiser's number case rejects NaN/Inf")
			} else {
				r.badW(rule, key, c.instrPos(pc.Call), "a float parsed with strconv.ParseFloat (which accepts NaN, Inf, Infinity) becomes a number literal without a finiteness test, and the inline serialiser prints it with %v: the value is rendered as a bare SQL identifier", "`a:NaN` renders `\"a\" = NaN`")
			}
		}
	}
	r.floor(rule, "float producers", n, 1)
	c.numFiniteReducers(r)
}

// finiteGuards reads off a path's atoms what they establish about the float value with key fk.
// An ordered comparison excludes NaN only in its source polarity: not(x <= 0) holds for NaN, x > 0 does not.
func finiteGuards(atoms []Atom, fk string) (notNaN, lower, upper bool) {
	for _, a := range withFiniteFacts(atoms) {
		switch {
		case a.Kind == "call" && !a.Pos && a.Subj == "math.IsNaN" && a.Val == fk:
			notNaN = true
		case a.Kind == "call" && !a.Pos && a.Subj == "math.IsInf" && strings.HasPrefix(a.Val, fk+","):
			switch strings.TrimPrefix(a.Val, fk+",") {
			case "0":
				lower, upper = true, true
			case "1":
				upper = true
			case "-1":
				lower = true
			}
		case a.Kind == "cmp" && a.Subj == fk && !a.Neg:
			if _, err := strconv.ParseFloat(a.Val, 64); err != nil {
				continue
			}
			switch a.Op {
			case ">", ">=":
				notNaN, lower = true, true
			case "<", "<=":
				notNaN, upper = true, true
			case "==":
				notNaN, lower, upper = true, true, true
			}
		}
	}
	return
}

// numFiniteReducers: the same obligation for numbers that become node attributes (boost power, …):
// wherever a reducer hands the result of strconv.ParseFloat to a constructor of the expression package,
// the path (helpers read in place) has established that the value is neither NaN nor infinite.
// encoding/json refuses NaN and ±Inf, so such a node cannot be encoded at all.
func (c *Ctx) numFiniteReducers(r *Report) {
	const rule = "NUM-FINITE"
	pt := c.prodTable()
	seen := map[string]bool{}
	for _, red := range pt.Reducers {
		paths, complete := c.enumPathsOpt(red, 20000, c.inlBool(pt.Wrapper))
		if !complete {
			r.bad(rule, "paths|"+fnName(red), c.pos(red.Pos()), "too many paths")
			continue
		}
		for _, p := range paths {
			for _, pc := range p.Calls {
				callee := pc.Call.Call.StaticCallee()
				if callee == nil || fnPkgPath(callee) != pkgExpr {
					continue
				}
				for _, a := range pc.Args {
					i := strings.Index(a, "strconv.ParseFloat(")
					if i < 0 {
						continue
					}
					j := strings.Index(a[i:], ")#0")
					if j < 0 {
						continue
					}
					fk := a[i : i+j+3]
					notNaN, lower, upper := finiteGuards(p.Atoms, fk)
					key := fnName(red) + "|ParseFloat→" + fnName(callee)
					okG := notNaN && lower && upper
					if !okG {
						key += "|unguarded"
					}
					if seen[key] {
						continue
					}
					seen[key] = true
					if okG {
						r.ok(rule, key, c.instrPos(pc.Call), "on this path the parsed value is neither NaN nor infinite")
						continue
					}
					var miss []string
					if !notNaN {
						miss = append(miss, "NaN (a negated comparison such as !(f <= 0) lets NaN through)")
					}
					if !lower {
						miss = append(miss, "-Inf")
					}
					if !upper {
						miss = append(miss, "+Inf")
					}
					r.badW(rule, key, c.instrPos(pc.Call), "a float parsed with strconv.ParseFloat (which accepts nan, inf, infinity) becomes a node attribute on a path that does not exclude "+strings.Join(miss, ", ")+": encoding/json refuses such a value, so the expression Parse returned cannot be encoded", "`a^inf` parses to BOOST(a, +Inf); json.Marshal fails with \"unsupported value: +Inf\"")
				}
			}
		}
	}
}

func (c *Ctx) hasFiniteNaN(atoms []Atom) bool {
	nan, inf := false, false
	for _, a := range withFiniteFacts(atoms) {
		if a.Kind == "call" && !a.Pos && a.Subj == "math.IsNaN" {
			nan = true
		}
		if a.Kind == "call" && !a.Pos && a.Subj == "math.IsInf" {
			inf = true
		}
	}
	return nan && inf
}

func (c *Ctx) serialiserRejectsNonFinite() bool {
	dr := c.driverRoles()
	if dr.Ser == nil {
		return false
	}
	rows, _ := c.successSkeletons(dr.Ser)
	found := false
	for _, row := range rows {
		isFloat := false
		for _, a := range row.Atoms {
			if a.Kind == "type" && a.Pos && a.Subj == "$1" && a.Val == "float64" {
				isFloat = true
			}
		}
		if isFloat {
			if !c.hasFiniteNaN(row.Atoms) {
				return false
			}
			found = true
		}
	}
	return found
}

func (c *Ctx) transitiveUses(v ssa.Value) []ssa.Instruction {
	var out []ssa.Instruction
	seen := map[ssa.Value]bool{}
	var walk func(x ssa.Value)
	walk = func(x ssa.Value) {
		if seen[x] || x.Referrers() == nil {
			return
		}
		seen[x] = true
		for _, ref := range *x.Referrers() {
			out = append(out, ref)
			switch y := ref.(type) {
			case *ssa.MakeInterface:
				walk(y)
			case *ssa.Phi:
				walk(y)
			case *ssa.Convert:
				walk(y)
			case *ssa.ChangeType:
				walk(y)
			}
		}
	}
	walk(v)
	return out
}

// SQL-IDLEN (C02): the identifier case bounds the name length (PostgreSQL truncates at 63 bytes).
func ruleSQLIDLEN(c *Ctx, r *Report) {
	const rule = "SQL-IDLEN"
	r.doc(rule, "the identifier case of both serialisers bounds the column-name length at 63 bytes (PostgreSQL silently truncates longer identifiers, after which the reference is not the field name that occurs in the query)")
	dr := c.driverRoles()
	if dr.Err != "" {
		r.bad(rule, "anchor", "-", dr.Err)
		return
	}
	for _, mode := range []struct {
		name string
		fn   *ssa.Function
	}{{"inline", dr.Ser}, {"param", dr.SerParam}} {
		rows, _ := c.successSkeletons(mode.fn)
		for _, row := range rows {
			isCol := false
			for _, a := range row.Atoms {
				if a.Kind == "type" && a.Pos && a.Subj == "$1" && a.Val == "expr.Column" {
					isCol = true
				}
			}
			if !isCol {
				continue
			}
			_, hi := lenRange(row.Atoms, "$1.(expr.Column)")
			key := mode.name + "|column-length"
			if hi <= 63 {
				r.ok(rule, key, c.instrPos(row.P.Ret), fmt.Sprintf("len ≤ %d", hi))
			} else {
				r.badW(rule, key, c.instrPos(row.P.Ret), "column names longer than 63 bytes are accepted; PostgreSQL truncates the identifier, so the SQL refers to a column other than the field named in the query", "a query whose field name is 64 ASCII letters")
			}
		}
	}
}

// ---------------------------------------------------------------------------------------------
// SQL-PAREN

// wrapOps: operators for which Render/RenderParam may wrap a non-simple operand in parentheses.
func (c *Ctx) wrapOps(fn *ssa.Function) (wrap map[string]bool, sites int) {
	memo := "wrapops:" + fnName(fn)
	type res struct {
		wrap  map[string]bool
		sites int
	}
	if v, ok := c.roles[memo]; ok {
		return v.(res).wrap, v.(res).sites
	}
	wrap = map[string]bool{}
	dr := c.driverRoles()
	// path-based, helpers inlined: an operator counts as wrapped when, on the paths where it is possible,
	// a non-simple operand is always put in parentheses — whether the test and the concatenation sit in
	// the renderer or behind a helper it calls
	paths, complete := c.enumPathsInl(fn, 40000, c.serKeep()...)
	if !complete {
		c.roles[memo] = res{wrap, 0}
		return wrap, 0
	}
	if len(fn.Params) < 2 {
		return wrap, 0
	}
	opKey := c.key(fn.Params[len(fn.Params)-1], nil) + ".Op"
	siteSet := map[ssa.Instruction]bool{}
	wrapped, bare := map[string]bool{}, map[string]bool{}
	all := map[string]bool{}
	for name := range c.operatorConsts() {
		all["expr."+name] = true
	}
	for _, p := range paths {
		if p.Ret == nil {
			continue
		}
		// non-simple operands on this path (by the simplicity helper's argument) and wrapped ones
		nonSimple := map[string]bool{}
		for _, a := range p.Atoms {
			if a.Kind == "call" && !a.Pos && a.Fn == dr.IsSimple {
				for _, side := range []string{"Left", "Right"} {
					if strings.HasSuffix(a.Val, "."+side) {
						nonSimple[side] = true
					}
				}
			}
		}
		got := map[string]bool{}
		for _, in := range p.Instrs {
			bo, ok := in.(*ssa.BinOp)
			if !ok || !isStringType(bo.Type()) {
				continue
			}
			if s, ok := constStringVal(bo.X); !ok || s != "(" {
				continue
			}
			siteSet[in] = true
			yk := c.key(bo.Y, p.Env)
			for _, side := range []string{"Left", "Right"} {
				if strings.Contains(yk, "."+side+")") {
					got[side] = true
				}
			}
		}
		ops := c.possibleOps(p.Atoms, opKey)
		if len(ops) == 0 {
			hasOpAtom := false
			for _, a := range p.Atoms {
				if strings.Contains(a.Subj, opKey) || strings.Contains(a.Val, opKey) {
					hasOpAtom = true
				}
			}
			if !hasOpAtom {
				ops = all
			}
		}
		for _, side := range []string{"Left", "Right"} {
			switch {
			case got[side]:
				for o := range ops {
					wrapped[o] = true
				}
			case nonSimple[side]:
				for o := range ops {
					bare[o] = true
				}
			}
		}
		if len(nonSimple) == 0 && len(got) == 0 {
			// a path that never asks: exempt for its operators unless another path asks for the same ones;
			// only paths that reach the render function matter (error returns do not)
			reaches := false
			for _, in := range p.Instrs {
				if call, ok := in.(*ssa.Call); ok && call.Call.StaticCallee() == nil && !call.Call.IsInvoke() {
					if _, isB := call.Call.Value.(*ssa.Builtin); !isB {
						reaches = true
					}
				}
			}
			if reaches {
				// exempt only if the simplicity test was skipped for both operands
				asked := false
				for _, a := range p.Atoms {
					if a.Kind == "call" && a.Fn == dr.IsSimple {
						asked = true
					}
				}
				if !asked {
					for o := range ops {
						bare[o] = true
					}
				}
			}
		}
	}
	for o := range wrapped {
		if !bare[o] {
			wrap[o] = true
		}
	}
	sites = len(siteSet)
	c.roles[memo] = res{wrap, sites}
	return wrap, sites
}

func (c *Ctx) simpleOps(fn *ssa.Function) (ops []string, other []string, err string) {
	if fn == nil {
		return nil, nil, "isSimple helper not found"
	}
	paths, complete := c.enumPaths(fn, 500)
	if !complete {
		return nil, nil, "too many paths"
	}
	set := map[string]bool{}
	oset := map[string]bool{}
	arg := fmt.Sprintf("$%d", len(fn.Params)-1)
	for _, p := range paths {
		if p.Ret == nil {
			continue
		}
		rv := c.resolve(p.Ret.Results[0], p.Env)
		atoms := p.Atoms
		if b, ok := constBoolVal(rv); ok {
			if !b {
				continue
			}
		} else {
			atoms = append(append([]Atom(nil), atoms...), c.atoms(rv, true, p.Env)...)
		}
		typ := ""
		for _, a := range atoms {
			if a.Kind == "type" && a.Pos && a.Subj == arg {
				typ = a.Val
			}
		}
		switch typ {
		case "*expr.Expression":
			for o := range c.possibleOps(atoms, arg+".(*expr.Expression).Op") {
				set[o] = true
			}
		case "":
			if hasAtom(atoms, arg+"==nil") {
				oset["nil"] = true
			} else {
				oset["?"] = true
			}
		default:
			oset[typ] = true
		}
	}
	for o := range set {
		ops = append(ops, o)
	}
	for o := range oset {
		other = append(other, o)
	}
	sort.Strings(ops)
	sort.Strings(other)
	return
}

func ruleSQLPAREN(c *Ctx, r *Report) {
	const rule = "SQL-PAREN"
	r.doc(rule, "precedence safety of composition: the operators Render exempts from wrapping non-simple operands are each self-wrapping (skeleton encloses the operand in parentheses), transparent (returns the operand; its own node is non-simple) or leaf-only (the validator proves all operands are leaves); the operators isSimple treats as atoms are leaf kinds only")
	pt := c.pgPreamble(r, rule)
	dr := c.driverRoles()
	if pt == nil || dr.Err != "" {
		r.bad(rule, "anchor", "-", "driver roles unresolved")
		return
	}
	wrap, sites := c.wrapOps(dr.Render)
	r.floor(rule, "parenthesis wrap sites in Render", sites, 2)
	simple, other, err := c.simpleOps(dr.IsSimple)
	if err != "" {
		r.bad(rule, "isSimple", "-", err)
		return
	}
	for _, o := range simple {
		if contains(leafOps, o) || o == "expr.Undefined" {
			r.ok(rule, "simple|"+o, c.pos(dr.IsSimple.Pos()), "atom")
		} else {
			r.bad(rule, "simple|"+o, c.pos(dr.IsSimple.Pos()), "isSimple treats "+o+" nodes as atoms: their SQL is spliced into the parent without parentheses although it contains operators")
		}
	}
	r.note("isSimple: expression ops %v, other kinds %v", simple, other)
	var ops []string
	for name := range c.operatorConsts() {
		if name != "Undefined" && name != "Fuzzy" && name != "Boost" {
			ops = append(ops, "expr."+name)
		}
	}
	sort.Strings(ops)
	for _, op := range ops {
		key := "exempt|" + op
		if wrap[op] {
			r.ok(rule, "wrapped|"+op, c.pos(dr.Render.Pos()), "non-simple operands are parenthesised")
			continue
		}
		e := pt.Eff[op]
		if e == nil || e.Fn == nil {
			continue
		}
		rows, _ := c.successSkeletons(e.Fn)
		selfWrap, transparent := len(rows) > 0, len(rows) > 0
		for _, row := range rows {
			s := c.bindSkeleton(row.Str, e)
			if !(strings.Contains(s, "({$0})")) {
				selfWrap = false
			}
			if s != "{$0}" {
				transparent = false
			}
		}
		leafOnly, why := c.operandsAreLeaves(op)
		switch {
		case selfWrap:
			r.ok(rule, key, c.pos(e.Fn.Pos()), "self-wrapping")
		case transparent && !contains(simple, op):
			r.ok(rule, key, c.pos(e.Fn.Pos()), "transparent; its own node is non-simple so the parent wraps it")
		case leafOnly:
			r.ok(rule, key, c.pos(e.Fn.Pos()), "leaf-only: "+why)
		default:
			r.bad(rule, key, c.pos(dr.Render.Pos()), fmt.Sprintf("Render does not parenthesise non-simple operands of %s, and %s is neither self-wrapping, nor transparent, nor proven by its validator to have only leaf operands (%s): an operand containing a lower-precedence operator regroups under PostgreSQL's precedence", op, fnName(e.Fn), why))
		}
	}
}

// operandsAreLeaves: the operator's validator proves every operand is a leaf (or a List of leaves).
func (c *Ctx) operandsAreLeaves(op string) (bool, string) {
	vf := c.validatorFacts(op)
	if vf.Err != "" {
		return false, vf.Err
	}
	switch op {
	case "expr.Literal", "expr.Wild", "expr.Regexp":
		return true, "leaf"
	case "expr.List":
		ok := vf.all(func(f []Atom) bool {
			for _, a := range f {
				if a.Kind == "call" && a.Pos && a.Val == "$0.Left" && a.Fn != nil && c.allElemsLeafPredicate(a.Fn) {
					return true
				}
			}
			return false
		})
		return ok, "list elements are leaves"
	case "expr.In":
		ok := vf.all(func(f []Atom) bool {
			return c.leafAt(f, "$0.Left") && subsetOf(c.possibleOps(f, "$0.Right.(*expr.Expression).Op"), []string{"expr.List"})
		})
		return ok, "field is a leaf, right side is a List"
	case "expr.Range":
		ok := vf.all(func(f []Atom) bool {
			return c.leafAt(f, "$0.Left") && c.leafAt(f, "$0.Right.(*expr.RangeBoundary).Min") && c.leafAt(f, "$0.Right.(*expr.RangeBoundary).Max")
		})
		if !ok {
			return false, "the Range validator does not prove the bounds to be single terms"
		}
		return true, "field and both bounds are leaves"
	}
	return false, "operands may be arbitrary expressions"
}

// ---------------------------------------------------------------------------------------------
// SQL-RANGE

type rangeRow struct {
	P                *Path
	Stage            string // int | float | string | param
	Excl             int    // 0 false, 1 true, -1 unknown
	MinOpen, MaxOpen int
	Skel             string // normalised: {L}, {MIN}, {MAX}
	Verbs            []string
	Raw              string
}

type rangeTable struct {
	Fn      *ssa.Function
	Rows    []rangeRow
	Markers map[string]string // constant → position
	Err     string
}

var splitRe = regexp.MustCompile(`strings\.Split(N)?\(`)

// rangeTableOf extracts the decision table of a range render function (left, right[, params]).
func (c *Ctx) rangeTableOf(fn *ssa.Function) *rangeTable {
	memo := "rangetable:" + fnName(fn)
	if t, ok := c.roles[memo]; ok {
		return t.(*rangeTable)
	}
	rt := &rangeTable{Fn: fn, Markers: map[string]string{}}
	c.roles[memo] = rt
	rows, err := c.successSkeletons(fn)
	if err != "" {
		rt.Err = err
		return rt
	}
	// discover rawMin / rawMax keys: subjects compared with a constant containing '*' or "?"
	minK, maxK := "", ""
	for _, row := range rows {
		for _, a := range row.Atoms {
			if a.Kind == "cmp" && (a.Op == "==" || a.Op == "!=") && strings.HasPrefix(a.Val, `"`) && (strings.Contains(a.Val, "*") || a.Val == `"?"`) {
				if strings.Contains(a.Val, "*") {
					rt.Markers[a.Val] = c.instrPos(row.P.Ret)
				}
				idx := strings.LastIndex(a.Subj, ")[")
				if idx >= 0 && idx+2 < len(a.Subj) {
					switch a.Subj[idx+2] {
					case '0':
						minK = a.Subj
					case '1':
						maxK = a.Subj
					}
				} else if j := strings.LastIndex(a.Subj, ")#"); j >= 0 && strings.Contains(a.Subj, "strings.Cut(") && j+2 < len(a.Subj) {
					// the two ends as the results of strings.Cut
					switch a.Subj[j+2] {
					case '0':
						minK = a.Subj
					case '1':
						maxK = a.Subj
					}
				}
			}
		}
	}
	if minK == "" || maxK == "" {
		rt.Err = "cannot identify the two range ends in " + fnName(fn) + " (no comparison of a split part with the open-bound marker)"
		return rt
	}
	norm := func(s string) string {
		s = strings.ReplaceAll(s, minK, "MIN")
		s = strings.ReplaceAll(s, maxK, "MAX")
		return s
	}
	helperRe := regexp.MustCompile(`\{driver\.[A-Za-z0-9_]+\(MIN,MAX\)#([01])(:[^}]*)?\}`)
	for _, row := range rows {
		rr := rangeRow{P: row.P, Excl: 0, MinOpen: -1, MaxOpen: -1, Stage: "string", Raw: row.Str}
		open, closeP := -1, -1   // tri-state: -1 unknown, 0 no, 1 yes
		intErr, floatErr := 0, 0 // 1 = nil (succeeded), 2 = non-nil
		for _, a := range row.Atoms {
			subj := norm(a.Subj)
			switch {
			case a.Kind == "cmp" && a.Subj == "$1[0]" && a.Val == "40":
				open = b2i(a.Op == "==")
			case a.Kind == "cmp" && a.Subj == "$1[(len($1) - 1)]" && a.Val == "41":
				closeP = b2i(a.Op == "==")
			case a.Kind == "cmp" && subj == "MIN" && strings.Contains(a.Val, "*"):
				rr.MinOpen = b2i(a.Op == "==")
			case a.Kind == "cmp" && subj == "MAX" && strings.Contains(a.Val, "*"):
				rr.MaxOpen = b2i(a.Op == "==")
			case a.Kind == "cmp" && (subj == "MIN" || subj == "MAX") && a.Val == `"?"` && a.Op == "==":
				rr.Stage = "param"
			case a.Kind == "nil" && strings.HasSuffix(subj, "(MIN,MAX)#2"):
				isInt := c.helperParsesInt(fn, a.Subj)
				v := 2
				if a.Pos {
					v = 1
				}
				if isInt {
					intErr = v
				} else {
					floatErr = v
				}
			case a.Kind == "type" && strings.HasPrefix(a.Subj, "$2[0]"):
				// parameter kind switch in the parameterized function
				if a.Pos && rr.Stage == "param" {
					rr.Stage = "param:" + a.Val
				}
			}
		}
		if rr.Stage == "string" {
			switch {
			case intErr == 1:
				rr.Stage = "int"
			case floatErr == 1:
				rr.Stage = "float"
			}
		}
		if strings.HasPrefix(rr.Stage, "param") {
			// numeric vs non-numeric parameter kind
			numeric := false
			for _, a := range row.Atoms {
				if a.Kind == "type" && a.Pos && strings.HasPrefix(a.Subj, "$2[0]") && (a.Val == "int" || a.Val == "float64" || a.Val == "float32") {
					numeric = true
				}
			}
			if numeric {
				rr.Stage = "param-number"
			} else {
				rr.Stage = "param-other"
			}
		}
		switch {
		case open == 0 || closeP == 0:
			rr.Excl = 0
		case open == 1 && closeP == 1:
			rr.Excl = 1
		default:
			rr.Excl = -1 // the path does not determine the bracket kind: expanded to both
		}
		s := norm(row.Str)
		s = strings.ReplaceAll(s, "{$0}", "{L}")
		// helper results: {driver.toInts(MIN,MAX)#0:%d} → {MIN:%d}
		s = helperRe.ReplaceAllStringFunc(s, func(m string) string {
			sub := helperRe.FindStringSubmatch(m)
			which := "MIN"
			if sub[1] == "1" {
				which = "MAX"
			}
			if sub[2] != "" {
				rr.Verbs = append(rr.Verbs, strings.TrimPrefix(sub[2], ":"))
			}
			return "{" + which + "}"
		})
		rr.Skel = s
		rt.Rows = append(rt.Rows, rr)
	}
	return rt
}

func b2i(b bool) int {
	if b {
		return 1
	}
	return 0
}

// helperParsesInt: the helper call behind key parses integers (strconv.Atoi / ParseInt) rather than floats.
func (c *Ctx) helperParsesInt(fn *ssa.Function, key string) bool {
	var best *ssa.Function
	for _, h := range c.Funcs {
		if !inModule(h) || fnPkgPath(h) != fnPkgPath(fn) {
			continue
		}
		if strings.HasPrefix(key, fnName(h)+"(") && (best == nil || len(fnName(h)) > len(fnName(best))) {
			best = h
		}
	}
	if best == nil {
		return false
	}
	return c.usesNamed(best, "strconv.Atoi") || c.usesNamed(best, "strconv.ParseInt")
}

// classify a (row, combo) against the oracle; returns "" if correct, else a defect class.
func rangeOracle(skel string, excl, minOpen, maxOpen bool) string {
	ge, le := ">=", "<="
	if excl {
		ge, le = ">", "<"
	}
	lower := "{L} " + ge + " {MIN}"
	upper := "{L} " + le + " {MAX}"
	between := "{L} BETWEEN {MIN} AND {MAX}"
	refsMin, refsMax := strings.Contains(skel, "{MIN}"), strings.Contains(skel, "{MAX}")
	switch {
	case !minOpen && !maxOpen:
		if skel == lower+" AND "+upper || (!excl && skel == between) {
			return ""
		}
		if excl && skel == between {
			return "exclusive-as-between"
		}
	case minOpen && !maxOpen:
		if skel == upper {
			return ""
		}
		if refsMin {
			return "open-bound-kept"
		}
	case !minOpen && maxOpen:
		if skel == lower {
			return ""
		}
		if refsMax {
			return "open-bound-kept"
		}
	default:
		if !refsMin && !refsMax {
			return ""
		}
		return "both-open-compared"
	}
	return "wrong-comparison"
}

func (c *Ctx) checkRangeTable(r *Report, rule, role string, rt *rangeTable) {
	if rt.Err != "" {
		r.bad(rule, role+"|extract", c.pos(rt.Fn.Pos()), rt.Err)
		return
	}
	combos := 0
	okCombos := 0
	type finding struct {
		pos, detail string
	}
	bad := map[string]finding{}
	for _, row := range rt.Rows {
		for _, ex := range dims(row.Excl) {
			for _, mo := range dims(row.MinOpen) {
				for _, xo := range dims(row.MaxOpen) {
					combos++
					cls := rangeOracle(row.Skel, ex, mo, xo)
					if cls == "" {
						okCombos++
						continue
					}
					key := fmt.Sprintf("%s|%s|%s", role, row.Stage, cls)
					if cls == "wrong-comparison" {
						key += fmt.Sprintf("|excl=%v,minOpen=%v,maxOpen=%v", ex, mo, xo)
					}
					bad[key] = finding{c.instrPos(row.P.Ret), fmt.Sprintf("range with exclusive=%v, lower bound open=%v, upper bound open=%v (%s stage) is rendered as `%s`", ex, mo, xo, row.Stage, row.Skel)}
				}
			}
		}
	}
	var keys []string
	for k := range bad {
		keys = append(keys, k)
	}
	sort.Strings(keys)
	explain := map[string]string{
		"exclusive-as-between": "BETWEEN is inclusive at both ends, so an exclusive range selects its end points too",
		"open-bound-kept":      "an unbounded end must drop that comparison; here the marker '*' is compared as if it were a value",
		"both-open-compared":   "a range open at both ends must not compare the field with a number",
		"wrong-comparison":     "the comparison operators do not match the bracket kinds / bounds",
	}
	for _, k := range keys {
		cls := strings.Split(k, "|")[2]
		r.bad(rule, k, bad[k].pos, bad[k].detail+": "+explain[cls])
	}
	r.ok(rule, role+"|table", c.pos(rt.Fn.Pos()), fmt.Sprintf("%d success paths, %d (path × open/closed) combinations, %d agree with the oracle", len(rt.Rows), combos, okCombos))
	r.extra["range_table_"+role] = func() []string {
		var out []string
		for _, row := range rt.Rows {
			out = append(out, fmt.Sprintf("stage=%s excl=%d minOpen=%d maxOpen=%d → %s", row.Stage, row.Excl, row.MinOpen, row.MaxOpen, row.Skel))
		}
		return out
	}()
}

func dims(v int) []bool {
	switch v {
	case 0:
		return []bool{false}
	case 1:
		return []bool{true}
	}
	return []bool{false, true}
}

func ruleSQLRANGE(c *Ctx, r *Report) {
	const rule = "SQL-RANGE"
	r.doc(rule, "decision table of the function registered for Range: for every success return the dominating conditions (exclusive brackets, open lower/upper end, int/float/string stage) and the result skeleton; oracle: inclusive ⇒ >=,<= or BETWEEN; exclusive ⇒ >,< and never BETWEEN; an open end drops its comparison; both open ⇒ no numeric comparison. Undetermined dimensions of a path are expanded to all values.")
	pt := c.pgPreamble(r, rule)
	if pt == nil {
		return
	}
	e := pt.Eff["expr.Range"]
	if e == nil || e.Fn == nil {
		r.bad(rule, "registered", "-", "no render function registered for expr.Range")
		return
	}
	rt := c.rangeTableOf(e.Fn)
	c.checkRangeTable(r, rule, "inline", rt)
	r.floor(rule, "success paths of the range function", len(rt.Rows), 10)
	// serialiser brackets agree with the exclusive test: Inclusive ⇒ [..], else (..)
	dr := c.driverRoles()
	if dr.Ser != nil {
		rows, _ := c.successSkeletons(dr.Ser)
		n := 0
		for _, row := range rows {
			isRB := false
			incl := -1
			for _, a := range row.Atoms {
				if a.Kind == "type" && a.Pos && a.Subj == "$1" && a.Val == "*expr.RangeBoundary" {
					isRB = true
				}
				if a.Kind == "bool" && strings.HasSuffix(a.Subj, ".Inclusive") {
					incl = b2i(a.Pos)
				}
			}
			if !isRB {
				continue
			}
			n++
			lits := skelLits(row.Skel)
			first, last := "", ""
			if len(lits) > 0 {
				first, last = lits[0], lits[len(lits)-1]
			}
			key := fmt.Sprintf("serialiser|boundary|inclusive=%d", incl)
			switch {
			case incl == 1 && strings.HasPrefix(first, "[") && strings.HasSuffix(last, "]"),
				incl == 0 && strings.HasPrefix(first, "(") && strings.HasSuffix(last, ")"):
				// the two holes must be Min then Max
				var holes []string
				for _, s := range row.Skel {
					if !s.isLit() {
						holes = append(holes, s.Hole)
					}
				}
				if len(holes) == 2 && strings.Contains(holes[0], ".Min") && strings.Contains(holes[1], ".Max") {
					r.ok(rule, key, c.instrPos(row.P.Ret), row.Str)
				} else {
					r.bad(rule, key, c.instrPos(row.P.Ret), "the boundary text must list Min then Max; got "+row.Str)
				}
			default:
				r.bad(rule, key, c.instrPos(row.P.Ret), "the serialiser must write an inclusive boundary as [min, max] and an exclusive one as (min, max) — the range function recognises exclusivity by the parentheses; got "+row.Str)
			}
		}
		r.floor(rule, "boundary serialisations", n, 2)
	}
}

// SQL-NUM: numbers formatted losslessly.
func ruleSQLNUM(c *Ctx, r *Report) {
	const rule = "SQL-NUM"
	r.doc(rule, "numeric range bounds are formatted losslessly: %d for ints, %v/%g for floats; a fixed-precision verb on a float64 operand is lossy")
	pt := c.pgPreamble(r, rule)
	if pt == nil {
		return
	}
	for _, t := range []struct {
		role string
		fn   *ssa.Function
	}{{"inline", func() *ssa.Function {
		if e := pt.Eff["expr.Range"]; e != nil {
			return e.Fn
		}
		return nil
	}()}} {
		if t.fn == nil {
			continue
		}
		seen := map[string]string{}
		for _, b := range t.fn.Blocks {
			for _, in := range b.Instrs {
				name, format, operands, ok := c.fmtCall(in)
				if name != "fmt.Sprintf" || !ok {
					continue
				}
				fs, isC := constStringVal(format)
				if !isC {
					continue
				}
				sp := parseFormat(fs)
				for i, v := range sp.Verbs {
					if i >= len(operands) {
						break
					}
					st := operands[i].Type()
					if mi, ok := operands[i].(*ssa.MakeInterface); ok {
						st = mi.X.Type()
					}
					if b, ok := st.Underlying().(*types.Basic); ok && b.Info()&types.IsFloat != 0 {
						vs := "%" + v.Flags + string(v.Verb)
						seen[vs] = c.instrPos(in)
					}
				}
			}
		}
		var vs []string
		for v := range seen {
			vs = append(vs, v)
		}
		sort.Strings(vs)
		for _, v := range vs {
			key := t.role + "|float-verb|" + v
			if v == "%v" || v == "%g" {
				r.ok(rule, key, seen[v], "shortest round-trip formatting")
			} else {
				r.badW(rule, key, seen[v], fmt.Sprintf("%s formats float64 range bounds with %s, which rounds them: the SQL compares against different numbers than the query wrote", fnName(t.fn), v), "`a:[0.001 TO 0.002]` → `>= 0.00 AND <= 0.00`")
			}
		}
	}
}

// MARKER-AGREE: one open-bound marker across the range functions and their helpers.
func ruleMARKER(c *Ctx, r *Report) {
	const rule = "MARKER-AGREE"
	r.doc(rule, "sibling agreement: every string constant containing '*' that the range functions and their numeric helpers compare the range ends with is the same constant, and it is what the serialiser produces for an open end ('*' single-quoted)")
	pt := c.pgPreamble(r, rule)
	if pt == nil {
		return
	}
	dr := c.driverRoles()
	var fns []*ssa.Function
	if e := pt.Eff["expr.Range"]; e != nil && e.Fn != nil {
		fns = append(fns, e.Fn)
	}
	if dr.RangeParam != nil {
		fns = append(fns, dr.RangeParam)
	}
	// helpers called with two strings
	seen := map[*ssa.Function]bool{}
	for _, f := range fns {
		seen[f] = true
	}
	for i := 0; i < len(fns); i++ { // transitively, within the driver package
		f := fns[i]
		for _, b := range f.Blocks {
			for _, in := range b.Instrs {
				if call, ok := in.(*ssa.Call); ok {
					if h := call.Call.StaticCallee(); h != nil && fnPkgPath(h) == pkgDriver && !seen[h] && h.Signature.Recv() == nil {
						seen[h] = true
						fns = append(fns, h)
					}
				}
				// function values handed on (generic helpers taking the parse function)
				for _, op := range in.Operands(nil) {
					if mc, ok := (*op).(*ssa.MakeClosure); ok {
						if h, ok := mc.Fn.(*ssa.Function); ok && !seen[h] {
							seen[h] = true
							fns = append(fns, h)
						}
					}
				}
			}
		}
	}
	n := 0
	for _, f := range fns {
		for _, b := range f.Blocks {
			for _, in := range b.Instrs {
				bo, ok := in.(*ssa.BinOp)
				if !ok || !isCmp(bo.Op) {
					continue
				}
				for _, op := range []ssa.Value{bo.X, bo.Y} {
					s, ok := constStringVal(op)
					if !ok || !strings.Contains(s, "*") {
						continue
					}
					n++
					key := fmt.Sprintf("%s|%q", fnName(f), s)
					if s == "'*'" {
						r.ok(rule, key, c.instrPos(in), "marker '*'")
					} else {
						r.badW(rule, key, c.instrPos(in), fmt.Sprintf("%s compares a range end with %q, but an open end is serialised as '*' (single-quoted): the open-bound case is never recognised here", fnName(f), s), "`a:[* TO 5.5]` → `\"a\" BETWEEN '*' AND 5.5`")
					}
				}
			}
		}
	}
	r.floor(rule, "marker comparisons", n, 4)
}

// rangeClosure: the range functions of both modes and, transitively, the package-level driver functions
// and closures they call or hand on.
func (c *Ctx) rangeClosure(pt *PGTable, dr *DriverRoles) []*ssa.Function {
	var fns []*ssa.Function
	if e := pt.Eff["expr.Range"]; e != nil && e.Fn != nil {
		fns = append(fns, e.Fn)
	}
	if dr.RangeParam != nil {
		fns = append(fns, dr.RangeParam)
	}
	seen := map[*ssa.Function]bool{}
	for _, f := range fns {
		seen[f] = true
	}
	for i := 0; i < len(fns); i++ {
		f := fns[i]
		for _, b := range f.Blocks {
			for _, in := range b.Instrs {
				if call, ok := in.(*ssa.Call); ok {
					if h := call.Call.StaticCallee(); h != nil && fnPkgPath(h) == pkgDriver && !seen[h] && h.Signature.Recv() == nil {
						seen[h] = true
						fns = append(fns, h)
					}
				}
				for _, op := range in.Operands(nil) {
					if mc, ok := (*op).(*ssa.MakeClosure); ok {
						if h, ok := mc.Fn.(*ssa.Function); ok && !seen[h] {
							seen[h] = true
							fns = append(fns, h)
						}
					}
				}
			}
		}
	}
	return fns
}

// BOUND-UNIT (C03/C04): the numeric bound parsers are read by SQL-RANGE as units ("both ends are numbers or
// open"). That reading is only right if a unit really ignores a failed number parse for exactly the end that
// is the open marker: on every path on which the unit reports success, each number parse of a range end
// either succeeded or that same end was compared equal to the marker; and the numbers are handed back in the
// order of the ends.
func ruleBOUNDUNIT(c *Ctx, r *Report) {
	const rule = "BOUND-UNIT"
	r.doc(rule, "in every helper of the range functions that parses the range ends as numbers and reports an error: on each path that returns a nil error, every strconv number parse of an end has its own error tested nil or that same end compared equal to the open-bound marker (the error of one end is never excused by the other end being open); the parsed numbers are returned in the order of the ends")
	pt := c.pgPreamble(r, rule)
	dr := c.driverRoles()
	if pt == nil || dr.Err != "" {
		return
	}
	isParse := func(call *ssa.Call) bool {
		switch calleeFullName(call) {
		case "strconv.Atoi", "strconv.ParseInt", "strconv.ParseFloat", "strconv.ParseUint":
			return true
		}
		// a parse function handed in as a value: func(string, …) (number, error)
		if call.Call.StaticCallee() == nil && !call.Call.IsInvoke() {
			if sig, ok := call.Call.Value.Type().Underlying().(*types.Signature); ok && sig.Params().Len() >= 1 && isStringType(sig.Params().At(0).Type()) &&
				sig.Results().Len() == 2 && isErrorType(sig.Results().At(1).Type()) {
				if b, ok := sig.Results().At(0).Type().Underlying().(*types.Basic); ok && b.Info()&types.IsNumeric != 0 {
					return true
				}
			}
		}
		return false
	}
	units := 0
	for _, h := range c.rangeClosure(pt, dr) {
		res := h.Signature.Results()
		if res.Len() < 2 || !isErrorType(res.At(res.Len()-1).Type()) {
			continue
		}
		has := false
		for _, b := range h.Blocks {
			for _, in := range b.Instrs {
				if call, ok := in.(*ssa.Call); ok && isParse(call) {
					has = true
				}
			}
		}
		// the range functions themselves return SQL text, not numbers: their decisions are SQL-RANGE's matter
		if !has || isStringType(res.At(0).Type()) {
			continue
		}
		units++
		paths, complete := c.enumPathsOpt(h, 5000, &InlineOpts{None: true})
		if !complete {
			r.bad(rule, fnName(h)+"|extract", c.pos(h.Pos()), "too many paths")
			continue
		}
		type verdict struct {
			bad bool
			pos string
			msg string
		}
		got := map[string]*verdict{}
		order := map[string]*verdict{}
		for _, p := range paths {
			if p.Ret == nil {
				continue
			}
			ev, _ := c.resolveE(p.Ret.Results[res.Len()-1], p.Env)
			if cst, ok := ev.(*ssa.Const); !ok || !cst.IsNil() {
				continue
			}
			var ends []string
			for _, pc := range p.Calls {
				if !isParse(pc.Call) || len(pc.Args) == 0 {
					continue
				}
				end := pc.Args[0]
				errKey := c.key(pc.Call, p.Env) + "#1"
				excused := false
				for _, a := range p.Atoms {
					if a.Kind == "nil" && a.Pos && a.Subj == errKey {
						excused = true
					}
					if a.Kind == "cmp" && a.Op == "==" && ((a.Subj == end && strings.Contains(a.Val, "*")) || (a.Val == end && strings.Contains(a.Subj, "*"))) {
						excused = true
					}
				}
				key := fnName(h) + "|parse(" + end + ")"
				v := got[key]
				if v == nil {
					v = &verdict{pos: c.instrPos(pc.Call)}
					got[key] = v
				}
				if !excused && !v.bad {
					v.bad = true
					v.msg = fmt.Sprintf("%s reports success on a path [%s] on which the number parse of range end %s may have failed and %s was not compared with the open-bound marker: a failed parse of one end is excused by a test on something else, so SQL-RANGE's reading of this helper (\"both ends are numbers or open\") does not hold and a half-open range with a non-integer bound falls through to the string form", fnName(h), atomsText(p.Atoms), end, end)
				}
				ends = append(ends, end)
			}
			// numbers handed back in the order of the ends
			var outs []string
			for i := 0; i < res.Len()-1; i++ {
				k := c.key(p.Ret.Results[i], p.Env)
				for _, e := range ends {
					if strings.Contains(k, "("+e+")#0") || strings.Contains(k, "("+e+",") && strings.HasSuffix(k, "#0") {
						outs = append(outs, e)
					}
				}
			}
			if len(outs) == 2 && strings.HasPrefix(outs[0], "$") && strings.HasPrefix(outs[1], "$") {
				key := fnName(h) + "|result-order"
				v := order[key]
				if v == nil {
					v = &verdict{pos: c.instrPos(p.Ret)}
					order[key] = v
				}
				if outs[0] > outs[1] {
					v.bad = true
					v.msg = fmt.Sprintf("%s returns the number parsed from %s before the one parsed from %s: lower and upper bound are exchanged", fnName(h), outs[0], outs[1])
				}
			}
		}
		for _, m := range []map[string]*verdict{got, order} {
			var keys []string
			for k := range m {
				keys = append(keys, k)
			}
			sort.Strings(keys)
			for _, k := range keys {
				if m[k].bad {
					r.badW(rule, k, m[k].pos, m[k].msg, "`a:[1.5 TO *]` → `\"a\" BETWEEN 1.5 AND '*'`")
				} else {
					r.ok(rule, k, m[k].pos, "error tested or the same end is the open marker on every success path")
				}
			}
		}
	}
	r.floor(rule, "numeric bound parsers", units, 1)
	// the text a bound parser is given is the serialised bound itself: a part of the split boundary text with
	// only blanks trimmed. A quoted bound ('007') keeps its quotes and therefore never reads as a number; text
	// that had its quotes removed first would turn a quoted string range into a numeric comparison.
	var plain func(v ssa.Value, e *env, depth int) string
	plain = func(v ssa.Value, e *env, depth int) string {
		if depth > 12 {
			return "too deep"
		}
		rv, re := c.resolveE(v, e)
		switch x := rv.(type) {
		case *ssa.Parameter:
			return ""
		case *ssa.Phi:
			for _, ed := range x.Edges {
				if w := plain(ed, re, depth+1); w != "" {
					return w
				}
			}
			return ""
		case *ssa.Slice:
			return plain(x.X, re, depth+1)
		case *ssa.UnOp:
			if x.Op == token.MUL {
				if ia, ok := x.X.(*ssa.IndexAddr); ok {
					return plain(ia.X, re, depth+1)
				}
			}
		case *ssa.Index:
			return plain(x.X, re, depth+1)
		case *ssa.Extract:
			return plain(x.Tuple, re, depth+1)
		case *ssa.Call:
			switch name := calleeFullName(x); name {
			case "strings.TrimSpace", "strings.Split", "strings.SplitN", "strings.Cut", "strings.Fields":
				return plain(x.Call.Args[0], re, depth+1)
			case "strings.Trim", "strings.TrimLeft", "strings.TrimRight", "strings.TrimPrefix", "strings.TrimSuffix":
				cut, ok := constStringVal(c.resolve(x.Call.Args[1], re))
				if !ok || strings.ContainsAny(cut, "'\"") {
					return name + " with the cutset " + c.key(x.Call.Args[1], re) + " (quotes are part of a string bound)"
				}
				return plain(x.Call.Args[0], re, depth+1)
			default:
				return "the result of " + c.key(rv, re)
			}
		}
		return c.key(rv, re)
	}
	nArgs := 0
	for _, fn := range c.rangeClosure(pt, dr) {
		if !isStringType(resultType0(fn)) {
			continue
		}
		paths, _ := c.enumPathsInl(fn, 20000)
		seen := map[*ssa.Call]bool{}
		for _, p := range paths {
			for _, pc := range p.Calls {
				g := pc.Call.Call.StaticCallee()
				if g == nil || !c.semanticUnit(g) || seen[pc.Call] {
					continue
				}
				seen[pc.Call] = true
				for i, a := range pc.Call.Call.Args {
					if !isStringType(a.Type()) {
						continue
					}
					nArgs++
					key := fmt.Sprintf("%s|%s|arg%d", fnName(fn), fnName(g), i)
					if w := plain(a, p.Env, 0); w != "" {
						r.bad(rule, key, c.instrPos(pc.Call), fmt.Sprintf("%s hands %s a text that is not the serialised range end itself (%s): only blanks may be trimmed from a part of the split boundary text — with its quotes removed a quoted string bound such as \"007\" reads as a number and the range is rendered numerically", fnName(fn), fnName(g), w))
					} else {
						r.ok(rule, key, c.instrPos(pc.Call), "a part of the split boundary text, blanks trimmed")
					}
				}
			}
		}
	}
	r.floor(rule, "texts handed to the bound parsers", nArgs, 2)
}

// SPLIT-SAFE (C02/C03): the range functions re-split the already serialised boundary text. That is
// only sound if (i) the split is unbounded (strings.Split, or SplitN with n < 0) on a separator that
// occurs exactly once in the constant part of the boundary skeleton, and (ii) anything but exactly two
// parts is an error — then a separator inside a value can only produce an error, never a mis-split.
func ruleSPLITSAFE(c *Ctx, r *Report) {
	const rule = "SPLIT-SAFE"
	r.doc(rule, "the range functions split the serialised boundary with an unbounded split on a separator occurring exactly once in the boundary skeleton's constant text, and reject any part count other than two; both range functions split the same way")
	pt := c.pgPreamble(r, rule)
	dr := c.driverRoles()
	if pt == nil || dr.Err != "" {
		return
	}
	var fns []*ssa.Function
	if e := pt.Eff["expr.Range"]; e != nil && e.Fn != nil {
		fns = append(fns, e.Fn)
	}
	if dr.RangeParam != nil {
		fns = append(fns, dr.RangeParam)
	}
	// separator occurrences in the boundary skeletons
	sepCount := func(sep string) (min, max int) {
		min, max = 1<<30, 0
		for _, ser := range []*ssa.Function{dr.Ser, dr.SerParam} {
			rows, _ := c.successSkeletons(ser)
			for _, row := range rows {
				isRB := false
				for _, a := range row.Atoms {
					if a.Kind == "type" && a.Pos && a.Subj == "$1" && a.Val == "*expr.RangeBoundary" {
						isRB = true
					}
				}
				if !isRB {
					continue
				}
				n := 0
				for _, l := range skelLits(row.Skel) {
					n += strings.Count(l, sep)
				}
				if n < min {
					min = n
				}
				if n > max {
					max = n
				}
			}
		}
		return
	}
	var shapes []string
	for _, fn := range fns {
		n := 0
		// helpers of the range function are read in place (inlined paths), so the split may sit in a helper
		paths, _ := c.enumPathsInl(fn, 20000)
		var splits []*ssa.Call
		seenSplit := map[*ssa.Call]bool{}
		for _, p := range paths {
			for _, in := range p.Instrs {
				call, ok := in.(*ssa.Call)
				if !ok || seenSplit[call] {
					continue
				}
				name := calleeFullName(call)
				if !strings.HasPrefix(name, "strings.Split") && name != "strings.Cut" && name != "strings.Fields" && name != "strings.FieldsFunc" {
					continue
				}
				seenSplit[call] = true
				splits = append(splits, call)
			}
		}
		sort.Slice(splits, func(i, j int) bool { return splits[i].Pos() < splits[j].Pos() })
		for _, call := range splits {
			in := ssa.Instruction(call)
			name := calleeFullName(call)
			n++
			key := fnName(fn) + "|" + name
			pos := c.instrPos(in)
			shape := name
			okSplit := false
			isCut := false
			switch name {
			case "strings.Split":
				okSplit = true
			case "strings.SplitN":
				if lim, ok := constIntVal(call.Call.Args[2]); ok && lim < 0 {
					okSplit = true
				}
				shape += fmt.Sprintf("(n=%s)", c.key(call.Call.Args[2], nil))
			case "strings.Cut":
				// a first-match split is exact when success additionally requires that the separator was found
				// and does not occur again in the rest (then it is "exactly two parts" spelled differently)
				isCut = true
				okSplit = true
				shape = "strings.Split" // the same split as far as the sibling comparison goes
			}
			sep, isC := "", false
			if len(call.Call.Args) >= 2 {
				sep, isC = constStringVal(call.Call.Args[1])
			}
			shape += fmt.Sprintf("(sep=%q)", sep)
			shapes = append(shapes, shape)
			if !okSplit {
				r.bad(rule, key+"|bounded", pos, fmt.Sprintf("%s splits the serialised range text with %s: a bounded or first-match split takes a separator that occurs inside the lower bound's value for the boundary between the two ends, producing malformed SQL instead of an error", fnName(fn), shape))
				continue
			}
			if !isC || sep == "" {
				r.bad(rule, key+"|separator", pos, "the separator is not a constant")
				continue
			}
			mn, mx := sepCount(sep)
			if mn != 1 || mx != 1 {
				r.bad(rule, key+"|separator", pos, fmt.Sprintf("the separator %q occurs %d..%d times in the constant text of the serialised boundary; it must occur exactly once", sep, mn, mx))
				continue
			}
			// part count checked: every success path through the split has len(parts) == 2
			checked := false
			for _, p := range paths {
				if p.Ret == nil {
					continue
				}
				through := false
				for _, pin := range p.Instrs {
					if pin == in {
						through = true
					}
				}
				if !through {
					continue
				}
				nres := len(p.Ret.Results)
				if isNilConst(c.resolve(p.Ret.Results[nres-1], p.Env)) {
					if isCut {
						ck := c.key(call, p.Env)
						found, noMore := false, false
						for _, a := range p.Atoms {
							if a.Kind == "bool" && a.Pos && a.Subj == ck+"#2" {
								found = true
							}
							if a.Kind == "call" && !a.Pos && a.Subj == "strings.Contains" && a.Val == ck+"#1,"+fmt.Sprintf("%q", sep) {
								noMore = true
							}
						}
						if !found || !noMore {
							checked = false
							break
						}
						checked = true
						continue
					}
					lo, hi := lenRange(p.Atoms, c.key(call, p.Env))
					if lo != 2 || hi != 2 {
						checked = false
						break
					}
					checked = true
				}
			}
			if checked {
				r.ok(rule, key, pos, fmt.Sprintf("unbounded split on %q (once in the skeleton); every success path has exactly two parts", sep))
			} else {
				r.bad(rule, key+"|count", pos, fnName(fn)+" can succeed with a part count other than two")
			}
		}
		if n == 0 {
			r.bad(rule, fnName(fn)+"|no-split", c.pos(fn.Pos()), "no recognisable split of the serialised range text")
		}
	}
	if len(shapes) == 2 && shapes[0] != shapes[1] {
		r.bad(rule, "sibling|split-shape", "-", fmt.Sprintf("the inline and parameterized range functions split the boundary text differently: %v", shapes))
	}
}

// RANGE-SEP (C08): a string range bound that contains the separator the range function splits on cannot be
// rendered inline (the re-split yields more than two parts and the function fails).
func ruleRANGESEP(c *Ctx, r *Report) {
	const rule = "RANGE-SEP"
	r.doc(rule, "the inline range function re-splits the serialised boundary text on a constant separator; the serialisation of a string bound is arbitrary quoted text, so unless the serialiser excludes the separator from it (or the split is quote-aware) a quoted bound containing the separator is not delivered — the range fails to render. Decided from the split call's separator and the string case of the serialiser that feeds it")
	pt := c.pgPreamble(r, rule)
	dr := c.driverRoles()
	if pt == nil || dr.Err != "" {
		return
	}
	type side struct {
		name string
		fn   *ssa.Function
		ser  *ssa.Function
	}
	var sides []side
	if e := pt.Eff["expr.Range"]; e != nil && e.Fn != nil {
		sides = append(sides, side{"inline", e.Fn, dr.Ser})
	}
	if dr.RangeParam != nil {
		sides = append(sides, side{"param", dr.RangeParam, dr.SerParam})
	}
	n := 0
	for _, sd := range sides {
		// does the string case of the serialiser splice payload text into the SQL?
		rows, _ := c.successSkeletons(sd.ser)
		splices := false
		var guards []string
		for _, row := range rows {
			isStr := false
			for _, a := range row.Atoms {
				if a.Kind == "type" && a.Pos && a.Subj == "$1" && a.Val == "string" {
					isStr = true
				}
			}
			if !isStr {
				continue
			}
			for _, sg := range row.Skel {
				if !sg.isLit() && strings.Contains(sg.Hole, "$1.(string)") {
					splices = true
				}
			}
			for _, a := range row.Atoms {
				if a.Kind == "call" && strings.Contains(a.Val, "$1.(string)") {
					guards = append(guards, a.String())
				}
			}
		}
		paths, _ := c.enumPathsInl(sd.fn, 20000)
		seen := map[*ssa.Call]bool{}
		for _, p := range paths {
			for _, in := range p.Instrs {
				call, ok := in.(*ssa.Call)
				if !ok || seen[call] {
					continue
				}
				name := calleeFullName(call)
				if (!strings.HasPrefix(name, "strings.Split") && name != "strings.Cut") || len(call.Call.Args) < 2 {
					continue
				}
				seen[call] = true
				sep, isC := constStringVal(c.resolve(call.Call.Args[1], p.Env))
				if !isC {
					continue
				}
				n++
				key := fmt.Sprintf("%s|sep=%q", sd.name, sep)
				excluded := false
				for _, g := range guards {
					if strings.Contains(g, fmt.Sprintf("%q", sep)) && strings.HasPrefix(g, "!") {
						excluded = true
					}
				}
				switch {
				case !splices:
					r.ok(rule, key, c.instrPos(in), "string bounds are not spliced into the text that is split (placeholders)")
				case excluded:
					r.ok(rule, key, c.instrPos(in), "the serialiser rejects strings containing the separator")
				default:
					r.badW(rule, key, c.instrPos(in), fmt.Sprintf("%s splits the serialised range text on %q, and a quoted string bound may contain %q: such a range cannot be rendered although the same bound is delivered as a parameter", fnName(sd.fn), sep, sep), "`a:[\"Smith, J\" TO \"Smith, K\"]` → ToPostgres fails with \"the BETWEEN operator needs a two item list\"; ToParameterizedPostgres delivers both bounds")
				}
			}
		}
	}
	r.floor(rule, "range text splits examined", n, 2)
}

// onlyErrorText: every use of the string value is the construction of an error message (errors.New,
// fmt.Errorf — directly, through further concatenation, or as a variadic operand): it is not SQL text.
func onlyErrorText(v ssa.Value, depth int) bool {
	if depth > 6 || v.Referrers() == nil {
		return false
	}
	n := 0
	errCall := func(in ssa.Instruction) bool {
		call, ok := in.(*ssa.Call)
		if !ok {
			return false
		}
		switch calleeFullName(call) {
		case "errors.New", "fmt.Errorf":
			return true
		}
		return false
	}
	for _, ref := range *v.Referrers() {
		switch u := ref.(type) {
		case *ssa.DebugRef:
			continue
		case *ssa.Call:
			if !errCall(u) {
				return false
			}
		case *ssa.BinOp:
			if !isStringType(u.Type()) || !onlyErrorText(u, depth+1) {
				return false
			}
		case *ssa.Phi:
			if !onlyErrorText(u, depth+1) {
				return false
			}
		case *ssa.MakeInterface:
			if !onlyErrorText(u, depth+1) {
				return false
			}
		case *ssa.Store:
			ia, ok := u.Addr.(*ssa.IndexAddr)
			if !ok || u.Val != v {
				return false
			}
			a, ok := ia.X.(*ssa.Alloc)
			if !ok || a.Referrers() == nil {
				return false
			}
			for _, r2 := range *a.Referrers() {
				switch w := r2.(type) {
				case *ssa.IndexAddr, *ssa.DebugRef:
				case *ssa.Slice:
					if w.Referrers() == nil {
						return false
					}
					for _, r3 := range *w.Referrers() {
						if _, isDbg := r3.(*ssa.DebugRef); !isDbg && !errCall(r3) {
							return false
						}
					}
				default:
					return false
				}
			}
		default:
			return false
		}
		n++
	}
	return n > 0
}

// SQL-RESCAN (C02/C08): no text of the query is inserted at a place found by searching text of the query.
func ruleSQLRESCAN(c *Ctx, r *Report) {
	const rule = "SQL-RESCAN"
	r.doc(rule, "in the driver package every strings.Replace / ReplaceAll (and every strings.NewReplacer) either searches a constant text or inserts a constant: computed text (a rendered operand, a serialised value) is never put at a position that was found by scanning other computed text — a marker such as ? or {right} can occur inside a quoted value or a column name, and filling it there moves user text out of its quotes")
	n := 0
	// constant text: a constant, one of several constants, or a parameter / captured variable that every
	// caller / closure site in the module binds to such a text (a template handed to a filling helper)
	var isConst func(v ssa.Value, depth int) bool
	isConst = func(v ssa.Value, depth int) bool {
		if _, ok := c.constStringSet(v, 0); ok {
			return true
		}
		if depth > 8 {
			return false
		}
		switch x := c.resolve(v, nil).(type) {
		case *ssa.BinOp:
			return x.Op == token.ADD && isConst(x.X, depth+1) && isConst(x.Y, depth+1)
		case *ssa.Call:
			// the name of an operator or token type: one of finitely many texts fixed in the source
			if g := x.Call.StaticCallee(); g != nil && inModule(g) && g.Name() == "String" && g.Signature.Recv() != nil {
				if b, isBasic := g.Signature.Recv().Type().Underlying().(*types.Basic); isBasic && b.Info()&types.IsInteger != 0 {
					return true
				}
			}
			return false
		case *ssa.Parameter:
			idx := -1
			for i, p := range x.Parent().Params {
				if p == x {
					idx = i
				}
			}
			sites, private := c.privateHelper(x.Parent())
			if !private || len(sites) == 0 {
				return false
			}
			for _, call := range sites {
				if idx >= len(call.Call.Args) || !isConst(call.Call.Args[idx], depth+1) {
					return false
				}
			}
			return true
		case *ssa.FreeVar:
			idx := -1
			for i, fv := range x.Parent().FreeVars {
				if fv == x {
					idx = i
				}
			}
			sites := 0
			for _, g := range c.Funcs {
				for _, b := range g.Blocks {
					for _, in := range b.Instrs {
						if mc, ok := in.(*ssa.MakeClosure); ok && mc.Fn == ssa.Value(x.Parent()) && idx < len(mc.Bindings) {
							sites++
							if !isConst(mc.Bindings[idx], depth+1) {
								return false
							}
						}
					}
				}
			}
			return sites > 0
		}
		return false
	}
	for _, f := range c.Funcs {
		if fnPkgPath(f) != pkgDriver {
			continue
		}
		for _, b := range f.Blocks {
			for _, in := range b.Instrs {
				call, ok := in.(*ssa.Call)
				if !ok {
					continue
				}
				name := calleeFullName(call)
				args := call.Call.Args
				switch name {
				case "strings.Replace", "strings.ReplaceAll", "bytes.Replace", "bytes.ReplaceAll":
					n++
					key := fmt.Sprintf("%s|%s(%s)", fnName(f), name, c.key(args[1], nil))
					if isConst(args[0], 0) || isConst(args[2], 0) {
						r.ok(rule, key, c.instrPos(in), "constant subject or constant replacement")
					} else {
						r.bad(rule, key, c.instrPos(in), fmt.Sprintf("%s replaces %s inside computed text (%s) by computed text (%s): when the searched marker also occurs in a value or a column name of the query, the inserted text lands inside or outside the wrong quotes", fnName(f), c.key(args[1], nil), c.key(args[0], nil), c.key(args[2], nil)))
					}
				case "strings.NewReplacer":
					n++
					key := fmt.Sprintf("%s|%s", fnName(f), name)
					ops, isLit := c.sliceLiteral(args[0], nil)
					bad := !isLit
					for i, op := range ops {
						if i%2 == 1 && !isConst(op, 0) {
							bad = true
						}
					}
					if bad {
						r.bad(rule, key, c.instrPos(in), fmt.Sprintf("%s builds a Replacer whose inserted texts are computed: applied to text that contains values of the query, it inserts at positions found by scanning them", fnName(f)))
					} else {
						r.ok(rule, key, c.instrPos(in), "constant replacements")
					}
				}
			}
		}
	}
	r.ok(rule, "calls-examined", "-", fmt.Sprintf("%d replace calls in the driver examined", n))
}

// withFiniteFacts: `math.Abs(x) <= math.MaxFloat64` says what `!math.IsNaN(x) && !math.IsInf(x, 0)` says (the
// comparison is false for NaN and for both infinities); its failure says that x is NaN or infinite. The facts are
// added in the vocabulary the rules read.
func withFiniteFacts(atoms []Atom) []Atom {
	out := atoms
	for _, a := range atoms {
		if a.Kind != "cmp" || !strings.HasPrefix(a.Subj, "math.Abs(") || !strings.HasSuffix(a.Subj, ")") || !strings.HasPrefix(a.Val, "17976931348623157") {
			continue
		}
		x := strings.TrimSuffix(strings.TrimPrefix(a.Subj, "math.Abs("), ")")
		switch a.Op {
		case "<=":
			out = append(append([]Atom(nil), out...),
				Atom{Kind: "call", Pos: false, Subj: "math.IsNaN", Val: x, Src: a.Src, Env: a.Env},
				Atom{Kind: "call", Pos: false, Subj: "math.IsInf", Val: x + ",0", Src: a.Src, Env: a.Env})
		case ">":
			out = append(append([]Atom(nil), out...), Atom{Kind: "call", Pos: true, Subj: "math.IsInf", Val: x + ",0", Src: a.Src, Env: a.Env})
		}
	}
	return out
}
