package main

// VAL-TOTAL, VAL-SHAPE (C10, C06) and the validator summaries used by VAL-AGREE (C13, C01).

import (
	"fmt"
	"go/token"
	"sort"
	"strings"

	"golang.org/x/tools/go/ssa"
)

var leafOps = []string{"expr.Literal", "expr.Wild", "expr.Regexp"}

// possibleOps narrows the operator set of the value with key opKey under the atoms.
func (c *Ctx) possibleOps(atoms []Atom, opKey string) map[string]bool {
	possible := map[string]bool{}
	for name := range c.operatorConsts() {
		possible["expr."+name] = true
	}
	for _, a := range atoms {
		if a.Kind == "cmp" && a.Subj == opKey {
			for o := range possible {
				if a.Op == "==" && o != a.Val || a.Op == "!=" && o == a.Val {
					delete(possible, o)
				}
			}
		}
		// a helper predicate applied to the operator (e.g. isLeafOp(e.Op)): union over the helper's
		// paths that return the required value
		if a.Kind == "call" && a.Fn != nil && inModule(a.Fn) && a.Val == opKey && len(a.Fn.Params) == 1 {
			s := c.boolSummaryOf(a.Fn)
			if !s.ok {
				continue
			}
			sets := s.TrueSets
			if !a.Pos {
				sets = s.FalseSets
			}
			allowed := map[string]bool{}
			for _, set := range sets {
				sub := map[string]bool{}
				for name := range c.operatorConsts() {
					sub["expr."+name] = true
				}
				for _, x := range set {
					if x.Kind == "cmp" && x.Subj == "$0" {
						for o := range sub {
							if x.Op == "==" && o != x.Val || x.Op == "!=" && o == x.Val {
								delete(sub, o)
							}
						}
					}
				}
				for o := range sub {
					allowed[o] = true
				}
			}
			for o := range possible {
				if !allowed[o] {
					delete(possible, o)
				}
			}
		}
	}
	return possible
}

func subsetOf(set map[string]bool, allowed []string) bool {
	for k := range set {
		if !contains(allowed, k) {
			return false
		}
	}
	return len(set) > 0
}

// isLeafPredicate: fn(any) bool returns true only for *Expression values whose Op is a leaf kind
// (and whose payload passes the literal test, when payload=true is requested).
func (c *Ctx) isLeafPredicate(fn *ssa.Function) bool {
	memo := "leafpred:" + fnName(fn)
	if v, ok := c.roles[memo]; ok {
		return v.(bool)
	}
	c.roles[memo] = false
	if fn == nil || len(fn.Params) != 1 || fn.Signature.Results().Len() != 1 || !isBool(fn.Signature.Results().At(0).Type()) {
		return false
	}
	paths, complete := c.enumPaths(fn, 300)
	if !complete {
		return false
	}
	nTrue := 0
	for _, p := range paths {
		if p.Ret == nil {
			if p.Cut {
				return false
			}
			continue
		}
		rv := c.resolve(p.Ret.Results[0], p.Env)
		atoms := p.Atoms
		if b, ok := constBoolVal(rv); ok {
			if !b {
				continue
			}
		} else {
			atoms = append(append([]Atom(nil), atoms...), c.atoms(rv, true, p.Env)...)
		}
		nTrue++
		isExpr := false
		for _, a := range atoms {
			if a.Kind == "type" && a.Pos && a.Subj == "$0" && a.Val == "*expr.Expression" {
				isExpr = true
			}
		}
		if !isExpr || !subsetOf(c.possibleOps(atoms, "$0.(*expr.Expression).Op"), leafOps) {
			return false
		}
	}
	c.roles[memo] = nTrue > 0
	return nTrue > 0
}

// allElemsLeafPredicate: fn(any) bool is true only if the argument is a []*Expression all of whose
// elements satisfy a leaf predicate (∀-loop pattern: the only `return true` is the loop exit; the
// back edge is dominated by the true edge of leafPredicate(elem)).
func (c *Ctx) allElemsLeafPredicate(fn *ssa.Function) bool {
	if fn == nil || len(fn.Params) != 1 || fn.Blocks == nil {
		return false
	}
	if c.allElemsByContainsFunc(fn) {
		return true
	}
	sawLoop := false
	for _, b := range fn.Blocks {
		for _, in := range b.Instrs {
			ret, ok := in.(*ssa.Return)
			if !ok {
				continue
			}
			v, isC := constBoolVal(ret.Results[0])
			if !isC {
				return false
			}
			if !v {
				continue
			}
			// the true return: its block is dominated by the loop-exit edge idx >= len(slice)
			exit := false
			for _, a := range c.domAtoms(b) {
				if a.Kind == "cmp" && a.Op == ">=" && strings.HasPrefix(a.Val, "len($0.([]*expr.Expression))") {
					exit = true
				}
			}
			if !exit {
				return false
			}
		}
		// back edges: a predecessor that this block dominates
		for _, p := range b.Preds {
			if b.Dominates(p) && p != b {
				sawLoop = true
				okEdge := false
				for _, a := range c.domAtoms(p) {
					if a.Kind == "call" && a.Pos && a.Fn != nil && c.isLeafPredicate(a.Fn) &&
						strings.HasPrefix(a.Val, "$0.([]*expr.Expression)[") {
						okEdge = true
					}
				}
				// the back edge may also be the false edge of `!pred(elem)` from p itself
				if !okEdge {
					if iff, ok := p.Instrs[len(p.Instrs)-1].(*ssa.If); ok {
						for si, s := range p.Succs {
							if s == b {
								for _, a := range c.atoms(iff.Cond, si == 0, nil) {
									if a.Kind == "call" && a.Pos && a.Fn != nil && c.isLeafPredicate(a.Fn) &&
										strings.HasPrefix(a.Val, "$0.([]*expr.Expression)[") {
										okEdge = true
									}
								}
							}
						}
					}
				}
				if !okEdge {
					return false
				}
			}
		}
	}
	return sawLoop
}

type ValFacts struct {
	Op    string
	Fn    *ssa.Function
	Facts []Atom   // common to all accepting paths
	Sets  [][]Atom // per accepting path
	Err   string
}

func (vf *ValFacts) has(s string) bool { return hasAtom(vf.Facts, s) }

// all: the predicate holds on every accepting path of the validator.
func (vf *ValFacts) all(pred func(facts []Atom) bool) bool {
	if len(vf.Sets) == 0 {
		return false
	}
	for _, s := range vf.Sets {
		if !pred(s) {
			return false
		}
	}
	return true
}

// leafAt: the facts prove that the value with key k is a leaf expression.
func (c *Ctx) leafAt(facts []Atom, k string) bool {
	for _, a := range facts {
		if a.Kind == "call" && a.Pos && a.Fn != nil && a.Val == k && c.isLeafPredicate(a.Fn) {
			return true
		}
	}
	isExpr := false
	for _, a := range facts {
		if a.Kind == "type" && a.Pos && a.Subj == k && a.Val == "*expr.Expression" {
			isExpr = true
		}
	}
	return isExpr && subsetOf(c.possibleOps(facts, k+".(*expr.Expression).Op"), leafOps)
}

func (c *Ctx) validatorFacts(op string) *ValFacts {
	memo := "valfacts:" + op
	if v, ok := c.roles[memo]; ok {
		return v.(*ValFacts)
	}
	vf := &ValFacts{Op: op}
	c.roles[memo] = vf
	tb := c.readTable(pkgExpr, "validators")
	if tb.Err != "" {
		vf.Err = tb.Err
		return vf
	}
	e := tb.byKey()[op]
	if e == nil || e.Fn == nil {
		vf.Err = "no validator registered for " + op
		return vf
	}
	vf.Fn = e.Fn
	paths, complete := c.enumPathsInl(e.Fn, 3000)
	if !complete {
		vf.Err = "too many paths in " + fnName(e.Fn)
		return vf
	}
	var sets [][]Atom
	for _, p := range paths {
		if p.Ret == nil || len(p.Ret.Results) != 1 {
			if p.Cut {
				vf.Err = "loop in validator " + fnName(e.Fn)
				return vf
			}
			continue
		}
		if !isNilConst(c.resolve(p.Ret.Results[0], p.Env)) {
			continue
		}
		at := c.expand(p.Atoms, p.Env)
		if hasAtom(at, "$0==nil") {
			continue // Validate never passes a nil *Expression (it asserts the dynamic type first)
		}
		// paths that are infeasible for this operator (validator shared between operators)
		if !c.possibleOps(at, "$0.Op")[op] {
			continue
		}
		sets = append(sets, at)
	}
	if len(sets) == 0 {
		vf.Err = "validator " + fnName(e.Fn) + " has no accepting path for " + op
		return vf
	}
	vf.Facts = commonAtoms(sets)
	vf.Sets = sets
	return vf
}

// VAL-TOTAL: validators, renderers, toString have a key for every Operator constant except Undefined.
func ruleVALTOTAL(c *Ctx, r *Report) {
	const rule = "VAL-TOTAL"
	r.doc(rule, "validators, renderers and toString have an entry for every Operator constant except Undefined; Validate fails on an operator without a validator")
	ops := c.operatorConsts()
	r.floor(rule, "operator constants", len(ops), 20)
	for _, tn := range []string{"validators", "renderers", "toString"} {
		tb := c.readTable(pkgExpr, tn)
		if tb.Err != "" {
			r.bad(rule, tn, "-", tb.Err)
			continue
		}
		have := tb.byKey()
		var names []string
		for n := range ops {
			names = append(names, n)
		}
		sort.Strings(names)
		for _, n := range names {
			if n == "Undefined" {
				continue
			}
			key := tn + "|expr." + n
			if have["expr."+n] != nil {
				r.ok(rule, key, "-", "present")
			} else {
				r.bad(rule, key, tb.where(c), fmt.Sprintf("table expr.%s has no entry for operator %s", tn, n))
			}
		}
	}
	// Validate: not-found edge returns a non-nil error; recursion into Left and Right
	validate := c.pkgFunc(pkgExpr, "Validate")
	if validate == nil {
		r.bad(rule, "Validate", "-", "expr.Validate not found")
		return
	}
	paths, _ := c.enumPaths(validate, 500)
	missOK, recL, recR := false, false, false
	for _, p := range paths {
		if p.Ret == nil {
			continue
		}
		for _, a := range p.Atoms {
			if a.Kind == "call" && strings.HasPrefix(a.Subj, "haskey:@expr.validators") && !a.Pos {
				if !isNilConst(c.resolve(p.Ret.Results[0], p.Env)) {
					missOK = true
				} else {
					r.bad(rule, "Validate|missing-validator", c.instrPos(p.Ret), "Validate returns nil for an operator that has no registered validator")
				}
			}
		}
	}
	for _, p := range paths {
		for _, pc := range p.Calls {
			if pc.Call.Call.StaticCallee() == validate && len(pc.Args) > 0 {
				if strings.HasSuffix(pc.Args[0], ".Left") {
					recL = true
				}
				if strings.HasSuffix(pc.Args[0], ".Right") {
					recR = true
				}
			}
		}
	}
	if missOK {
		r.ok(rule, "Validate|missing-validator", c.pos(validate.Pos()), "not-found edge returns an error")
	}
	// Validate has no criterion of its own: its errors are the missing-validator error, the registered
	// validator's error and the errors of its recursive calls
	{
		seenErr := map[string]bool{}
		for _, p := range paths {
			if p.Ret == nil || len(p.Ret.Results) != 1 {
				continue
			}
			ev := c.resolve(p.Ret.Results[0], p.Env)
			if isNilConst(ev) {
				continue
			}
			k := c.key(ev, p.Env)
			if seenErr[k] {
				continue
			}
			seenErr[k] = true
			okSrc := false
			if call, ok := ev.(*ssa.Call); ok {
				switch {
				case call.Call.StaticCallee() == validate:
					okSrc = true
				case call.Call.StaticCallee() == nil && !call.Call.IsInvoke():
					okSrc = true // the validator taken from the table
				case calleeFullName(call) == "fmt.Errorf" || calleeFullName(call) == "errors.New":
					vt := c.readTable(pkgExpr, "validators")
					for _, a := range p.Atoms {
						if a.Kind == "call" && !a.Pos && strings.HasPrefix(a.Subj, "haskey:") {
							okSrc = true
						}
						// the table written as a dispatch function: its "found" result is false
						if vt.Fn != nil && a.Kind == "bool" && !a.Pos && strings.HasPrefix(a.Subj, fnName(vt.Fn)+"(") {
							okSrc = true
						}
						if vt.Fn != nil && a.Kind == "nil" && a.Pos && strings.HasPrefix(a.Subj, fnName(vt.Fn)+"(") {
							okSrc = true
						}
					}
				default:
					if sc := call.Call.StaticCallee(); sc != nil {
						for _, e := range c.readTable(pkgExpr, "validators").Entries {
							if e.Fn == sc {
								okSrc = true
							}
						}
					}
				}
			}
			if okSrc {
				r.ok(rule, "Validate|error-source|"+k, c.instrPos(p.Ret), "validator / recursion / missing validator")
			} else {
				r.bad(rule, "Validate|error-source|"+k, c.instrPos(p.Ret), "Validate rejects a tree with an error that comes neither from the operator's registered validator nor from validating a child ("+k+"): a check on the content of names or values at validation time rejects queries depending on options (a default field) that otherwise only scope bare terms")
			}
		}
	}
	if recL && recR {
		// and on every path that accepts an *Expression node both recursive calls are made
		okAll := true
		for _, p := range paths {
			if p.Ret == nil {
				continue
			}
			isNode := false
			for _, a := range p.Atoms {
				if a.Kind == "type" && a.Pos && a.Subj == "$0" && a.Val == "*expr.Expression" {
					isNode = true
				}
			}
			if !isNode {
				continue
			}
			rv := c.resolve(p.Ret.Results[0], p.Env)
			var calls []string
			for _, pc := range p.Calls {
				if pc.Call.Call.StaticCallee() == validate && len(pc.Args) > 0 {
					calls = append(calls, pc.Args[0])
				}
			}
			l, rr := false, false
			for _, k := range calls {
				if strings.HasSuffix(k, ".Left") {
					l = true
				}
				if strings.HasSuffix(k, ".Right") {
					rr = true
				}
			}
			if isNilConst(rv) && !(l && rr) {
				okAll = false
				r.bad(rule, "Validate|accepts-without-visiting-children", c.instrPos(p.Ret), fmt.Sprintf("Validate accepts a node on a path that does not validate both of its children (conditions: %s): an invalid sub-expression below it is never looked at", strings.Join(atomStrings(p.Atoms), " ∧ ")))
			}
			if call, ok := rv.(*ssa.Call); ok && call.Call.StaticCallee() == validate && !l && strings.HasSuffix(c.key(call.Call.Args[0], p.Env), ".Right") {
				okAll = false
				r.bad(rule, "Validate|skips-left", c.instrPos(p.Ret), "Validate returns the verdict of the right child without having validated the left child")
			}
		}
		if okAll {
			r.ok(rule, "Validate|recursion", c.pos(validate.Pos()), "visits Left and Right on every accepting path")
		}
	} else {
		r.bad(rule, "Validate|recursion", c.pos(validate.Pos()), "Validate must visit both Left and Right of every node it accepts")
	}
	// the recursion result must be propagated: every path that skips an error is a violation —
	// checked by RET-PAIR style: every call result flows to a return or an err != nil test
	for _, b := range validate.Blocks {
		for _, in := range b.Instrs {
			call, ok := in.(*ssa.Call)
			if !ok || call.Call.StaticCallee() != validate {
				continue
			}
			used := false
			for _, ref := range *call.Referrers() {
				switch ref.(type) {
				case *ssa.Return, *ssa.BinOp, *ssa.Phi:
					used = true
				}
			}
			if !used {
				r.bad(rule, "Validate|drops-error|"+c.key(call.Call.Args[0], nil), c.instrPos(call), "the result of the recursive Validate call is dropped")
			}
		}
	}
}

// VAL-SHAPE: the validator registered per operator enforces the shape the property lists.
func ruleVALSHAPE(c *Ctx, r *Report) {
	const rule = "VAL-SHAPE"
	r.doc(rule, "validator summaries (facts common to every path from entry to `return nil` of the function registered per operator, expanded through helper summaries) must imply the documented shape: fields are leaves, range bounds are leaves, IN has a List on the right, List holds leaves, LIKE has a pattern on the right, unary nodes have exactly one operand")
	type req struct {
		what  string
		check func(vf *ValFacts) bool
	}
	leftLeaf := req{"Left is a single term (leaf expression)", func(vf *ValFacts) bool {
		return vf.all(func(f []Atom) bool { return c.leafAt(f, "$0.Left") })
	}}
	leftNonNil := req{"Left is present", func(vf *ValFacts) bool { return vf.has("$0.Left!=nil") || c.leafAt(vf.Facts, "$0.Left") }}
	rightNil := req{"Right is absent (exactly one operand)", func(vf *ValFacts) bool { return vf.has("$0.Right==nil") }}
	rightNonNil := req{"Right is present", func(vf *ValFacts) bool { return vf.has("$0.Right!=nil") }}
	payload := req{"payload is a literal value", func(vf *ValFacts) bool {
		for _, a := range vf.Facts {
			if a.Kind == "call" && a.Pos && a.Val == "$0.Left" && strings.Contains(a.Subj, "isLiteral") {
				return true
			}
		}
		return false
	}}
	reqs := map[string][]req{
		"expr.Equals": {leftLeaf}, "expr.Greater": {leftLeaf}, "expr.Less": {leftLeaf}, "expr.GreaterEq": {leftLeaf}, "expr.LessEq": {leftLeaf},
		"expr.Like": {leftLeaf, {"Right is a Wild or Regexp expression", func(vf *ValFacts) bool {
			return vf.all(func(f []Atom) bool {
				return hasAtom(f, "$0.Right is *expr.Expression") && subsetOf(c.possibleOps(f, "$0.Right.(*expr.Expression).Op"), []string{"expr.Wild", "expr.Regexp"})
			})
		}}},
		"expr.In": {leftLeaf, {"Right is a List expression", func(vf *ValFacts) bool {
			return vf.all(func(f []Atom) bool {
				return hasAtom(f, "$0.Right is *expr.Expression") && subsetOf(c.possibleOps(f, "$0.Right.(*expr.Expression).Op"), []string{"expr.List"})
			})
		}}},
		"expr.Range": {leftLeaf,
			{"Right is a non-nil *RangeBoundary", func(vf *ValFacts) bool {
				return vf.has("$0.Right is *expr.RangeBoundary") && vf.has("$0.Right.(*expr.RangeBoundary)!=nil")
			}},
			{"range bounds are single terms (leaf expressions)", func(vf *ValFacts) bool {
				return vf.all(func(f []Atom) bool {
					return c.leafAt(f, "$0.Right.(*expr.RangeBoundary).Min") && c.leafAt(f, "$0.Right.(*expr.RangeBoundary).Max")
				})
			}}},
		"expr.List": {rightNil, {"Left is a []*Expression of leaves", func(vf *ValFacts) bool {
			for _, a := range vf.Facts {
				if a.Kind == "call" && a.Pos && a.Val == "$0.Left" && a.Fn != nil && c.allElemsLeafPredicate(a.Fn) {
					return true
				}
			}
			return false
		}}},
		"expr.And": {leftNonNil, rightNonNil}, "expr.Or": {leftNonNil, rightNonNil},
		"expr.Not": {leftNonNil, rightNil}, "expr.Must": {leftNonNil, rightNil}, "expr.MustNot": {leftNonNil, rightNil},
		"expr.Boost": {leftNonNil, rightNil}, "expr.Fuzzy": {leftNonNil, rightNil},
		"expr.Literal": {leftNonNil, rightNil, payload}, "expr.Wild": {leftNonNil, rightNil, payload}, "expr.Regexp": {leftNonNil, rightNil, payload},
	}
	var ops []string
	for op := range reqs {
		ops = append(ops, op)
	}
	sort.Strings(ops)
	n := 0
	for _, op := range ops {
		vf := c.validatorFacts(op)
		if vf.Err != "" {
			r.bad(rule, op+"|validator", "-", vf.Err)
			continue
		}
		r.unit("validators", fnName(vf.Fn))
		for i, q := range reqs[op] {
			n++
			key := fmt.Sprintf("%s|req%d:%s", op, i, q.what)
			if q.check(vf) {
				r.ok(rule, key, c.pos(vf.Fn.Pos()), "implied by "+fnName(vf.Fn))
			} else {
				r.bad(rule, key, c.pos(vf.Fn.Pos()), fmt.Sprintf("the validator for %s (%s) accepts nodes for which this does not hold: %s. Facts it does establish: %s", op, fnName(vf.Fn), q.what, strings.Join(atomStrings(vf.Facts), " ∧ ")))
			}
		}
	}
	r.floor(rule, "shape requirements", n, 35)
	ruleLISTIDENT(c, r)
}

// LIST-IDENT (C08/C10 via VAL-SHAPE): the value list built by the IN production is the very list whose
// length was tested — no value is filtered out between the test and the node.
func ruleLISTIDENT(c *Ctx, r *Report) {
	const rule = "VAL-SHAPE"
	r.doc(rule+"/LIST-IDENT", "the production that builds IN nodes requires at least two values and builds the list node from the very slice whose length it tested (no de-duplicated or filtered copy): every value written in the list reaches the tree")
	pt := c.prodTable()
	inRows := 0
	for _, row := range pt.Rows {
		if row.Op != "expr.In" {
			continue
		}
		inRows++
		guarded := false
		tested := ""
		for _, o := range row.Other {
			if strings.HasPrefix(o, "len(") && (strings.HasSuffix(o, ">1") || strings.HasSuffix(o, ">=2")) {
				guarded = true
				tested = strings.TrimSuffix(strings.TrimSuffix(strings.TrimPrefix(o, "len("), ")>1"), ")>=2")
			}
		}
		if guarded {
			// the tested slice itself must be what goes into the list node
			same := false
			for _, a := range row.Args {
				if a.Val != nil && strings.Contains(c.key(a.Val, row.Path.Env), "(["+tested+"])") {
					same = true
				}
			}
			if !same {
				r.bad(rule, "expr.In|producer-list-identity", c.instrPos(row.Path.Ret), "the IN production tests the length of "+tested+" but builds the list node from something else (e.g. a filtered copy): the list can end up with fewer than two values")
			}
		}
		if guarded {
			r.ok(rule, "expr.In|producer-len", c.instrPos(row.Path.Ret), "IN production guarded by len(literals) > 1")
		} else {
			r.bad(rule, "expr.In|producer-len", c.instrPos(row.Path.Ret), "the production that builds IN nodes does not require at least two list values")
		}
	}
	if inRows == 0 {
		r.note("no production builds IN nodes")
	}
}

// VAL-EXACT (C05/C03): validators reject only what the documented shape excludes.
func ruleVALEXACT(c *Ctx, r *Report) {
	const rule = "VAL-EXACT"
	r.doc(rule, "for every operator's validator, every path that returns an error is decided by a condition of the documented shape (missing/extra operand, non-leaf field, wrong kind of right operand, wrong operator, non-literal payload): a validator that rejects well-formed trees on any other condition makes valid queries fail to parse")
	tb := c.readTable(pkgExpr, "validators")
	if tb.Err != "" {
		r.bad(rule, "table", "-", tb.Err)
		return
	}
	allowed := func(a Atom) bool {
		s := a.String()
		switch a.Kind {
		case "nil":
			// presence / absence of operands and of boundary parts
			return strings.HasPrefix(a.Subj, "$0") && !strings.Contains(a.Subj, "(") || strings.HasPrefix(a.Subj, "$0.Right.(*expr.RangeBoundary)")
		case "type":
			return !a.Pos && (a.Subj == "$0.Right" || a.Subj == "$0.Left")
		case "call":
			// negative helper predicates on an operand: leaf-ness, literal payload, list of leaves
			if a.Pos || a.Fn == nil || !inModule(a.Fn) {
				return false
			}
			return a.Val == "$0.Left" || a.Val == "$0.Right" || strings.HasPrefix(a.Val, "$0.Right.(*expr.RangeBoundary).")
		case "cmp":
			// operator of the node itself or of its right operand
			return (a.Subj == "$0.Op" || a.Subj == "$0.Right.(*expr.Expression).Op") && strings.HasPrefix(a.Val, "expr.")
		}
		_ = s
		return false
	}
	seen := map[*ssa.Function]bool{}
	n := 0
	for _, e := range tb.Entries {
		if e.Fn == nil || seen[e.Fn] {
			continue
		}
		seen[e.Fn] = true
		paths, complete := c.enumPathsInl(e.Fn, 3000)
		if !complete {
			continue
		}
		for _, p := range paths {
			if p.Ret == nil || len(p.Ret.Results) != 1 || isNilConst(c.resolve(p.Ret.Results[0], p.Env)) {
				continue
			}
			n++
			okLast := false
			for _, a := range p.Last {
				if allowed(a) {
					okLast = true
				}
				// a predicate on the whole node (missingLeft(e), hasRight(e)): judged by what it tests
				if a.Kind == "call" && a.Fn != nil && inModule(a.Fn) && a.Val == "$0" {
					if exp := c.expand([]Atom{a}, nil); len(exp) > 1 {
						all := true
						for _, x := range exp[1:] {
							if !allowed(x) {
								all = false
							}
						}
						if all {
							okLast = true
						}
					}
				}
			}
			key := fmt.Sprintf("%s|error@%s", fnName(e.Fn), c.retOrdinal(e.Fn, p.Ret))
			if okLast {
				r.ok(rule, key, c.instrPos(p.Ret), strings.Join(atomStrings(p.Last), " ∧ "))
			} else {
				r.bad(rule, fnName(e.Fn)+"|undocumented-rejection|"+strings.Join(atomStrings(p.Last), "∧"), c.instrPos(p.Ret), fmt.Sprintf("%s rejects a node on the condition [%s], which is not part of the documented shape of that operator: well-formed queries (e.g. an operator applied to another operator's result) fail to parse or render", fnName(e.Fn), strings.Join(atomStrings(p.Last), " ∧ ")))
			}
		}
	}
	r.floor(rule, "error paths of validators", n, 30)
}

// allElemsByContainsFunc: fn(x) is `list, ok := x.([]*Expression); return ok && !slices.ContainsFunc(list,
// func(v) bool { return !leaf(v) })` — every true return is the negation of a search for a non-leaf.
func (c *Ctx) allElemsByContainsFunc(fn *ssa.Function) bool {
	nTrue := 0
	for _, b := range fn.Blocks {
		for _, in := range b.Instrs {
			ret, ok := in.(*ssa.Return)
			if !ok || len(ret.Results) != 1 {
				continue
			}
			var vals []ssa.Value
			if ph, isPhi := ret.Results[0].(*ssa.Phi); isPhi {
				vals = ph.Edges
			} else {
				vals = []ssa.Value{ret.Results[0]}
			}
			for _, v := range vals {
				if k, isC := constBoolVal(v); isC {
					if k {
						return false // an unconditional true
					}
					continue
				}
				not, ok := v.(*ssa.UnOp)
				if !ok || not.Op != token.NOT {
					return false
				}
				call, ok := not.X.(*ssa.Call)
				if !ok || call.Call.StaticCallee() == nil || !strings.HasPrefix(call.Call.StaticCallee().String(), "slices.ContainsFunc[") || len(call.Call.Args) != 2 {
					return false
				}
				if c.key(call.Call.Args[0], nil) != "$0.([]*expr.Expression)" {
					return false
				}
				var pred *ssa.Function
				switch f := call.Call.Args[1].(type) {
				case *ssa.Function:
					pred = f
				case *ssa.MakeClosure:
					pred, _ = f.Fn.(*ssa.Function)
				}
				if pred == nil || len(pred.Params) != 1 || len(pred.Blocks) != 1 {
					return false
				}
				// pred(v) = !leaf(v)
				okPred := false
				for _, pin := range pred.Blocks[0].Instrs {
					if pr, ok := pin.(*ssa.Return); ok && len(pr.Results) == 1 {
						if n2, ok := pr.Results[0].(*ssa.UnOp); ok && n2.Op == token.NOT {
							if lc, ok := n2.X.(*ssa.Call); ok && lc.Call.StaticCallee() != nil && c.isLeafPredicate(lc.Call.StaticCallee()) && len(lc.Call.Args) == 1 {
								arg := lc.Call.Args[0]
								if mi, ok := arg.(*ssa.MakeInterface); ok {
									arg = mi.X
								}
								okPred = arg == ssa.Value(pred.Params[0])
							}
						}
					}
				}
				if !okPred {
					return false
				}
				nTrue++
			}
		}
	}
	return nTrue > 0
}

// VAL-KINDS (C03/C05/C06/C10): every kind of leaf payload the token→literal function produces is a kind the
// leaf validators accept. Parse validates what it built; a payload kind the validator does not know makes
// every query with such a term unparseable (a float, say) although nothing is wrong with it.
func ruleVALKINDS(c *Ctx, r *Report) {
	const rule = "VAL-KINDS"
	r.doc(rule, "the Go kinds of leaf payloads the token→literal function hands to the leaf constructors (string, int, float64 today) are all among the dynamic types under which the validators registered for Literal, Wild and Regexp accept a payload (read off the paths of the validator and the boolean helpers it calls)")
	pr := c.parserRoles()
	if pr.Err != "" || pr.TokToLit == nil {
		r.bad(rule, "anchor", "-", "token→literal function not found")
		return
	}
	// kinds produced, per leaf operator
	produced := map[string]map[string]string{}
	for fn := range c.reachFrom([]*ssa.Function{pr.TokToLit}) {
		if fnPkgPath(fn) != pkgRoot {
			continue
		}
		for _, b := range fn.Blocks {
			for _, in := range b.Instrs {
				call, ok := in.(*ssa.Call)
				if !ok || call.Call.StaticCallee() == nil || fnPkgPath(call.Call.StaticCallee()) != pkgExpr || len(call.Call.Args) == 0 {
					continue
				}
				ops := c.ctorOperator(call.Call.StaticCallee())
				if len(ops) != 1 {
					continue
				}
				if mi, ok := call.Call.Args[0].(*ssa.MakeInterface); ok {
					if produced[ops[0]] == nil {
						produced[ops[0]] = map[string]string{}
					}
					produced[ops[0]][typeStr(mi.X.Type())] = c.instrPos(in)
				}
			}
		}
	}
	vt := c.readTable(pkgExpr, "validators").byKey()
	n := 0
	var opsSorted []string
	for op := range produced {
		opsSorted = append(opsSorted, op)
	}
	sort.Strings(opsSorted)
	for _, op := range opsSorted {
		te := vt[op]
		if te == nil || te.Fn == nil {
			continue // VAL-TOTAL reports a missing validator
		}
		// accepted dynamic types of $0.Left on the validator's accepting paths (helpers read in place)
		paths, _ := c.enumPathsOpt(te.Fn, 5000, c.inlBool())
		accepted := map[string]bool{}
		unconstrained := false
		for _, p := range paths {
			if p.Ret == nil || len(p.Ret.Results) != 1 || !isNilConst(c.resolve(p.Ret.Results[0], p.Env)) {
				continue
			}
			any := false
			nilNode := false
			for _, a := range p.Atoms {
				if a.Kind == "nil" && a.Pos && a.Subj == "$0" {
					nilNode = true // the validator's answer for a nil node says nothing about payloads
				}
			}
			if nilNode {
				continue
			}
			for _, a := range p.Atoms {
				if a.Kind == "type" && a.Pos && strings.HasSuffix(a.Subj, ".Left") {
					accepted[a.Val] = true
					any = true
				}
			}
			if !any {
				unconstrained = true
			}
		}
		var kinds []string
		for k := range produced[op] {
			kinds = append(kinds, k)
		}
		sort.Strings(kinds)
		for _, k := range kinds {
			n++
			key := op + "|payload|" + k
			if unconstrained || accepted[k] {
				r.ok(rule, key, produced[op][k], "accepted by "+fnName(te.Fn))
			} else {
				r.bad(rule, key, produced[op][k], fmt.Sprintf("the token→literal function builds %s leaves with a %s payload, but %s accepts only payloads of type %v: every query containing such a term fails validation and Parse rejects it", op, k, fnName(te.Fn), setKeys(accepted)))
			}
		}
	}
	r.floor(rule, "leaf payload kinds produced by the parser", n, 3)
}

// PARAM-KINDS (C04): the values of a query are ints, float64s and strings. The parameter list carries the
// leaf payloads themselves, and the parameterized range function chooses its form from their Go kinds, so a
// payload of any other kind (a uint64 for "ids that do not fit an int", a json.Number, a []byte) arrives as a
// parameter the property does not allow and takes the wrong branch there.
func rulePARAMKINDS(c *Ctx, r *Report) {
	const rule = "PARAM-KINDS"
	r.doc(rule, "every payload the token→literal function hands to a leaf constructor has the static type string, int or float64 (the kinds parameters are promised to have, and the kinds the parameterized range function's type switch distinguishes)")
	pr := c.parserRoles()
	if pr.Err != "" || pr.TokToLit == nil {
		r.bad(rule, "anchor", "-", "token→literal function not found")
		return
	}
	n := 0
	seen := map[string]bool{}
	for fn := range c.reachFrom([]*ssa.Function{pr.TokToLit}) {
		if fnPkgPath(fn) != pkgRoot {
			continue
		}
		for _, b := range fn.Blocks {
			for _, in := range b.Instrs {
				call, ok := in.(*ssa.Call)
				if !ok || call.Call.StaticCallee() == nil || fnPkgPath(call.Call.StaticCallee()) != pkgExpr || len(call.Call.Args) == 0 {
					continue
				}
				callee := call.Call.StaticCallee()
				if callee.Signature.Results().Len() != 1 || !isExprPtr(callee.Signature.Results().At(0).Type()) {
					continue
				}
				mi, ok := call.Call.Args[0].(*ssa.MakeInterface)
				if !ok {
					continue
				}
				k := typeStr(mi.X.Type())
				key := "payload|" + k
				if seen[key] {
					continue
				}
				seen[key] = true
				n++
				switch k {
				case "string", "int", "float64":
					r.ok(rule, key, c.instrPos(in), "a promised parameter kind")
				default:
					r.bad(rule, key, c.instrPos(in), fmt.Sprintf("the token→literal function builds a leaf with a payload of type %s: it travels as a parameter of that kind (neither int, float64 nor string) and the parameterized range function, which picks its form from the kind of the first parameter, no longer recognises it as a number", k))
				}
			}
		}
	}
	r.floor(rule, "payload kinds", n, 3)
}
