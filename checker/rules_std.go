package main

// Rules about the unit of text (byte vs rune) on the paths that carry query text into the tree, the
// SQL and the JSON. They decide a structural necessary condition of "values are delivered verbatim":
// no construct on those paths re-encodes or truncates a non-ASCII character.

import (
	"fmt"
	"go/token"
	"go/types"
	"sort"
	"strconv"
	"strings"

	"golang.org/x/tools/go/ssa"
)

func basicKind(t types.Type) types.BasicKind {
	if b, ok := t.Underlying().(*types.Basic); ok {
		return b.Kind()
	}
	return types.Invalid
}

// onlyCompared: every (transitive) use of v is a comparison, a call of a boolean predicate, or a
// widening to another integer that is itself only compared — the value never becomes data.
func (c *Ctx) onlyCompared(v ssa.Value, seen map[ssa.Value]bool) (bool, ssa.Instruction) {
	if seen[v] {
		return true, nil
	}
	seen[v] = true
	refs := v.Referrers()
	if refs == nil {
		return true, nil
	}
	for _, ref := range *refs {
		switch x := ref.(type) {
		case *ssa.BinOp:
			if isCmp(x.Op) {
				continue
			}
			return false, ref
		case *ssa.Phi:
			if ok, at := c.onlyCompared(x, seen); !ok {
				return false, at
			}
		case *ssa.Convert:
			if isIntegerType(x.Type()) {
				if ok, at := c.onlyCompared(x, seen); !ok {
					return false, at
				}
				continue
			}
			return false, ref
		case *ssa.Call:
			res := x.Call.Signature().Results()
			if res.Len() == 1 && basicKind(res.At(0).Type()) == types.Bool {
				continue
			}
			return false, ref
		case *ssa.DebugRef:
			continue
		case *ssa.If:
			continue
		default:
			return false, ref
		}
	}
	return true, nil
}

// asciiBound: the atoms in force at `at` bound the value with key k below utf8.RuneSelf.
func asciiBound(atoms []Atom, k string) bool {
	for _, a := range atoms {
		if a.Kind != "cmp" || a.Subj != k {
			continue
		}
		var n int64
		if _, err := fmt.Sscan(a.Val, &n); err != nil {
			continue
		}
		switch a.Op {
		case "<":
			if n <= 128 {
				return true
			}
		case "<=", "==":
			if n < 128 {
				return true
			}
		}
	}
	return false
}

// stringRangeIndex: v is the index variable of a `for i, r := range s` loop over a string; returns s.
func stringRangeIndex(v ssa.Value) (ssa.Value, *ssa.Next, bool) {
	ex, ok := v.(*ssa.Extract)
	if !ok || ex.Index != 1 {
		return nil, nil, false
	}
	nx, ok := ex.Tuple.(*ssa.Next)
	if !ok || !nx.IsString {
		return nil, nil, false
	}
	rg, ok := nx.Iter.(*ssa.Range)
	if !ok {
		return nil, nil, false
	}
	return rg.X, nx, true
}

func ruleTEXTCONV(c *Ctx, r *Report) {
	const rule = "TEXT-UNIT"
	r.doc(rule, "on the paths that carry query text (everything reachable from Parse, the renderers, the printers and the JSON methods): a byte taken from a string is never widened to a rune that becomes data (rune(s[i]) written out re-encodes each byte of a multi-byte character), a rune is never narrowed to a byte that becomes data (byte(r) keeps the low 8 bits), and a string is never indexed at the byte offset of a range-over-string loop to obtain data (s[i] is only the first byte of the character) — unless a dominating test bounds the value below utf8.RuneSelf, or the value is only compared")
	reach := c.reachFrom(append(c.rootsC01(), c.rootsC13()...))
	n := 0
	for _, fn := range sortedFuncs(reach) {
		if !inLib(fn) {
			continue
		}
		for _, b := range fn.Blocks {
			for _, in := range b.Instrs {
				switch x := in.(type) {
				case *ssa.Convert:
					from, to := basicKind(x.X.Type()), basicKind(x.Type())
					switch {
					case from == types.Uint8 && (to == types.Int32 || to == types.Int || to == types.Uint32) && c.byteOfText(x.X):
						n++
						key := fmt.Sprintf("%s|widen|%s", fnName(fn), c.key(x.X, nil))
						if ok, at := c.onlyCompared(x, map[ssa.Value]bool{}); ok {
							r.ok(rule, key, c.instrPos(in), "the widened byte is only compared")
						} else if asciiBound(c.atomsAt(in), c.key(x.X, nil)) || c.ssaBoundBelow(in, x.X, 128) {
							r.ok(rule, key, c.instrPos(in), "the byte is below utf8.RuneSelf here")
						} else if !c.flowsToText(x, map[ssa.Value]bool{}) {
							r.ok(rule, key, c.instrPos(in), "the widened byte is used as a number, not as text")
						} else {
							r.bad(rule, key, c.instrPos(in), fmt.Sprintf("%s turns the single byte %s of a string into a rune that is written out as text (at %s): every byte of a multi-byte character is re-encoded on its own, so non-ASCII text is not delivered verbatim", fnName(fn), c.key(x.X, nil), c.instrPos(at)))
						}
					case (from == types.Int32 || from == types.Int) && to == types.Uint8 && c.runeOfText(x.X):
						n++
						key := fmt.Sprintf("%s|narrow|%s", fnName(fn), c.key(x.X, nil))
						if _, isC := c.resolve(x.X, nil).(*ssa.Const); isC {
							r.ok(rule, key, c.instrPos(in), "constant")
						} else if ok, _ := c.onlyCompared(x, map[ssa.Value]bool{}); ok {
							r.ok(rule, key, c.instrPos(in), "the narrowed rune is only compared")
						} else if asciiBound(c.atomsAt(in), c.key(x.X, nil)) {
							r.ok(rule, key, c.instrPos(in), "the rune is below utf8.RuneSelf here")
						} else {
							r.bad(rule, key, c.instrPos(in), fmt.Sprintf("%s narrows the rune %s to a byte that is used as data: only the low 8 bits survive, so a character above U+00FF turns into an unrelated byte (U+0127 becomes a quote)", fnName(fn), c.key(x.X, nil)))
						}
					}
				case *ssa.Index:
					if !isStringType(x.X.Type()) {
						continue
					}
					s, nx, isRangeIdx := stringRangeIndex(x.Index)
					if !isRangeIdx || c.key(s, nil) != c.key(x.X, nil) {
						continue
					}
					n++
					key := fmt.Sprintf("%s|range-index|%s", fnName(fn), c.key(x.X, nil))
					runeKey := ""
					for _, ref := range *nx.Referrers() {
						if ex, ok := ref.(*ssa.Extract); ok && ex.Index == 2 {
							runeKey = c.key(ex, nil)
						}
					}
					if ok, _ := c.onlyCompared(x, map[ssa.Value]bool{}); ok {
						r.ok(rule, key, c.instrPos(in), "the byte is only compared")
					} else if runeKey != "" && asciiBound(c.atomsAt(in), runeKey) {
						r.ok(rule, key, c.instrPos(in), "the character is below utf8.RuneSelf here, so it is its only byte")
					} else {
						r.bad(rule, key, c.instrPos(in), fmt.Sprintf("%s takes %s[i] as data inside `for i, r := range %s`: i is the byte offset of the character, so only the first byte of a multi-byte character is kept and the text becomes invalid UTF-8", fnName(fn), c.key(x.X, nil), c.key(x.X, nil)))
					}
				}
			}
		}
	}
	r.ok(rule, "sites-examined", "-", fmt.Sprintf("%d byte/rune unit changes examined", n))
}

// byteOfText: v is a byte read out of a string or a []byte (an element load), as opposed to a number.
func (c *Ctx) byteOfText(v ssa.Value) bool {
	switch x := c.resolve(v, nil).(type) {
	case *ssa.Lookup:
		return isStringType(x.X.Type())
	case *ssa.Index:
		return isStringType(x.X.Type()) || basicKind(x.Type()) == types.Uint8
	case *ssa.UnOp:
		if x.Op == token.MUL {
			if ia, ok := x.X.(*ssa.IndexAddr); ok {
				return isByteSlice(ia.X.Type())
			}
		}
	case *ssa.Phi:
		for _, e := range x.Edges {
			if e != ssa.Value(x) && c.byteOfText(e) {
				return true
			}
		}
	}
	return false
}

func isByteSlice(t types.Type) bool {
	switch u := t.Underlying().(type) {
	case *types.Slice:
		return basicKind(u.Elem()) == types.Uint8
	case *types.Pointer:
		if a, ok := u.Elem().Underlying().(*types.Array); ok {
			return basicKind(a.Elem()) == types.Uint8
		}
	}
	return false
}

// runeOfText: v is a rune obtained from text: a range-over-string character, the result of a decode
// function, a parameter of type rune, or an element of a []rune.
func (c *Ctx) runeOfText(v ssa.Value) bool {
	if basicKind(v.Type()) != types.Int32 {
		return false
	}
	switch x := c.resolve(v, nil).(type) {
	case *ssa.Const:
		return false
	case *ssa.BinOp:
		// arithmetic on characters ('0' + d) is a number computation
		return false
	case *ssa.Phi:
		for _, e := range x.Edges {
			if e != ssa.Value(x) && c.runeOfText(e) {
				return true
			}
		}
		return false
	}
	return true
}

// flowsToText: the rune value v reaches a text sink (WriteRune, string(r), append to a rune or byte
// sequence, a store) rather than arithmetic.
func (c *Ctx) flowsToText(v ssa.Value, seen map[ssa.Value]bool) bool {
	if seen[v] {
		return false
	}
	seen[v] = true
	refs := v.Referrers()
	if refs == nil {
		return false
	}
	for _, ref := range *refs {
		switch x := ref.(type) {
		case *ssa.Convert:
			if isStringType(x.Type()) {
				return true
			}
			if c.flowsToText(x, seen) {
				return true
			}
		case *ssa.Phi:
			if c.flowsToText(x, seen) {
				return true
			}
		case *ssa.Store:
			if x.Val == v {
				return true
			}
		case *ssa.Call:
			name := calleeFullName(x)
			if strings.HasSuffix(name, ".WriteRune") || strings.HasSuffix(name, "AppendRune") || strings.HasSuffix(name, "EncodeRune") {
				return true
			}
			res := x.Call.Signature().Results()
			if res.Len() == 1 && basicKind(res.At(0).Type()) == types.Bool {
				continue
			}
			if inModule(x.Call.StaticCallee()) {
				return true
			}
		case *ssa.MakeInterface:
			return true
		case *ssa.Return:
			return true
		}
	}
	return false
}

// JSON-METHODS (C12): the custom encoder is in the method set of both Expression and *Expression.
func ruleJSONMETHODS(c *Ctx, r *Report) {
	const rule = "JSON-METHODS"
	r.doc(rule, "MarshalJSON is declared on the value type of every node type that has a custom encoding, so encoding/json finds it for a value as well as for a pointer (held in an interface field, passed by value, or stored in a struct): with a pointer receiver a non-addressable value is silently encoded field by field, without operator, distance or power; UnmarshalJSON is declared on the pointer")
	n := 0
	for _, name := range []string{"Expression"} {
		t := c.namedType(pkgExpr, name)
		if t == nil {
			r.bad(rule, "anchor|"+name, "-", "type "+name+" not found")
			continue
		}
		val, ptr := types.NewMethodSet(t), types.NewMethodSet(types.NewPointer(t))
		pos := c.pos(t.Obj().Pos())
		n++
		switch {
		case val.Lookup(t.Obj().Pkg(), "MarshalJSON") != nil:
			r.ok(rule, name+"|MarshalJSON", pos, "in the method set of the value type (and therefore of the pointer)")
		case ptr.Lookup(t.Obj().Pkg(), "MarshalJSON") != nil:
			r.badW(rule, name+"|MarshalJSON", pos, "MarshalJSON has a pointer receiver: it is not in the method set of "+name+", so json.Marshal of an expression passed by value (or held as a value in another struct) falls back to the struct tags and drops the operator, fuzzy distance and boost power", "json.Marshal(*e) for e := Parse(`a:b`) gives {\"left\":…,\"right\":…} with no operator; decoding it yields Op Undefined")
		default:
			r.bad(rule, name+"|MarshalJSON", pos, "no MarshalJSON method")
		}
		if ptr.Lookup(t.Obj().Pkg(), "UnmarshalJSON") != nil && val.Lookup(t.Obj().Pkg(), "UnmarshalJSON") == nil {
			r.ok(rule, name+"|UnmarshalJSON", pos, "pointer receiver")
		} else {
			r.bad(rule, name+"|UnmarshalJSON", pos, "UnmarshalJSON must have a pointer receiver (a value receiver decodes into a copy)")
		}
	}
	r.floor(rule, "node types with a custom encoding", n, 1)
}

// JSON-LEAF-ORDER (C12): the decoder's raw-leaf function tries the integer reading first.
func ruleJSONLEAFORDER(c *Ctx, r *Report) {
	const rule = "JSON-LEAF-ORDER"
	r.doc(rule, "in the decoder's raw-leaf function (raw JSON value → leaf): the integer reading (strconv.Atoi/ParseInt) is tried before every other strconv reading and the float reading before every remaining one, so the digits the encoder writes for an int leaf decode as an int again (strconv.ParseBool accepts \"1\" and \"0\", ParseFloat accepts every integer); a reading decided by a leading-quote test or by json.Unmarshal into a string is disjoint from numbers and may come in any order")
	dec := c.rawLeafDecoder()
	if dec == nil {
		r.bad(rule, "anchor", "-", "raw-leaf decoder (func([]byte) (*Expression, error) in package expr) not found")
		return
	}
	paths, complete := c.enumPathsOpt(dec, 20000, c.inlBool())
	if !complete {
		r.bad(rule, "paths", c.pos(dec.Pos()), "too many paths")
		return
	}
	n := 0
	seen := map[string]bool{}
	for _, p := range paths {
		if p.Ret == nil || len(p.Ret.Results) != 2 || !isNilConst(c.resolve(p.Ret.Results[1], p.Env)) {
			continue
		}
		res, re := c.resolveE(p.Ret.Results[0], p.Env)
		call, isCall := res.(*ssa.Call)
		if !isCall || len(call.Call.Args) == 0 {
			continue
		}
		arg := c.key(call.Call.Args[0], re)
		i := strings.Index(arg, "strconv.")
		if i < 0 {
			continue
		}
		parser := arg[i:]
		if j := strings.Index(parser, "("); j > 0 {
			parser = parser[:j]
		}
		n++
		triedInt, triedFloat, quoted := false, false, false
		for _, a := range p.Atoms {
			s := a.String()
			if a.Kind == "nil" && !a.Pos && (strings.Contains(a.Subj, "strconv.Atoi(") || strings.Contains(a.Subj, "strconv.ParseInt(")) {
				triedInt = true
			}
			if a.Kind == "nil" && !a.Pos && strings.Contains(a.Subj, "strconv.ParseFloat(") {
				triedFloat = true
			}
			if a.Kind == "cmp" && a.Op == "==" && a.Val == "34" && strings.HasSuffix(a.Subj, "[0]") && !a.Neg {
				quoted = true
			}
			_ = s
		}
		key := fnName(dec) + "|" + parser
		if seen[key] {
			continue
		}
		var bad string
		switch parser {
		case "strconv.Atoi", "strconv.ParseInt":
		case "strconv.ParseFloat":
			if !triedInt && !quoted {
				bad = "a float leaf is produced without first trying the integer reading: the digits written for an int leaf decode as a float"
			}
		default:
			if !quoted && (!triedInt || !triedFloat) {
				bad = "a leaf is typed by " + parser + " before the integer and float readings have failed: text that the encoder wrote for a number (" + parser + " accepts \"1\" and \"0\") decodes as a different kind of leaf"
			}
		}
		seen[key] = true
		if bad == "" {
			r.ok(rule, key, c.instrPos(p.Ret), "numeric readings tried in order")
		} else {
			r.badW(rule, key, c.instrPos(p.Ret), bad, "{\"left\":\"a\",\"operator\":\"EQUALS\",\"right\":1} decodes with a bool leaf and re-encodes as true")
		}
	}
	r.floor(rule, "leaf paths typed by a strconv reading", n, 2)
}

// contentOps lists the constructs of fn that read the content of a string (as opposed to the shape of
// a tree): character iteration, indexing, slicing, comparison of strings, calls into the text packages.
func (c *Ctx) contentOps(fn *ssa.Function) []ssa.Instruction {
	var out []ssa.Instruction
	for _, b := range fn.Blocks {
		for _, in := range b.Instrs {
			switch x := in.(type) {
			case *ssa.Range:
				if isStringType(x.X.Type()) {
					out = append(out, in)
				}
			case *ssa.Index:
				if isStringType(x.X.Type()) {
					out = append(out, in)
				}
			case *ssa.Lookup:
				if isStringType(x.X.Type()) {
					out = append(out, in)
				}
			case *ssa.Slice:
				if isStringType(x.X.Type()) {
					out = append(out, in)
				}
			case *ssa.BinOp:
				if isCmp(x.Op) && isStringType(x.X.Type()) {
					out = append(out, in)
				}
			case *ssa.Convert:
				// string → []byte / []rune: the characters are about to be looked at
				if isStringType(x.X.Type()) && !isStringType(x.Type()) {
					out = append(out, in)
				}
			case *ssa.Call:
				name := calleeFullName(x)
				for _, p := range []string{"strings.", "unicode.", "unicode/utf8.", "bytes.", "regexp.", "strconv."} {
					if strings.HasPrefix(name, p) {
						out = append(out, in)
					}
				}
				if bi, ok := x.Call.Value.(*ssa.Builtin); ok && bi.Name() == "len" && len(x.Call.Args) == 1 && isStringType(x.Call.Args[0].Type()) {
					out = append(out, in)
				}
			}
		}
	}
	return out
}

// DF-VALID (C11): the validator of the operator that default-field scoping introduces decides on shape only.
func ruleDFVALID(c *Ctx, r *Report) {
	const rule = "DF-VALID"
	r.doc(rule, "the validator registered for Equals — the node the default field wraps around a bare term — and every helper it reaches decide on the shape of the node only (operators, operand kinds, presence); none of them reads the characters of a value. A bare term is validated as a leaf without the option and as the right operand of Equals with it, so a content test on Equals values rejects, only with the option, a query that is accepted without it")
	tb := c.readTable(pkgExpr, "validators")
	var vf *ssa.Function
	for _, e := range tb.Entries {
		if e.KeyName == "expr.Equals" || e.KeyName == "Equals" {
			vf = e.Fn
		}
	}
	if vf == nil {
		r.bad(rule, "anchor", "-", "validator of expr.Equals not found in the validators table")
		return
	}
	n := 0
	for _, fn := range sortedFuncs(c.reachFrom([]*ssa.Function{vf})) {
		if !inLib(fn) {
			continue
		}
		// the printers are reached through error messages (%s of a node); they do not decide anything
		if fn.Name() == "String" || fn.Name() == "GoString" || !c.decides(vf, fn) {
			continue
		}
		n++
		ops := c.contentOps(fn)
		if len(ops) == 0 {
			r.ok(rule, fnName(fn), c.pos(fn.Pos()), "shape tests only")
			continue
		}
		r.bad(rule, fnName(fn)+"|content", c.instrPos(ops[0]), fmt.Sprintf("%s, reached from the Equals validator, reads the characters of a string value (%s): a value-dependent rejection there applies to `f:term` but not to the bare term, so a query accepted without a default field is rejected with one", fnName(fn), ops[0].String()))
	}
	r.floor(rule, "functions deciding Equals validity", n, 2)
}

// decides: fn is reachable from root through calls whose results feed a branch or a return (not through
// the operands of an error message).
func (c *Ctx) decides(root, fn *ssa.Function) bool {
	if root == fn {
		return true
	}
	seen := map[*ssa.Function]bool{root: true}
	work := []*ssa.Function{root}
	for len(work) > 0 {
		f := work[0]
		work = work[1:]
		for _, b := range f.Blocks {
			for _, in := range b.Instrs {
				call, ok := in.(*ssa.Call)
				if !ok {
					continue
				}
				g := call.Call.StaticCallee()
				if g == nil || !inLib(g) || seen[g] {
					continue
				}
				res := g.Signature.Results()
				if res.Len() == 0 {
					continue
				}
				// a predicate or an error-returning helper decides; a string-returning printer does not
				if res.Len() == 1 && isStringType(res.At(0).Type()) {
					continue
				}
				seen[g] = true
				if g == fn {
					return true
				}
				work = append(work, g)
			}
		}
	}
	return false
}

// ---------------------------------------------------------------------------------------------
// "x contains one of the characters S" — one meaning, many spellings. The sibling rules compare the
// wildcard tests of the parser and the decoder; they are compared by this meaning, not by their text.

func runeSetOfKeyString(k string) (string, bool) {
	// a Go-quoted string constant key such as "\"*?\""
	if len(k) < 2 || k[0] != '"' {
		return "", false
	}
	s, err := strconv.Unquote(k)
	if err != nil {
		return "", false
	}
	return s, true
}

func sortedRunes(s string) string {
	rs := []rune(s)
	sort.Slice(rs, func(i, j int) bool { return rs[i] < rs[j] })
	var out []rune
	for i, r := range rs {
		if i == 0 || r != rs[i-1] {
			out = append(out, r)
		}
	}
	return string(out)
}

func splitTopArgs(s string) []string {
	var out []string
	depth, start, inStr := 0, 0, false
	for i := 0; i < len(s); i++ {
		ch := s[i]
		switch {
		case inStr:
			if ch == '\\' {
				i++
			} else if ch == '"' {
				inStr = false
			}
		case ch == '"':
			inStr = true
		case ch == '(' || ch == '[' || ch == '{':
			depth++
		case ch == ')' || ch == ']' || ch == '}':
			depth--
		case ch == ',' && depth == 0:
			out = append(out, s[start:i])
			start = i + 1
		}
	}
	return append(out, s[start:])
}

// charsetCall: a call key/args of a strings function that asks for the characters; returns subject and set.
func charsetCall(name string, args []string) (subj, set string, ok bool) {
	if len(args) != 2 {
		return
	}
	switch name {
	case "strings.ContainsAny", "strings.IndexAny":
		if s, isStr := runeSetOfKeyString(args[1]); isStr && s != "" {
			return args[0], sortedRunes(s), true
		}
	case "strings.Contains", "strings.Index":
		if s, isStr := runeSetOfKeyString(args[1]); isStr && len([]rune(s)) == 1 {
			return args[0], s, true
		}
	case "strings.ContainsRune", "strings.IndexRune", "strings.IndexByte":
		var n int64
		if _, err := fmt.Sscan(args[1], &n); err == nil && fmt.Sprint(n) == args[1] && n > 0 {
			return args[0], string(rune(n)), true
		}
	}
	return
}

// charsetAtom: atom a says "subj contains (pos) / does not contain (!pos) one of the characters of set".
func (c *Ctx) charsetAtom(a Atom) (subj, set string, pos, ok bool) {
	switch a.Kind {
	case "call":
		if strings.HasPrefix(a.Subj, "strings.Contains") {
			if s, st, ok := charsetCall(a.Subj, splitTopArgs(a.Val)); ok {
				return s, st, a.Pos, true
			}
		}
		if a.Fn != nil && inModule(a.Fn) && len(a.Fn.Params) == 1 && isStringType(a.Fn.Params[0].Type()) {
			if st, ok := c.charsetPredicate(a.Fn); ok {
				return a.Val, st, a.Pos, true
			}
		}
	case "cmp":
		// strings.IndexByte(x, c) >= 0 and friends
		i := strings.Index(a.Subj, "(")
		if i < 0 || !strings.HasPrefix(a.Subj, "strings.Index") || !strings.HasSuffix(a.Subj, ")") {
			return
		}
		s, st, isSet := charsetCall(a.Subj[:i], splitTopArgs(a.Subj[i+1:len(a.Subj)-1]))
		if !isSet {
			return
		}
		switch a.Op + a.Val {
		case ">=0", "!=-1", ">-1":
			return s, st, true, true
		case "<0", "==-1", "<=-1":
			return s, st, false, true
		}
	}
	return
}

// charsetPredicate: fn(s string) bool is "s contains one of the characters of set", written with the
// strings functions or as a loop over every byte / rune of s that returns true on an equality with a constant.
func (c *Ctx) charsetPredicate(fn *ssa.Function) (string, bool) {
	memo := "charsetPred"
	m, _ := c.roles[memo].(map[*ssa.Function]string)
	if m == nil {
		m = map[*ssa.Function]string{}
		c.roles[memo] = m
	}
	if v, ok := m[fn]; ok {
		return v, v != ""
	}
	m[fn] = ""
	if fn.Signature.Results().Len() != 1 || !isBool(fn.Signature.Results().At(0).Type()) || len(fn.Blocks) == 0 {
		return "", false
	}
	// loops: exactly the full-coverage forms
	for _, b := range fn.Blocks {
		for _, s := range b.Succs {
			if s == b || s.Dominates(b) {
				if !(c.isRangeHeader(s) || c.fullCountingLoop(s, fn.Params[0])) {
					return "", false
				}
			}
		}
	}
	paths, complete := c.enumPathsOpt(fn, 2000, &InlineOpts{None: true, Havoc: true})
	if !complete {
		return "", false
	}
	set := ""
	type pathInfo struct {
		res      bool
		pos, neg string
	}
	var infos []pathInfo
	for _, p := range paths {
		if p.Ret == nil {
			continue // a cut path (loop iteration that goes round again)
		}
		res, isC := constBoolVal(c.resolve(p.Ret.Results[0], p.Env))
		if !isC {
			return "", false
		}
		pi := pathInfo{res: res}
		for _, a := range p.Atoms {
			if _, st, pos, ok := c.charsetAtom(a); ok {
				if pos {
					pi.pos += st
				} else {
					pi.neg += st
				}
				continue
			}
			// element tests inside a loop over the text
			if a.Kind == "cmp" && (strings.HasPrefix(a.Subj, "$0[") || strings.HasPrefix(a.Subj, "next:")) {
				var n int64
				if _, err := fmt.Sscan(a.Val, &n); err == nil && n > 0 && n < 128 {
					switch a.Op {
					case "==":
						pi.pos += string(rune(n))
						continue
					case "!=":
						pi.neg += string(rune(n))
						continue
					}
				}
			}
			// loop control: the counter against the length, the range iterator
			if a.Kind == "cmp" && strings.Contains(a.Val, "len($0)") || a.Kind == "bool" && strings.HasPrefix(a.Subj, "next:") || a.Kind == "len" && a.Subj == "$0" {
				continue
			}
			return "", false
		}
		infos = append(infos, pi)
		if res {
			set += pi.pos
		}
	}
	set = sortedRunes(set)
	if set == "" {
		return "", false
	}
	for _, pi := range infos {
		if pi.res && pi.pos == "" {
			return "", false // true without having found a character
		}
		if !pi.res && pi.pos != "" {
			return "", false // found a character and still false
		}
	}
	m[fn] = set
	return set, true
}

// fullCountingLoop: h heads `for i := 0; i < len(s); i++` over the given string.
func (c *Ctx) fullCountingLoop(h *ssa.BasicBlock, s ssa.Value) bool {
	if !c.isCountingLoop(h) {
		return false
	}
	iff := h.Instrs[len(h.Instrs)-1].(*ssa.If)
	bo := iff.Cond.(*ssa.BinOp)
	ph := bo.X.(*ssa.Phi)
	if bo.Op != token.LSS {
		return false
	}
	call, ok := bo.Y.(*ssa.Call)
	if !ok || len(call.Call.Args) != 1 || c.key(call.Call.Args[0], nil) != c.key(s, nil) {
		return false
	}
	for i, pred := range h.Preds {
		e := ph.Edges[i]
		if pred == h || h.Dominates(pred) {
			add, ok := e.(*ssa.BinOp)
			if !ok || add.Op != token.ADD || add.X != ssa.Value(ph) {
				return false
			}
			if n, ok := constIntVal(add.Y); !ok || n != 1 {
				return false
			}
		} else if n, ok := constIntVal(e); !ok || n != 0 {
			return false
		}
	}
	return true
}

// ssaBoundBelow: a dominating branch tested this very SSA value (not a re-load of the same location)
// to be below n — stores in between cannot invalidate what is known about a value already loaded.
func (c *Ctx) ssaBoundBelow(at ssa.Instruction, v ssa.Value, n int64) bool {
	for _, f := range c.domFacts(at.Block()) {
		bo, ok := f.Cond.(*ssa.BinOp)
		if !ok {
			continue
		}
		k, isC := constIntVal(bo.Y)
		if bo.X != v || !isC {
			continue
		}
		switch {
		case f.Pol && bo.Op == token.LSS && k <= n, f.Pol && bo.Op == token.LEQ && k < n:
			return true
		case !f.Pol && bo.Op == token.GEQ && k <= n, !f.Pol && bo.Op == token.GTR && k < n:
			return true
		}
	}
	return false
}

// rawLeafDecoder: the function of package expr that turns one raw JSON value into a leaf — a function or a
// method whose single input (parameter or receiver) has the underlying type []byte (json.RawMessage, a named
// byte slice) and whose results are (*Expression, error), and which reads numbers with strconv.
func (c *Ctx) rawLeafDecoder() *ssa.Function {
	var best *ssa.Function
	for _, f := range c.Funcs {
		if fnPkgPath(f) != pkgExpr || f.Parent() != nil || f.Synthetic != "" || len(f.Params) != 1 || f.Signature.Results().Len() != 2 {
			continue
		}
		if !isByteSlice(f.Params[0].Type()) || !isExprPtr(f.Signature.Results().At(0).Type()) || !isErrorType(f.Signature.Results().At(1).Type()) {
			continue
		}
		if !(c.usesNamedDeep(f, "strconv.Atoi", 2) || c.usesNamedDeep(f, "strconv.ParseInt", 2)) {
			continue
		}
		if best == nil || fnName(f) < fnName(best) {
			best = f
		}
	}
	return best
}

// usesNamedDeep: f, or a library function it calls (to the given depth), calls the named function.
func (c *Ctx) usesNamedDeep(f *ssa.Function, name string, depth int) bool {
	if c.usesNamed(f, name) {
		return true
	}
	if depth == 0 {
		return false
	}
	for _, b := range f.Blocks {
		for _, in := range b.Instrs {
			if call, ok := in.(*ssa.Call); ok {
				if g := call.Call.StaticCallee(); g != nil && g != f && inLib(g) && fnPkgPath(g) == fnPkgPath(f) && c.usesNamedDeep(g, name, depth-1) {
					return true
				}
			}
		}
	}
	return false
}
