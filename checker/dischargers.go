package main

import "golang.org/x/tools/go/ssa"

func (c *Ctx) panicDischargers(r *Report, reach map[*ssa.Function]bool) []panicDischarger {
	return nil
}
