package main

// Dischargers for panic obligations that rest on a named invariant checked on the same run
// (INV-NT, INV-LEX, INV-EXPR/VAL-AGREE, INV-RANGE-TEXT, INV-PH), on entry-rooted type flow, or on
// the small explicit assumption table.

import (
	"fmt"
	"go/types"
	"strings"

	"golang.org/x/tools/go/ssa"
)

// invariant runs the rules that establish a named invariant on a scratch report.
func (c *Ctx) invariant(name string, rules ...ruleFn) (bool, string) {
	memo := "inv:" + name
	type res struct {
		ok  bool
		why string
	}
	if v, ok := c.roles[memo]; ok {
		return v.(res).ok, v.(res).why
	}
	sr := newReport("__inv", "quick", 0, "/nonexistent")
	for _, rf := range rules {
		rf(c, sr)
	}
	out := res{ok: true}
	for _, o := range sr.Obs {
		if o.Status == Violated {
			out.ok = false
			out.why = o.Key + ": " + o.Detail
			break
		}
	}
	c.roles[memo] = out
	return out.ok, out.why
}

func (c *Ctx) invNT() (bool, string) { return c.invariant("INV-NT", ruleREDBAL, rulePARPUSH) }
func (c *Ctx) invLEX() (bool, string) {
	return c.invariant("INV-LEX", ruleLEXWRITE, ruleLEXDEPTH, ruleLEXTOK)
}
func (c *Ctx) invPH() (bool, string) { return c.invariant("INV-PH", rulePHLINEARcore) }

// assumption table: construct key (function|construct) -> reason. Each entry is a dead or
// foreign-only path, reviewed by hand.
var assumedSites = map[string]string{
	"expr.Expr|$2[0].(float64)": "guarded by isFloat(right[0]); the only module caller passing Boost is BOOST(e, ...float64), so float32 can only come from foreign callers of the exported constructor (outside the quantifier)",
	"expr.Expr|$2[0].(int)":     "guarded by isInt(right[0]); the only module caller passing Fuzzy is FUZZY(e, ...int), so the other integer kinds can only come from foreign callers of the exported constructor",
}

func (c *Ctx) panicDischargers(r *Report, reach map[*ssa.Function]bool) []panicDischarger {
	pr := c.parserRoles()
	lr := c.lexRoles()
	dr := c.driverRoles()
	pt := c.pgTable()
	rops := c.rendererOps()
	var rangeFn *ssa.Function
	if pt.Err == "" {
		if e := pt.Eff["expr.Range"]; e != nil {
			rangeFn = e.Fn
		}
	}
	isLexMethod := func(f *ssa.Function) bool {
		if lr.Err != "" || len(f.Params) == 0 {
			return false
		}
		// a method of the lexer, or a function of package lex whose first parameter is the lexer (the
		// state functions)
		if f.Signature.Recv() == nil && fnPkgPath(f) != pkgLex {
			return false
		}
		t := f.Params[0].Type()
		if p, ok := t.(*types.Pointer); ok {
			t = p.Elem()
		}
		return types.Identical(t, lr.Lexer)
	}
	return []panicDischarger{
		// INV-NT
		func(c *Ctx, r *Report, s *panicSite, atoms []Atom) (string, bool) {
			if pr.Err != "" {
				return "", false
			}
			isNTtop := s.fn == pr.ShouldShift && s.kind == "idx" && strings.HasSuffix(s.key, "."+pr.NTF.Name()+"[(len($0."+pr.NTF.Name()+") - 1)]")
			isDrop := s.kind == "slice" && isDropHelper(s.fn)
			if !isDrop && s.kind == "slice" && strings.HasPrefix(s.key, "$1[:(len($1) - ") {
				// the same slicing written out in a reducer (RED-BAL ties the count to the tokens the window holds)
				for _, red := range c.prodTable().Reducers {
					if red == s.fn {
						isDrop = true
					}
				}
			}
			if !isNTtop && !isDrop {
				return "", false
			}
			if ok, why := c.invNT(); !ok {
				r.note("INV-NT does not hold: %s", why)
				return "", false
			}
			return "INV-NT (len(nonTerminals) = 1 + tokens on the stack; established by RED-BAL and PAR-PUSH on this run)", true
		},
		// INV-LEX
		func(c *Ctx, r *Report, s *panicSite, atoms []Atom) (string, bool) {
			if lr.Err != "" || s.kind != "slice" || !isLexMethod(s.fn) {
				return "", false
			}
			sl := s.in.(*ssa.Slice)
			recv := c.key(s.fn.Params[0], nil)
			in, pos, start := recv+"."+lr.InputF.Name(), recv+"."+lr.PosF.Name(), recv+"."+lr.StartF.Name()
			if c.key(sl.X, nil) != in {
				return "", false
			}
			okBound := func(v ssa.Value) bool {
				if v == nil {
					return true
				}
				k := c.key(v, nil)
				return k == pos || k == start || k == "0"
			}
			if !okBound(sl.Low) || !okBound(sl.High) {
				return "", false
			}
			// start:pos needs start ≤ pos; pos: needs pos ≤ len — both INV-LEX
			if sl.Low != nil && sl.High != nil && !(c.key(sl.Low, nil) == start && c.key(sl.High, nil) == pos) && c.key(sl.Low, nil) != "0" {
				return "", false
			}
			if ok, why := c.invLEX(); !ok {
				r.note("INV-LEX does not hold: %s", why)
				return "", false
			}
			return "INV-LEX (0 ≤ start ≤ pos ≤ len(input); established by LEX-WRITE, LEX-DEPTH and LEX-TOK on this run)", true
		},
		// INV-LEX for single-byte reads: input[pos] under pos < len(input), input[pos-1] under pos > 0
		func(c *Ctx, r *Report, s *panicSite, atoms []Atom) (string, bool) {
			if lr.Err != "" || s.kind != "idx" || !isLexMethod(s.fn) {
				return "", false
			}
			var x, idx ssa.Value
			switch in := s.in.(type) {
			case *ssa.Index:
				x, idx = in.X, in.Index
			case *ssa.Lookup:
				x, idx = in.X, in.Index
			default:
				return "", false
			}
			recv := c.key(s.fn.Params[0], nil)
			in, pos := recv+"."+lr.InputF.Name(), recv+"."+lr.PosF.Name()
			if c.key(x, nil) != in {
				return "", false
			}
			need := ""
			switch c.key(idx, nil) {
			case pos:
				if !hasAtom(atoms, pos+"<len("+in+")") {
					return "", false
				}
				need = "0 ≤ pos"
			case "(" + pos + " - 1)":
				if !hasAtom(atoms, pos+">0") {
					return "", false
				}
				need = "pos ≤ len(input)"
			default:
				return "", false
			}
			if ok, why := c.invLEX(); !ok {
				r.note("INV-LEX does not hold: %s", why)
				return "", false
			}
			return "dominating bound together with INV-LEX (" + need + "; established by LEX-WRITE, LEX-DEPTH and LEX-TOK on this run)", true
		},
		// VAL-AGREE: the validator of the same operator establishes what the renderer asserts
		func(c *Ctx, r *Report, s *panicSite, atoms []Atom) (string, bool) {
			ops, isRenderer := rops[s.fn]
			if !isRenderer || s.kind != "assert" {
				return "", false
			}
			ta := s.in.(*ssa.TypeAssert)
			k := c.key(ta.X, nil)
			if k != "$0.Left" && k != "$0.Right" {
				return "", false
			}
			want := typeStr(ta.AssertedType)
			for _, op := range ops {
				vf := c.validatorFacts(op)
				if vf.Err != "" {
					return "", false
				}
				implied := vf.all(func(f []Atom) bool {
					for _, a := range f {
						if a.Kind == "type" && a.Pos && a.Subj == k && a.Val == want {
							return true
						}
						// helper that proves the slice type (list of leaves)
						if a.Kind == "call" && a.Pos && a.Val == k && a.Fn != nil && want == "[]*expr.Expression" && c.allElemsLeafPredicate(a.Fn) {
							return true
						}
					}
					return false
				})
				if !implied {
					return "", false
				}
			}
			return fmt.Sprintf("VAL-AGREE: the validator(s) registered for %v accept only nodes whose %s is %s", ops, strings.TrimPrefix(k, "$0."), want), true
		},
		// INV-RANGE-TEXT: right[0], right[len-1], right[1:len-1] in the range functions
		func(c *Ctx, r *Report, s *panicSite, atoms []Atom) (string, bool) {
			if s.fn != rangeFn && s.fn != dr.RangeParam || rangeFn == nil {
				return "", false
			}
			if s.key != "$1[0]" && s.key != "$1[(len($1) - 1)]" && s.key != "$1[1:(len($1) - 1)]" {
				return "", false
			}
			// (i) validator: Right is a non-nil *RangeBoundary
			vf := c.validatorFacts("expr.Range")
			if vf.Err != "" || !vf.has("$0.Right is *expr.RangeBoundary") || !vf.has("$0.Right.(*expr.RangeBoundary)!=nil") {
				return "", false
			}
			// (ii) the matching serialiser's RangeBoundary success returns have ≥ 2 constant bytes
			ser := dr.Ser
			if s.fn == dr.RangeParam {
				ser = dr.SerParam
			}
			rows, _ := c.successSkeletons(ser)
			n := 0
			for _, row := range rows {
				isRB := false
				for _, a := range row.Atoms {
					if a.Kind == "type" && a.Pos && a.Subj == "$1" && a.Val == "*expr.RangeBoundary" {
						isRB = true
					}
				}
				if isRB {
					n++
					if skelMinLen(row.Skel) < 2 {
						return "", false
					}
				}
			}
			if n == 0 {
				return "", false
			}
			return "INV-RANGE-TEXT: the Range validator requires a non-nil *RangeBoundary on the right, whose serialisation has at least 2 constant bytes on every success path", true
		},
		// INV-PH: params[0] in the parameterized range function under rawMin == "?" || rawMax == "?"
		func(c *Ctx, r *Report, s *panicSite, atoms []Atom) (string, bool) {
			if dr.RangeParam == nil || s.fn != dr.RangeParam || s.key != "$2[0]" {
				return "", false
			}
			// the access must be dominated by a test that one of the ends is the placeholder
			ph := false
			for _, f := range c.domFacts(s.in.Block()) {
				for _, a := range c.atoms(f.Cond, f.Pol, nil) {
					if a.Kind == "cmp" && a.Val == `"?"` {
						ph = true
					}
				}
				// `rawMin == "?" || rawMax == "?"`: the block is reached from either true edge; the
				// dominating If is the first disjunct with pol=false for the second test — accept
				// when any dominating If in the chain compares with "?"
				if bo, ok := f.Cond.(*ssa.BinOp); ok {
					if s2, ok := constStringVal(bo.Y); ok && s2 == "?" {
						ph = true
					}
				}
			}
			if !ph {
				// the block may have two predecessors (the || chain): look at predecessors' conditions
				for _, p := range s.in.Block().Preds {
					if iff, ok := p.Instrs[len(p.Instrs)-1].(*ssa.If); ok {
						if bo, ok := iff.Cond.(*ssa.BinOp); ok {
							if s2, ok := constStringVal(bo.Y); ok && s2 == "?" {
								ph = true
							}
						}
					}
				}
			}
			if !ph {
				return "", false
			}
			if ok, why := c.invPH(); !ok {
				r.note("INV-PH does not hold: %s", why)
				return "", false
			}
			return "INV-PH: a `?` in the serialised range text is always paired with exactly one appended parameter (PH-LINEAR on this run)", true
		},
		// PAYLOAD-TYPE: Wild/Regexp payloads are strings
		func(c *Ctx, r *Report, s *panicSite, atoms []Atom) (string, bool) {
			if dr.LikeParam == nil || s.fn != dr.LikeParam || s.kind != "assert" || s.key != "$2[0].(string)" {
				return "", false
			}
			vf := c.validatorFacts("expr.Like")
			if vf.Err != "" {
				return "", false
			}
			likeRight := vf.all(func(f []Atom) bool {
				return hasAtom(f, "$0.Right is *expr.Expression") && subsetOf(c.possibleOps(f, "$0.Right.(*expr.Expression).Op"), []string{"expr.Wild", "expr.Regexp"})
			})
			if !likeRight {
				return "", false
			}
			if ok, why := c.payloadTypeOK(); !ok {
				r.note("PAYLOAD-TYPE: %s", why)
				return "", false
			}
			if ok, _ := c.invPH(); !ok {
				return "", false
			}
			// the list handed over is the parameter list of the right operand's serialisation itself — not one
			// that also carries the left operand's parameters
			sites := 0
			for _, f := range c.Funcs {
				if !inLib(f) {
					continue
				}
				for _, b := range f.Blocks {
					for _, in := range b.Instrs {
						call, ok := in.(*ssa.Call)
						if !ok || call.Call.StaticCallee() != dr.LikeParam || len(call.Call.Args) < 3 {
							continue
						}
						sites++
						ex, ok := c.resolve(call.Call.Args[2], nil).(*ssa.Extract)
						if !ok || ex.Index != 1 {
							r.note("likeParam is handed %s, not the right operand's own parameter list", c.key(call.Call.Args[2], nil))
							return "", false
						}
						sc, ok := ex.Tuple.(*ssa.Call)
						if !ok || sc.Call.StaticCallee() != dr.SerParam || len(sc.Call.Args) < 2 || !strings.HasSuffix(c.key(sc.Call.Args[len(sc.Call.Args)-1], nil), ".Right") {
							r.note("likeParam is handed %s, not the right operand's own parameter list", c.key(call.Call.Args[2], nil))
							return "", false
						}
					}
				}
			}
			if sites == 0 {
				return "", false
			}
			return "PAYLOAD-TYPE + validateLike + INV-PH: the right side of a LIKE node is a Wild/Regexp leaf, every in-module constructor call of such a leaf passes a string, and a leaf yields exactly one parameter", true
		},
		// entry-rooted type flow for the constructor's assertions on its operands
		func(c *Ctx, r *Report, s *panicSite, atoms []Atom) (string, bool) {
			general := c.pkgFunc(pkgExpr, "Expr")
			if s.fn != general || s.kind != "assert" {
				return "", false
			}
			ta := s.in.(*ssa.TypeAssert)
			want := typeStr(ta.AssertedType)
			// which operator branch?
			var opConst string
			for _, a := range atoms {
				if a.Kind == "cmp" && a.Subj == "$1" && a.Op == "==" && strings.HasPrefix(a.Val, "expr.") {
					opConst = a.Val
				}
			}
			if opConst == "" {
				return "", false
			}
			ts, ok := c.ctorArgTypes(general, opConst, ta.X, 0)
			if !ok || len(ts) == 0 {
				return "", false
			}
			for t := range ts {
				if t != want {
					return "", false
				}
			}
			return fmt.Sprintf("entry-rooted type flow: every in-module call of the constructor with operator %s passes a %s in that position", opConst, want), true
		},
		// LIST-CTX: the List branch of the general constructor
		func(c *Ctx, r *Report, s *panicSite, atoms []Atom) (string, bool) {
			general := c.pkgFunc(pkgExpr, "Expr")
			siteKey := s.key
			if s.fn != general {
				// the element conversion written as a function literal handed to a mapping helper together
				// with left.([]any): judged at the place in the constructor where the literal is used
				if s.fn.Parent() != general || len(s.fn.Params) != 1 {
					return "", false
				}
				ta, isTA := s.in.(*ssa.TypeAssert)
				if !isTA || c.resolve(ta.X, nil) != ssa.Value(s.fn.Params[0]) {
					return "", false
				}
				var use *ssa.Call
				for _, b := range general.Blocks {
					for _, in := range b.Instrs {
						for _, op := range in.Operands(nil) {
							v := *op
							if mc, ok := v.(*ssa.MakeClosure); ok {
								v = mc.Fn
							}
							if v == ssa.Value(s.fn) {
								call, isCall := in.(*ssa.Call)
								if !isCall || use != nil {
									return "", false
								}
								use = call
							}
						}
					}
				}
				if use == nil {
					return "", false
				}
				siteKey = ""
				for _, a := range use.Call.Args {
					if k := c.key(a, nil); strings.HasSuffix(k, ".([]any)") {
						siteKey = k + "["
					}
				}
				atoms = c.atomsAt(use)
			}
			isList := false
			for _, a := range atoms {
				if a.Kind == "cmp" && a.Subj == "$1" && a.Op == "==" && a.Val == "expr.List" {
					isList = true
				}
			}
			if !isList || !strings.Contains(siteKey, ".([]any)[") {
				return "", false
			}
			// every in-module construction of a List node passes exactly one []*Expression, so
			// left.([]any) has length 1, its element is a []*Expression and the element-wise loop
			// after the early return is dead
			n := 0
			for _, f := range c.Funcs {
				if !inLib(f) {
					continue
				}
				for _, b := range f.Blocks {
					for _, in := range b.Instrs {
						call, ok := in.(*ssa.Call)
						if !ok || call.Call.StaticCallee() == nil || fnPkgPath(call.Call.StaticCallee()) != pkgExpr {
							continue
						}
						callee := call.Call.StaticCallee()
						ops := c.ctorOperator(callee)
						if callee == general {
							if k, ok := c.resolve(call.Call.Args[1], nil).(*ssa.Const); ok {
								ops = []string{c.constName(k)}
							}
						}
						if len(ops) != 1 || ops[0] != "expr.List" {
							continue
						}
						if callee == general {
							// the thin wrapper LIST(a ...any) → Expr(a, List): a is its variadic slice
							if p, ok := c.resolve(call.Call.Args[0], nil).(*ssa.Parameter); ok && f.Signature.Variadic() && p == f.Params[len(f.Params)-1] {
								continue
							}
							return "", false
						}
						n++
						lit, ok := c.sliceLiteral(call.Call.Args[len(call.Call.Args)-1], nil)
						if !ok || len(lit) != 1 {
							return "", false
						}
						st := lit[0].Type()
						if mi, ok := lit[0].(*ssa.MakeInterface); ok {
							st = mi.X.Type()
						}
						if typeStr(st) != "[]*expr.Expression" {
							return "", false
						}
					}
				}
			}
			if n == 0 {
				return "", false
			}
			return fmt.Sprintf("LIST-CTX: all %d in-module constructions of a List node pass exactly one []*expr.Expression (so left.([]any) has one element, of that type, and the element-wise loop is dead)", n), true
		},
		// assumption table
		func(c *Ctx, r *Report, s *panicSite, atoms []Atom) (string, bool) {
			reason, ok := assumedSites[fnName(s.fn)+"|"+s.key]
			if !ok {
				return "", false
			}
			// the guard the assumption names must still be there
			guard := map[string]string{"expr.Expr|$2[0].(float64)": "expr.isFloat", "expr.Expr|$2[0].(int)": "expr.isInt"}[fnName(s.fn)+"|"+s.key]
			for _, a := range atoms {
				if a.Kind == "call" && a.Pos && a.Subj == guard && a.Val == "$2[0]" {
					r.Assumptions = append(r.Assumptions, fnName(s.fn)+"|"+s.key+": "+reason)
					return "ASSUMED:" + reason, true
				}
			}
			return "", false
		},
	}
}

// payloadTypeOK: every in-module call that constructs a Wild/Regexp node passes a string payload.
func (c *Ctx) payloadTypeOK() (bool, string) {
	general := c.pkgFunc(pkgExpr, "Expr")
	for _, f := range c.Funcs {
		if !inLib(f) {
			continue
		}
		for _, b := range f.Blocks {
			for _, in := range b.Instrs {
				call, ok := in.(*ssa.Call)
				if !ok || call.Call.StaticCallee() == nil || fnPkgPath(call.Call.StaticCallee()) != pkgExpr {
					continue
				}
				callee := call.Call.StaticCallee()
				var ops []string
				if callee == general {
					if k, ok := c.resolve(call.Call.Args[1], nil).(*ssa.Const); ok {
						ops = []string{c.constName(k)}
					}
				} else {
					ops = c.ctorOperator(callee)
				}
				if len(ops) != 1 || (ops[0] != "expr.Wild" && ops[0] != "expr.Regexp") {
					continue
				}
				if fnPkgPath(f) == pkgExpr && (f == callee || c.calls(f, general) && f.Signature.Params().Len() == 1 && len(c.ctorOperator(f)) == 1) {
					continue // the thin constructor wrappers themselves (WILD(in any) → Expr(in, Wild))
				}
				arg := call.Call.Args[0]
				st := arg.Type()
				if mi, ok := arg.(*ssa.MakeInterface); ok {
					st = mi.X.Type()
				}
				if !types.Identical(st, types.Typ[types.String]) {
					return false, fmt.Sprintf("%s builds a %s leaf from a %s at %s", fnName(f), ops[0], typeStr(st), c.instrPos(in))
				}
			}
		}
	}
	return true, ""
}

// ctorArgTypes: dynamic types that can reach value v (an element of the variadic `right` parameter,
// or the `left` parameter) of the general constructor when called with the given operator constant,
// following in-module call sites (and one more level through the thin constructors).
func (c *Ctx) ctorArgTypes(general *ssa.Function, opConst string, v ssa.Value, depth int) (map[string]bool, bool) {
	out := map[string]bool{}
	// identify which parameter / element v is
	k := c.key(v, nil)
	type slot struct {
		param int
		elem  int // -1 = whole
	}
	var sl slot
	switch {
	case strings.HasPrefix(k, "$2[") && strings.HasSuffix(k, "]"):
		var n int
		if _, err := fmt.Sscanf(k, "$2[%d]", &n); err != nil {
			return nil, false
		}
		sl = slot{2, n}
	case k == "$0" || c.derivesFromParam(v, 0):
		sl = slot{0, -1}
	default:
		return nil, false
	}
	sites := 0
	for _, f := range c.Funcs {
		if !inLib(f) {
			continue
		}
		for _, b := range f.Blocks {
			for _, in := range b.Instrs {
				call, ok := in.(*ssa.Call)
				if !ok || call.Call.StaticCallee() != general {
					continue
				}
				if kc, ok := c.resolve(call.Call.Args[1], nil).(*ssa.Const); !ok || c.constName(kc) != opConst {
					if _, isConst := c.resolve(call.Call.Args[1], nil).(*ssa.Const); isConst {
						continue
					}
					// the operator is a parameter of a helper that forwards it (BOOST/FUZZY through one generic
					// helper): the call counts when some caller of the helper passes this operator constant
					if ops, ok := c.forwardedOps(f, call.Call.Args[1]); ok {
						if !contains(ops, opConst) {
							continue
						}
					} else {
						return nil, false // non-constant operator: any type may arrive
					}
				}
				sites++
				var arg ssa.Value
				if sl.param == 0 {
					arg = call.Call.Args[0]
				} else {
					lit, ok := c.sliceLiteral(call.Call.Args[2], nil)
					if !ok || sl.elem >= len(lit) {
						if isNilConst(c.resolve(call.Call.Args[2], nil)) {
							continue // no operand passed: the branch is not reached with it
						}
						return nil, false
					}
					arg = lit[sl.elem]
				}
				if !c.valueTypes(arg, f, out, depth) {
					return nil, false
				}
			}
		}
	}
	return out, sites > 0
}

// forwardedOps: v is a parameter of f; the operator constants f's static callers in the library pass for it
// (ok=false if v is not a parameter, f has no caller, or some caller passes a non-constant).
func (c *Ctx) forwardedOps(f *ssa.Function, v ssa.Value) ([]string, bool) {
	p, isP := c.resolve(v, nil).(*ssa.Parameter)
	if !isP {
		return nil, false
	}
	idx := -1
	for i, q := range f.Params {
		if q == p {
			idx = i
		}
	}
	if idx < 0 {
		return nil, false
	}
	set := map[string]bool{}
	n := 0
	for _, g := range c.Funcs {
		if !inLib(g) {
			continue
		}
		for _, b := range g.Blocks {
			for _, in := range b.Instrs {
				call, ok := in.(*ssa.Call)
				if !ok || call.Call.StaticCallee() == nil || idx >= len(call.Call.Args) {
					continue
				}
				callee := call.Call.StaticCallee()
				if callee != f && callee.Origin() != f && (f.Origin() == nil || callee.Origin() != f.Origin()) {
					continue
				}
				n++
				k, isC := c.resolve(call.Call.Args[idx], nil).(*ssa.Const)
				if !isC {
					return nil, false
				}
				set[c.constName(k)] = true
			}
		}
	}
	return setKeys(set), n > 0
}

// valueTypes: dynamic types of an interface-typed value; a parameter of a thin constructor is
// followed to that constructor's in-module call sites (one level).
func (c *Ctx) valueTypes(v ssa.Value, in *ssa.Function, out map[string]bool, depth int) bool {
	switch x := v.(type) {
	case *ssa.MakeInterface:
		out[typeStr(x.X.Type())] = true
		return true
	case *ssa.Parameter:
		if depth > 1 {
			return false
		}
		idx := -1
		for i, p := range in.Params {
			if p == x {
				idx = i
			}
		}
		sites := 0
		for _, f := range c.Funcs {
			if !inLib(f) {
				continue
			}
			for _, b := range f.Blocks {
				for _, ins := range b.Instrs {
					call, ok := ins.(*ssa.Call)
					if !ok || call.Call.StaticCallee() != in {
						continue
					}
					sites++
					arg := call.Call.Args[idx]
					if in.Signature.Variadic() && idx == len(in.Params)-1 {
						lit, ok := c.sliceLiteral(arg, nil)
						if !ok {
							return false
						}
						for _, el := range lit {
							if !c.valueTypes(el, f, out, depth+1) {
								return false
							}
						}
						continue
					}
					if !c.valueTypes(arg, f, out, depth+1) {
						return false
					}
				}
			}
		}
		return sites > 0
	case *ssa.UnOp:
		// element of a variadic parameter: power[0]
		if ia, ok := x.X.(*ssa.IndexAddr); ok {
			if p, ok := ia.X.(*ssa.Parameter); ok {
				if st, ok := p.Type().Underlying().(*types.Slice); ok {
					if _, isIface := st.Elem().Underlying().(*types.Interface); !isIface {
						out[typeStr(st.Elem())] = true
						return true
					}
				}
			}
		}
	}
	if _, isIface := v.Type().Underlying().(*types.Interface); !isIface {
		out[typeStr(v.Type())] = true
		return true
	}
	return false
}

// rulePHLINEARcore: the part of PH-LINEAR that INV-PH needs (serialiser leaves pair ? with one parameter).
func rulePHLINEARcore(c *Ctx, r *Report) {
	dr := c.driverRoles()
	if dr.Err != "" {
		r.bad("PH-LINEAR", "anchor", "-", dr.Err)
		return
	}
	rows, _ := c.successSkeletons(dr.SerParam)
	for _, row := range rows {
		typ := "default"
		for _, a := range row.Atoms {
			if a.Kind == "type" && a.Pos && a.Subj == "$1" {
				typ = a.Val
			}
		}
		if typ == "*expr.Expression" || typ == "[]*expr.Expression" || typ == "*expr.RangeBoundary" || hasAtom(row.Atoms, "$1==nil") {
			continue
		}
		params := c.key(row.P.Ret.Results[1], row.P.Env)
		q := strings.Count(row.Str, "?")
		np := 0
		if params != "nil" {
			if strings.HasPrefix(params, "[") && strings.HasSuffix(params, "]") && !strings.Contains(params, ",") {
				np = 1
			} else {
				np = -1
			}
		}
		if q != np {
			r.bad("PH-LINEAR", "serialiser|"+typ, c.instrPos(row.P.Ret), "placeholders and parameters out of step")
		}
	}
}

// derivesFromParam: v is parameter #idx of its function, possibly passed through phis and in-module
// helper calls applied to it (the constructor normalises `left` through wrapping helpers).
func (c *Ctx) derivesFromParam(v ssa.Value, idx int) bool {
	seen := map[ssa.Value]bool{}
	var walk func(x ssa.Value) bool
	walk = func(x ssa.Value) bool {
		x = c.resolve(x, nil)
		if seen[x] {
			return true
		}
		seen[x] = true
		switch y := x.(type) {
		case *ssa.Parameter:
			return y == y.Parent().Params[idx]
		case *ssa.Phi:
			for _, e := range y.Edges {
				if !walk(e) {
					return false
				}
			}
			return true
		case *ssa.Call:
			if f := y.Call.StaticCallee(); f != nil && inModule(f) && len(y.Call.Args) == 1 {
				return walk(y.Call.Args[0])
			}
		}
		return false
	}
	return walk(v)
}
