package main

// CTOR-ATTR (C05/C06/C12): the scalar attributes of a node (fuzzy distance, boost power) are the numbers the
// production supplied. The general constructor may store the supplied number under conditions on its dynamic
// type and on the operand count, but a condition on the number's *value* must hold for every number a
// production can supply — otherwise some written distance / power is silently replaced by the default and
// `a~0` and `a~` (or two different powers) become the same tree.

import (
	"fmt"
	"go/types"
	"math"
	"sort"
	"strconv"
	"strings"

	"golang.org/x/tools/go/ssa"
)

type numFact struct {
	op string
	c  float64
}

func impliedBy(g numFact, facts []numFact) bool {
	lo, hi := math.Inf(-1), math.Inf(1)
	loStrict, hiStrict := false, false
	var ne []float64
	for _, f := range facts {
		switch f.op {
		case "==":
			lo, hi, loStrict, hiStrict = f.c, f.c, false, false
		case ">":
			if f.c > lo || (f.c == lo && !loStrict) {
				lo, loStrict = f.c, true
			}
		case ">=":
			if f.c > lo {
				lo, loStrict = f.c, false
			}
		case "<":
			if f.c < hi || (f.c == hi && !hiStrict) {
				hi, hiStrict = f.c, true
			}
		case "<=":
			if f.c < hi {
				hi, hiStrict = f.c, false
			}
		case "!=":
			ne = append(ne, f.c)
		}
	}
	switch g.op {
	case ">":
		return lo > g.c || (lo == g.c && loStrict)
	case ">=":
		return lo >= g.c
	case "<":
		return hi < g.c || (hi == g.c && hiStrict)
	case "<=":
		return hi <= g.c
	case "==":
		return lo == g.c && hi == g.c && !loStrict && !hiStrict
	case "!=":
		if g.c < lo || g.c > hi || (g.c == lo && loStrict) || (g.c == hi && hiStrict) {
			return true
		}
		for _, n := range ne {
			if n == g.c {
				return true
			}
		}
	}
	return false
}

func atomNumFact(a Atom, subj string) (numFact, bool) {
	if a.Kind != "cmp" {
		return numFact{}, false
	}
	if a.Subj == subj {
		if f, err := strconv.ParseFloat(a.Val, 64); err == nil {
			return numFact{a.Op, f}, true
		}
	}
	if a.Val == subj {
		if f, err := strconv.ParseFloat(a.Subj, 64); err == nil {
			return numFact{flipOp[a.Op], f}, true
		}
	}
	return numFact{}, false
}

func ruleCTORATTR(c *Ctx, r *Report) {
	const rule = "CTOR-ATTR"
	r.doc(rule, "for every unexported numeric field of Expression (the scalar attributes): wherever the general constructor stores a supplied argument into it, each condition on the argument's value that guards the store is implied by what every production that supplies such an argument has established about the number (a constant, or comparisons on the parsed value with helpers read in place) — the constructor never drops a distance or power that Parse can produce")
	general := c.pkgFunc(pkgExpr, "Expr")
	et := c.namedType(pkgExpr, "Expression")
	if general == nil || et == nil {
		r.bad(rule, "anchor", "-", "general constructor / Expression type not found")
		return
	}
	pt := c.prodTable()
	st := et.Underlying().(*types.Struct)
	nStores := 0
	for i := 0; i < st.NumFields(); i++ {
		f := st.Field(i)
		if f.Exported() {
			continue
		}
		if b, ok := f.Type().Underlying().(*types.Basic); !ok || b.Info()&types.IsNumeric == 0 {
			continue
		}
		for _, fs := range c.storesToFields(f) {
			fs := fs
			if _, isConst := fs.st.Val.(*ssa.Const); isConst {
				continue
			}
			if fnPkgPath(fs.fn) != pkgExpr || fs.fn.Signature.Recv() != nil {
				continue // the decoder assigns what the document says; JSON-DEFAULTS / JSON-OP cover it
			}
			c.withContexts(fs.fn, general, 0, func(callerAtoms []Atom) {
				valKey := c.key(fs.st.Val, nil)
				if !strings.Contains(valKey, "$2[") {
					return
				}
				nStores++
				raw := append(append([]Atom(nil), callerAtoms...), c.domAtoms(fs.st.Block())...)
				atoms := c.expand(raw, nil)
				op := ""
				var guards []numFact
				var guardTxt []string
				for _, a := range atoms {
					if a.Kind == "cmp" && a.Subj == "$1" && a.Op == "==" && strings.HasPrefix(a.Val, "expr.") {
						op = a.Val
					}
					if nf, ok := atomNumFact(a, valKey); ok {
						guards = append(guards, nf)
						guardTxt = append(guardTxt, a.String())
					}
				}
				key := fmt.Sprintf("%s←%s|%s", f.Name(), valKey, op)
				if len(guards) == 0 {
					r.ok(rule, key, c.instrPos(fs.st), "stored whatever its value")
					return
				}
				if op == "" {
					r.bad(rule, key, c.instrPos(fs.st), fmt.Sprintf("the constructor stores %s into %s only under %v and the operator of the node is not established there, so the productions that supply it cannot be found", valKey, f.Name(), guardTxt))
					return
				}
				sup := c.attrSuppliers(pt, general, op)
				if len(sup) == 0 {
					r.bad(rule, key, c.instrPos(fs.st), fmt.Sprintf("no production was found that supplies the attribute of %s, so the guard %v cannot be justified", op, guardTxt))
					return
				}
				var fails []string
				for _, s := range sup {
					for gi, g := range guards {
						if !impliedBy(g, s.facts) {
							known := s.txt
							if known == "" {
								known = "nothing"
							}
							fails = append(fails, fmt.Sprintf("%s (established: %s), which need not satisfy %s", s.where, known, guardTxt[gi]))
						}
					}
				}
				sort.Strings(fails)
				if len(fails) > 0 {
					r.bad(rule, key, c.instrPos(fs.st), fmt.Sprintf("the constructor keeps the supplied %s of a %s node only if %v; but %s: such a number written in the query is silently replaced by the default, so two different queries give the same tree (and the encoded or printed form no longer reflects what was written)", f.Name(), op, guardTxt, strings.Join(uniq(fails), "; ")))
				} else {
					r.ok(rule, key, c.instrPos(fs.st), fmt.Sprintf("guard %v holds for all %d supplying productions", guardTxt, len(sup)))
				}
			})
		}
	}
	r.floor(rule, "attribute stores of supplied arguments", nStores, 2)
}

type attrSupply struct {
	where string
	facts []numFact
	txt   string
	pos   string
	value string
}

// attrSuppliers: for every production that builds a node of operator op with a scalar attribute argument —
// what it has established about that number on the path to the constructor call (helpers read in place).
func (c *Ctx) attrSuppliers(pt *ProdTable, general *ssa.Function, op string) []attrSupply {
	var sup []attrSupply
	for _, red := range pt.Reducers {
		paths, _ := c.enumPathsInl(red, 20000)
		seen := map[string]bool{}
		for _, p := range paths {
			for _, pc := range p.Calls {
				g := pc.Call.Call.StaticCallee()
				if g == nil || len(pc.Args) < 2 {
					continue
				}
				ops := c.ctorOperator(g)
				if g == general {
					if k, ok := c.resolve(pc.Call.Call.Args[1], p.Env).(*ssa.Const); ok {
						ops = []string{c.constName(k)}
					}
				}
				if len(ops) != 1 || ops[0] != op {
					continue
				}
				last := pc.Args[len(pc.Args)-1]
				if !strings.HasPrefix(last, "[") || !strings.HasSuffix(last, "]") {
					continue
				}
				v := last[1 : len(last)-1]
				if v == "" || strings.Contains(v, ",") && !strings.Contains(v, "(") {
					continue
				}
				var facts []numFact
				var txt []string
				if fv, err := strconv.ParseFloat(v, 64); err == nil {
					facts = append(facts, numFact{"==", fv})
					txt = append(txt, "the constant "+v)
				}
				// a widening conversion keeps order and sign: what is known of x is known of float64(x)
				inner := v
				for strings.HasPrefix(inner, "conv:") && strings.HasSuffix(inner, ")") {
					if i := strings.Index(inner, "("); i > 0 {
						inner = inner[i+1 : len(inner)-1]
					} else {
						break
					}
				}
				for _, a := range p.Atoms {
					nf, ok := atomNumFact(a, v)
					if !ok && inner != v {
						nf, ok = atomNumFact(a, inner)
					}
					if ok {
						if a.Neg && (nf.op == "<" || nf.op == "<=" || nf.op == ">" || nf.op == ">=") {
							continue // a negated float comparison also holds for NaN: no bound
						}
						facts = append(facts, nf)
						txt = append(txt, a.String())
					}
				}
				sig := fnName(red) + "|" + v + "|" + strings.Join(txt, "∧")
				if seen[sig] {
					continue
				}
				seen[sig] = true
				sup = append(sup, attrSupply{fnName(red) + " supplies " + v, facts, strings.Join(txt, " ∧ "), c.instrPos(pc.Call), v})
			}
		}
	}
	return sup
}

// ATTR-DOMAIN (C05/C06): which numbers a production accepts as a distance or a power. The grammar says E~n
// and E^n; the only conditions a production may put on the parsed number are sign tests against zero and
// finiteness — a comparison with any other constant is a threshold the grammar does not have (a^0.5 or a~7
// would stop parsing although the tree with that attribute prints as exactly that text).
func ruleATTRDOMAIN(c *Ctx, r *Report) {
	const rule = "ATTR-DOMAIN"
	r.doc(rule, "for every production that supplies a parsed number as the scalar attribute of a Fuzzy or Boost node: on the path from the number parse to the constructor (helpers read in place) the number is compared with no constant other than zero — the accepted distances and powers are bounded by sign and finiteness only")
	general := c.pkgFunc(pkgExpr, "Expr")
	if general == nil {
		r.bad(rule, "anchor", "-", "general constructor not found")
		return
	}
	pt := c.prodTable()
	n := 0
	for _, op := range []string{"expr.Fuzzy", "expr.Boost"} {
		for _, s := range c.attrSuppliers(pt, general, op) {
			if _, err := strconv.ParseFloat(s.value, 64); err == nil {
				continue // the implicit default written as a constant
			}
			n++
			key := op + "|" + s.where
			bad := ""
			for _, f := range s.facts {
				// a comparison with the largest finite float is a finiteness test spelled differently
				if f.c != 0 && math.Abs(f.c) != math.MaxFloat64 {
					bad = fmt.Sprintf("%s %v", f.op, f.c)
				}
			}
			if bad != "" {
				r.bad(rule, key, s.pos, fmt.Sprintf("%s only under the condition `%s` on the parsed number (established: %s): numbers on the other side of that threshold are written in valid queries (and printed by trees that carry them) but no longer parse", s.where, bad, s.txt))
			} else {
				r.ok(rule, key, s.pos, "conditions on the number: "+orNone(s.txt))
			}
		}
	}
	r.floor(rule, "parsed attribute numbers", n, 2)
}

func orNone(s string) string {
	if s == "" {
		return "none"
	}
	return s
}

// CTOR-COLUMN (C11/C02): a field name handed to the general constructor as a raw string becomes a column,
// whatever the name looks like. The single-term case of the parser hands the default field over as a raw
// string; if the constructor gave that string a kind by its content first, a default field whose name contains
// * or ? (or looks like /…/) would scope a lone bare term to a pattern leaf instead of the column — while the
// same term under AND/OR/NOT, where the reducers pass an expr.Column, is scoped to the column.
func ruleCTORCOLUMN(c *Ctx, r *Report) {
	const rule = "CTOR-COLUMN"
	r.doc(rule, "in the general constructor every call of the leaf classifier by content (the function the JSON decoder uses too) whose argument can be the raw left operand is reached with that raw value only over edges that exclude `a string under the Equals operator` (the column wrapping came first); and the column wrapper answers a string with Lit(Column(s)) on every path, s being the operand itself and not a value computed from it")
	general := c.pkgFunc(pkgExpr, "Expr")
	cls := c.leafClassifier()
	if general == nil || cls == nil {
		r.bad(rule, "anchor", "-", "general constructor / leaf classifier not found")
		return
	}
	var excludes func(atoms []Atom) bool
	excludes = func(atoms []Atom) bool {
		// a test through a boolean helper: every way the helper can give that answer must exclude the case
		for _, a := range atoms {
			if a.Kind != "call" || a.Fn == nil || !inModule(a.Fn) {
				continue
			}
			sum := c.boolSummaryOf(a.Fn)
			if !sum.ok {
				continue
			}
			sets := sum.FalseSets
			if a.Pos {
				sets = sum.TrueSets
			}
			var args []string
			for _, v := range a.Args {
				args = append(args, c.key(v, a.Env))
			}
			all := len(sets) > 0
			for _, set := range sets {
				var tr []Atom
				for _, x := range set {
					y := x
					y.Subj, y.Val = substParams(x.Subj, args), substParams(x.Val, args)
					y.Fn = nil
					tr = append(tr, y)
				}
				if !excludes(tr) {
					all = false
				}
			}
			if all {
				return true
			}
		}
		for _, a := range c.expand(atoms, nil) {
			if a.Kind == "type" && !a.Pos && a.Subj == "$0" && a.Val == "string" {
				return true
			}
			if a.Kind == "cmp" && a.Subj == "$1" && a.Op == "!=" && a.Val == "expr.Equals" {
				return true
			}
			if a.Kind == "type" && a.Pos && a.Subj == "$0" && a.Val != "string" {
				return true
			}
		}
		return false
	}
	n := 0
	for _, b := range general.Blocks {
		for _, in := range b.Instrs {
			call, ok := in.(*ssa.Call)
			if !ok || call.Call.StaticCallee() != cls || len(call.Call.Args) != 1 {
				continue
			}
			n++
			key := "classify|" + c.key(call.Call.Args[0], nil)
			// the ways the argument can be the raw parameter
			type origin struct {
				atoms []Atom
				via   string
			}
			var raws []origin
			var walk func(v ssa.Value, at *ssa.BasicBlock, extra []Atom, depth int)
			walk = func(v ssa.Value, at *ssa.BasicBlock, extra []Atom, depth int) {
				if depth > 6 {
					return
				}
				switch x := v.(type) {
				case *ssa.Parameter:
					if len(general.Params) > 0 && x == general.Params[0] {
						raws = append(raws, origin{append(append([]Atom(nil), c.domAtoms(at)...), extra...), "block " + at.String()})
					}
				case *ssa.Phi:
					for i, e := range x.Edges {
						pred := x.Block().Preds[i]
						var edge []Atom
						if iff, ok := pred.Instrs[len(pred.Instrs)-1].(*ssa.If); ok && pred.Succs[0] != pred.Succs[1] {
							edge = c.atoms(iff.Cond, pred.Succs[0] == x.Block(), nil)
						}
						// the facts that hold at the end of pred: those at its start plus the edge condition
						walk(e, pred, append(append([]Atom(nil), extra...), edge...), depth+1)
					}
				}
			}
			walk(call.Call.Args[0], call.Block(), nil, 0)
			badVia := ""
			for _, o := range raws {
				if !excludes(o.atoms) {
					badVia = atomsText(o.atoms)
				}
			}
			if badVia != "" {
				r.bad(rule, key, c.instrPos(call), fmt.Sprintf("the constructor classifies its raw left operand by content (%s) on a way that has not excluded `a string under Equals` [%s]: a field name handed over as a raw string (the default field of a single-term query) is given a kind by what it looks like instead of becoming the column, so a default field named like a pattern scopes a lone bare term to a pattern leaf — but to the column under AND/OR/NOT", fnName(cls), badVia))
			} else {
				r.ok(rule, key, c.instrPos(call), fmt.Sprintf("%d raw origins, each behind the column wrapping", len(raws)))
			}
		}
	}
	// the column wrapper: string → Lit(Column(s))
	nw := 0
	for _, b := range general.Blocks {
		for _, in := range b.Instrs {
			call, ok := in.(*ssa.Call)
			if !ok || call.Call.StaticCallee() == nil || call.Call.StaticCallee() == cls || len(call.Call.Args) != 1 {
				continue
			}
			h := call.Call.StaticCallee()
			if fnPkgPath(h) != pkgExpr || h.Signature.Results().Len() != 1 || !isExprPtr(h.Signature.Results().At(0).Type()) || c.key(call.Call.Args[0], nil) != "$0" {
				continue
			}
			paths, _ := c.enumPathsOpt(h, 5000, &InlineOpts{None: true})
			for _, p := range paths {
				if p.Ret == nil {
					continue
				}
				isStr := false
				for _, a := range p.Atoms {
					if a.Kind == "type" && a.Pos && a.Subj == "$0" && a.Val == "string" {
						isStr = true
					}
				}
				if !isStr {
					continue
				}
				nw++
				v, ve := c.resolveE(p.Ret.Results[0], p.Env)
				good := false
				if rc, ok := v.(*ssa.Call); ok && rc.Call.StaticCallee() != nil && len(rc.Call.Args) >= 1 {
					ops := c.ctorOperator(rc.Call.StaticCallee())
					ak := c.key(rc.Call.Args[0], ve)
					good = len(ops) == 1 && ops[0] == "expr.Literal" && strings.HasPrefix(ak, "conv:expr.Column(") && strings.Contains(ak, "$0")
					if good {
						// the name itself: the converted value is the operand (read through its type assertion), not
						// something computed from it (a trimmed, cut or case-folded name is another column)
						inner := strings.TrimSuffix(strings.TrimPrefix(ak, "conv:expr.Column("), ")")
						inner = strings.ReplaceAll(inner, ".(string)", "")
						if !strings.HasPrefix(inner, "$0") || strings.ContainsAny(inner, "()+") {
							good = false
						}
					}
				}
				key := "wrapper|" + fnName(h) + "|string"
				if good {
					r.ok(rule, key, c.instrPos(p.Ret), "Lit(Column(s))")
				} else {
					r.bad(rule, key, c.instrPos(p.Ret), fmt.Sprintf("%s answers a raw string with %s instead of a Literal leaf holding expr.Column of that string", fnName(h), c.key(v, ve)))
				}
			}
		}
	}
	r.floor(rule, "classifier calls in the constructor", n, 1)
	r.floor(rule, "column-wrapper paths for a raw string", nw, 1)
}
