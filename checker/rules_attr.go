package main

// CTOR-ATTR (C05/C06/C12): the scalar attributes of a node (fuzzy distance, boost power) are the numbers the
// production supplied. The general constructor may store the supplied number under conditions on its dynamic
// type and on the operand count, but a condition on the number's *value* must hold for every number a
// production can supply — otherwise some written distance / power is silently replaced by the default and
// `a~0` and `a~` (or two different powers) become the same tree.

import (
	"fmt"
	"go/types"
	"math"
	"sort"
	"strconv"
	"strings"

	"golang.org/x/tools/go/ssa"
)

type numFact struct {
	op string
	c  float64
}

func impliedBy(g numFact, facts []numFact) bool {
	lo, hi := math.Inf(-1), math.Inf(1)
	loStrict, hiStrict := false, false
	var ne []float64
	for _, f := range facts {
		switch f.op {
		case "==":
			lo, hi, loStrict, hiStrict = f.c, f.c, false, false
		case ">":
			if f.c > lo || (f.c == lo && !loStrict) {
				lo, loStrict = f.c, true
			}
		case ">=":
			if f.c > lo {
				lo, loStrict = f.c, false
			}
		case "<":
			if f.c < hi || (f.c == hi && !hiStrict) {
				hi, hiStrict = f.c, true
			}
		case "<=":
			if f.c < hi {
				hi, hiStrict = f.c, false
			}
		case "!=":
			ne = append(ne, f.c)
		}
	}
	switch g.op {
	case ">":
		return lo > g.c || (lo == g.c && loStrict)
	case ">=":
		return lo >= g.c
	case "<":
		return hi < g.c || (hi == g.c && hiStrict)
	case "<=":
		return hi <= g.c
	case "==":
		return lo == g.c && hi == g.c && !loStrict && !hiStrict
	case "!=":
		if g.c < lo || g.c > hi || (g.c == lo && loStrict) || (g.c == hi && hiStrict) {
			return true
		}
		for _, n := range ne {
			if n == g.c {
				return true
			}
		}
	}
	return false
}

func atomNumFact(a Atom, subj string) (numFact, bool) {
	if a.Kind != "cmp" {
		return numFact{}, false
	}
	if a.Subj == subj {
		if f, err := strconv.ParseFloat(a.Val, 64); err == nil {
			return numFact{a.Op, f}, true
		}
	}
	if a.Val == subj {
		if f, err := strconv.ParseFloat(a.Subj, 64); err == nil {
			return numFact{flipOp[a.Op], f}, true
		}
	}
	return numFact{}, false
}

func ruleCTORATTR(c *Ctx, r *Report) {
	const rule = "CTOR-ATTR"
	r.doc(rule, "for every unexported numeric field of Expression (the scalar attributes): wherever the general constructor stores a supplied argument into it, each condition on the argument's value that guards the store is implied by what every production that supplies such an argument has established about the number (a constant, or comparisons on the parsed value with helpers read in place) — the constructor never drops a distance or power that Parse can produce")
	general := c.pkgFunc(pkgExpr, "Expr")
	et := c.namedType(pkgExpr, "Expression")
	if general == nil || et == nil {
		r.bad(rule, "anchor", "-", "general constructor / Expression type not found")
		return
	}
	pt := c.prodTable()
	st := et.Underlying().(*types.Struct)
	nStores := 0
	for i := 0; i < st.NumFields(); i++ {
		f := st.Field(i)
		if f.Exported() {
			continue
		}
		if b, ok := f.Type().Underlying().(*types.Basic); !ok || b.Info()&types.IsNumeric == 0 {
			continue
		}
		for _, fs := range c.storesToFields(f) {
			fs := fs
			if _, isConst := fs.st.Val.(*ssa.Const); isConst {
				continue
			}
			if fnPkgPath(fs.fn) != pkgExpr || fs.fn.Signature.Recv() != nil {
				continue // the decoder assigns what the document says; JSON-DEFAULTS / JSON-OP cover it
			}
			c.withContexts(fs.fn, general, 0, func(callerAtoms []Atom) {
				valKey := c.key(fs.st.Val, nil)
				if !strings.Contains(valKey, "$2[") {
					return
				}
				nStores++
				raw := append(append([]Atom(nil), callerAtoms...), c.domAtoms(fs.st.Block())...)
				atoms := c.expand(raw, nil)
				op := ""
				var guards []numFact
				var guardTxt []string
				for _, a := range atoms {
					if a.Kind == "cmp" && a.Subj == "$1" && a.Op == "==" && strings.HasPrefix(a.Val, "expr.") {
						op = a.Val
					}
					if nf, ok := atomNumFact(a, valKey); ok {
						guards = append(guards, nf)
						guardTxt = append(guardTxt, a.String())
					}
				}
				key := fmt.Sprintf("%s←%s|%s", f.Name(), valKey, op)
				if len(guards) == 0 {
					r.ok(rule, key, c.instrPos(fs.st), "stored whatever its value")
					return
				}
				if op == "" {
					r.bad(rule, key, c.instrPos(fs.st), fmt.Sprintf("the constructor stores %s into %s only under %v and the operator of the node is not established there, so the productions that supply it cannot be found", valKey, f.Name(), guardTxt))
					return
				}
				// what the productions supply
				type supplied struct {
					where string
					facts []numFact
					txt   string
				}
				var sup []supplied
				for _, red := range pt.Reducers {
					paths, _ := c.enumPathsInl(red, 20000)
					seen := map[string]bool{}
					for _, p := range paths {
						for _, pc := range p.Calls {
							g := pc.Call.Call.StaticCallee()
							if g == nil || len(pc.Args) < 2 {
								continue
							}
							ops := c.ctorOperator(g)
							if g == general {
								if k, ok := c.resolve(pc.Call.Call.Args[1], p.Env).(*ssa.Const); ok {
									ops = []string{c.constName(k)}
								}
							}
							if len(ops) != 1 || ops[0] != op {
								continue
							}
							last := pc.Args[len(pc.Args)-1]
							if !strings.HasPrefix(last, "[") || !strings.HasSuffix(last, "]") {
								continue
							}
							v := last[1 : len(last)-1]
							if v == "" || strings.Contains(v, ",") && !strings.Contains(v, "(") {
								continue
							}
							var facts []numFact
							var txt []string
							if fv, err := strconv.ParseFloat(v, 64); err == nil {
								facts = append(facts, numFact{"==", fv})
								txt = append(txt, "the constant "+v)
							}
							// a widening conversion keeps order and sign: what is known of x is known of float64(x)
							inner := v
							for strings.HasPrefix(inner, "conv:") && strings.HasSuffix(inner, ")") {
								if i := strings.Index(inner, "("); i > 0 {
									inner = inner[i+1 : len(inner)-1]
								} else {
									break
								}
							}
							for _, a := range p.Atoms {
								nf, ok := atomNumFact(a, v)
								if !ok && inner != v {
									nf, ok = atomNumFact(a, inner)
								}
								if ok {
									if a.Neg && (nf.op == "<" || nf.op == "<=" || nf.op == ">" || nf.op == ">=") {
										continue // a negated float comparison also holds for NaN: no bound
									}
									facts = append(facts, nf)
									txt = append(txt, a.String())
								}
							}
							sig := fnName(red) + "|" + v + "|" + strings.Join(txt, "∧")
							if seen[sig] {
								continue
							}
							seen[sig] = true
							sup = append(sup, supplied{fnName(red) + " supplies " + v, facts, strings.Join(txt, " ∧ ")})
						}
					}
				}
				if len(sup) == 0 {
					r.bad(rule, key, c.instrPos(fs.st), fmt.Sprintf("no production was found that supplies the attribute of %s, so the guard %v cannot be justified", op, guardTxt))
					return
				}
				var fails []string
				for _, s := range sup {
					for gi, g := range guards {
						if !impliedBy(g, s.facts) {
							known := s.txt
							if known == "" {
								known = "nothing"
							}
							fails = append(fails, fmt.Sprintf("%s (established: %s), which need not satisfy %s", s.where, known, guardTxt[gi]))
						}
					}
				}
				sort.Strings(fails)
				if len(fails) > 0 {
					r.bad(rule, key, c.instrPos(fs.st), fmt.Sprintf("the constructor keeps the supplied %s of a %s node only if %v; but %s: such a number written in the query is silently replaced by the default, so two different queries give the same tree (and the encoded or printed form no longer reflects what was written)", f.Name(), op, guardTxt, strings.Join(uniq(fails), "; ")))
				} else {
					r.ok(rule, key, c.instrPos(fs.st), fmt.Sprintf("guard %v holds for all %d supplying productions", guardTxt, len(sup)))
				}
			})
		}
	}
	r.floor(rule, "attribute stores of supplied arguments", nStores, 2)
}
