package main

// WRAP-COMMUTE (C11): scoping to the default field happens while the tree is being built (the productions for
// AND / OR / NOT replace a bare operand t by f:t), so a production that fires later sees f:t where the run
// without the option sees t. The two runs build corresponding trees only if no later decision can tell the
// two apart: nothing in the reduce step may test a node standing in a scoped position for being a leaf (or a
// field clause).

import (
	"fmt"
	"go/token"
	"go/types"
	"sort"
	"strings"

	"golang.org/x/tools/go/ssa"
)

func ruleWRAPCOMMUTE(c *Ctx, r *Report) {
	const rule = "WRAP-COMMUTE"
	r.doc(rule, "in package reduce, no comparison of an operator kind against a kind the default-field helper scopes (read off the helper's own tests) or against the Equals it builds is made on a node that is a child (Left/Right) of a node which may be one of the scoping productions' results (those whose operands pass the default-field helper): such a child is t in the run without the option and f:t in the run with it, so the decision — and with it the tree — differs between the two runs. Children of nodes pinned to another kind by a dominating test, and operands taken directly from the window, are not scoped positions")
	pt := c.prodTable()
	if len(pt.Reducers) == 0 {
		r.bad(rule, "anchor", "-", "no reducers")
		return
	}
	wrapper, _, _ := c.defaultFieldWrapper()
	if wrapper == nil {
		r.bad(rule, "anchor", "-", "default-field wrapping helper not found")
		return
	}
	W := map[string]bool{}
	for _, row := range pt.Rows {
		for _, a := range row.Args {
			if a.Wrapped && row.Op != "" {
				W[row.Op] = true
			}
		}
	}
	r.floor(rule, "scoping productions", len(W), 2)
	var wl []string
	for k := range W {
		wl = append(wl, k)
	}
	sort.Strings(wl)
	r.unit("scoping productions", strings.Join(wl, ","))
	// the kinds the two runs differ in: those the helper scopes (read off its own kind tests) and the kind it builds
	sensitive := map[string]bool{"expr.Equals": true}
	for _, b := range wrapper.Blocks {
		for _, in := range b.Instrs {
			if bo, ok := in.(*ssa.BinOp); ok && (bo.Op == token.EQL || bo.Op == token.NEQ) {
				for _, side := range []ssa.Value{bo.X, bo.Y} {
					if k, isC := side.(*ssa.Const); isC && typeStr(k.Type()) == "expr.Operator" {
						sensitive[c.constName(k)] = true
					}
				}
			}
		}
	}
	r.floor(rule, "kinds the helper scopes", len(sensitive)-1, 1)
	// a production that builds a node of a scoped kind itself manufactures something the helper (and the
	// single-term acceptance) will take for a bare term and scope — a node that is not a term of the query
	nProd := 0
	for _, row := range pt.Rows {
		if row.OutKind != "ctor" {
			continue
		}
		nProd++
		for _, op := range append([]string{row.Op}, row.AltOps...) {
			if op != "expr.Equals" && sensitive[op] {
				r.bad(rule, "production-builds|"+op, c.pos(row.Reducer.Pos()), fmt.Sprintf("%s builds a node of kind %s for the window %s: with a default field every later production (and the acceptance of a single term) scopes that node like a bare term of the query, which it is not — the tree then differs from the option-free one by more than the scoping of bare terms", fnName(row.Reducer), op, row.pattern()))
			}
		}
	}
	r.floor(rule, "constructor productions", nProd, 8)
	// functions of package reduce reachable from the reducers
	reach := c.reachFrom(pt.Reducers)
	var fns []*ssa.Function
	for _, f := range sortedFuncs(reach) {
		if fnPkgPath(f) == pkgReduce && len(f.Blocks) > 0 {
			fns = append(fns, f)
		}
	}
	// childOf: v is the Left/Right member of an expression P, asserted to *Expression
	childOf := func(v ssa.Value) (ssa.Value, bool) {
		for i := 0; i < 4; i++ {
			switch x := v.(type) {
			case *ssa.Extract:
				v = x.Tuple
				continue
			case *ssa.ChangeType:
				v = x.X
				continue
			}
			break
		}
		ta, ok := v.(*ssa.TypeAssert)
		if !ok || !isExprPtr(ta.AssertedType) {
			return nil, false
		}
		ld, ok := ta.X.(*ssa.UnOp)
		if !ok || ld.Op != token.MUL {
			return nil, false
		}
		fa, ok := ld.X.(*ssa.FieldAddr)
		if !ok || !isExprPtr(fa.X.Type()) {
			return nil, false
		}
		st := fa.X.Type().Underlying().(*types.Pointer).Elem().Underlying().(*types.Struct)
		if n := st.Field(fa.Field).Name(); n != "Left" && n != "Right" {
			return nil, false
		}
		return fa.X, true
	}
	// mayBeScoping: can P, at instruction in, be the result of a scoping production? (its kind pinned by a
	// dominating == test decides; a chain of != tests excluding every scoping kind decides too)
	mayBeScoping := func(P ssa.Value, in ssa.Instruction) (bool, string) {
		subj := c.key(P, nil) + ".Op"
		excluded := map[string]bool{}
		for _, a := range c.atomsAt(in) {
			if a.Kind != "cmp" || a.Subj != subj {
				continue
			}
			if a.Op == "==" {
				return W[a.Val], a.Val
			}
			if a.Op == "!=" {
				excluded[a.Val] = true
			}
		}
		for k := range W {
			if !excluded[k] {
				return true, "any kind"
			}
		}
		return false, "not a scoping kind"
	}
	// scoped[param]: some call binds the parameter to a child in a scoped position (witness text)
	scoped := map[*ssa.Parameter]string{}
	parentKind := func(w string) string {
		if i := strings.Index(w, "("); i >= 0 {
			if j := strings.Index(w[i:], ")"); j > 0 {
				return w[i+1 : i+j]
			}
		}
		return "any kind"
	}
	scopedVal := func(v ssa.Value, at ssa.Instruction) (string, bool) {
		if p, ok := v.(*ssa.Parameter); ok {
			w, is := scoped[p]
			return w, is
		}
		if P, ok := childOf(v); ok {
			if may, kind := mayBeScoping(P, at); may {
				return fmt.Sprintf("a child of a node (%s) in %s", kind, fnName(at.Parent())), true
			}
		}
		if phi, ok := v.(*ssa.Phi); ok {
			for _, e := range phi.Edges {
				if _, isPhi := e.(*ssa.Phi); isPhi {
					continue
				}
				if p, ok := e.(*ssa.Parameter); ok {
					if w, is := scoped[p]; is {
						return w, true
					}
				} else if P, ok := childOf(e); ok {
					if may, kind := mayBeScoping(P, at); may {
						return fmt.Sprintf("a child of a node (%s) in %s", kind, fnName(at.Parent())), true
					}
				}
			}
		}
		return "", false
	}
	for changed, round := true, 0; changed && round < 8; round++ {
		changed = false
		for _, f := range fns {
			for _, b := range f.Blocks {
				for _, in := range b.Instrs {
					call, ok := in.(ssa.CallInstruction)
					if !ok {
						continue
					}
					g := call.Common().StaticCallee()
					if g == nil || fnPkgPath(g) != pkgReduce || g == wrapper || len(g.Blocks) == 0 {
						continue
					}
					for i, a := range call.Common().Args {
						if i >= len(g.Params) || !isExprPtr(a.Type()) {
							continue
						}
						if _, done := scoped[g.Params[i]]; done {
							continue
						}
						if w, is := scopedVal(a, in); is {
							scoped[g.Params[i]] = w
							changed = true
						}
					}
				}
			}
		}
	}
	// the tests
	nTests := 0
	for _, f := range fns {
		if f == wrapper {
			continue
		}
		for _, b := range f.Blocks {
			for _, in := range b.Instrs {
				bo, ok := in.(*ssa.BinOp)
				if !ok || bo.Op != token.EQL && bo.Op != token.NEQ {
					continue
				}
				var fld ssa.Value
				var k *ssa.Const
				if kk, isC := bo.Y.(*ssa.Const); isC {
					fld, k = bo.X, kk
				} else if kk, isC := bo.X.(*ssa.Const); isC {
					fld, k = bo.Y, kk
				} else {
					continue
				}
				ld, ok := fld.(*ssa.UnOp)
				if !ok || ld.Op != token.MUL {
					continue
				}
				fa, ok := ld.X.(*ssa.FieldAddr)
				if !ok || !isExprPtr(fa.X.Type()) {
					continue
				}
				st := fa.X.Type().Underlying().(*types.Pointer).Elem().Underlying().(*types.Struct)
				if st.Field(fa.Field).Name() != "Op" {
					continue
				}
				nTests++
				kind := c.constName(k)
				key := fmt.Sprintf("%s|%s.Op|%s", fnName(f), c.key(fa.X, nil), kind)
				if !sensitive[kind] {
					r.ok(rule, key, c.instrPos(in), "the kind tested for is the same with and without scoping")
					continue
				}
				if w, is := scopedVal(fa.X, in); is {
					// keyed by what is tested where (the kind of the parent node and the kind tested for), not by the
					// name of the function that happens to hold the test
					key = fmt.Sprintf("child-of:%s|tested-for:%s", parentKind(w), kind)
					r.bad(rule, key, c.instrPos(in), fmt.Sprintf("%s tests whether %s is of kind %s, and that node can be %s: with a default field a bare term in that position has already become field:term, so the test — and what is built from it — comes out differently than without the option (a:(x OR y) is a value list without a default field and a clause over scoped terms with one)", fnName(f), c.key(fa.X, nil), kind, w))
				} else {
					r.ok(rule, key, c.instrPos(in), "the node tested is taken from the window (or from a node of a kind that is never scoped), not from a scoped position")
				}
			}
		}
	}
	r.floor(rule, "operator-kind tests in package reduce", nTests, 3)
}
