package main

// C14: PUR-G, PUR-ARG, DET — with A6 (origin / freshness analysis).

import (
	"fmt"
	"go/token"
	"go/types"
	"sort"
	"strings"

	"golang.org/x/tools/go/ssa"
)

type originSet map[string]bool

func (o originSet) add(s string) { o[s] = true }
func (o originSet) addAll(p originSet) {
	for k := range p {
		o[k] = true
	}
}
func (o originSet) list() []string {
	var out []string
	for k := range o {
		out = append(out, k)
	}
	sort.Strings(out)
	return out
}

// onlyFresh: every origin is a fresh allocation of the current call tree (or nil).
func (o originSet) onlyFresh() bool {
	for k := range o {
		if k != "fresh" && k != "nil" {
			return false
		}
	}
	return true
}

type originAnalysis struct {
	c        *Ctx
	retFresh map[string]bool // fn|idx -> all returns fresh (greatest fixpoint)
	busy     map[string]bool
}

func (c *Ctx) originAnalysis() *originAnalysis {
	if a, ok := c.roles["origin"]; ok {
		return a.(*originAnalysis)
	}
	a := &originAnalysis{c: c, retFresh: map[string]bool{}, busy: map[string]bool{}}
	c.roles["origin"] = a
	return a
}

// returnsFresh: result idx of fn is, on every return, nil or memory allocated within the call tree.
func (a *originAnalysis) returnsFresh(fn *ssa.Function, idx int) bool {
	if fn == nil || fn.Blocks == nil {
		return false
	}
	key := fmt.Sprintf("%s|%d", fnName(fn), idx)
	if v, ok := a.retFresh[key]; ok {
		return v
	}
	if a.busy[key] {
		return true // optimistic for recursion (greatest fixpoint)
	}
	a.busy[key] = true
	res := true
	for _, b := range fn.Blocks {
		for _, in := range b.Instrs {
			ret, ok := in.(*ssa.Return)
			if !ok || idx >= len(ret.Results) {
				continue
			}
			if !a.origins(ret.Results[idx], map[ssa.Value]bool{}).onlyFresh() {
				res = false
			}
		}
	}
	delete(a.busy, key)
	a.retFresh[key] = res
	return res
}

func isValueKind(t types.Type) bool {
	switch u := t.Underlying().(type) {
	case *types.Basic:
		return true
	case *types.Struct:
		for i := 0; i < u.NumFields(); i++ {
			if !isValueKind(u.Field(i).Type()) {
				return false
			}
		}
		return true
	case *types.Array:
		return isValueKind(u.Elem())
	}
	return false
}

func (a *originAnalysis) origins(v ssa.Value, seen map[ssa.Value]bool) originSet {
	out := originSet{}
	if v == nil {
		return out
	}
	if seen[v] {
		return out
	}
	seen[v] = true
	if isValueKind(v.Type()) {
		// numbers, strings, bools and structs of those do not alias memory
		out.add("fresh")
		return out
	}
	switch x := v.(type) {
	case *ssa.Alloc, *ssa.MakeSlice, *ssa.MakeMap, *ssa.MakeClosure, *ssa.MakeChan:
		out.add("fresh")
	case *ssa.Const:
		out.add("nil")
	case *ssa.Function:
		out.add("fresh")
	case *ssa.Parameter:
		if x.Parent().Signature.Recv() != nil && x == x.Parent().Params[0] {
			out.add("recv:" + fnName(x.Parent()))
		} else {
			out.add("param:" + fnName(x.Parent()) + "." + x.Name())
		}
	case *ssa.FreeVar:
		out.add("freevar:" + x.Name())
	case *ssa.Global:
		out.add("global:" + x.Name())
	case *ssa.FieldAddr:
		out.addAll(a.origins(x.X, seen))
	case *ssa.Field:
		out.addAll(a.origins(x.X, seen))
	case *ssa.IndexAddr:
		out.addAll(a.origins(x.X, seen))
	case *ssa.Index:
		out.addAll(a.origins(x.X, seen))
	case *ssa.Lookup:
		out.addAll(a.origins(x.X, seen))
	case *ssa.Slice:
		out.addAll(a.origins(x.X, seen))
	case *ssa.MakeInterface:
		out.addAll(a.origins(x.X, seen))
	case *ssa.ChangeType:
		out.addAll(a.origins(x.X, seen))
	case *ssa.ChangeInterface:
		out.addAll(a.origins(x.X, seen))
	case *ssa.Convert:
		out.addAll(a.origins(x.X, seen))
	case *ssa.TypeAssert:
		out.addAll(a.origins(x.X, seen))
	case *ssa.Phi:
		for _, e := range x.Edges {
			out.addAll(a.origins(e, seen))
		}
	case *ssa.Extract:
		if call, ok := x.Tuple.(*ssa.Call); ok {
			out.addAll(a.callOrigins(call, x.Index, seen))
		} else {
			out.addAll(a.origins(x.Tuple, seen))
		}
	case *ssa.Next:
		out.addAll(a.origins(x.Iter, seen))
	case *ssa.Range:
		out.addAll(a.origins(x.X, seen))
	case *ssa.Call:
		out.addAll(a.callOrigins(x, 0, seen))
	case *ssa.UnOp:
		if x.Op != token.MUL {
			out.add("fresh")
			break
		}
		// load through an address: what was stored there
		base := x.X
		for {
			switch b := base.(type) {
			case *ssa.FieldAddr:
				base = b.X
				continue
			case *ssa.IndexAddr:
				base = b.X
				continue
			}
			break
		}
		if al, ok := base.(*ssa.Alloc); ok {
			stored := a.storedInto(al, seen)
			if len(stored) == 0 {
				out.add("fresh")
			}
			out.addAll(stored)
		} else {
			out.addAll(a.origins(base, seen))
		}
	default:
		out.add("unknown:" + fmt.Sprintf("%T", v))
	}
	return out
}

// storedInto: origins of every value stored into alloc or a sub-address of it (field-insensitive).
func (a *originAnalysis) storedInto(al *ssa.Alloc, seen map[ssa.Value]bool) originSet {
	out := originSet{}
	var visit func(addr ssa.Value)
	visit = func(addr ssa.Value) {
		refs := addr.Referrers()
		if refs == nil {
			return
		}
		for _, ref := range *refs {
			switch r := ref.(type) {
			case *ssa.Store:
				if r.Addr == addr {
					out.addAll(a.origins(r.Val, seen))
				}
			case *ssa.FieldAddr:
				visit(r)
			case *ssa.IndexAddr:
				visit(r)
			}
		}
	}
	visit(al)
	return out
}

func (a *originAnalysis) callOrigins(call *ssa.Call, idx int, seen map[ssa.Value]bool) originSet {
	out := originSet{}
	if bi, ok := call.Call.Value.(*ssa.Builtin); ok {
		switch bi.Name() {
		case "append":
			o := a.origins(call.Call.Args[0], seen)
			out.addAll(o)
			out.add("fresh")
			// appended elements' own origins matter when elements are pointers: the result holds them
			return out
		case "len", "cap", "copy", "min", "max":
			out.add("fresh")
			return out
		}
		out.add("unknown:builtin " + bi.Name())
		return out
	}
	f := call.Call.StaticCallee()
	if f == nil {
		// dynamic call: all candidates must return fresh
		ts := a.c.dynBySignature(call)
		if len(ts) == 0 {
			out.add("unknown:dynamic call")
			return out
		}
		for _, t := range ts {
			if !a.returnsFresh(t, idx) {
				out.add("call:" + fnName(t))
			}
		}
		if len(out) == 0 {
			out.add("fresh")
		}
		return out
	}
	if !inModule(f) {
		// standard library results: fresh memory (strings, slices built by the callee) — except
		// functions that return a view of an argument
		switch f.String() {
		case "bytes.TrimSpace", "bytes.Trim", "strings.Fields", "strings.Split":
			out.addAll(a.origins(call.Call.Args[0], seen))
			out.add("fresh")
		default:
			out.add("fresh")
		}
		return out
	}
	if a.returnsFresh(f, idx) {
		out.add("fresh")
	} else {
		out.add("call:" + fnName(f))
	}
	return out
}

// boundToGlobal: for an origin that is a receiver or parameter of a module function, does some (transitive, up to
// 4 levels) static caller in the library bind it to memory that originates from a package-level variable?
// Returns that global origin and the calling function. Initialisers are not callers in this sense.
func (a *originAnalysis) boundToGlobal(o string, depth int, seen map[string]bool) (string, string) {
	if depth > 4 || seen[o] {
		return "", ""
	}
	seen[o] = true
	var fname, pname string
	isRecv := false
	switch {
	case strings.HasPrefix(o, "recv:"):
		fname, isRecv = strings.TrimPrefix(o, "recv:"), true
	case strings.HasPrefix(o, "param:"):
		rest := strings.TrimPrefix(o, "param:")
		i := strings.LastIndex(rest, ".")
		if i < 0 {
			return "", ""
		}
		fname, pname = rest[:i], rest[i+1:]
	default:
		return "", ""
	}
	c := a.c
	for _, caller := range c.Funcs {
		if !inLib(caller) || caller.Name() == "init" && caller.Synthetic != "" {
			continue
		}
		for _, b := range caller.Blocks {
			for _, in := range b.Instrs {
				call, ok := in.(ssa.CallInstruction)
				if !ok {
					continue
				}
				callee := call.Common().StaticCallee()
				if callee == nil || fnName(callee) != fname {
					continue
				}
				idx := -1
				if isRecv {
					idx = 0
				} else {
					for i, p := range callee.Params {
						if p.Name() == pname {
							idx = i
						}
					}
				}
				if idx < 0 || idx >= len(call.Common().Args) {
					continue
				}
				for ao := range a.origins(call.Common().Args[idx], map[ssa.Value]bool{}) {
					if strings.HasPrefix(ao, "global:") {
						return ao, fnName(caller)
					}
					if g, via := a.boundToGlobal(ao, depth+1, seen); g != "" {
						return g, via
					}
				}
			}
		}
	}
	return "", ""
}

// closureMadeAtInit: fn is a closure all of whose MakeClosure sites run during package initialisation — in the
// package initialiser itself or in a function that is only called from it. Returns the name of that site.
func (c *Ctx) closureMadeAtInit(fn *ssa.Function) string {
	if fn.Parent() == nil {
		return ""
	}
	isInit := func(f *ssa.Function) bool { return f != nil && f.Name() == "init" && f.Synthetic != "" }
	site := fn.Parent()
	if isInit(site) {
		return fnName(site)
	}
	n := 0
	for _, g := range c.Funcs {
		for _, b := range g.Blocks {
			for _, in := range b.Instrs {
				if call, ok := in.(ssa.CallInstruction); ok && call.Common().StaticCallee() == site {
					if !isInit(g) {
						return ""
					}
					n++
				}
			}
		}
	}
	if n == 0 {
		return ""
	}
	return fnName(site) + ", called from the package initialiser"
}

func (c *Ctx) observerRoots() []*ssa.Function {
	return []*ssa.Function{
		c.method(pkgDriver, "Base", "Render"), c.method(pkgDriver, "Base", "RenderParam"),
		c.method(pkgExpr, "Expression", "String"), c.method(pkgExpr, "Expression", "GoString"),
		c.method(pkgExpr, "Expression", "MarshalJSON"), c.pkgFunc(pkgExpr, "Validate"),
		c.method(pkgExpr, "Column", "GoString"), c.method(pkgExpr, "Operator", "String"),
	}
}

// writes enumerates the memory writes of a function: (instruction, written base value, description)
type memWrite struct {
	in   ssa.Instruction
	base ssa.Value
	what string
}

func (c *Ctx) memWrites(fn *ssa.Function) []memWrite {
	var out []memWrite
	for _, b := range fn.Blocks {
		for _, in := range b.Instrs {
			switch x := in.(type) {
			case *ssa.Store:
				out = append(out, memWrite{in, x.Addr, "store to " + c.key(x.Addr, nil)})
			case *ssa.MapUpdate:
				out = append(out, memWrite{in, x.Map, "map update of " + c.key(x.Map, nil)})
			case *ssa.Call:
				if bi, ok := x.Call.Value.(*ssa.Builtin); ok {
					switch bi.Name() {
					case "append":
						out = append(out, memWrite{in, x.Call.Args[0], "append to " + c.key(x.Call.Args[0], nil)})
					case "copy", "delete", "clear":
						out = append(out, memWrite{in, x.Call.Args[0], bi.Name() + " on " + c.key(x.Call.Args[0], nil)})
					}
					continue
				}
				name := calleeFullName(x)
				switch {
				case name == "encoding/json.Unmarshal" && len(x.Call.Args) == 2:
					out = append(out, memWrite{in, x.Call.Args[1], "json.Unmarshal into " + c.key(x.Call.Args[1], nil)})
				case strings.HasPrefix(name, "sort.") && len(x.Call.Args) >= 1:
					out = append(out, memWrite{in, x.Call.Args[0], name + " on " + c.key(x.Call.Args[0], nil)})
				case (strings.HasPrefix(name, "fmt.Fprint") || name == "io.WriteString") && len(x.Call.Args) >= 1:
					// writes into the writer: if the writer is a pointer (a *strings.Builder, *bytes.Buffer), that object
					if mi, ok := x.Call.Args[0].(*ssa.MakeInterface); ok {
						if _, isPtr := mi.X.Type().Underlying().(*types.Pointer); isPtr {
							out = append(out, memWrite{in, mi.X, name + " into " + c.key(mi.X, nil)})
						}
					}
				default:
					// a pointer-receiver method of a type outside the module (strings.Builder, bytes.Buffer, …) modifies
					// its receiver unless it is one of the known read-only ones
					g := x.Call.StaticCallee()
					if g == nil || inModule(g) || g.Signature.Recv() == nil || len(x.Call.Args) == 0 {
						break
					}
					if _, isPtr := g.Signature.Recv().Type().Underlying().(*types.Pointer); !isPtr {
						break
					}
					if readOnlyForeignMethod(g) {
						break
					}
					out = append(out, memWrite{in, x.Call.Args[0], "call of " + g.String() + " on " + c.key(x.Call.Args[0], nil)})
				}
			}
		}
	}
	return out
}

func rulePURG(c *Ctx, r *Report) {
	const rule = "PUR-G"
	r.doc(rule, "no write to global state after initialisation: every store / map update / in-place append whose base originates (origin analysis) from a package-level variable must be inside a package initialiser; the postgres driver copies Shared into a fresh map")
	oa := c.originAnalysis()
	// enumerate globals
	nG := 0
	for _, p := range libPkgs {
		sp := c.SSA[p]
		if sp == nil {
			continue
		}
		for name, m := range sp.Members {
			if g, ok := m.(*ssa.Global); ok && !strings.HasPrefix(name, "init$") {
				nG++
				r.unit("package-level variables", shortPkg(g.Pkg.Pkg)+"."+name)
			}
		}
	}
	r.floor(rule, "package-level variables", nG, 9)
	nW := 0
	for _, fn := range c.Funcs {
		if !inLib(fn) || fn.Name() == "init" && fn.Synthetic != "" {
			continue
		}
		for _, w := range c.memWrites(fn) {
			nW++
			os := oa.origins(w.base, map[ssa.Value]bool{})
			for o := range os {
				if strings.HasPrefix(o, "global:") {
					r.bad(rule, fnName(fn)+"|"+w.what, c.instrPos(w.in), fmt.Sprintf("%s writes package-level state outside initialisation (%s, origin %s): concurrent calls race and results depend on call history", fnName(fn), w.what, o))
				} else if strings.HasPrefix(o, "freevar:") && c.closureMadeAtInit(fn) != "" {
					// a closure built once, during package initialisation (a factory called from a package-level
					// table): what it captured is shared by every later call of it
					r.bad(rule, fnName(fn)+"|"+w.what, c.instrPos(w.in), fmt.Sprintf("%s writes through its captured variable %s (%s), and the closure is made once, during package initialisation (%s): the captured memory is shared by all calls — concurrent calls race and results depend on call history", fnName(fn), strings.TrimPrefix(o, "freevar:"), w.what, c.closureMadeAtInit(fn)))
				} else if g, via := oa.boundToGlobal(o, 0, map[string]bool{}); g != "" {
					// the written object is an argument or the receiver: some caller passes a package-level object
					r.bad(rule, fnName(fn)+"|"+w.what, c.instrPos(w.in), fmt.Sprintf("%s writes through %s (%s), and %s passes the package-level %s there: state shared by all calls is modified outside initialisation — concurrent calls race and results depend on call history", fnName(fn), strings.SplitN(o, ":", 2)[0], w.what, via, strings.TrimPrefix(g, "global:")))
				}
			}
		}
	}
	r.ok(rule, "writes-examined", "-", fmt.Sprintf("%d memory writes in library functions examined, none reaches a package-level variable", nW))
	// tables written only in init is also what A4 relies on
	if pt := c.pgTable(); pt.Err == "" && pt.CopyLoop {
		r.ok(rule, "postgres-table-copy", c.pos(pt.Ctor.Pos()), "driver table is a fresh map")
	} else {
		r.bad(rule, "postgres-table-copy", "-", "the postgres driver does not build its table by copying into a fresh map: "+c.pgTable().Err)
	}
}

func rulePURARG(c *Ctx, r *Report) {
	const rule = "PUR-ARG"
	r.doc(rule, "no write through arguments in the observer set (functions reachable from Render, RenderParam, String, GoString, MarshalJSON, Validate): every written address has a fresh origin (allocation in the current call tree, incl. 'returns fresh' summaries); parser/lexer methods write only through receivers allocated per Parse call; Peek works on a by-value copy")
	oa := c.originAnalysis()
	reach := c.reachFrom(c.observerRoots())
	nW := 0
	for _, fn := range sortedFuncs(reach) {
		if !inLib(fn) {
			continue
		}
		r.unit("observer functions", fnName(fn))
		for _, w := range c.memWrites(fn) {
			nW++
			os := oa.origins(w.base, map[ssa.Value]bool{})
			key := fnName(fn) + "|" + w.what
			if os.onlyFresh() {
				r.ok(rule, key, c.instrPos(w.in), "fresh")
			} else {
				r.bad(rule, key, c.instrPos(w.in), fmt.Sprintf("%s modifies memory it did not allocate (%s; origins %v): rendering, printing, validating or encoding an expression must not modify it, and shared expressions would race", fnName(fn), w.what, os.list()))
			}
		}
	}
	r.floor(rule, "observer functions", len(r.Units["observer functions"]), 40)
	r.floor(rule, "memory writes in observers", nW, 20)
	// Parse side: parser and Lexer are allocated per call
	pr := c.parserRoles()
	lr := c.lexRoles()
	if pr.Err == "" && lr.Err == "" {
		for _, t := range []struct {
			typ  *types.Named
			home *ssa.Function
		}{{pr.Type, pr.Parse}, {lr.Lexer, lr.LexCtor}} {
			for _, fn := range c.Funcs {
				for _, b := range fn.Blocks {
					for _, in := range b.Instrs {
						al, ok := in.(*ssa.Alloc)
						if !ok || !al.Heap {
							continue
						}
						if pt, ok := al.Type().(*types.Pointer); ok && types.Identical(pt.Elem(), t.typ) {
							key := "alloc|" + t.typ.Obj().Name() + "|" + fnName(fn)
							if fn == t.home || c.reachedOnlyFrom(fn, t.home, 0) {
								// per-call state must not be initialised with memory other calls can reach: what is stored
								// into the fresh object (slices, maps, pointers) is fresh as well
								shared := ""
								for o := range oa.storedInto(al, map[ssa.Value]bool{}) {
									if strings.HasPrefix(o, "global:") || strings.HasPrefix(o, "freevar:") {
										shared = o
									}
								}
								if shared != "" {
									r.bad(rule, key+"|init", c.instrPos(in), fmt.Sprintf("the %s that %s allocates per call is initialised with memory reachable from %s: its methods write through it (appends into spare capacity, element stores), so concurrent or successive calls share and overwrite each other's state", t.typ.Obj().Name(), fnName(fn), shared))
								}
								r.ok(rule, key, c.instrPos(in), "allocated per call")
							} else if fn == lr.Peek {
								r.ok(rule, key, c.instrPos(in), "Peek's private copy")
							} else {
								r.bad(rule, key, c.instrPos(in), t.typ.Obj().Name()+" is allocated outside its constructor")
							}
						}
					}
				}
			}
		}
		// the methods of parser and Lexer write through their receivers; that is harmless only while every
		// receiver is the object allocated for this call — not one reached through a captured variable or a
		// package-level variable (a lexer built once when an option is made and advanced on every use)
		for _, fn := range c.Funcs {
			if !inLib(fn) {
				continue
			}
			for _, b := range fn.Blocks {
				for _, in := range b.Instrs {
					call, ok := in.(*ssa.Call)
					if !ok || call.Call.StaticCallee() == nil || len(call.Call.Args) == 0 {
						continue
					}
					g := call.Call.StaticCallee()
					recv := g.Signature.Recv()
					if recv == nil {
						continue
					}
					pt, isPtr := recv.Type().(*types.Pointer)
					if !isPtr || !(types.Identical(pt.Elem(), pr.Type) || types.Identical(pt.Elem(), lr.Lexer)) {
						continue
					}
					for o := range oa.origins(call.Call.Args[0], map[ssa.Value]bool{}) {
						if strings.HasPrefix(o, "freevar:") || strings.HasPrefix(o, "global:") {
							r.bad(rule, fmt.Sprintf("%s|%s on %s", fnName(fn), fnName(g), o), c.instrPos(in), fmt.Sprintf("%s calls %s on an object reached through %s: the method advances state that outlives the call, so a second use (or a concurrent one) continues where the first stopped instead of starting afresh", fnName(fn), fnName(g), o))
						}
					}
				}
			}
		}
		// no parser/Lexer is stored in a global or captured
		for _, fn := range []*ssa.Function{pr.Parse, lr.LexCtor} {
			for _, w := range c.memWrites(fn) {
				os := oa.origins(w.base, map[ssa.Value]bool{})
				if !os.onlyFresh() {
					r.bad(rule, fnName(fn)+"|"+w.what, c.instrPos(w.in), fmt.Sprintf("%s writes non-fresh memory (%v)", fnName(fn), os.list()))
				}
			}
		}
	}
	// expression nodes are written only by the constructor, the decoder and empty()
	c.exprWriters(r)
}

func (c *Ctx) exprWriters(r *Report) {
	const rule = "EXPR-NORM"
	r.doc(rule, "who-may-write: fields of Expression are written only in the general constructor (on its fresh node), the JSON decoder (its receiver) and composite literals; trees are therefore never mutated after construction")
	et := c.namedType(pkgExpr, "Expression")
	if et == nil {
		return
	}
	st := et.Underlying().(*types.Struct)
	var fields []*types.Var
	for i := 0; i < st.NumFields(); i++ {
		fields = append(fields, st.Field(i))
	}
	general := c.pkgFunc(pkgExpr, "Expr")
	unm := c.method(pkgExpr, "Expression", "UnmarshalJSON")
	oa := c.originAnalysis()
	var allowed func(fn *ssa.Function, base ssa.Value, depth int) (string, bool)
	allowed = func(fn *ssa.Function, base ssa.Value, depth int) (string, bool) {
		if fn == general {
			return "constructor", true
		}
		os := oa.origins(base, map[ssa.Value]bool{})
		if os.onlyFresh() {
			return "written on a fresh node", true
		}
		why := ""
		for o := range os {
			switch {
			case o == "fresh" || o == "nil":
				continue
			case fn == unm && unm != nil && o == "recv:"+fnName(unm):
				why = "decoder writes its receiver"
				continue
			}
			// a parameter (or receiver) of a private helper: every caller must hand over a node it may write
			idx := -1
			for i, p := range fn.Params {
				if o == "param:"+fnName(fn)+"."+p.Name() || (i == 0 && fn.Signature.Recv() != nil && o == "recv:"+fnName(fn)) {
					idx = i
				}
			}
			if idx < 0 || depth >= 3 {
				return "", false
			}
			sites, ok := c.privateHelper(fn)
			if !ok {
				return "", false
			}
			for _, cs := range sites {
				if idx >= len(cs.Call.Args) {
					return "", false
				}
				w, ok := allowed(cs.Parent(), cs.Call.Args[idx], depth+1)
				if !ok {
					return "", false
				}
				why = "helper of " + fnName(cs.Parent()) + " (" + w + ")"
			}
		}
		return why, true
	}
	for _, fs := range c.storesToFields(fields...) {
		fa := fs.st.Addr.(*ssa.FieldAddr)
		os := oa.origins(fa.X, map[ssa.Value]bool{})
		key := fnName(fs.fn) + "|" + fs.field.Name()
		if why, ok := allowed(fs.fn, fa.X, 0); ok {
			r.ok(rule, key, c.instrPos(fs.st), why)
		} else {
			r.bad(rule, key, c.instrPos(fs.st), fmt.Sprintf("%s writes field %s of an existing Expression (origins %v): expression trees must not be modified after construction", fnName(fs.fn), fs.field.Name(), os.list()))
		}
	}
}

func ruleDET(c *Ctx, r *Report) {
	const rule = "DET"
	r.doc(rule, "no reachable use of time, math/rand, os, goroutines, channels, sync, unsafe, or reflect beyond TypeOf; every range over a map in the reachable set is order-insensitive")
	roots := append(c.rootsC01(), c.rootsC13()...)
	reach := c.reachFrom(roots)
	n := 0
	for _, fn := range sortedFuncs(reach) {
		if !inLib(fn) {
			continue
		}
		n++
		for _, b := range fn.Blocks {
			for _, in := range b.Instrs {
				switch x := in.(type) {
				case *ssa.Go:
					r.bad(rule, fnName(fn)+"|go", c.instrPos(in), "goroutine started in library code reachable from the entry points")
				case *ssa.Send, *ssa.Select, *ssa.MakeChan:
					r.bad(rule, fnName(fn)+"|chan", c.instrPos(in), "channel operation in library code")
				case *ssa.Defer:
					_ = x
				case *ssa.Range:
					if _, isMap := x.X.Type().Underlying().(*types.Map); isMap {
						pt := c.pgTable()
						if pt.Err == "" && fn == pt.Ctor && pt.CopyLoop {
							r.ok(rule, fnName(fn)+"|map-range", c.instrPos(in), "keyed copy into another map: order-insensitive")
						} else {
							r.bad(rule, fnName(fn)+"|map-range", c.instrPos(in), "iteration over a map whose order can reach the output")
						}
					}
				case ssa.CallInstruction:
					name := calleeFullName(x)
					pkg := name
					if i := strings.LastIndex(name, "."); i > 0 {
						pkg = strings.TrimPrefix(strings.TrimPrefix(name[:i], "(*"), "(")
						pkg = strings.TrimSuffix(pkg, ")")
					}
					switch {
					case strings.HasPrefix(pkg, "time"), strings.HasPrefix(pkg, "math/rand"), strings.HasPrefix(pkg, "os"),
						strings.HasPrefix(pkg, "sync"), strings.HasPrefix(pkg, "unsafe"), strings.HasPrefix(pkg, "runtime"):
						r.bad(rule, fnName(fn)+"|"+name, c.instrPos(in), "call of "+name+": results would depend on something other than the arguments")
					case strings.HasPrefix(pkg, "reflect") && name != "reflect.TypeOf":
						r.bad(rule, fnName(fn)+"|"+name, c.instrPos(in), "reflection beyond TypeOf in library code")
					}
				}
			}
		}
	}
	r.ok(rule, "functions-examined", "-", fmt.Sprintf("%d reachable library functions examined", n))
	r.floor(rule, "reachable library functions", n, 100)
}

// CALL-STATE (C02/C03/C05/C07/C10/C11; part of PUR-ARG for C14): a call's result depends on that call only.
func ruleCALLSTATE(c *Ctx, r *Report) {
	const rule = "CALL-STATE"
	r.doc(rule, "every Parse call works on a parser and a lexer allocated in that call (no pool, no package-level instance), every field of the parser is initialised from that call's arguments or constants, and no library function writes package-level state: the tree and SQL produced for a query do not depend on earlier calls (e.g. a default field left over from another call)")
	pr := c.parserRoles()
	lr := c.lexRoles()
	if pr.Err != "" || lr.Err != "" || pr.Parse == nil {
		r.bad(rule, "anchor", "-", "parser / lexer roles unresolved")
		return
	}
	// 1. the parser value the parse loop runs on is an allocation of Parse
	n := 0
	for _, b := range pr.Parse.Blocks {
		for _, in := range b.Instrs {
			call, ok := in.(*ssa.Call)
			if !ok || call.Call.StaticCallee() != pr.ParseLoop || len(call.Call.Args) == 0 {
				continue
			}
			n++
			recv := c.resolve(call.Call.Args[0], nil)
			if _, ok := recv.(*ssa.Alloc); ok || c.freshPtrVal(recv, 0) {
				r.ok(rule, "parser-fresh", c.instrPos(in), "parser allocated in this call")
			} else {
				r.bad(rule, "parser-fresh", c.instrPos(in), "the parse loop runs on "+c.key(recv, nil)+", which is not a parser allocated by this call (pooled or shared parser: state such as the default field survives from an earlier call)")
			}
		}
	}
	r.floor(rule, "parse-loop calls in Parse", n, 1)
	// 2. no sync.Pool / package-level parser or lexer
	for _, f := range c.Funcs {
		if !inLib(f) {
			continue
		}
		for _, b := range f.Blocks {
			for _, in := range b.Instrs {
				if call, ok := in.(ssa.CallInstruction); ok {
					name := calleeFullName(call)
					if strings.HasPrefix(name, "(*sync.Pool)") || strings.HasPrefix(name, "sync.") {
						r.bad(rule, fnName(f)+"|"+name, c.instrPos(in), fnName(f)+" uses "+name+": objects are shared between calls")
					}
				}
			}
		}
	}
	// 3. writes to package-level state outside init (as PUR-G)
	oa := c.originAnalysis()
	nW := 0
	for _, fn := range c.Funcs {
		if !inLib(fn) || fn.Name() == "init" && fn.Synthetic != "" {
			continue
		}
		for _, w := range c.memWrites(fn) {
			nW++
			for o := range oa.origins(w.base, map[ssa.Value]bool{}) {
				if strings.HasPrefix(o, "global:") {
					r.bad(rule, fnName(fn)+"|"+w.what, c.instrPos(w.in), fmt.Sprintf("%s writes package-level state (%s): later calls see it", fnName(fn), w.what))
				}
			}
		}
	}
	r.ok(rule, "no-global-writes", "-", fmt.Sprintf("%d memory writes examined", nW))
}

// readOnlyForeignMethod: pointer-receiver methods of standard-library types that do not modify their receiver
// (and are documented as safe for concurrent use where that matters).
func readOnlyForeignMethod(g *ssa.Function) bool {
	recv := g.Signature.Recv().Type().String()
	switch recv {
	case "*regexp.Regexp", "*strings.Replacer", "*reflect.rtype", "*time.Location", "*math/big.Int", "*math/big.Float", "*math/big.Rat":
		switch g.Name() {
		case "Longest", "Set", "SetString", "SetInt64", "SetFloat64", "Add", "Sub", "Mul", "Quo", "Neg", "Abs":
			return false
		}
		return true
	case "*strings.Builder", "*bytes.Buffer", "*strings.Reader", "*bytes.Reader":
		switch g.Name() {
		case "String", "Len", "Cap", "Bytes", "Size", "Available":
			return true
		}
		return false
	}
	switch g.Name() {
	case "Error", "String", "GoString", "Unwrap", "Is":
		return true
	}
	return false
}
