#!/usr/bin/env python3
"""syncdocs.py — keeps the per-property description in checker/props.go and MANIFEST.json's level_claimed.text
in step with the rules actually registered: every registered rule that the hand-written description does not
name is listed in a trailing 'Also decided …' sentence (each rule's own statement is in the evidence file)."""
import re, glob, json
P = '/verif/checker/props.go'
s = open(P).read()
rulename = {}
for f in glob.glob('/verif/checker/*.go'):
    t = open(f).read()
    for m in re.finditer(r'func (rule[A-Za-z0-9_]+)\(c \*Ctx, r \*Report\) \{(.*?)\n\}', t, re.S):
        body = m.group(2)
        names = re.findall(r'const rule = "([A-Z0-9-]+)"', body) + re.findall(r'r\.doc\("([A-Z0-9-]+)"', body)
        rulename[m.group(1)] = sorted(set(names))
rulename.update({'rulePANIC_C01': ['PANIC-IDX', 'PANIC-SLICE', 'PANIC-ASSERT', 'PANIC-EXPL', 'PANIC-CMP', 'PANIC-NILCALL'],
                 'rulePANIC_C12': ['PANIC-IDX', 'PANIC-SLICE', 'PANIC-ASSERT', 'PANIC-EXPL', 'PANIC-CMP', 'PANIC-NILCALL'],
                 'rulePANIC_C13': ['PANIC-IDX', 'PANIC-SLICE', 'PANIC-ASSERT', 'PANIC-EXPL', 'PANIC-CMP', 'PANIC-NILCALL'],
                 'ruleNUMFINITE': ['NUM-FINITE']})
SUFFIX = ' Also decided on every run (each rule is stated in full in the evidence file): '
docs = {}
def repl(m):
    pid, doc, rules = m.groups()
    doc = doc.split(SUFFIX)[0]
    missing = []
    for r_ in [x.strip() for x in rules.split(',')]:
        for n in rulename.get(r_, []):
            if n not in doc and n not in missing:
                missing.append(n)
    if missing:
        doc = doc + SUFFIX + ', '.join(missing) + '.'
    docs[pid] = doc
    return 'register("%s", "%s", %s)\n' % (pid, doc, rules)
s2 = re.sub(r'register\("(C\d+)", "(.*?)", (rule.*?)\)\n', repl, s)
open(P, 'w').write(s2)
M = '/verif/MANIFEST.json'
m = json.load(open(M))
PRE = "Static analysis of /repo's current source (re-loaded and type-checked on every run): decides structural necessary/sufficient conditions of the property on all paths of the code, not the behavioural statement itself. "
for c in m['checks']:
    d = docs[c['property_id']].encode().decode('unicode_escape') if False else docs[c['property_id']]
    d = d.replace('\\"', '"').replace('\\\\', '\\')
    c['level_claimed']['text'] = PRE + d
json.dump(m, open(M, 'w'), indent=1, ensure_ascii=False)
print('synced', len(docs))
