#!/bin/sh
# usage: variant.sh <patch> <property-list|all>  — analyse a scratch copy of /repo with the patch applied
# prints: BUILD-FAIL | exit code and VIOLATION lines of lucheck. The scratch copy is removed afterwards.
export GOFLAGS=-mod=mod GOPROXY=off GOSUMDB=off GOTOOLCHAIN=local GOWORK=off
PATCH="$1"; PROPS="${2:-all}"; REPO="${REPO:-/repo}"
T=$(mktemp -d /tmp/lucvar.XXXXXX)
trap 'rm -rf "$T"' EXIT
(cd "$REPO" && git ls-files -z | xargs -0 cp --parents -t "$T") 2>/dev/null
# include uncommitted edits of tracked files
if ! (cd "$T" && git apply --whitespace=nowarn "$PATCH" 2>/dev/null || patch -s -p1 < "$PATCH"); then echo "APPLY-FAIL"; exit 3; fi
if ! (cd "$T" && go build ./... 2>"$T/.builderr"); then echo "BUILD-FAIL"; head -5 "$T/.builderr"; exit 4; fi
if [ -n "$RUNTESTS" ]; then /verif/tools/repotest.sh "$T" | head -3; fi
${LUCHECK:-/verif/bin/lucheck} -repo "$T" -verif /verif -property "$PROPS" -no-evidence ${VERBOSE:+-v} 2>&1 | sed "s#$T/##g" | grep -E "^VIOLATION|^  rule=|^ERROR|quick:|thorough:" | sed 's#replay=[^ ]*##'
