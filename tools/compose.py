#!/usr/bin/env python3
"""compose.py [--pairs N] [--triples N] [--seeds N] [--seed S]
Self-validation by composition. (1) Behaviour-preserving refactorings from /verif/refactors are stacked
(pairs / triples that apply cleanly on top of each other): the result is still behaviour-preserving, so
every check must stay silent. (2) A seeded change from /verif/seeded is applied on top of one or two
refactorings: the check of the seed's own property must still fire. Scratch copies under mktemp, removed
after each run. Prints one line per combination and a JSON summary."""
import glob, json, os, random, shutil, subprocess, sys, tempfile, concurrent.futures as cf
env = dict(os.environ, GOFLAGS="-mod=mod", GOPROXY="off", GOSUMDB="off", GOTOOLCHAIN="local", GOWORK="off")
args = sys.argv[1:]
def opt(name, d):
    return int(args[args.index(name) + 1]) if name in args else d
NP, NT, NS, SEED = opt("--pairs", 60), opt("--triples", 40), opt("--seeds", 60), opt("--seed", 1)
rng = random.Random(SEED)
refs = sorted(glob.glob("/verif/refactors/*/patch.diff"))
seeds = sorted(glob.glob("/verif/seeded/*/patch.diff"))
def name(p): return os.path.basename(os.path.dirname(p))
def run(combo, prop):
    t = tempfile.mkdtemp(prefix="luccomp.")
    try:
        files = subprocess.check_output(["git", "-C", "/repo", "ls-files", "-z"]).split(b"\0")
        for f in files:
            if not f: continue
            f = f.decode()
            os.makedirs(os.path.join(t, os.path.dirname(f)), exist_ok=True)
            shutil.copy("/repo/" + f, os.path.join(t, f))
        for p in combo:
            if subprocess.run(["git", "apply", "--whitespace=nowarn", p], cwd=t, capture_output=True).returncode != 0:
                return "skip-apply", ""
        if subprocess.run(["go", "build", "./..."], cwd=t, env=env, capture_output=True).returncode != 0:
            return "skip-build", ""
        out = subprocess.run(["/verif/bin/lucheck", "-repo", t, "-verif", "/verif", "-property", prop, "-no-evidence"], capture_output=True, text=True).stdout
        rules = sorted(set(l.split("rule=")[1].split()[0] for l in out.splitlines() if l.strip().startswith("rule=")))
        return ("fired" if "VIOLATION" in out else "silent"), ",".join(rules)
    finally:
        shutil.rmtree(t, ignore_errors=True)
jobs = []
for _ in range(NP):
    jobs.append(("keep", rng.sample(refs, 2), "all"))
for _ in range(NT):
    jobs.append(("keep", rng.sample(refs, 3), "all"))
for _ in range(NS):
    s = rng.choice(seeds)
    prop = name(s).split("-")[0]
    jobs.append(("break", rng.sample(refs, rng.choice([1, 2])) + [s], prop))
res = {"keep_total": 0, "keep_silent": 0, "break_total": 0, "break_fired": 0, "skipped": 0, "problems": []}
def work(j):
    kind, combo, prop = j
    st, rules = run(combo, prop)
    return j, st, rules
with cf.ThreadPoolExecutor(max_workers=8) as ex:
    for (kind, combo, prop), st, rules in ex.map(work, jobs):
        label = "+".join(name(p) for p in combo)
        print(f"{kind:5s} {prop:4s} {st:10s} {label} {rules}")
        if st.startswith("skip"):
            res["skipped"] += 1
        elif kind == "keep":
            res["keep_total"] += 1
            res["keep_silent"] += st == "silent"
            if st != "silent": res["problems"].append("false alarm: " + label + " " + rules)
        else:
            res["break_total"] += 1
            res["break_fired"] += st == "fired"
            if st != "fired": res["problems"].append("not detected: " + label)
print(json.dumps(res))
