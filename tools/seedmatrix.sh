#!/bin/sh
# runs every seeded change under /verif/seeded through seedcheck.sh and prints which properties/rules fire
for d in /verif/seeded/*/; do
  n=$(basename "$d")
  out=$(/verif/tools/seedcheck.sh "$d" all 2>&1)
  demo=$(echo "$out" | grep -c "demo-with-change: FAIL")
  props=$(echo "$out" | grep '^VIOLATION' | sed 's/.*property=\([A-Z0-9]*\).*/\1/' | sort -u | tr '\n' ',')
  rules=$(echo "$out" | grep 'rule=' | sed 's/.*rule=\([A-Z-]*\).*/\1/' | sort -u | tr '\n' ',')
  own=$(echo "$n" | cut -d- -f1)
  hit="MISSED"; [ -n "$props" ] && hit="other"; echo "$props" | grep -q "$own" && hit="own"
  echo "$n demo_fails=$demo detected=$hit props=$props rules=$rules"
done
